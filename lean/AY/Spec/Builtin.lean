/-
  AY.Spec.Builtin — what a plain Python `list` / `dict` does, for the operations of `Container.Op`.

  This file is the *specification* side of the refinement part of C17 (Props/C17_Refine.lean).  It
  is written from the Python documentation ("Mutable Sequence Types", "Mapping Types — dict"),
  not from `Model/Container.lean`: there is one store, no child map, no nodes, no shifting loop.
  Only the vocabulary is shared with the model: the operation terms `Op`, the keys `Key`, the
  exception classes `Exc`, and the argument language `Val`.

    Obj          a Python object as a builtin container can tell it: who it is (`is`) and what
                 it equals (`==`)
    Spec         the contents: `List Obj` for a list, an insertion-ordered `List (Key × Obj)` with
                 distinct keys for a dict; plus the names of the plain instance attributes (an
                 instance of a *subclass* of list/dict has a `__dict__`)
    listStep     one operation on a list          (§1)
    dictStep     one operation on a dict          (§2)
    specStep     one operation with `Val` arguments; `specTrace`, `specRun`   (§3)
    abs, outAbs  the abstraction from the model's two-view state and outcome   (§4)

  Five operations of `Op` are not methods of the builtins (`c.name = v`, `del c.name`,
  `ayns.set_child`, `ayns.remove_child`, `ayns.rename_child`).  They are specified by the
  composition of builtin operations that the classes document for them; these clauses are marked
  "(ext)".  Everything else is the builtin's own behaviour.

  Domain: keys are `Key` values compared structurally (the int `1` and the str `"1"` differ);
  Python's cross-type numeric equality of keys (`1 == 1.0 == True`) is outside the domain.
  `x == y` on objects is "same `eqc`".
-/
import AY.Model.Container
namespace AY
namespace Builtin
open Container (Op Val Exc)

/-- A Python object seen from a builtin container. -/
structure Obj where
  id : Nat      -- identity (`is`)
  eqc : Nat     -- class under `==`
  deriving DecidableEq, Repr, Inhabited

/-- What a call does besides changing the contents: returns (`none` = Python `None`) or raises. -/
inductive Out where
  | ok (ret : Option Obj)
  | exc (x : Exc)
  deriving DecidableEq, Repr, Inhabited

inductive Spec where
  | list (xs : List Obj) (attrs : List String)
  | dict (kvs : List (Key × Obj)) (attrs : List String)
  deriving DecidableEq, Repr, Inhabited

/-! ### Plain instance attributes (both classes) -/

/-- `name.startswith('_')` -/
def underscore (name : String) : Bool :=
  match name.toList with
  | '_' :: _ => true
  | _ => false

/-- `object.__setattr__(c, name, _)`: the name is now set. -/
def setattr (name : String) (attrs : List String) : List String :=
  if name ∈ attrs then attrs else attrs ++ [name]

/-- `object.__delattr__(c, name)`: AttributeError unless the name is set. -/
def delattr (name : String) (attrs : List String) : Option (List String) :=
  if name ∈ attrs then some (attrs.erase name) else none

/-! ### 1. `list` -/

/-- `s[i]` addressing: valid iff `-len ≤ i < len`; a negative index counts from the end. -/
def index? (len : Nat) (i : Int) : Option Nat :=
  if 0 ≤ i ∧ i < len then some i.toNat
  else if i < 0 ∧ -(len : Int) ≤ i then some (i + len).toNat
  else none

/-- Slice-style addressing of `insert`: a negative index counts from the end, then the result is
    clipped into `0 … len`. -/
def clamp (len : Nat) (i : Int) : Nat :=
  let j := if i < 0 then i + len else i
  if j < 0 then 0 else if (len : Int) < j then len else j.toNat

/-- `s.pop(i)`: IndexError if `i` is out of range (always, on an empty list). -/
def listPop (xs : List Obj) (attrs : List String) (i : Int) : Spec × Out :=
  match index? xs.length i with
  | some j => (.list (xs.eraseIdx j) attrs, .ok xs[j]?)
  | none => (.list xs attrs, .exc .indexError)

/-- Forget the value a call returns (`del s[i]` is `s.pop(i)` without the value). -/
def noValue : Spec × Out → Spec × Out
  | (s, .ok _) => (s, .ok none)
  | r => r

def listStep (xs : List Obj) (attrs : List String) : Op Obj → Spec × Out
  -- s[i] = v
  | .setItem (.int i) v =>
    match index? xs.length i with
    | some j => (.list (xs.set j v) attrs, .ok none)
    | none => (.list xs attrs, .exc .indexError)
  | .setItem _ _ => (.list xs attrs, .exc .typeError)          -- list indices must be integers
  -- del s[i]
  | .delItem (.int i) => noValue (listPop xs attrs i)
  | .delItem _ => (.list xs attrs, .exc .typeError)
  -- s.pop(), s.pop(i); s.pop(i, d) takes at most one argument
  | .pop none false => listPop xs attrs (-1)
  | .pop (some (.int i)) false => listPop xs attrs i
  | .pop _ _ => (.list xs attrs, .exc .typeError)
  | .append v => (.list (xs ++ [v]) attrs, .ok none)
  | .extend vs => (.list (xs ++ vs) attrs, .ok none)
  -- s.insert(i, v) is s[i:i] = [v]
  | .insert (.int i) v => (.list (xs.insertIdx (clamp xs.length i) v) attrs, .ok none)
  | .insert _ _ => (.list xs attrs, .exc .typeError)
  -- s.remove(v): the first item equal to v; ValueError if there is none
  | .remove v =>
    match xs.findIdx? (fun x => x.eqc = v.eqc) with
    | some j => (.list (xs.eraseIdx j) attrs, .ok none)
    | none => (.list xs attrs, .exc .valueError)
  | .clear => (.list [] attrs, .ok none)
  -- a list has no such methods
  | .update _ | .setdefault _ _ => (.list xs attrs, .exc .attributeError)
  -- (ext) plain attributes of a subclass instance: the contents are not touched
  | .setAttr name _ => (.list xs (setattr name attrs), .ok none)
  | .delAttr name =>
    match delattr name attrs with
    | some attrs' => (.list xs attrs', .ok none)
    | none => (.list xs attrs, .exc .attributeError)
  -- (ext) set_child(i, v): `s[i] = v` with the index clipped as in `insert`; at `len` it appends
  | .setChild (.int i) v =>
    let j := clamp xs.length i
    (.list (if j = xs.length then xs ++ [v] else xs.set j v) attrs, .ok none)
  | .setChild _ _ => (.list xs attrs, .exc .typeError)
  -- (ext) remove_child(i) is s.pop(i)
  | .removeChild (.int i) => listPop xs attrs i
  | .removeChild _ => (.list xs attrs, .exc .typeError)
  -- (ext) positions cannot be renamed
  | .renameChild _ _ => (.list xs attrs, .exc .typeError)

/-! ### 2. `dict` (insertion ordered; keys are distinct) -/

/-- `d.get(k)` -/
def dget (k : Key) (kvs : List (Key × Obj)) : Option Obj := (kvs.find? (fun kv => kv.1 = k)).map (·.2)

/-- `k in d` -/
def dhas (k : Key) (kvs : List (Key × Obj)) : Bool := (dget k kvs).isSome

/-- `d[k] = v`: an existing key keeps its position, a new key goes to the end. -/
def dput (k : Key) (v : Obj) (kvs : List (Key × Obj)) : List (Key × Obj) :=
  if dhas k kvs then kvs.map (fun kv => if kv.1 = k then (k, v) else kv) else kvs ++ [(k, v)]

/-- the contents without key `k` -/
def ddel (k : Key) (kvs : List (Key × Obj)) : List (Key × Obj) := kvs.filter (fun kv => kv.1 ≠ k)

/-- `d.pop(k)` / `d.pop(k, None)` -/
def dictPop (kvs : List (Key × Obj)) (attrs : List String) (k : Key) (dflt : Bool) : Spec × Out :=
  match dget k kvs with
  | some x => (.dict (ddel k kvs) attrs, .ok (some x))
  | none => if dflt then (.dict kvs attrs, .ok none) else (.dict kvs attrs, .exc .keyError)

def dictStep (kvs : List (Key × Obj)) (attrs : List String) : Op Obj → Spec × Out
  | .setItem k v => (.dict (dput k v kvs) attrs, .ok none)
  | .delItem k => noValue (dictPop kvs attrs k false)           -- KeyError if `k not in d`
  | .pop (some k) dflt => dictPop kvs attrs k dflt
  | .pop none _ => (.dict kvs attrs, .exc .typeError)           -- pop expected at least 1 argument
  -- d.update(pairs): `d[k] = v` for each pair, in order
  | .update pairs => (.dict (pairs.foldl (fun d kv => dput kv.1 kv.2 d) kvs) attrs, .ok none)
  -- d.setdefault(k, v): the value of `k` if it is there, else store `v` and return it
  | .setdefault k v =>
    match dget k kvs with
    | some x => (.dict kvs attrs, .ok (some x))
    | none => (.dict (dput k v kvs) attrs, .ok (some v))
  | .clear => (.dict [] attrs, .ok none)
  -- a dict has no such methods
  | .append _ | .extend _ | .insert _ _ | .remove _ => (.dict kvs attrs, .exc .attributeError)
  -- (ext) attribute syntax: `_name` is a plain attribute, any other name is the item of that name
  | .setAttr name v =>
    if underscore name then (.dict kvs (setattr name attrs), .ok none)
    else (.dict (dput (.str name) v kvs) attrs, .ok none)
  | .delAttr name =>
    if underscore name then
      match delattr name attrs with
      | some attrs' => (.dict kvs attrs', .ok none)
      | none => (.dict kvs attrs, .exc .attributeError)
    else noValue (dictPop kvs attrs (.str name) false)
  -- (ext) set_child(k, v) is d[k] = v; remove_child(k) is d.pop(k)
  | .setChild k v => (.dict (dput k v kvs) attrs, .ok none)
  | .removeChild k => dictPop kvs attrs k false
  -- (ext) rename_child(old, new): ValueError unless `old in d and new not in d`; then
  --       `d[new] = d.pop(old)`, and the object is returned
  | .renameChild old new =>
    match dget old kvs with
    | none => (.dict kvs attrs, .exc .valueError)
    | some x =>
      if dhas new kvs then (.dict kvs attrs, .exc .valueError)
      else (.dict (dput new x (ddel old kvs)) attrs, .ok (some x))

/-! ### 3. Operations with `Val` arguments, sequences -/

/-- One operation whose value arguments are objects. -/
def specStepO : Spec → Op Obj → Spec × Out
  | .list xs attrs, op => listStep xs attrs op
  | .dict kvs attrs, op => dictStep kvs attrs op

/-- The objects stored, in order: `list(s)` / `list(d.values())`. -/
def Spec.values : Spec → List Obj
  | .list xs _ => xs
  | .dict kvs _ => kvs.map (·.2)

/-- What a `Val` argument denotes: a fresh object, or the object now stored at position
    `pos mod len` (the fresh one if the container is empty). -/
def argObj (stored : List Obj) : Val → Obj
  | .raw id eqc => ⟨id, eqc⟩
  | .ref pos id eqc =>
    match stored[pos % stored.length]? with
    | some o => o
    | none => ⟨id, eqc⟩

def mapOp {α β : Type} (f : α → β) : Op α → Op β
  | .setItem k v => .setItem k (f v)
  | .delItem k => .delItem k
  | .setAttr n v => .setAttr n (f v)
  | .delAttr n => .delAttr n
  | .setChild k v => .setChild k (f v)
  | .removeChild k => .removeChild k
  | .renameChild o n => .renameChild o n
  | .clear => .clear
  | .append v => .append (f v)
  | .extend vs => .extend (vs.map f)
  | .insert k v => .insert k (f v)
  | .remove v => .remove (f v)
  | .pop k d => .pop k d
  | .update kvs => .update (kvs.map (fun kv => (kv.1, f kv.2)))
  | .setdefault k v => .setdefault k (f v)

/-- One operation: the arguments are evaluated against the contents before the call. -/
def specStep (s : Spec) (op : Op Val) : Spec × Out := specStepO s (mapOp (argObj s.values) op)

/-- The contents and the outcome after every operation (an exception does not end the sequence). -/
def specTrace : Spec → List (Op Val) → List (Spec × Out)
  | _, [] => []
  | s, op :: ops => let r := specStep s op; r :: specTrace r.1 ops

def specRun : Spec → List (Op Val) → Spec
  | s, [] => s
  | s, op :: ops => specRun (specStep s op).1 ops

/-- `list(values)` / `dict(pairs)` (a repeated key keeps its first position and its last value). -/
def specInitList (values : List Obj) : Spec := .list values []
def specInitDict (pairs : List (Key × Obj)) : Spec :=
  .dict (pairs.foldl (fun d kv => dput kv.1 kv.2 d) []) []

/-! ### 4. Abstraction of the model's state -/

/-- A stored entry as the builtin sees it.  The model's `Entry` carries one more field, `node`
    (is the object wrapped into a `ConfigNode`); wrapping keeps `id` and `eqc` (`toNode`), so
    forgetting the flag is forgetting exactly the wrapping.  That every entry *is* wrapped is the
    other half of C17 (`C17_entries_are_nodes`). -/
def objOf (e : Container.Entry) : Obj := ⟨e.id, e.eqc⟩

/-- The container as a builtin: its *storage* view (what `list.__iter__` / `dict.items` show),
    entry by entry, in order.  The child view does not occur: by the invariant it is the same. -/
def abs : Container.CState → Spec
  | .list l attrs => .list (l.items.map objOf) attrs
  | .dict d attrs => .dict (d.items.map (fun kv => (kv.1, objOf kv.2))) attrs

def outAbs : Container.Outcome → Out
  | .ok none => .ok none
  | .ok (some e) => .ok (some (objOf e))
  | .exc x => .exc x

end Builtin
end AY
