/-
  AY.Tie.Fallback — what the generator puts in place of a target function that is OUTSIDE the
  translatable subset: the model's own function, wrapped by the decoders/encoders of AY.Tie.Encode
  so that it has the signature of the translated definition. A `TIE_*` theorem about such a
  definition holds by `decFlags (encFlags f dd) = f` and says nothing about the Python source: the
  function is then covered by the differential correspondence only, and
  `Gen/translated_report.json` / the evidence file say so (`fallback`).
-/
import AY.Tie.Encode
namespace AY.Tie.Fallback
open AY AY.Py AY.Tie

def notnone_or (v alt : PV) : PV :=
  match v with
  | .none => alt
  | v => v

def ayns_priority (self : Obj) : PV := .int (ePrio (decFlags self))
def ayns_weak (self : Obj) : PV := .bool (ePrio (decFlags self) == Tables.weak)
def ayns_force (self : Obj) : PV := .bool (ePrio (decFlags self) == Tables.force)
def ayns_delete (self : Obj) : PV := .bool (eDelF (decFlags self) (decDD self))
def ayns_allow_new (self : Obj) : PV := .bool (eNew (decFlags self))
def ayns_safe (self : Obj) : PV := .bool (eSafe (decFlags self))

def ayns_has_priority_over (self other : Obj) (ifEq : PV) : PV :=
  match ifEq with
  | .bool b => .bool (hasPrio (decFlags self) (decFlags other) b)
  | _ => .exc "OutsideTheModel"

def replace_self (self other : Obj) : Res Obj :=
  .ok (encFlags (replaceSelfFlags (decFlags self) (decFlags other)) (decDD self))

def replace_other (self other : Obj) : Res Obj :=
  .ok (encFlags (replaceOtherFlags (decFlags self) (decFlags other)) (decDD self))

def on_merge_impl (self other : Obj) : Res RefRes :=
  let r := leafRuleFlags (decFlags self) (decFlags other)
  .ok { ref := if r.2 then "self" else "other",
        state := encFlags r.1 (if r.2 then decDD self else decDD other),
        effects := [] }

def get_child_kwargs (self : Obj) (child : Option Obj) : PV :=
  let kw := childKwF (decFlags self) (decDD self)
  let sticky := match child with
    | some c => (decFlags c).iSafe == some false
    | none => false
  if sticky then .dict [("implicit_delete", encOB kw.iDel), ("implicit_allow_new", encOB kw.iNew)] else encKw kw

def stream_get_child_kwargs (_self : Obj) (_child : Option Obj) : PV := .dict []

def propagate_child (expected : PV) (child : Obj) : Res (Obj × PV × List String) :=
  .ok (encFlags (updFlags (decKw expected) (decFlags child)) (decDD child),
       .bool (flagsChanged (decKw expected) (decFlags child)),
       if flagsChanged (decKw expected) (decFlags child) then ["child._propagate_implicit_values()"] else [])

def validate_index (_self : Obj) (index strict : PV) (len : Nat) : PV :=
  match validateIndex len (decB strict) (decKey index) with
  | none => .exc "IndexError"
  | some n => .int n

def maybe_promote (self other : Obj) (same selfC otherC otherSubSelf selfSubOther selfPlain otherPlain otherIsList : Bool) :
    Res RefRes :=
  let d := promoteDecision same selfC otherC otherSubSelf selfSubOther selfPlain otherPlain otherIsList
  .ok { d with state := if d.ref = "self" then self
                        else if eSafe (decFlags other) then other else Obj.set other "_safe" (.bool false) }

def ayns_explicit_delete (self : Obj) : PV := encOB (decFlags self).del

def require_all_new_leaf (self : Obj) (exceptions includeSelf : PV) (notExcepted _excepted : Bool) : PV :=
  if !pyTruthy includeSelf then .none
  else
    let noExc := match exceptions with | .none => true | _ => false
    if !eNew (decFlags self) && (noExc || notExcepted) then .exc "ValueError" else .none

def merge_none (self : Obj) : Res RefRes :=
  if eNew (decFlags self) then .ok { ref := "self", state := self, effects := [] } else .exc "ValueError"

def func_on_merge_impl (self other : Obj) (otherStr : PV) (otherIsStr : Bool) : Res RefRes :=
  let sf := decFlags self
  let d := funcDecision sf (decStr (self "_func")) (decFlags other) (decDD other)
             (if otherIsStr then some (decStr otherStr) else none) (decFuncAttr (other "_func"))
  match d with
  | .done fl g c => .ok { ref := "self", state := encNodeObj fl (decDD self) (.str g),
                          effects := if c then ["self.clear()"] else [] }
  | .fall g c => .ok { ref := "fallthrough", state := encNodeObj sf (decDD self) (.str g),
                       effects := (if c then ["self.clear()"] else []) ++ ["super.on_merge_impl(_, other)"] }

def keep_if_exists (node current : Obj) : Res (PV × List String) :=
  if !eDelF (decFlags node) (decDD node) then .ok (.bool true, [])
  else .ok (.bool (hasPrio (decFlags node) (decFlags current) true), ["self.get_first_not_missing_node(path)"])

def maybe_keep (node otherNode : Obj) : Res (PV × List String) :=
  .ok (.bool (hasPrio (decFlags node) (decFlags otherNode) false), ["other.get_first_not_missing_node(_)"])

def list_on_merge_impl (other : Obj) (otherIsDict otherComposed keysInvalid : Bool) : Res (String × List String) :=
  if otherIsDict && !eDelF (decFlags other) (decDD other) && keysInvalid then .exc "MergeError"
  else .ok ("fallthrough", (if otherComposed then ["other.filter_nodes(keep_if_exists)"] else []) ++ ["super.on_merge_impl(_, other)"])

/-- the branch structure of `mergeStep` as the list of calls the key loop makes -/
def key_loop (value merged : Obj) (childMissing childComposed mergedTruthy mergedIsChild : Bool) : Res (List String) :=
  if childMissing then
    .ok ["self.get_child(key, None)", "value._require_all_new(_, _, exceptions=_)", "self.set_child(key, value)"]
  else
    let pre := ["self.get_child(key, None)", "child.on_merge(_, value)"]
    if childComposed then
      if !mergedTruthy && !hasPrio (decFlags merged) (decFlags value) false && (decFlags value).del == some true then
        .ok (pre ++ ["self.remove_child(key)"])
      else if mergedIsChild then .ok pre
      else .ok (pre ++ ["self.set_child(key, merged)"])
    else
      if mergedIsChild then .ok pre
      else if !mergedTruthy && (decFlags merged).del == some true then
        .ok (pre ++ ["merged._require_all_new(_, _, include_self=False)", "self.remove_child(key)"])
      else .ok (pre ++ ["merged._require_all_new(_, _, include_self=False)", "self.set_child(key, merged)"])

end AY.Tie.Fallback
