/-
  AY.Tie.Fallback — what the generator puts in place of a target function that is OUTSIDE the
  translatable subset: the model's own function, wrapped by the decoders/encoders of AY.Tie.Encode
  so that it has the signature of the translated definition. A `TIE_*` theorem about such a
  definition holds by `decFlags (encFlags f dd) = f` and says nothing about the Python source: the
  function is then covered by the differential correspondence only, and
  `Gen/translated_report.json` / the evidence file say so (`fallback`).
-/
import AY.Tie.Encode
namespace AY.Tie.Fallback
open AY AY.Py AY.Tie

def notnone_or (v alt : PV) : PV :=
  match v with
  | .none => alt
  | v => v

def ayns_priority (self : Obj) : PV := .int (ePrio (decFlags self))
def ayns_weak (self : Obj) : PV := .bool (ePrio (decFlags self) == Tables.weak)
def ayns_force (self : Obj) : PV := .bool (ePrio (decFlags self) == Tables.force)
def ayns_delete (self : Obj) : PV := .bool (eDelF (decFlags self) (decDD self))
def ayns_allow_new (self : Obj) : PV := .bool (eNew (decFlags self))
def ayns_safe (self : Obj) : PV := .bool (eSafe (decFlags self))

def ayns_has_priority_over (self other : Obj) (ifEq : PV) : PV :=
  match ifEq with
  | .bool b => .bool (hasPrio (decFlags self) (decFlags other) b)
  | _ => .exc "OutsideTheModel"

def replace_self (self other : Obj) : Res Obj :=
  .ok (encFlags (replaceSelfFlags (decFlags self) (decFlags other)) (decDD self))

def replace_other (self other : Obj) : Res Obj :=
  .ok (encFlags (replaceOtherFlags (decFlags self) (decFlags other)) (decDD self))

def on_merge_impl (self other : Obj) : Res RefRes :=
  let r := leafRuleFlags (decFlags self) (decFlags other)
  .ok { ref := if r.2 then "self" else "other",
        state := encFlags r.1 (if r.2 then decDD self else decDD other),
        effects := [] }

def get_child_kwargs (self : Obj) (child : Option Obj) : PV :=
  let kw := childKwF (decFlags self) (decDD self)
  let sticky := match child with
    | some c => (decFlags c).iSafe == some false
    | none => false
  if sticky then .dict [("implicit_delete", encOB kw.iDel), ("implicit_allow_new", encOB kw.iNew)] else encKw kw

def stream_get_child_kwargs (_self : Obj) (_child : Option Obj) : PV := .dict []

def propagate_child (expected : PV) (child : Obj) : Res (Obj × PV × List String) :=
  .ok (encFlags (updFlags (decKw expected) (decFlags child)) (decDD child),
       .bool (flagsChanged (decKw expected) (decFlags child)),
       if flagsChanged (decKw expected) (decFlags child) then ["child._propagate_implicit_values()"] else [])

def validate_index (_self : Obj) (index strict : PV) (len : Nat) : PV :=
  match validateIndex len (decB strict) (decKey index) with
  | none => .exc "IndexError"
  | some n => .int n

def maybe_promote (self other : Obj) (same selfC otherC otherSubSelf selfSubOther selfPlain otherPlain otherIsList : Bool) :
    Res RefRes :=
  let d := promoteDecision same selfC otherC otherSubSelf selfSubOther selfPlain otherPlain otherIsList
  .ok { d with state := if d.ref = "self" then self
                        else if eSafe (decFlags other) then other else Obj.set other "_safe" (.bool false) }

end AY.Tie.Fallback
