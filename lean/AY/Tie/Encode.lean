/-
  AY.Tie.Encode — the "obvious encoding" of the model's data into the Python value universe of
  AY.Tie.PyVal, under which the `TIE_*` theorems compare the hand-written model with the functions
  translated from the Python source.

    Option Bool / Option Int / Option String   ↦  None | bool | int | str
    Flags (+ the class default `_default_delete` of the node's class)
                                               ↦  the object whose attributes are the RAW attributes
                                                  of ConfigNode (`_priority`, `_delete`, …) and the class
                                                  attributes read through `self` (`_default_priority`,
                                                  `_default_delete`, `_default_allow_new`, from Gen/Tables)
    ChildKw                                    ↦  the dict `{'implicit_delete':…, 'implicit_allow_new':…, 'implicit_safe':…}`
    Key                                        ↦  int | str | float
    metadata                                   ↦  the dict with the same items in the same order

  Decoders (`decFlags` …) exist for the fallback definitions only (AY.Tie.Fallback).
-/
import AY.Tie.PyVal
import AY.Model.Merge
namespace AY.Tie
open AY AY.Py

def encOB : Option Bool → PV
  | none => .none
  | some b => .bool b

def encOI : Option Int → PV
  | none => .none
  | some i => .int i

def encOS : Option String → PV
  | none => .none
  | some s => .str s

def encScalar : Scalar → PV
  | .null => .none
  | .bool b => .bool b
  | .int i => .int i
  | .float r => .float r
  | .str s => .str s

def encItem (kv : String × Scalar) : String × PV := (kv.1, encScalar kv.2)

def encMd (m : List (String × Scalar)) : PV := .dict (m.map encItem)

def encKey : Key → PV
  | .int i => .int i
  | .str s => .str s
  | .float r => .float r

/-- the attributes of a node the model keeps -/
def flagAttrs : List String :=
  ["_priority", "_delete", "_allow_new", "_safe", "_implicit_delete", "_implicit_allow_new", "_implicit_safe",
   "_default_safe", "_metadata", "_source_file"]

/-- a node with raw attributes `f` whose class has `_default_delete = dd` -/
def encFlags (f : Flags) (dd : Bool) : Obj := Obj.ofList [
  ("_priority", encOI f.prio), ("_delete", encOB f.del), ("_allow_new", encOB f.new), ("_safe", encOB f.safe),
  ("_implicit_delete", encOB f.iDel), ("_implicit_allow_new", encOB f.iNew), ("_implicit_safe", encOB f.iSafe),
  ("_default_safe", .bool f.dSafe), ("_metadata", encMd f.md), ("_source_file", encOS f.src),
  ("_default_priority", .int Tables.defaultPriority), ("_default_delete", .bool dd),
  ("_default_allow_new", .bool Tables.defaultAllowNew)]

/-- `_get_child_kwargs()` as the Python dict -/
def encKw (kw : ChildKw) : PV :=
  .dict [("implicit_delete", encOB kw.iDel), ("implicit_allow_new", encOB kw.iNew), ("implicit_safe", encOB kw.iSafe)]

/-- the observable part of an object: the values of the attributes the model keeps -/
def obs (o : Obj) : List PV := flagAttrs.map o

section
variable (f : Flags) (dd : Bool)
@[simp] theorem encFlags_priority : encFlags f dd "_priority" = encOI f.prio := rfl
@[simp] theorem encFlags_delete : encFlags f dd "_delete" = encOB f.del := rfl
@[simp] theorem encFlags_allow_new : encFlags f dd "_allow_new" = encOB f.new := rfl
@[simp] theorem encFlags_safe : encFlags f dd "_safe" = encOB f.safe := rfl
@[simp] theorem encFlags_idel : encFlags f dd "_implicit_delete" = encOB f.iDel := rfl
@[simp] theorem encFlags_inew : encFlags f dd "_implicit_allow_new" = encOB f.iNew := rfl
@[simp] theorem encFlags_isafe : encFlags f dd "_implicit_safe" = encOB f.iSafe := rfl
@[simp] theorem encFlags_dsafe : encFlags f dd "_default_safe" = .bool f.dSafe := rfl
@[simp] theorem encFlags_md : encFlags f dd "_metadata" = encMd f.md := rfl
@[simp] theorem encFlags_src : encFlags f dd "_source_file" = encOS f.src := rfl
@[simp] theorem encFlags_dprio : encFlags f dd "_default_priority" = .int Tables.defaultPriority := rfl
@[simp] theorem encFlags_ddel : encFlags f dd "_default_delete" = .bool dd := rfl
@[simp] theorem encFlags_dnew : encFlags f dd "_default_allow_new" = .bool Tables.defaultAllowNew := rfl
end

@[simp] theorem encOB_none : encOB none = .none := rfl
@[simp] theorem encOB_some (b : Bool) : encOB (some b) = .bool b := rfl
@[simp] theorem encOI_none : encOI none = .none := rfl
@[simp] theorem encOI_some (i : Int) : encOI (some i) = .int i := rfl
@[simp] theorem encOS_none : encOS none = .none := rfl
@[simp] theorem encOS_some (s : String) : encOS (some s) = .str s := rfl
@[simp] theorem encKey_int (i : Int) : encKey (.int i) = .int i := rfl
@[simp] theorem encKey_str (s : String) : encKey (.str s) = .str s := rfl
@[simp] theorem encKey_float (r : String) : encKey (.float r) = .float r := rfl

/-! ### `isExc` / `firstExc` on constructors (stated as lemmas so that `simp` does not unfold them on stuck arguments) -/
@[simp] theorem isExc_none : PV.none.isExc = false := rfl
@[simp] theorem isExc_bool (b : Bool) : (PV.bool b).isExc = false := rfl
@[simp] theorem isExc_int (i : Int) : (PV.int i).isExc = false := rfl
@[simp] theorem isExc_str (x : String) : (PV.str x).isExc = false := rfl
@[simp] theorem isExc_float (x : String) : (PV.float x).isExc = false := rfl
@[simp] theorem isExc_dict (x : List (String × PV)) : (PV.dict x).isExc = false := rfl
@[simp] theorem isExc_exc (x : String) : (PV.exc x).isExc = true := rfl
@[simp] theorem firstExc_nil : firstExc [] = none := rfl
@[simp] theorem firstExc_none (r : List PV) : firstExc (PV.none :: r) = firstExc r := rfl
@[simp] theorem firstExc_bool (b : Bool) (r : List PV) : firstExc (PV.bool b :: r) = firstExc r := rfl
@[simp] theorem firstExc_int (i : Int) (r : List PV) : firstExc (PV.int i :: r) = firstExc r := rfl
@[simp] theorem firstExc_str (x : String) (r : List PV) : firstExc (PV.str x :: r) = firstExc r := rfl
@[simp] theorem firstExc_float (x : String) (r : List PV) : firstExc (PV.float x :: r) = firstExc r := rfl
@[simp] theorem firstExc_dict (x : List (String × PV)) (r : List PV) : firstExc (PV.dict x :: r) = firstExc r := rfl
@[simp] theorem firstExc_exc (x : String) (r : List PV) : firstExc (PV.exc x :: r) = some x := rfl

/-! ### the Python operations on encoded options, stated on the options (tried before the definitions are
       unfolded, so that an `Option` variable needs a case split only where the model needs one too) -/
section
variable (a b : Option Bool) (c : Bool) (x y : Option Int) (k : Int)
@[simp high] theorem pyIs_encOB_none : pyIs (encOB a) .none = .bool a.isNone := by cases a <;> rfl
@[simp high] theorem pyIsNot_encOB_none : pyIsNot (encOB a) .none = .bool a.isSome := by cases a <;> rfl
@[simp high] theorem pyIs_none_encOB : pyIs .none (encOB a) = .bool a.isNone := by cases a <;> rfl
@[simp high] theorem pyIsNot_none_encOB : pyIsNot .none (encOB a) = .bool a.isSome := by cases a <;> rfl
@[simp high] theorem pyIs_encOB_bool : pyIs (encOB a) (.bool c) = .bool (a == some c) := by
  rcases a with _ | _ | _ <;> cases c <;> rfl
@[simp high] theorem pyIsNot_encOB_bool : pyIsNot (encOB a) (.bool c) = .bool (a != some c) := by
  rcases a with _ | _ | _ <;> cases c <;> rfl
@[simp high] theorem pyEq_encOB_encOB : pyEq (encOB a) (encOB b) = .bool (a == b) := by
  rcases a with _ | _ | _ <;> rcases b with _ | _ | _ <;> rfl
@[simp high] theorem pyNe_encOB_encOB : pyNe (encOB a) (encOB b) = .bool (a != b) := by
  rcases a with _ | _ | _ <;> rcases b with _ | _ | _ <;> rfl
@[simp high] theorem pyEq_encOB_bool : pyEq (encOB a) (.bool c) = .bool (a == some c) := by
  rcases a with _ | _ | _ <;> cases c <;> rfl
@[simp high] theorem pyNe_encOB_bool : pyNe (encOB a) (.bool c) = .bool (a != some c) := by
  rcases a with _ | _ | _ <;> cases c <;> rfl
@[simp high] theorem pyEq_encOB_none : pyEq (encOB a) .none = .bool a.isNone := by rcases a with _ | _ | _ <;> rfl
@[simp high] theorem pyNe_encOB_none : pyNe (encOB a) .none = .bool a.isSome := by rcases a with _ | _ | _ <;> rfl
@[simp high] theorem pyTruthy_encOB : pyTruthy (encOB a) = (a == some true) := by rcases a with _ | _ | _ <;> rfl
@[simp high] theorem pyNot_encOB : pyNot (encOB a) = .bool (a != some true) := by rcases a with _ | _ | _ <;> rfl
@[simp high] theorem pyIs_encOI_none : pyIs (encOI x) .none = .bool x.isNone := by cases x <;> rfl
@[simp high] theorem pyIsNot_encOI_none : pyIsNot (encOI x) .none = .bool x.isSome := by cases x <;> rfl
@[simp high] theorem pyIs_none_encOI : pyIs .none (encOI x) = .bool x.isNone := by cases x <;> rfl
@[simp high] theorem pyIsNot_none_encOI : pyIsNot .none (encOI x) = .bool x.isSome := by cases x <;> rfl
@[simp high] theorem pyEq_encOI_none : pyEq (encOI x) .none = .bool x.isNone := by cases x <;> rfl
@[simp high] theorem pyNe_encOI_none : pyNe (encOI x) .none = .bool x.isSome := by cases x <;> rfl
@[simp] theorem pyTruthy_bool : pyTruthy (.bool c) = c := rfl
end

/-! ### identity and equality on constructors (evaluation lemmas, so that phase 1 of `py_simp` is complete on
       `None` / `bool` / `int` arguments and no operation is unfolded on an argument that is not evaluated yet) -/
section
variable (a b : Bool) (i j : Int)
@[simp] theorem pyIs_none_none : pyIs .none .none = .bool true := rfl
@[simp] theorem pyIs_bool_none : pyIs (.bool a) .none = .bool false := rfl
@[simp] theorem pyIs_none_bool : pyIs .none (.bool a) = .bool false := rfl
@[simp] theorem pyIs_bool_bool : pyIs (.bool a) (.bool b) = .bool (a == b) := rfl
@[simp] theorem pyIs_int_none : pyIs (.int i) .none = .bool false := rfl
@[simp] theorem pyIs_int_bool : pyIs (.int i) (.bool a) = .bool false := rfl
@[simp] theorem pyIsNot_none_none : pyIsNot .none .none = .bool false := rfl
@[simp] theorem pyIsNot_bool_none : pyIsNot (.bool a) .none = .bool true := rfl
@[simp] theorem pyIsNot_none_bool : pyIsNot .none (.bool a) = .bool true := rfl
@[simp] theorem pyIsNot_bool_bool : pyIsNot (.bool a) (.bool b) = .bool (a != b) := by cases a <;> cases b <;> rfl
@[simp] theorem pyIsNot_int_none : pyIsNot (.int i) .none = .bool true := rfl
@[simp] theorem pyIsNot_int_bool : pyIsNot (.int i) (.bool a) = .bool true := rfl
@[simp] theorem pyEq_none_none : pyEq .none .none = .bool true := rfl
@[simp] theorem pyEq_bool_none : pyEq (.bool a) .none = .bool false := rfl
@[simp] theorem pyEq_none_bool : pyEq .none (.bool a) = .bool false := rfl
@[simp] theorem pyEq_bool_bool : pyEq (.bool a) (.bool b) = .bool (a == b) := by cases a <;> cases b <;> rfl
@[simp] theorem pyEq_int_none : pyEq (.int i) .none = .bool false := rfl
@[simp] theorem pyEq_none_int : pyEq .none (.int i) = .bool false := rfl
@[simp] theorem pyEq_int_int : pyEq (.int i) (.int j) = .bool (i == j) := rfl
@[simp] theorem pyNe_none_none : pyNe .none .none = .bool false := rfl
@[simp] theorem pyNe_bool_none : pyNe (.bool a) .none = .bool true := rfl
@[simp] theorem pyNe_none_bool : pyNe .none (.bool a) = .bool true := rfl
@[simp] theorem pyNe_bool_bool : pyNe (.bool a) (.bool b) = .bool (a != b) := by cases a <;> cases b <;> rfl
@[simp] theorem pyNe_int_none : pyNe (.int i) .none = .bool true := rfl
@[simp] theorem pyNe_none_int : pyNe .none (.int i) = .bool true := rfl
@[simp] theorem pyNe_int_int : pyNe (.int i) (.int j) = .bool (i != j) := rfl
@[simp] theorem pyEq_str_str (s t : String) : pyEq (.str s) (.str t) = .bool (s == t) := rfl
@[simp] theorem pyNe_str_str (s t : String) : pyNe (.str s) (.str t) = .bool (s != t) := rfl
@[simp] theorem pyEq_str_exc (s e : String) : pyEq (.str s) (.exc e) = .exc e := rfl
@[simp] theorem pyNe_str_exc (s e : String) : pyNe (.str s) (.exc e) = .exc e := rfl
@[simp] theorem pyCatchAttr_bool (b : Bool) (h : PV) : pyCatchAttr (.bool b) h = .bool b := rfl
@[simp] theorem pyCatchAttr_attr (h : PV) : pyCatchAttr (.exc "AttributeError") h = h := rfl
@[simp] theorem pyTruthy_none : pyTruthy .none = false := rfl
@[simp] theorem pyTruthy_int : pyTruthy (.int i) = (i != 0) := rfl
end

/-! ### the lazy operations on `bool` / `None` / encoded options, and every operation through `if`
       (with these, rewriting leaves an if-ladder over conditions on the `Option` variables instead of a stuck `match`) -/
section
variable (a : Option Bool) (c : Bool) (x y z : PV) (p : Prop) [Decidable p] (r : List PV)
@[simp] theorem pyAnd_bool : pyAnd (.bool c) z = if c then z else .bool c := by cases c <;> rfl
@[simp] theorem pyOr_bool : pyOr (.bool c) z = if c then .bool c else z := by cases c <;> rfl
@[simp] theorem pyIte_bool : pyIte (.bool c) x y = if c then x else y := by cases c <;> rfl
@[simp] theorem pyNot_bool : pyNot (.bool c) = .bool (!c) := rfl
@[simp] theorem pyAnd_none : pyAnd .none z = .none := rfl
@[simp] theorem pyOr_none : pyOr .none z = z := rfl
@[simp] theorem pyIte_none : pyIte .none x y = y := rfl
@[simp] theorem pyNot_none : pyNot .none = .bool true := rfl
@[simp] theorem pyAnd_encOB : pyAnd (encOB a) z = if a = some true then z else encOB a := by
  rcases a with _ | _ | _ <;> rfl
@[simp] theorem pyOr_encOB : pyOr (encOB a) z = if a = some true then encOB a else z := by
  rcases a with _ | _ | _ <;> rfl
@[simp] theorem pyIte_encOB : pyIte (encOB a) x y = if a = some true then x else y := by
  rcases a with _ | _ | _ <;> rfl
@[simp] theorem pyAnd_ite : pyAnd (if p then x else y) z = if p then pyAnd x z else pyAnd y z := by split <;> rfl
@[simp] theorem pyOr_ite : pyOr (if p then x else y) z = if p then pyOr x z else pyOr y z := by split <;> rfl
@[simp] theorem pyIte_ite (u v : PV) : pyIte (if p then x else y) u v = if p then pyIte x u v else pyIte y u v := by split <;> rfl
@[simp] theorem pyNot_ite : pyNot (if p then x else y) = if p then pyNot x else pyNot y := by split <;> rfl
@[simp] theorem pyTruthy_ite : pyTruthy (if p then x else y) = if p then pyTruthy x else pyTruthy y := by split <;> rfl
@[simp] theorem pyIs_ite : pyIs (if p then x else y) z = if p then pyIs x z else pyIs y z := by split <;> rfl
@[simp] theorem pyIsNot_ite : pyIsNot (if p then x else y) z = if p then pyIsNot x z else pyIsNot y z := by split <;> rfl
@[simp] theorem pyEq_ite : pyEq (if p then x else y) z = if p then pyEq x z else pyEq y z := by split <;> rfl
@[simp] theorem pyNe_ite : pyNe (if p then x else y) z = if p then pyNe x z else pyNe y z := by split <;> rfl
@[simp] theorem isExc_ite : (if p then x else y).isExc = if p then x.isExc else y.isExc := by split <;> rfl
@[simp] theorem firstExc_ite : firstExc ((if p then x else y) :: r) = if p then firstExc (x :: r) else firstExc (y :: r) := by
  split <;> rfl
end

/-! ### `Res.map` on constructors and through `if` (so that a result that is an if-ladder is not hidden in a stuck `match`) -/
@[simp] theorem Res.map_ok {α β : Type} (g : α → β) (v : α) : Res.map g (.ok v) = .ok (g v) := rfl
@[simp] theorem Res.map_exc {α β : Type} (g : α → β) (n : String) : Res.map g (.exc n : Res α) = .exc n := rfl
@[simp] theorem Res.map_ite {α β : Type} (g : α → β) (p : Prop) [Decidable p] (u v : Res α) :
    Res.map g (if p then u else v) = if p then Res.map g u else Res.map g v := by
  split <;> rfl

/-! ### values of the encoding never are exceptions -/
@[simp] theorem isExc_encOB (x : Option Bool) : (encOB x).isExc = false := by cases x <;> rfl
@[simp] theorem isExc_encOI (x : Option Int) : (encOI x).isExc = false := by cases x <;> rfl
@[simp] theorem isExc_encOS (x : Option String) : (encOS x).isExc = false := by cases x <;> rfl
@[simp] theorem isExc_encMd (m : List (String × Scalar)) : (encMd m).isExc = false := rfl

theorem firstExc_cons_of_not_exc (v : PV) (r : List PV) (h : v.isExc = false) : firstExc (v :: r) = firstExc r := by
  cases v <;> simp_all

@[simp] theorem firstExc_encOB (x : Option Bool) (r : List PV) : firstExc (encOB x :: r) = firstExc r :=
  firstExc_cons_of_not_exc _ _ (isExc_encOB x)
@[simp] theorem firstExc_encOI (x : Option Int) (r : List PV) : firstExc (encOI x :: r) = firstExc r :=
  firstExc_cons_of_not_exc _ _ (isExc_encOI x)
@[simp] theorem firstExc_encOS (x : Option String) (r : List PV) : firstExc (encOS x :: r) = firstExc r :=
  firstExc_cons_of_not_exc _ _ (isExc_encOS x)
@[simp] theorem firstExc_encMd (m : List (String × Scalar)) (r : List PV) : firstExc (encMd m :: r) = firstExc r :=
  firstExc_cons_of_not_exc _ _ (isExc_encMd m)

/-! ### `{**a, **b}` on encoded metadata is the model's `mmerge` -/
theorem dictSet_encItem (k : String) (v : Scalar) (m : List (String × Scalar)) :
    dictSet k (encScalar v) (m.map encItem) = (msetOne k v m).map encItem := by
  induction m with
  | nil => rfl
  | cons h t ih =>
    simp only [List.map, msetOne, dictSet, encItem]
    by_cases hk : h.1 = k
    · simp [hk, encItem]
    · simp [hk, encItem]; exact ih

theorem foldl_dictSet_encItem (b a : List (String × Scalar)) :
    (b.map encItem).foldl (fun acc kv => dictSet kv.1 kv.2 acc) (a.map encItem)
      = (b.foldl (fun acc kv => msetOne kv.1 kv.2 acc) a).map encItem := by
  induction b generalizing a with
  | nil => rfl
  | cons h t ih =>
    simp only [List.map, List.foldl]
    have := dictSet_encItem h.1 h.2 a
    simp only [encItem] at this ⊢
    rw [this]
    exact ih _

@[simp] theorem pyDictMerge_encMd (a b : List (String × Scalar)) :
    pyDictMerge (encMd a) (encMd b) = encMd (mmerge a b) := by
  simp only [pyDictMerge, encMd, mmerge]
  exact congrArg PV.dict (foldl_dictSet_encItem b a)

/-! ### decoders (used by the fallback definitions only) -/
def decOB : PV → Option Bool
  | .bool b => some b
  | _ => none
def decOI : PV → Option Int
  | .int i => some i
  | _ => none
def decOS : PV → Option String
  | .str s => some s
  | _ => none
def decB : PV → Bool
  | .bool b => b
  | _ => false
def decScalar : PV → Scalar
  | .bool b => .bool b
  | .int i => .int i
  | .float r => .float r
  | .str s => .str s
  | _ => .null
def decItem (kv : String × PV) : String × Scalar := (kv.1, decScalar kv.2)
def decMd : PV → List (String × Scalar)
  | .dict kvs => kvs.map decItem
  | _ => []
def decKey : PV → Key
  | .int i => .int i
  | .float r => .float r
  | .str s => .str s
  | _ => .str ""
def decFlags (o : Obj) : Flags :=
  { prio := decOI (o "_priority"), del := decOB (o "_delete"), new := decOB (o "_allow_new"), safe := decOB (o "_safe"),
    iDel := decOB (o "_implicit_delete"), iNew := decOB (o "_implicit_allow_new"), iSafe := decOB (o "_implicit_safe"),
    dSafe := decB (o "_default_safe"), md := decMd (o "_metadata"), src := decOS (o "_source_file") }
def decDD (o : Obj) : Bool := decB (o "_default_delete")
def decKw (d : PV) : ChildKw :=
  { iDel := decOB (pyGetItem d "implicit_delete"), iNew := decOB (pyGetItem d "implicit_allow_new"),
    iSafe := decOB (pyGetItem d "implicit_safe") }

@[simp] theorem decOB_enc (x : Option Bool) : decOB (encOB x) = x := by cases x <;> rfl
@[simp] theorem decOI_enc (x : Option Int) : decOI (encOI x) = x := by cases x <;> rfl
@[simp] theorem decOS_enc (x : Option String) : decOS (encOS x) = x := by cases x <;> rfl
@[simp] theorem decScalar_enc (x : Scalar) : decScalar (encScalar x) = x := by cases x <;> rfl
@[simp] theorem decKey_enc (k : Key) : decKey (encKey k) = k := by cases k <;> rfl
@[simp] theorem decMd_enc (m : List (String × Scalar)) : decMd (encMd m) = m := by
  simp only [decMd, encMd, List.map_map]
  have : (decItem ∘ encItem) = id := by funext kv; simp [decItem, encItem]
  rw [this]; simp
@[simp] theorem decFlags_enc (f : Flags) (dd : Bool) : decFlags (encFlags f dd) = f := by
  simp [decFlags, decB]
@[simp] theorem decDD_enc (f : Flags) (dd : Bool) : decDD (encFlags f dd) = dd := by
  simp [decDD, decB]
@[simp] theorem decKw_enc (kw : ChildKw) : decKw (encKw kw) = kw := by
  simp [decKw, encKw, pyGetItem, List.lookup]

/-! ### Flag-level views of model functions that take whole nodes -/

/-- `eDel` on the flags and the class default -/
def eDelF (f : Flags) (dd : Bool) : Bool :=
  match f.del with
  | some d => d
  | none =>
    match f.iDel with
    | some d => d
    | none => dd

theorem eDel_eq (n : Node) : eDel n = eDelF n.flags n.defaultDel := rfl

/-- `childKw` for a class that is not a stream, given the class default -/
def childKwF (f : Flags) (dd : Bool) : ChildKw :=
  { iDel := f.del.or (f.iDel.or (if dd then some true else none)),
    iNew := f.new.or f.iNew,
    iSafe := if f.iSafe = some false then some false else f.safe.or f.iSafe }

theorem childKw_eq (f : Flags) (k : CompKind) :
    childKw f k = if k = .stream then none else some (childKwF f (defaultDelete k)) := by
  cases k <;> rfl

/-- `leafRule` on flags: the flags of the survivor (before they are handed down) and whether it is `self` -/
def leafRuleFlags (s o : Flags) : Flags × Bool :=
  if hasPrio s o false then (replaceOtherFlags s o, true) else (replaceOtherFlags o s, false)

theorem propagate_flags (n : Node) : (propagate n).flags = n.flags := by
  cases n with
  | leaf f k => rfl
  | comp f k cs => simp only [propagate]; split <;> rfl

theorem setFlags_flags (n : Node) (f : Flags) : (n.setFlags f).flags = f := by cases n <;> rfl

theorem leafRule_eq (s o : Node) :
    ((leafRule s o).1.flags, (leafRule s o).2) = leafRuleFlags s.flags o.flags := by
  simp only [leafRule, leafRuleFlags]
  split <;> simp [propagate_flags, setFlags_flags]


/-! ### `FunctionNode.ayns.on_merge_impl`: the decision of `funcMerge` on flags and names -/

/-- what `funcMerge` decides before (or instead of) entering the composed merge: `done` — the merge ends here with
    these flags / target name / children cleared or kept; `fall` — it falls through to the composed merge with
    this target name and the children cleared or kept -/
inductive FuncOut where
  | done (fl : Flags) (func : String) (cleared : Bool)
  | fall (func : String) (cleared : Bool)

/-- `sf`, `f`: flags and target of `self`; `of`, `odd`: flags and class default of `other`; `ostr`: `str(other)` when
    `other` is a string node; `ofunc`: `other._func` when `other` is a function node -/
def funcDecision (sf : Flags) (f : String) (of : Flags) (odd : Bool) (ostr : Option String) (ofunc : Option String) : FuncOut :=
  match ostr with
  | some s =>
    if hasPrio of sf true then
      if s != f then .done (replaceSelfFlags sf of) s true else .done (replaceSelfFlags sf of) f false
    else .done (replaceOtherFlags sf of) f false
  | none =>
    match ofunc with
    | none => .fall f false
    | some g =>
      if f != g then
        if !hasPrio of sf true then .done (replaceOtherFlags sf of) f false
        else .fall g (eDelF of odd)
      else .fall f false

/-- `str(other)` when `other` is a string node -/
def _root_.AY.Node.strOf : Node → Option String
  | .leaf _ lk => if lk.isStr then some lk.strVal else none
  | .comp .. => none

/-- `other._func` when `other` is a function node -/
def _root_.AY.Node.funcOf : Node → Option String
  | .leaf .. => none
  | .comp _ ok _ => ok.func?

theorem setFunc_self (sk : CompKind) (f : String) (h : sk.func? = some f) : sk.setFunc f = sk := by
  cases sk <;> simp_all [CompKind.func?, CompKind.setFunc]

/-- `funcMerge` is its decision followed by the end of the merge or by the composed merge -/
theorem funcMerge_eq (rec : Node → Node → Except Err (Node × Bool)) (sf : Flags) (sk : CompKind) (f : String)
    (scs : List (Key × Node)) (o : Node) (hsk : sk.func? = some f) :
    funcMerge rec sf sk f scs o =
      match funcDecision sf f o.flags o.defaultDel o.strOf o.funcOf with
      | .done fl g c => .ok (propagate (.comp fl (sk.setFunc g) (if c then [] else scs)), true)
      | .fall g c => compMerge rec sf (sk.setFunc g) (if c then [] else scs) o := by
  have hs := setFunc_self sk f hsk
  cases o with
  | leaf of lk =>
    simp only [funcMerge, funcDecision, Node.strOf, Node.funcOf, Node.flags]
    by_cases h1 : lk.isStr = true
    · simp only [h1, if_true]
      by_cases h2 : hasPrio of sf true = true
      · simp only [h2, if_true]
        by_cases h3 : (lk.strVal != f) = true
        · simp [h3]
        · simp [h3, hs]
      · simp [h2, hs]
    · simp [h1, hs]
  | comp of ok ocs =>
    simp only [funcMerge, funcDecision, Node.strOf, Node.funcOf, Node.flags]
    cases hg : ok.func? with
    | none => simp [hs]
    | some g =>
      simp only []
      rw [show (f != g) = (g != f) from by
        by_cases h : f = g
        · subst h; rfl
        · have h' : ¬ g = f := fun e => h e.symm
          have e1 : (f != g) = true := by simpa [bne] using h
          have e2 : (g != f) = true := by simpa [bne] using h'
          rw [e1, e2]]
      by_cases h3 : (g != f) = true
      · simp only [h3, if_true]
        by_cases h2 : hasPrio of sf true = true
        · simp only [h2, eDel_eq, Node.flags, Node.defaultDel, Bool.not_true, Bool.false_eq_true, if_false]
          rcases Bool.eq_false_or_eq_true (eDelF of (defaultDelete ok)) with hd | hd <;> simp [hd]
        · simp [h2, hs]
      · simp [h3, hs]

def encOStr : Option String → PV
  | some s => .str s
  | none => .none
@[simp] theorem encOStr_some (s : String) : encOStr (some s) = .str s := rfl
@[simp] theorem encOStr_none : encOStr none = .none := rfl

/-- the value of `other._func`: the target of a function node, AttributeError for any other node -/
def encFuncAttr : Option String → PV
  | some g => .str g
  | none => .exc "AttributeError"
@[simp] theorem encFuncAttr_some (s : String) : encFuncAttr (some s) = .str s := rfl
@[simp] theorem encFuncAttr_none : encFuncAttr none = .exc "AttributeError" := rfl

/-- a node object: the flags plus the attribute `_func` -/
def encNodeObj (f : Flags) (dd : Bool) (func : PV) : Obj := Obj.set (encFlags f dd) "_func" func

/-- what is compared of a decision: who is returned, the observable flags and the target of `self`, the recorded calls -/
def FuncOut.view (sf : Flags) (dd : Bool) : FuncOut → String × List PV × PV × List String
  | .done fl g c => ("self", obs (encFlags fl dd), .str g, if c then ["self.clear()"] else [])
  | .fall g c => ("fallthrough", obs (encFlags sf dd), .str g,
                  (if c then ["self.clear()"] else []) ++ ["super.on_merge_impl(_, other)"])

@[simp] theorem FuncOut.view_done (sf : Flags) (dd : Bool) (fl : Flags) (g : String) (c : Bool) :
    (FuncOut.done fl g c).view sf dd = ("self", obs (encFlags fl dd), .str g, if c then ["self.clear()"] else []) := rfl
@[simp] theorem FuncOut.view_fall (sf : Flags) (dd : Bool) (g : String) (c : Bool) :
    (FuncOut.fall g c).view sf dd = ("fallthrough", obs (encFlags sf dd), .str g,
      (if c then ["self.clear()"] else []) ++ ["super.on_merge_impl(_, other)"]) := rfl
@[simp] theorem FuncOut.view_ite (sf : Flags) (dd : Bool) (p : Prop) [Decidable p] (a b : FuncOut) :
    (if p then a else b).view sf dd = if p then a.view sf dd else b.view sf dd := by split <;> rfl

def decStr : PV → String
  | .str s => s
  | _ => ""
def decFuncAttr : PV → Option String
  | .str s => some s
  | _ => none
@[simp] theorem decFuncAttr_enc (x : Option String) : decFuncAttr (encFuncAttr x) = x := by cases x <;> rfl
@[simp] theorem decFlags_encNodeObj (f : Flags) (dd : Bool) (v : PV) : decFlags (encNodeObj f dd v) = f := by
  simp [decFlags, encNodeObj, Obj.set, decB]
@[simp] theorem decDD_encNodeObj (f : Flags) (dd : Bool) (v : PV) : decDD (encNodeObj f dd v) = dd := by
  simp [decDD, encNodeObj, Obj.set, decB]
@[simp] theorem encNodeObj_func (f : Flags) (dd : Bool) (v : PV) : encNodeObj f dd v "_func" = v := by
  simp [encNodeObj, Obj.set]

/-- the decision of `_maybe_promote` in terms of the class relations (what the model's `maybePromote` does with them) -/
def promoteDecision (same selfC otherC otherSubSelf selfSubOther selfPlain otherPlain otherIsList : Bool) : RefRes :=
  let fill (a b : String) : RefRes :=
    { ref := "other", state := Obj.empty,
      effects := ["other.clear()", if otherIsList then a else b, "other.__dict__.update(self.__dict__)"] }
  let keep : RefRes := { ref := "self", state := Obj.empty, effects := [] }
  if same then keep
  else if !selfC || !otherC then keep
  else if otherSubSelf then fill "other.extend(self)" "other.update(self)"
  else if selfSubOther then keep
  else if selfPlain && !otherPlain then fill "other.extend(self.values())" "other.update(enumerate(self))"
  else keep

end AY.Tie
