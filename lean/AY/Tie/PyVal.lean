/-
  AY.Tie.PyVal — the fixed prelude of the Python→Lean translator (harness/py2lean.py).

  A small universe of Python values and TOTAL operations on it that mirror the Python semantics of
  the translated subset:

    * `PV`: `None`, `bool`, `int`, `str`, `float` (kept by repr; only ever tested for its class),
      `dict` with string keys (insertion ordered, exactly CPython's `dict`), and `exc name` — the
      "this expression raised `name`" marker. Every operation is strict in `exc` (an operand that
      raised makes the whole expression raise), `and`/`or`/conditional expressions evaluate lazily
      as in Python (`pyAnd a b` does not look at `b` when `a` is falsy).
    * objects are functions from attribute name to `PV` (`Obj`); an attribute that does not exist
      reads as `exc "AttributeError"`, which is also what `hasattr` tests. An assignment
      `o.x = v` is `Obj.set o "x" v` (the updated record is what a state-updating function returns).
    * `bool` is a subclass of `int` as in Python: `True == 1`, `True + 1 == 2`, `False < 1`,
      `isinstance(True, int)`.

  The generated file `AY/Gen/Translated.lean` uses nothing but these names. Everything here is part
  of the trusted base (a wrong `pyLt` proves the wrong thing about `<`), which is why it is small,
  first-order and has no proofs to hide behind.
-/
namespace AY.Py

inductive PV where
  | none
  | bool (b : Bool)
  | int (i : Int)
  | str (s : String)
  | float (r : String)
  | dict (kvs : List (String × PV))
  | exc (name : String)
  deriving Repr, Inhabited

/-- Python objects: attribute name ↦ value; a missing attribute reads as `exc "AttributeError"`. -/
abbrev Obj := String → PV

def Obj.empty : Obj := fun _ => .exc "AttributeError"

/-- `o.k = v` -/
def Obj.set (o : Obj) (k : String) (v : PV) : Obj := fun a => if a = k then v else o a

/-- an object given by the list of its attributes -/
def Obj.ofList (l : List (String × PV)) : Obj := fun a => (l.lookup a).getD (.exc "AttributeError")

/-- an optional object parameter (`child=None`): attribute read -/
def optAttr (o : Option Obj) (k : String) : PV :=
  match o with
  | some o => o k
  | Option.none => .exc "AttributeError"

/-- `x is None` for an optional object parameter -/
def optIsNone (o : Option Obj) : PV := .bool o.isNone

/-! ### truthiness, `not`, `and`, `or`, conditional expressions -/

/-- `bool(x)` (an expression that raised is never truthy; the strict operations below hand the
    exception on before truthiness is asked) -/
def pyTruthy : PV → Bool
  | .none => false
  | .bool b => b
  | .int i => i != 0
  | .str s => s != ""
  | .float r => !(r == "0.0" || r == "-0.0")
  | .dict kvs => !kvs.isEmpty
  | .exc _ => false

def PV.isExc : PV → Bool
  | .exc _ => true
  | _ => false

/-- `a if c else b` / `if c: return a … return b`, strict in an exception raised by the test -/
def pyIte (c a b : PV) : PV :=
  match c with
  | .exc e => .exc e
  | c => if pyTruthy c then a else b

/-- `not x` -/
def pyNot : PV → PV
  | .exc e => .exc e
  | x => .bool (!pyTruthy x)

/-- `a and b` (returns an operand) -/
def pyAnd (a b : PV) : PV :=
  match a with
  | .exc e => .exc e
  | a => if pyTruthy a then b else a

/-- `a or b` (returns an operand) -/
def pyOr (a b : PV) : PV :=
  match a with
  | .exc e => .exc e
  | a => if pyTruthy a then a else b

/-! ### identity and comparisons -/

/-- `a is b` where one side is one of the singletons `None`, `True`, `False` (the translator accepts
    `is` only in that form; ints/strings have no portable identity) -/
def pyIs : PV → PV → PV
  | .exc e, _ => .exc e
  | _, .exc e => .exc e
  | .none, .none => .bool true
  | .bool a, .bool b => .bool (a == b)
  | _, _ => .bool false

def pyIsNot (a b : PV) : PV := pyNot (pyIs a b)

/-- the integer a numeric value stands for (`True` is 1) -/
def PV.num? : PV → Option Int
  | .bool b => some (if b then 1 else 0)
  | .int i => some i
  | _ => Option.none

/-- `a == b` on the scalar universe (dicts are never compared by the translated subset: `exc`) -/
def pyEq : PV → PV → PV
  | .exc e, _ => .exc e
  | _, .exc e => .exc e
  | .none, .none => .bool true
  | .str a, .str b => .bool (a == b)
  | .float a, .float b => .bool (a == b)
  | .dict _, _ => .exc "UnsupportedDictComparison"
  | _, .dict _ => .exc "UnsupportedDictComparison"
  | .float _, _ => .exc "UnsupportedFloatComparison"
  | _, .float _ => .exc "UnsupportedFloatComparison"
  | a, b =>
    match a.num?, b.num? with
    | some x, some y => .bool (x == y)
    | _, _ => .bool false

def pyNe (a b : PV) : PV := pyNot (pyEq a b)

/-- ordering comparisons: numbers with numbers, anything else is a `TypeError` -/
def pyCmp (op : Int → Int → Bool) : PV → PV → PV
  | .exc e, _ => .exc e
  | _, .exc e => .exc e
  | a, b =>
    match a.num?, b.num? with
    | some x, some y => .bool (op x y)
    | _, _ => .exc "TypeError"

def pyLt := pyCmp (fun x y => decide (x < y))
def pyLe := pyCmp (fun x y => decide (x ≤ y))
def pyGt := pyCmp (fun x y => decide (x > y))
def pyGe := pyCmp (fun x y => decide (x ≥ y))

/-- `x in [a, b, …]` over a literal list -/
def pyIn (x : PV) : List PV → PV
  | [] => match x with | .exc e => .exc e | _ => .bool false
  | y :: ys =>
    match pyEq x y with
    | .exc e => .exc e
    | r => if pyTruthy r then .bool true else pyIn x ys

def pyNotIn (x : PV) (l : List PV) : PV := pyNot (pyIn x l)

/-! ### integer arithmetic -/

def pyArith (op : Int → Int → Int) : PV → PV → PV
  | .exc e, _ => .exc e
  | _, .exc e => .exc e
  | a, b =>
    match a.num?, b.num? with
    | some x, some y => .int (op x y)
    | _, _ => .exc "TypeError"

def pyAdd := pyArith (· + ·)
def pySub := pyArith (· - ·)

/-- unary minus -/
def pyNeg : PV → PV
  | .exc e => .exc e
  | a => match a.num? with | some x => .int (-x) | Option.none => .exc "TypeError"

/-- `abs(x)` -/
def pyAbs : PV → PV
  | .exc e => .exc e
  | a => match a.num? with | some x => .int (if x < 0 then -x else x) | Option.none => .exc "TypeError"

/-- `min(a, b)` (returns the first argument on ties, like Python) -/
def pyMin (a b : PV) : PV :=
  match pyLt b a with
  | .exc e => .exc e
  | r => if pyTruthy r then b else a

/-- `max(a, b)` (returns the first argument on ties) -/
def pyMax (a b : PV) : PV :=
  match pyGt b a with
  | .exc e => .exc e
  | r => if pyTruthy r then b else a

/-- `isinstance(x, int)` (`bool` is a subclass of `int`) -/
def pyIsInt : PV → PV
  | .exc e => .exc e
  | .int _ => .bool true
  | .bool _ => .bool true
  | _ => .bool false

/-- `isinstance(x, str)` -/
def pyIsStr : PV → PV
  | .exc e => .exc e
  | .str _ => .bool true
  | _ => .bool false

/-- `try: x = e  except AttributeError: x = h` — a guarded read -/
def pyCatchAttr (e h : PV) : PV :=
  match e with
  | .exc "AttributeError" => h
  | e => e

/-! ### objects -/

/-- `hasattr(o, name)` -/
def pyHasAttr (o : Obj) (k : String) : PV := .bool (!(o k).isExc)

/-- `getattr(o, name, default)` -/
def pyGetAttrD (o : Obj) (k : String) (d : PV) : PV :=
  match o k with
  | .exc _ => d
  | v => v

/-! ### dicts with string keys (insertion ordered) -/

def dictSet (k : String) (v : PV) : List (String × PV) → List (String × PV)
  | [] => [(k, v)]
  | (k', v') :: rest => if k' = k then (k, v) :: rest else (k', v') :: dictSet k v rest

/-- `d[k] = v`. Lazy in an exception raised by `v`: the entry then holds the `exc` marker (a dict that is
    compared entry by entry with an exception-free one still differs), which keeps the entries independent. -/
def pyDictSet (d : PV) (k : String) (v : PV) : PV :=
  match d with
  | .exc e => .exc e
  | .dict kvs => .dict (dictSet k v kvs)
  | _ => .exc "TypeError"

/-- `d[k]` -/
def pyGetItem (d : PV) (k : String) : PV :=
  match d with
  | .exc e => .exc e
  | .dict kvs => (kvs.lookup k).getD (.exc "KeyError")
  | _ => .exc "TypeError"

/-- `k in d` for a dict `d` -/
def pyHasKey (d : PV) (k : String) : PV :=
  match d with
  | .exc e => .exc e
  | .dict kvs => .bool (kvs.lookup k).isSome
  | _ => .exc "TypeError"

/-- `len(d)` -/
def pyLen : PV → PV
  | .exc e => .exc e
  | .dict kvs => .int kvs.length
  | .str s => .int s.length
  | _ => .exc "TypeError"

/-- `{**a, **b}` -/
def pyDictMerge (a b : PV) : PV :=
  match a, b with
  | .exc e, _ => .exc e
  | _, .exc e => .exc e
  | .dict x, .dict y => .dict (y.foldl (fun acc kv => dictSet kv.1 kv.2 acc) x)
  | _, _ => .exc "TypeError"

/-! ### results of translated functions -/

/-- the first exception among the values evaluated on an execution path -/
def firstExc : List PV → Option String
  | [] => Option.none
  | .exc n :: _ => some n
  | _ :: r => firstExc r

/-- a returned value, unless something evaluated on the way (an assigned value, a test that fell through) raised -/
def pyGuardV (vs : List PV) (v : PV) : PV :=
  match firstExc vs with
  | some n => .exc n
  | Option.none => v

/-- result of a function that does not return a plain value: the payload, or the exception that was raised -/
inductive Res (α : Type) where
  | ok (a : α)
  | exc (name : String)

def Res.map {α β : Type} (f : α → β) : Res α → Res β
  | .ok a => .ok (f a)
  | .exc n => .exc n

def pyGuard {α : Type} (vs : List PV) (a : α) : Res α :=
  match firstExc vs with
  | some n => .exc n
  | Option.none => .ok a

/-- the result of a function that returns one of its object arguments (possibly after updating it):
    which one (`"self"`, `"other"`, …), its state, and the abstract effects recorded on the way -/
structure RefRes where
  ref : String
  state : Obj
  effects : List String := []

end AY.Py
