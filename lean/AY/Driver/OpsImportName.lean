/-
  AY.Driver.OpsImportName — driver op for `import_name` (AY.Model.ImportName; property C13, family `impname` of
  harness/props/c13.py).  Driver only; not part of the model.  Entities are object numbers (the harness numbers Python
  objects by identity); `null` is Python's `None`.

  {"op":"importName","symbol":s,
   "imp":[[[el…], {"ok":n} | "ImportError" | {"raises":cls}]…],      import_module of the absolute dotted name
   "name":[[n, [el…] | null]…],                                        __name__.split('.')  (null: no such attribute)
   "truthy":[[n, bool]…],
   "attr":[[n, name, m | null | "AttributeError"]…],
   "builtin":[[name, m | null | "AttributeError"]…]}
    → {"elements":[el…],"invalid":bool,"res":{"ok":n|null} | {"err":"ValueError"} | {"err":"ImportError","symbol":s,"last":n|null}
                                           | {"err":"crash","cls":cls}}
  A lookup that the tables do not answer yields the entity 999999 / the class "MISSING" (the harness treats both as its own
  failure, never as a disagreement).
-/
import Lean.Data.Json
import AY.Model.ImportName
open Lean

namespace AY.OpsImportName
open AY.ImportName

def missing : Nat := 999999

def natJ (n : Nat) : Json := .num (JsonNumber.fromNat n)
def optJ : Option Nat → Json
  | none => .null
  | some n => natJ n

def strsOf (j : Json) : Except String (List String) :=
  match j with
  | .arr a => a.toList.mapM (fun x => match x with | .str s => Except.ok s | _ => Except.error "string expected")
  | _ => .error "array of strings expected"

def arrOf (j : Json) (k : String) : Except String (List Json) :=
  match j.getObjVal? k with
  | .ok (.arr a) => .ok a.toList
  | _ => .error (k ++ ": array expected")

/-- `m | null | "AttributeError"` -/
def valOf (j : Json) : Except String (Option (Option Nat)) :=
  match j with
  | .null => .ok (some none)
  | .str "AttributeError" => .ok none
  | v => match v.getNat? with
    | .ok n => .ok (some (some n))
    | .error e => .error e

def impOf (j : Json) : Except String (List String × ImportRes Nat) :=
  match j with
  | .arr #[p, r] =>
    match strsOf p with
    | .error e => .error e
    | .ok ps =>
      match r with
      | .str "ImportError" => .ok (ps, .importError)
      | o =>
        match o.getObjVal? "ok", o.getObjVal? "raises" with
        | .ok v, _ => match v.getNat? with
          | .ok n => .ok (ps, .ok n)
          | .error e => .error e
        | _, .ok (.str c) => .ok (ps, .raises c)
        | _, _ => .error "imp: outcome expected"
  | _ => .error "imp: [path, outcome] expected"

def nameOf (j : Json) : Except String (Nat × Option (List String)) :=
  match j with
  | .arr #[n, .null] => match n.getNat? with
    | .ok k => .ok (k, none)
    | .error e => .error e
  | .arr #[n, p] => match n.getNat?, strsOf p with
    | .ok k, .ok ps => .ok (k, some ps)
    | .error e, _ => .error e
    | _, .error e => .error e
  | _ => .error "name: [n, path] expected"

def truthyOf (j : Json) : Except String (Nat × Bool) :=
  match j with
  | .arr #[n, .bool b] => match n.getNat? with
    | .ok k => .ok (k, b)
    | .error e => .error e
  | _ => .error "truthy: [n, bool] expected"

def attrOf (j : Json) : Except String (Nat × String × Option (Option Nat)) :=
  match j with
  | .arr #[n, .str a, v] => match n.getNat?, valOf v with
    | .ok k, .ok x => .ok (k, a, x)
    | .error e, _ => .error e
    | _, .error e => .error e
  | _ => .error "attr: [n, name, value] expected"

def builtinOf (j : Json) : Except String (String × Option (Option Nat)) :=
  match j with
  | .arr #[.str a, v] => match valOf v with
    | .ok x => .ok (a, x)
    | .error e => .error e
  | _ => .error "builtin: [name, value] expected"

def assoc {α β : Type} [BEq α] (k : α) : List (α × β) → Option β
  | [] => none
  | (k', v) :: rest => if k' == k then some v else assoc k rest

def mkWorld (imp : List (List String × ImportRes Nat)) (name : List (Nat × Option (List String))) (truthy : List (Nat × Bool))
    (attr : List (Nat × String × Option (Option Nat))) (builtin : List (String × Option (Option Nat))) : World Nat where
  imp := fun p => (assoc p imp).getD (.raises "MISSING")
  name := fun e => (assoc e name).getD (some ["MISSING"])
  truthy := fun e => (assoc e truthy).getD true
  attr := fun e n => (assoc (e, n) (attr.map (fun x => ((x.1, x.2.1), x.2.2)))).getD (some (some missing))
  builtin := fun n => (assoc n builtin).getD (some (some missing))

def resJ (s : String) : Except (ImportErr Nat) (Option Nat) → Json
  | .ok v => Json.mkObj [("ok", optJ v)]
  | .error (.valueError _) => Json.mkObj [("err", .str "ValueError")]
  | .error (.importError sym last) => Json.mkObj [("err", .str "ImportError"), ("symbol", .str sym), ("last", optJ last), ("asked", .str s)]
  | .error (.crash c) => Json.mkObj [("err", .str "crash"), ("cls", .str c)]

/-- op "importName" -/
def opImportName (j : Json) : Json :=
  let r : Except String Json :=
    match j.getObjVal? "symbol", arrOf j "imp", arrOf j "name", arrOf j "truthy", arrOf j "attr", arrOf j "builtin" with
    | .ok (.str s), .ok i, .ok n, .ok t, .ok a, .ok b =>
      match i.mapM impOf, n.mapM nameOf, t.mapM truthyOf, a.mapM attrOf, b.mapM builtinOf with
      | .ok imp, .ok name, .ok truthy, .ok attr, .ok builtin =>
        let w := mkWorld imp name truthy attr builtin
        .ok (Json.mkObj [("elements", .arr ((elements s).map Json.str).toArray), ("invalid", .bool (invalid s)),
                         ("res", resJ s (importName w s))])
      | .error e, _, _, _, _ => .error e
      | _, .error e, _, _, _ => .error e
      | _, _, .error e, _, _ => .error e
      | _, _, _, .error e, _ => .error e
      | _, _, _, _, .error e => .error e
    | _, _, _, _, _, _ => .error "importName: symbol, imp, name, truthy, attr, builtin expected"
  match r with
  | .ok a => a
  | .error e => Json.mkObj [("bad", .str e)]

end AY.OpsImportName
