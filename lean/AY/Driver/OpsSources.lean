/-
  AY.Driver.OpsSources — driver op "sources" (AY.Model.Sources; property C06, family `sources` of
  harness/props/c06.py).  Driver only; not part of the model.

  {"op":"sources",
   "fs":[[name, expanded, outcome]…]      outcome of open(expanded)+read(): {"content":text} | "notfound" |
                                          {"oserror":errno} | {"ossub":class} | "valueerror" | "undecodable";
                                          expanded = os.path.expanduser(name); a name not listed expands to itself
                                          and is not found
   "parser":[[text, ndocs, raises]…]      yaml.parse per text: documents yielded (None removed), raises after them
                                          (a text not listed: no document, no exception)
   "bdef":bool, "outer":bool              Builder._default_safe_flag, ConfigNode._default_safe at the call
   "steps":[step…]}
  step = {"api":"add_source","src":SRC,"raw":null|bool,"filename":null|str,"safe":null|bool}     one builder for all
       | {"api":"add_multiple","sources":[SRC…],"raw":BARG,"filename":BARG,"safe":BARG}           steps of these two
       | {"api":"config_build","sources":[SRC…],"raw":BARG,"filename":BARG}     fresh builder, parser yields nothing
       | {"api":"cmdline","options":[str…]}                                      fresh builder, parser yields nothing
       | {"api":"ways","sources":[SRC…],"raw":null|bool,"filename":null|str}    n × add_source | add_multiple | Config.build
  SRC = ["str",s] | ["path",str(p)] | ["fobj",content];   BARG = {"scalar":v} | {"seq":[v…]}
  → {"steps":[ans…]}   ans = {"res":RES,"calls":[[text,name|null,safe]…],"cur":name|null,"stages":n}   (calls made BY this step)
                           | {"ways":[ans,ans,ans]}
  RES = "ok" | {"err":class,…}
-/
import Lean.Data.Json
import AY.Driver.Codec
import AY.Model.Sources
open Lean

namespace AY.OpsSources
open AY.Codec AY.Sources

structure Ent where
  name : String
  expanded : String
  out : OpenRes

def outOf (j : Json) : P OpenRes :=
  match j with
  | .str "notfound" => .ok .notFound
  | .str "valueerror" => .ok .valueError
  | .str "undecodable" => .ok .readError
  | _ =>
    match j.getObjVal? "content", j.getObjVal? "oserror", j.getObjVal? "ossub" with
    | .ok (.str t), _, _ => .ok (.content t)
    | _, .ok n, _ =>
      match n.getNat? with
      | .ok k => .ok (.osError k)
      | .error e => .error e
    | _, _, .ok (.str c) => .ok (.osSub c)
    | _, _, _ => .error s!"bad open outcome {j.compress}"

def entOf (j : Json) : P Ent :=
  match j with
  | .arr #[.str n, .str x, o] =>
    match outOf o with
    | .ok r => .ok ⟨n, x, r⟩
    | .error e => .error e
  | _ => .error s!"bad fs entry {j.compress}"

def findExp (ents : List Ent) (p : String) : Option OpenRes := (ents.find? (fun e => e.expanded = p)).map (·.out)

def mkFS (ents : List Ent) : FileSys where
  expanduser := fun s => match ents.find? (fun e => e.name = s) with | some e => e.expanded | none => s
  fs := fun p => match findExp ents p with | some (.content t) => some t | _ => none
  openErr := fun p => match findExp ents p with | some (.osError n) => some n | _ => none
  openSub := fun p => match findExp ents p with | some (.osSub c) => some c | _ => none
  badName := fun p => match findExp ents p with | some .valueError => true | _ => false
  undecodable := fun p => match findExp ents p with | some .readError => true | _ => false

def parserOf (tab : List (String × Nat × Bool)) : Parser Unit := fun c =>
  match tab.find? (fun e => e.1 = c.text) with
  | some (_, n, r) => (List.replicate n (), r)
  | none => ([], false)

def silent : Parser Unit := fun _ => ([], false)

def ptabOf (j : Json) : P (String × Nat × Bool) :=
  match j with
  | .arr #[.str t, n, .bool r] =>
    match n.getNat? with
    | .ok k => .ok (t, k, r)
    | .error e => .error e
  | _ => .error s!"bad parser entry {j.compress}"

def srcOf (j : Json) : P SourceArg :=
  match j with
  | .arr #[.str "str", .str s] => .ok (.str s)
  | .arr #[.str "path", .str s] => .ok (.path s)
  | .arr #[.str "fobj", .str s] => .ok (.fileObj s)
  | _ => .error s!"bad source {j.compress}"

def optBoolOf (j : Json) : P (Option Bool) :=
  match j with
  | .null => .ok none
  | .bool b => .ok (some b)
  | _ => .error s!"null/bool expected: {j.compress}"

def optStrOf (j : Json) : P (Option String) :=
  match j with
  | .null => .ok none
  | .str s => .ok (some s)
  | _ => .error s!"null/string expected: {j.compress}"

def bargOf {α : Type} (f : Json → P α) (j : Json) (k : String) : P (BArg α) :=
  match j.getObjVal? k with
  | .error _ => .error s!"{k} expected"
  | .ok b =>
    match b.getObjVal? "scalar", b.getObjVal? "seq" with
    | .ok v, _ => (f v).map .scalar
    | _, .ok (.arr a) => (a.toList.mapM f).map .seq
    | _, _ => .error s!"bad broadcast argument {b.compress}"

def listOf {α : Type} (f : Json → P α) (j : Json) (k : String) : P (List α) :=
  match j.getObjVal? k with
  | .ok (.arr a) => a.toList.mapM f
  | _ => .error s!"{k}: array expected"

def errJ : SrcErr → Json
  | .rawNotStr => Json.mkObj [("err", .str "ValueError"), ("what", .str "raw")]
  | .fileNotFound f => Json.mkObj [("err", .str "FileNotFoundError"), ("file", .str f)]
  | .osError n f => Json.mkObj [("err", .str "OSError"), ("errno", .num (JsonNumber.fromNat n)), ("file", .str f)]
  | .osSub c f => Json.mkObj [("err", .str c), ("file", .str f)]
  | .openValue _ => Json.mkObj [("err", .str "ValueError"), ("what", .str "open")]
  | .decode _ => Json.mkObj [("err", .str "UnicodeDecodeError")]
  | .lengthMismatch a => Json.mkObj [("err", .str "ValueError"), ("arg", .str a)]
  | .parsing => Json.mkObj [("err", .str "ParsingError")]
  | .cmdline .index => Json.mkObj [("err", .str "IndexError"), ("what", .str "cmdline")]
  | .cmdline .value => Json.mkObj [("err", .str "ValueError"), ("what", .str "cmdline")]

def callJ (c : ParseCall) : Json :=
  .arr #[.str c.text, match c.name with | some n => .str n | none => .null, .bool c.safe]

/-- the answer of one step: `before` = number of calls made before it -/
def ansJ (before : Nat) (r : BState Unit × Option SrcErr) : Json :=
  Json.mkObj [
    ("res", match r.2 with | none => .str "ok" | some e => errJ e),
    ("calls", .arr ((r.1.calls.drop before).map callJ).toArray),
    ("cur", match r.1.currentFile with | some n => .str n | none => .null),
    ("stages", .num (JsonNumber.fromNat r.1.stages.length))]

def argsOf (j : Json) : P Args := do
  let src ← match j.getObjVal? "src" with | .ok s => srcOf s | .error e => .error e
  let raw ← optBool j "raw"
  let fname ← optStr j "filename"
  let safe ← optBool j "safe"
  pure ⟨src, raw, fname, safe⟩

/-- one step: (the shared builder afterwards, the answer) -/
def stepOf (S : FileSys) (Pr : Parser Unit) (env : Sources.Env) (st : BState Unit) (j : Json) : P (BState Unit × Json) :=
  match j.getObjVal? "api" with
  | .ok (.str "add_source") => do
    let a ← argsOf j
    let r := addSource S Pr env st a
    pure (r.1, ansJ st.calls.length r)
  | .ok (.str "add_multiple") => do
    let ss ← listOf srcOf j "sources"
    let raw ← bargOf optBoolOf j "raw"
    let fname ← bargOf optStrOf j "filename"
    let safe ← bargOf optBoolOf j "safe"
    let r := addMultiple S Pr env st ss raw fname safe
    pure (r.1, ansJ st.calls.length r)
  | .ok (.str "config_build") => do
    let ss ← listOf srcOf j "sources"
    let raw ← bargOf optBoolOf j "raw"
    let fname ← bargOf optStrOf j "filename"
    pure (st, ansJ 0 (configBuild S silent env ss raw fname))
  | .ok (.str "cmdline") => do
    let os ← listOf (fun x => match x with | .str s => Except.ok s | _ => Except.error "option: string expected") j "options"
    pure (st, ansJ 0 (buildFromCmdline S silent env os))
  | .ok (.str "ways") => do
    let ss ← listOf srcOf j "sources"
    let raw ← optBool j "raw"
    let fname ← optStr j "filename"
    let w1 := addLoop S silent env {} (ss.map (fun s => ⟨s, raw, fname, none⟩))
    let w2 := addMultiple S silent env {} ss (.scalar raw) (.scalar fname) (.scalar none)
    let w3 := configBuild S silent env ss (.scalar raw) (.scalar fname)
    pure (st, Json.mkObj [("ways", .arr #[ansJ 0 w1, ansJ 0 w2, ansJ 0 w3])])
  | _ => .error s!"bad step {j.compress}"

def stepsOf (S : FileSys) (Pr : Parser Unit) (env : Sources.Env) : BState Unit → List Json → P (List Json)
  | _, [] => .ok []
  | st, j :: rest =>
    match stepOf S Pr env st j with
    | .error e => .error e
    | .ok (st', a) =>
      match stepsOf S Pr env st' rest with
      | .error e => .error e
      | .ok as => .ok (a :: as)

/-- op "sources" -/
def opSources (j : Json) : Json :=
  let r : P Json := do
    let ents ← listOf entOf j "fs"
    let tab ← listOf ptabOf j "parser"
    let bdef ← optBool j "bdef"
    let outer ← optBool j "outer"
    let steps ← listOf (fun x => Except.ok x) j "steps"
    let as ← stepsOf (mkFS ents) (parserOf tab) ({ bdef := bdef.getD true, outer := outer.getD true } : Sources.Env) {} steps
    pure (Json.mkObj [("steps", .arr as.toArray)])
  match r with
  | .ok a => a
  | .error e => Json.mkObj [("bad", .str e)]

end AY.OpsSources
