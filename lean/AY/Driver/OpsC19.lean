/-
  AY.Driver.OpsC19 — driver op "c19" (driver only; not part of the model).

  Request:  {"op":"c19","docs":[{"raw":…,"safe":bool?,"src":str?},…],"mode":"merge"|"parse"}
  Answer:   mode "merge": {"ok": R} for the flattened tree (null when there is no document), or {"err":…}
            mode "parse": {"ok": [R,…]} one per document
            R = {"tree": node, "copy": node, "pickle": node,          -- original, reconstructCopy, reconstructPickle
                 "consistent": bool, "below": bool, "wellKeyed": bool} -- FlagsConsistent, ConsistentBelow, WellKeyed
-/
import Lean.Data.Json
import AY.Driver.Codec
import AY.Model.Copy
import AY.Model.Build
open Lean

namespace AY.OpsC19
open AY.Codec

def parseDocs (j : Json) : Except String (List (Env × Raw)) :=
  match j.getObjVal? "docs" with
  | .ok (.arr a) => a.toList.mapM (fun d => do
      let env ← envOf d
      let raw ← match d.getObjVal? "raw" with
        | .ok r => rawOf r
        | .error e => .error e
      pure (env, raw))
  | _ => .error "docs expected"

def constructAll : List (Env × Raw) → Except Err (List Node)
  | [] => .ok []
  | (env, r) :: rest =>
    match construct env r with
    | .error e => .error e
    | .ok n =>
      match constructAll rest with
      | .error e => .error e
      | .ok ns => .ok (n :: ns)

def resultJ (n : Node) : Json :=
  let red := reduceNode n
  Json.mkObj [("tree", nodeJ n), ("copy", nodeJ (reconstructCopy red)), ("pickle", nodeJ (reconstructPickle red)),
    ("consistent", .bool (FlagsConsistent n)), ("below", .bool (ConsistentBelow n)), ("wellKeyed", .bool (WellKeyed n))]

def opC19 (j : Json) : Json :=
  match parseDocs j with
  | .error e => Json.mkObj [("bad", .str e)]
  | .ok docs =>
    match constructAll docs with
    | .error e => errJ e
    | .ok ns =>
      match j.getObjVal? "mode" with
      | .ok (.str "parse") => Json.mkObj [("ok", .arr (ns.map resultJ).toArray)]
      | _ =>
        match ns with
        | [] => Json.mkObj [("ok", .null)]
        | _ =>
          match flatten ns with
          | .error e => errJ e
          | .ok r => Json.mkObj [("ok", resultJ r)]

end AY.OpsC19
