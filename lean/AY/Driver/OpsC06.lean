/-
  AY.Driver.OpsC06 — driver ops "c06" and "c06path" (driver only; not part of the model).

  Request "c06":
      {"op":"c06", "fs":[[path, [raw, ...]], ...], "cwd":str, "defSafe":bool?,
       "sources":[{"file":name, "safe":bool?} | {"raw":[raw, ...], "filename":str?, "safe":bool?}, ...],
       "world":{...}?, "fuel":int?}
  Answer: {"stages": {"ok":[node, ...]} | error      the stages after add_source* and preprocess()
           "tree":   {"ok":node|null}   | error      Builder.build()
           "cfg":    {"ok":value,"log":[...]} | error   Config(build()) in the given world (cwd = "cwd")}
  An error is {"err":class, ...}; a PreprocessError carries "missing":[names].

  Request "c06path": {"op":"c06path", "paths":[str, ...], "joins":[[dir, name], ...]}
  Answer: {"norm":[...], "normEval":[...], "dirname":[...], "parents":[[...], ...], "join":[...]}
          (`normChars` of this model, `normpath` of Model/Eval.lean, `dirname`, `pathParents`, `joinNorm`)
-/
import Lean.Data.Json
import AY.Driver.Codec
import AY.Model.Preprocess
open Lean AY AY.Codec

namespace AY.OpsC06

def rawList (j : Json) : P (List Raw) :=
  match j with
  | .arr a => a.toList.mapM rawOf
  | _ => .error s!"list of documents expected: {j.compress}"

def fsOf (j : Json) : P FS :=
  match j.getObjVal? "fs" with
  | .ok (.arr a) => a.toList.mapM (fun e =>
      match e with
      | .arr #[.str p, docs] => do let ds ← rawList docs; pure (p, ds)
      | _ => .error s!"bad fs entry {e.compress}")
  | _ => .error "fs expected"

def sourceOf (j : Json) : P Source := do
  let safe ← optBool j "safe"
  match j.getObjVal? "file" with
  | .ok (.str f) => pure (.file f safe)
  | _ =>
    match j.getObjVal? "raw" with
    | .ok docs => do
      let ds ← rawList docs
      let fname ← optStr j "filename"
      pure (.raw ds fname safe)
    | .error _ => .error s!"bad source {j.compress}"

def sourcesOf (j : Json) : P (List Source) :=
  match j.getObjVal? "sources" with
  | .ok (.arr a) => a.toList.mapM sourceOf
  | _ => .error "sources expected"

def ctxOf (j : Json) : P PCtx := do
  let fs ← fsOf j
  let cwd ← optStr j "cwd"
  let ds ← optBool j "defSafe"
  pure { fs := fs, cwd := cwd.getD "/", defSafe := ds.getD true }

def fuelOf (j : Json) (dflt : Nat) : Nat :=
  match j.getObjVal? "fuel" with
  | .ok (.num n) => if n.exponent = 0 ∧ n.mantissa ≥ 0 then n.mantissa.toNat else dflt
  | _ => dflt

def logJ (st : EvSt) : Json :=
  .arr (st.log.map (fun e => Json.mkObj [("p", pathJ e.path), ("w", .str e.what)])).toArray

def opC06 (j : Json) : Json :=
  match ctxOf j, sourcesOf j, worldOf j with
  | .error e, _, _ => Json.mkObj [("bad", .str e)]
  | _, .error e, _ => Json.mkObj [("bad", .str e)]
  | _, _, .error e => Json.mkObj [("bad", .str e)]
  | .ok ctx, .ok sources, .ok w0 =>
    let w : World := { w0 with cwd := ctx.cwd }
    let fuel := fuelOf j (buildFuel ctx sources)
    let stagesJ : Json :=
      match preprocessSources ctx fuel sources with
      | .error e => errJ e
      | .ok ns => Json.mkObj [("ok", .arr (ns.map nodeJ).toArray)]
    let built := buildWith ctx fuel sources
    let treeJ : Json :=
      match built with
      | .error e => errJ e
      | .ok none => Json.mkObj [("ok", .null)]
      | .ok (some r) => Json.mkObj [("ok", nodeJ r)]
    let cfgJ : Json :=
      match built with
      | .error e => errJ e
      | .ok none => Json.mkObj [("ok", Json.mkObj [("d", .arr #[]), ("o", .arr #[])]), ("log", .arr #[])]
      | .ok (some r) =>
        match config w r with
        | .error e => errJ e
        | .ok (v, st) => Json.mkObj [("ok", valJ v), ("log", logJ st)]
    Json.mkObj [("stages", stagesJ), ("tree", treeJ), ("cfg", cfgJ)]

def opC06Path (j : Json) : Json :=
  match strList j "paths" with
  | .error e => Json.mkObj [("bad", .str e)]
  | .ok ps =>
    let joins : List (String × String) :=
      match j.getObjVal? "joins" with
      | .ok (.arr a) => a.toList.filterMap (fun e =>
          match e with
          | .arr #[.str d, .str n] => some (d, n)
          | _ => none)
      | _ => []
    let strs (l : List String) : Json := .arr (l.map Json.str).toArray
    Json.mkObj [
      ("norm", strs (ps.map (fun p => String.ofList (normChars p.toList)))),
      ("normEval", strs (ps.map normpath)),
      ("dirname", strs (ps.map dirname)),
      ("parents", .arr (ps.map (fun p => strs (pathParents p))).toArray),
      ("join", strs (joins.map (fun dn => joinNorm dn.1 dn.2)))]

end AY.OpsC06
