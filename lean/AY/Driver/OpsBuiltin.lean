/-
  AY.Driver.OpsBuiltin — driver op of the refinement part of C17 (driver only; not part of the model).

  {"op":"c17spec","kind":"dict"|"list","init":…,"ops":[…]}      (the request of op "c17", see OpsC17.lean)
    → {"init":state,"steps":[{"st":…,"attrs":…,"out":{"ok":null|[id,eq]} | {"exc":name}}…]}
      state = {"st":[[key,id,eq]…],"attrs":[str…]}
  The answer of op "c17" without the child view, the `node` flag and the invariant: the run of the
  builtin `list` / `dict` specification (`AY.Builtin.specTrace`) on the same construction and the
  same operations.  A list is reported with its positions as keys, like `enumerate`.
-/
import Lean.Data.Json
import AY.Spec.Builtin
import AY.Driver.OpsC17
open Lean

namespace AY.OpsBuiltin
open AY.Codec AY.Container AY.Builtin AY.OpsC17

def objFields (o : Obj) : List Json := [natJ o.id, natJ o.eqc]

def kvJ (kv : Key × Obj) : Json := .arr (keyJ kv.1 :: objFields kv.2).toArray

def contentsKV : Spec → List (Key × Obj)
  | .list xs _ => renum xs
  | .dict kvs _ => kvs

def attrsOf : Spec → List String
  | .list _ a => a
  | .dict _ a => a

def outJ : Out → Json
  | .ok none => Json.mkObj [("ok", .null)]
  | .ok (some o) => Json.mkObj [("ok", .arr (objFields o).toArray)]
  | .exc x => Json.mkObj [("exc", .str (excName x))]

def stateFields (s : Spec) : List (String × Json) :=
  [("st", .arr ((contentsKV s).map kvJ).toArray), ("attrs", .arr ((attrsOf s).map Json.str).toArray)]

def stepJ (r : Spec × Out) : Json := Json.mkObj (stateFields r.1 ++ [("out", outJ r.2)])

def initOf (j : Json) : P Spec :=
  match j.getObjVal? "kind", j.getObjVal? "init" with
  | .ok (.str "dict"), .ok (.arr a) => do
    let kvs ← a.toList.mapM pairOf
    pure (specInitDict (kvs.map (fun kv => (kv.1, argObj [] kv.2))))
  | .ok (.str "list"), .ok (.arr a) => do
    let vs ← a.toList.mapM valOf
    pure (specInitList (vs.map (argObj [])))
  | _, _ => .error "kind/init expected"

/-- op "c17spec": build the builtin, run the operations, report the contents after every step -/
def opC17Spec (j : Json) : Json :=
  match initOf j with
  | .error e => Json.mkObj [("bad", .str e)]
  | .ok s0 =>
    match j.getObjVal? "ops" with
    | .ok (.arr a) =>
      match a.toList.mapM opOf with
      | .error e => Json.mkObj [("bad", .str e)]
      | .ok ops =>
        Json.mkObj [("init", Json.mkObj (stateFields s0)), ("steps", .arr ((specTrace s0 ops).map stepJ).toArray)]
    | _ => Json.mkObj [("bad", .str "ops expected")]

end AY.OpsBuiltin
