/-
  AY.Driver.Codec — JSON codec of the line protocol (driver only; not part of the model).
-/
import Lean.Data.Json
import AY.Model.Construct
import AY.Model.Eval
import AY.Spec.Plain
open Lean

namespace AY.Codec

abbrev P := Except String

def getInt (j : Json) : P Int :=
  match j with
  | .num n => if n.exponent = 0 then .ok n.mantissa else .error s!"non-integer number {j.compress}"
  | _ => .error s!"int expected: {j.compress}"

def scalarOf (j : Json) : P Scalar :=
  match j with
  | .null => .ok .null
  | .bool b => .ok (.bool b)
  | .num _ => do let i ← getInt j; pure (.int i)
  | .str s => .ok (.str s)
  | .obj _ =>
    match j.getObjVal? "f" with
    | .ok (.str r) => .ok (.float r)
    | _ => .error s!"bad scalar {j.compress}"
  | _ => .error s!"bad scalar {j.compress}"

def keyOf (j : Json) : P Key :=
  match j with
  | .num _ => do let i ← getInt j; pure (.int i)
  | .str s => .ok (.str s)
  | .obj _ =>
    match j.getObjVal? "f" with
    | .ok (.str r) => .ok (.float r)
    | _ => .error s!"bad key {j.compress}"
  | _ => .error s!"bad key {j.compress}"

def optBool (j : Json) (k : String) : P (Option Bool) :=
  match j.getObjVal? k with
  | .ok (.bool b) => .ok (some b)
  | .ok .null => .ok none
  | .ok x => .error s!"bool expected for {k}: {x.compress}"
  | .error _ => .ok none

def optInt (j : Json) (k : String) : P (Option Int) :=
  match j.getObjVal? k with
  | .ok .null => .ok none
  | .ok x => do let i ← getInt x; pure (some i)
  | .error _ => .ok none

def optStr (j : Json) (k : String) : P (Option String) :=
  match j.getObjVal? k with
  | .ok (.str s) => .ok (some s)
  | .ok .null => .ok none
  | .ok x => .error s!"string expected for {k}: {x.compress}"
  | .error _ => .ok none

def mdOf (j : Json) : P (List (String × Scalar)) :=
  match j with
  | .arr a => a.toList.mapM (fun e =>
      match e with
      | .arr #[.str k, v] => do let s ← scalarOf v; pure (k, s)
      | _ => .error s!"bad metadata entry {e.compress}")
  | _ => .error "metadata list expected"

def kwOf (j : Json) : P CtorKw :=
  match j.getObjVal? "kw" with
  | .error _ => .ok {}
  | .ok kw => do
    let prio ← optInt kw "prio"
    let del ← optBool kw "del"
    let new ← optBool kw "new"
    let safe ← optBool kw "safe"
    let md ← match kw.getObjVal? "md" with
      | .ok m => mdOf m
      | .error _ => pure []
    pure { prio, del, new, safe, md }

def tagOf (j : Json) : P TagKind :=
  match j.getObjVal? "t" with
  | .error _ => .ok .none
  | .ok .null => .ok .none
  | .ok t => do
    let k ← match t.getObjVal? "k" with
      | .ok (.str k) => pure k
      | _ => .error s!"bad tag {t.compress}"
    let f := match t.getObjVal? "f" with
      | .ok (.str f) => f
      | _ => ""
    match k with
    | "plain" => pure .plain
    | "xref" => pure .xref
    | "prev" => pure .prev
    | "required" => pure .required
    | "null" => pure .null
    | "clear" => pure .clear
    | "append" => pure .append
    | "extend" => pure .extend
    | "eval" => pure .eval
    | "fstr" => pure .fstr
    | "import" => pure .imp
    | "call" => pure (.call f)
    | "bind" => pure (.bind f)
    | "callName" => pure .callName
    | "bindName" => pure .bindName
    | "path" => pure (.path f)
    | "include" => pure .incl
    | _ => .error s!"unknown tag kind {k}"

def rvalOf (j : Json) : P RVal :=
  match j.getObjVal? "e" with
  | .ok _ => .ok .empty
  | .error _ =>
    match j.getObjVal? "x" with
    | .ok (.str s) => .ok (.text s)
    | _ =>
      match j.getObjVal? "l" with
      | .ok v => do let s ← scalarOf v; pure (.lit s)
      | .error _ => .error s!"bad scalar content {j.compress}"

partial def rawOf (j : Json) : P Raw := do
  let t ← tagOf j
  let kw ← kwOf j
  match j.getObjVal? "s" with
  | .ok v => do let rv ← rvalOf v; pure (.scalar t kw rv)
  | .error _ =>
    match j.getObjVal? "q" with
    | .ok (.arr a) => do
      let items ← a.toList.mapM rawOf
      pure (.seq t kw items)
    | _ =>
      match j.getObjVal? "m" with
      | .ok (.arr a) => do
        let items ← a.toList.mapM (fun e =>
          match e with
          | .arr #[k, v] => do let kk ← keyOf k; let vv ← rawOf v; pure (kk, vv)
          | _ => .error s!"bad mapping entry {e.compress}")
        pure (.map t kw items)
      | _ => .error s!"bad raw node {j.compress}"

def envOf (j : Json) : P Env := do
  let safe ← optBool j "safe"
  let src ← optStr j "src"
  pure { dSafe := safe.getD true, src }

/-! ### encoding -/

def scalarJ : Scalar → Json
  | .null => .null
  | .bool b => .bool b
  | .int i => .num (JsonNumber.fromInt i)
  | .float r => Json.mkObj [("f", .str r)]
  | .str s => .str s

def keyJ : Key → Json
  | .int i => .num (JsonNumber.fromInt i)
  | .str s => .str s
  | .float r => Json.mkObj [("f", .str r)]

def pathJ (p : Path) : Json := .arr (p.map keyJ).toArray

def optBoolJ : Option Bool → Json
  | none => .null
  | some b => .bool b

def flagsJ (n : Node) : Json :=
  let f := n.flags
  Json.mkObj [
    ("prio", match f.prio with | none => .null | some p => .num (JsonNumber.fromInt p)),
    ("del", optBoolJ f.del), ("new", optBoolJ f.new), ("safe", optBoolJ f.safe),
    ("iDel", optBoolJ f.iDel), ("iNew", optBoolJ f.iNew), ("iSafe", optBoolJ f.iSafe),
    ("dSafe", .bool f.dSafe),
    ("md", .arr (f.md.map (fun kv => Json.arr #[.str kv.1, scalarJ kv.2])).toArray),
    ("src", match f.src with | none => .null | some s => .str s),
    ("ePrio", .num (JsonNumber.fromInt (ePrio f))), ("eDel", .bool (eDel n)),
    ("eNew", .bool (eNew f)), ("eSafe", .bool (eSafe f))]

def leafKindJ : LeafKind → List (String × Json)
  | .scalar v => [("k", .str "scalar"), ("v", scalarJ v)]
  | .xref p => [("k", .str "xref"), ("v", .str p)]
  | .prev p => [("k", .str "prev"), ("v", .str p)]
  | .eval c => [("k", .str "eval"), ("v", .str c)]
  | .fstr c => [("k", .str "fstr"), ("v", .str c)]
  | .imp c => [("k", .str "import"), ("v", .str c)]
  | .required => [("k", .str "required")]
  | .clear => [("k", .str "clear")]
  | .incl fs => [("k", .str "include"), ("v", .arr (fs.map Json.str).toArray)]

def compKindJ : CompKind → List (String × Json)
  | .dict => [("k", .str "dict")]
  | .call f => [("k", .str "call"), ("v", .str f)]
  | .bind f => [("k", .str "bind"), ("v", .str f)]
  | .list => [("k", .str "list")]
  | .append => [("k", .str "append")]
  | .extend => [("k", .str "extend")]
  | .path r => [("k", .str "path"), ("v", .str r)]
  | .stream => [("k", .str "stream")]

partial def nodeJ : Node → Json
  | .leaf f k => Json.mkObj (leafKindJ k ++ [("f", flagsJ (.leaf f k))])
  | .comp f k cs =>
    Json.mkObj (compKindJ k ++ [("f", flagsJ (.comp f k cs)),
      ("c", .arr (cs.map (fun kv => Json.arr #[keyJ kv.1, nodeJ kv.2])).toArray)])

def errJ : Err → Json
  | .parsing => Json.mkObj [("err", .str "parsing")]
  | .preprocess ms => Json.mkObj [("err", .str "preprocess"), ("missing", .arr (ms.map Json.str).toArray)]
  | .premerge => Json.mkObj [("err", .str "premerge")]
  | .merge => Json.mkObj [("err", .str "merge")]
  | .notnew p => Json.mkObj [("err", .str "merge"), ("notnew", pathJ p)]
  | .eval => Json.mkObj [("err", .str "eval")]
  | .recursion => Json.mkObj [("err", .str "recursion")]
  | .unsafeE => Json.mkObj [("err", .str "unsafe")]
  | .required ps => Json.mkObj [("err", .str "required"), ("paths", .arr (ps.map pathJ).toArray)]
  | .value => Json.mkObj [("err", .str "value")]
  | .unsupported => Json.mkObj [("err", .str "unsupported")]

def sigOf (j : Json) : P Sig :=
  match j with
  | .arr a => a.toList.mapM (fun e =>
      match e with
      | .arr #[.str nm, .str kd, d] => do
        let kind ← match kd with
          | "pk" => pure ParamKind.posOrKw
          | "va" => pure ParamKind.varPos
          | "ko" => pure ParamKind.kwOnly
          | "vk" => pure ParamKind.varKw
          | _ => .error s!"bad param kind {kd}"
        let dflt ← match d with
          | .arr #[v] => do let s ← scalarOf v; pure (some s)
          | _ => pure none
        pure { name := nm, kind := kind, dflt := dflt }
      | _ => .error s!"bad param {e.compress}")
  | _ => .error "signature list expected"

def strList (j : Json) (k : String) : P (List String) :=
  match j.getObjVal? k with
  | .ok (.arr a) => a.toList.mapM (fun e => match e with | .str s => pure s | _ => .error "string expected")
  | _ => .ok []

def worldOf (j : Json) : P World :=
  match j.getObjVal? "world" with
  | .error _ => .ok {}
  | .ok w => do
    let sigs ← match w.getObjVal? "sigs" with
      | .ok (.arr a) => a.toList.mapM (fun e =>
          match e with
          | .arr #[.str nm, sg] => do let s ← sigOf sg; pure (nm, s)
          | _ => .error "bad sigs entry")
      | _ => pure []
    let modules ← strList w "modules"
    let syms ← strList w "syms"
    let builtins ← strList w "builtins"
    let cwd ← optStr w "cwd"
    pure { sigs, modules, syms, builtins, cwd := cwd.getD "/" }

partial def valJ : Val → Json
  | .scalar s => scalarJ s
  | .dict o items => Json.mkObj [("d", .arr (items.map (fun kv => Json.arr #[keyJ kv.1, valJ kv.2])).toArray), ("o", pathJ o)]
  | .list o items => Json.mkObj [("l", .arr (items.map valJ).toArray), ("o", pathJ o)]
  | .app o f named va vk => Json.mkObj [("app", .str f),
      ("named", .arr (named.map (fun kv => Json.arr #[.str kv.1, valJ kv.2])).toArray),
      ("va", .arr (va.map valJ).toArray),
      ("vk", .arr (vk.map (fun kv => Json.arr #[.str kv.1, valJ kv.2])).toArray), ("o", pathJ o)]
  | .part o f pos kw => Json.mkObj [("part", .str f), ("pos", .arr (pos.map valJ).toArray),
      ("kw", .arr (kw.map (fun kv => Json.arr #[.str kv.1, valJ kv.2])).toArray), ("o", pathJ o)]
  | .tuple o items => Json.mkObj [("t", .arr (items.map valJ).toArray), ("o", pathJ o)]
  | .sym nm => Json.mkObj [("sym", .str nm)]
  | .pathv s => Json.mkObj [("path", .str s)]
  | .strs l => Json.mkObj [("l", .arr (l.map Json.str).toArray), ("o", .null)]

partial def plainJ : Plain → Json
  | .scalar s => scalarJ s
  | .list xs => Json.mkObj [("l", .arr (xs.map plainJ).toArray)]
  | .dict xs => Json.mkObj [("d", .arr (xs.map (fun kv => Json.arr #[keyJ kv.1, plainJ kv.2])).toArray)]

end AY.Codec
