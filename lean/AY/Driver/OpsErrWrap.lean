/-
  AY.Driver.OpsErrWrap — driver op for the error wrapping of errors.py (AY.Model.ErrWrap; property C12, family `errwrap` of
  harness/props/c12.py).  Driver only; not part of the model.

  {"op":"errwrap","flags":[rethrow, include_original_exception, shorten_traceback],"guard":bool?,"calls":[prog…]}
     prog = "ret" | {"raise":exc} | {"point":cls,"site":{"node":n|null,"path":s|null,"other":n|null},"body":prog}
          | {"api":prog} | {"seq":[prog,prog]} | {"attempt":[prog,prog]}
     exc  = {"cls":[kind,name],"text":s,"pl":{"msg","node","path","extra","note"}|null,"cause":exc|null,"context":exc|null,"suppress":b}
            kind: "ay" | "foreign" | "base"
    → {"calls":[{"res":"ok" | exc,"guard":bool}…]}     consecutive top-level calls in one thread, the guard after each
-/
import Lean.Data.Json
import AY.Model.ErrWrap
open Lean

namespace AY.OpsErrWrap
open AY.ErrWrap

def ayOf (s : String) : Except String AyCls :=
  if s = "Error" then .ok .error else if s = "ParsingError" then .ok .parsing else if s = "PreprocessError" then .ok .preprocess
  else if s = "PremergeError" then .ok .premerge else if s = "MergeError" then .ok .merge else if s = "EvalError" then .ok .eval
  else if s = "UnsafeError" then .ok .unsafeErr else .error ("unknown awesomeyaml error class " ++ s)

def optStr (j : Json) (k : String) : Option String :=
  match j.getObjVal? k with
  | .ok (.str s) => some s
  | _ => none

def optNat (j : Json) (k : String) : Option Nat :=
  match j.getObjVal? k with
  | .ok v => match v.getNat? with
    | .ok n => some n
    | .error _ => none
  | _ => none

def clsOf (j : Json) : Except String Cls :=
  match j with
  | .arr #[.str "ay", .str n] => (ayOf n).map Cls.ay
  | .arr #[.str "foreign", .str n] => .ok (.foreign n)
  | .arr #[.str "base", .str n] => .ok (.baseOnly n)
  | _ => .error "cls: [kind,name] expected"

def plOf (j : Json) : Payload :=
  { msg := optStr j "msg", node := optNat j "node", path := optStr j "path", extra := optNat j "extra", note := optStr j "note" }

partial def excOf (j : Json) : Except String Exc := do
  let cls ← match j.getObjVal? "cls" with
    | .ok c => clsOf c
    | .error e => .error e
  let text := (optStr j "text").getD ""
  let pl := match j.getObjVal? "pl" with
    | .ok (.obj o) => plOf (.obj o)
    | _ => {}
  let cause ← match j.getObjVal? "cause" with
    | .ok .null => pure none
    | .ok c => (excOf c).map some
    | .error _ => pure none
  let context ← match j.getObjVal? "context" with
    | .ok .null => pure none
    | .ok c => (excOf c).map some
    | .error _ => pure none
  let suppress := match j.getObjVal? "suppress" with
    | .ok (.bool b) => b
    | _ => false
  pure (.mk cls text pl cause context suppress)

def siteOf (j : Json) : Site :=
  { node := optNat j "node", path := optStr j "path", other := optNat j "other" }

partial def progOf (j : Json) : Except String Prog :=
  match j with
  | .str "ret" => .ok .ret
  | _ =>
    match j.getObjVal? "raise", j.getObjVal? "point", j.getObjVal? "api", j.getObjVal? "seq", j.getObjVal? "attempt" with
    | .ok e, _, _, _, _ => (excOf e).map Prog.raise
    | _, .ok (.str c), _, _, _ => do
      let ty ← ayOf c
      let site := match j.getObjVal? "site" with
        | .ok s => siteOf s
        | .error _ => {}
      let body ← match j.getObjVal? "body" with
        | .ok b => progOf b
        | .error e => .error e
      pure (.point ty site body)
    | _, _, .ok b, _, _ => (progOf b).map Prog.api
    | _, _, _, .ok (.arr #[a, b]), _ => do pure (.seq (← progOf a) (← progOf b))
    | _, _, _, _, .ok (.arr #[a, b]) => do pure (.attempt (← progOf a) (← progOf b))
    | _, _, _, _, _ => .error "prog expected"

def optStrJ : Option String → Json
  | none => .null
  | some s => .str s
def optNatJ : Option Nat → Json
  | none => .null
  | some n => .num (JsonNumber.fromNat n)

def clsJ : Cls → Json
  | .ay c => .arr #[.str "ay", .str c.name]
  | .foreign n => .arr #[.str "foreign", .str n]
  | .baseOnly n => .arr #[.str "base", .str n]

def plJ (p : Payload) : Json :=
  Json.mkObj [("msg", optStrJ p.msg), ("node", optNatJ p.node), ("path", optStrJ p.path), ("extra", optNatJ p.extra), ("note", optStrJ p.note)]

partial def excJ (e : Exc) : Json :=
  Json.mkObj [("cls", clsJ e.cls), ("str", .str e.str), ("pl", if e.cls.isAy then plJ e.pl else .null),
    ("cause", match e.cause with | none => .null | some c => excJ c),
    ("context", match e.context with | none => .null | some c => excJ c),
    ("suppress", .bool e.suppress)]

def callJ (r : Except Exc Unit × Bool) : Json :=
  Json.mkObj [("res", match r.1 with | .ok _ => .str "ok" | .error e => excJ e), ("guard", .bool r.2)]

/-- op "errwrap" -/
def opErrWrap (j : Json) : Json :=
  let r : Except String Json := do
    let fl ← match j.getObjVal? "flags" with
      | .ok (.arr #[.bool a, .bool b, .bool c]) => pure ({ rethrow := a, includeOriginal := b, shorten := c } : Flags)
      | _ => .error "flags: [bool,bool,bool] expected"
    let g := match j.getObjVal? "guard" with
      | .ok (.bool b) => b
      | _ => false
    let calls ← match j.getObjVal? "calls" with
      | .ok (.arr a) => a.toList.mapM progOf
      | _ => .error "calls: array expected"
    pure (Json.mkObj [("calls", .arr ((runCalls fl calls g).map callJ).toArray)])
  match r with
  | .ok a => a
  | .error e => Json.mkObj [("bad", .str e)]

end AY.OpsErrWrap
