/-
  AY.Driver.OpsFromPy — driver op "fromPy" (driver only; not part of the model).

  Request:  {"op":"fromPy","data":P,"kw":{…}?,"safe":bool?,"src":str?}
              P    plain Python data: a scalar in the protocol form of harness/common.py `sc_json`
                   (null | bool | int | str | {"f": repr}), {"l":[P,…]} for a list, {"d":[[key,P],…]} for a dict
                   (the shape `Codec.plainJ` writes)
              kw   the constructor keywords: prio del new safe md src iDel iNew iSafe (absent / null = None)
              safe / src   the thread-local defaults at the time of the call (`Codec.envOf`: safe defaults to true)
  Answer:   {"ok": node, "copy": node, "pickle": node, "consistent": bool, "wellKeyed": bool, "keysDistinct": bool}
              node in the `nodeJ` shape of op "merge" — `fromPy`, `reconstructCopy`, `reconstructPickle` of it
            {"err":"value"} for a priority the constructors reject
-/
import Lean.Data.Json
import AY.Driver.Codec
import AY.Model.Copy
import AY.Model.FromPy
open Lean

namespace AY.OpsFromPy
open AY.Codec

partial def plainOf (j : Json) : P Plain :=
  match j.getObjVal? "l" with
  | .ok (.arr a) => do
    let xs ← a.toList.mapM plainOf
    pure (.list xs)
  | _ =>
    match j.getObjVal? "d" with
    | .ok (.arr a) => do
      let xs ← a.toList.mapM (fun e =>
        match e with
        | .arr #[k, v] => do let kk ← keyOf k; let vv ← plainOf v; pure (kk, vv)
        | _ => .error s!"bad dict entry {e.compress}")
      pure (.dict xs)
    | _ => do
      let s ← scalarOf j
      pure (.scalar s)

def pyKwOf (j : Json) : P PyKw :=
  match j.getObjVal? "kw" with
  | .error _ => .ok {}
  | .ok .null => .ok {}
  | .ok kw => do
    let prio ← optInt kw "prio"
    let del ← optBool kw "del"
    let new ← optBool kw "new"
    let safe ← optBool kw "safe"
    let md ← match kw.getObjVal? "md" with
      | .ok .null => pure []
      | .ok m => mdOf m
      | .error _ => pure []
    let src ← optStr kw "src"
    let iDel ← optBool kw "iDel"
    let iNew ← optBool kw "iNew"
    let iSafe ← optBool kw "iSafe"
    pure { prio, del, new, safe, md, src, iDel, iNew, iSafe }

def opFromPy (j : Json) : Json :=
  match envOf j, pyKwOf j, (match j.getObjVal? "data" with | .ok d => plainOf d | .error e => .error e) with
  | .error e, _, _ => Json.mkObj [("bad", .str e)]
  | _, .error e, _ => Json.mkObj [("bad", .str e)]
  | _, _, .error e => Json.mkObj [("bad", .str e)]
  | .ok env, .ok kw, .ok d =>
    match fromPyE env kw d with
    | .error e => errJ e
    | .ok n =>
      let red := reduceNode n
      Json.mkObj [("ok", nodeJ n), ("copy", nodeJ (reconstructCopy red)), ("pickle", nodeJ (reconstructPickle red)),
        ("consistent", .bool (FlagsConsistent n)), ("wellKeyed", .bool (WellKeyed n)),
        ("keysDistinct", .bool (pyKeysDistinct d))]

end AY.OpsFromPy
