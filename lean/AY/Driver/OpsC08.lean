/-
  AY.Driver.OpsC08 — driver op of property C08: the string step of command-line overrides
  (driver only; not part of the model).

  {"op":"c08tokens","options":[str…]}
    → {"ok":[ans…]}   one answer per option, in order:
      ans = {"type":"raw","text":str,"raw":true}                       text = the option, unchanged
          | {"type":"file","text":str,"raw":false}                     text = the stripped option
          | {"type":"inline","error":"IndexError"|"ValueError"}        process_cmdline raises
          | {"type":"inline","tagged":bool,"parts":[[name,[int…]]…],"value":str,
             "path":[key…],"ykeys":[key|null…],"text":str,"raw":true}
        parts = `tokens`, path = `tokensToPath parts`, text = the YAML text `process_cmdline` emits,
        ykeys = per part `yamlNameKey` of the (stripped) name: the mapping key the YAML loader makes of
        it (null = outside the model)
  {"op":"c08int","texts":[str…]} → {"ok":[int|null…]}                  `int(text)`, null = ValueError
-/
import Lean.Data.Json
import AY.Model.Cmdline
import AY.Driver.Codec
open Lean

namespace AY.OpsC08
open AY.Codec

def errName : CmdErr → String
  | .index => "IndexError"
  | .value => "ValueError"

def intJ (i : Int) : Json := .num (JsonNumber.fromInt i)

def groupJ (g : String × List Int) : Json := .arr #[.str g.1, .arr (g.2.map intJ).toArray]

def optionJ (s : String) : Json :=
  match optionType s with
  | .raw => Json.mkObj [("type", .str "raw"), ("text", .str s), ("raw", .bool true)]
  | .file => Json.mkObj [("type", .str "file"), ("text", .str (strip s)), ("raw", .bool false)]
  | .inline =>
    match tokensE s.toList with
    | .error e => Json.mkObj [("type", .str "inline"), ("error", .str (errName e))]
    | .ok (t, gs, v) =>
      let parts := gs.map groupStr
      Json.mkObj [("type", .str "inline"), ("tagged", .bool t), ("parts", .arr (parts.map groupJ).toArray),
        ("value", .str (String.ofList v)), ("path", pathJ (tokensToPath parts)),
        ("ykeys", .arr (parts.map (fun g => match yamlNameKey (strip g.1) with | some k => keyJ k | none => .null)).toArray),
        ("text", .str (String.ofList (emitTextC t gs v))), ("raw", .bool true)]

/-- op "c08tokens" -/
def opC08 (j : Json) : Json :=
  match j.getObjVal? "options" with
  | .ok (.arr a) =>
    match a.toList.mapM (fun e => match e with | .str s => Except.ok s | _ => Except.error "string expected") with
    | .ok opts => Json.mkObj [("ok", .arr (opts.map optionJ).toArray)]
    | .error e => Json.mkObj [("bad", .str e)]
  | _ => Json.mkObj [("bad", .str "options expected")]

/-- op "c08int": Python's `int(text)` -/
def opC08Int (j : Json) : Json :=
  match j.getObjVal? "texts" with
  | .ok (.arr a) =>
    match a.toList.mapM (fun e => match e with | .str s => Except.ok s | _ => Except.error "string expected") with
    | .ok ts => Json.mkObj [("ok", .arr (ts.map (fun t => match pyInt t with | some i => intJ i | none => .null)).toArray)]
    | .error e => Json.mkObj [("bad", .str e)]
  | _ => Json.mkObj [("bad", .str "texts expected")]

end AY.OpsC08
