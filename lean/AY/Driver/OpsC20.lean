/-
  AY.Driver.OpsC20 — driver op "c20" (driver only; not part of the model).

  Request:  {"op":"c20","trace":[[tid, ev], ...]}      ev = ["enter",slot,val] | ["exit",slot] | ["read",slot]
            | ["apiEnter"] | ["apiExit"] | ["raise",what] | ["init",slot] | ["save",slot] | ["install",slot,val]
            | ["apiCheck"] | ["apiSet"];   slot = "file" | "safe";   val = null | true | false | "text"
  Answer:   {"obs":    [[tid, val], ...]   observations of `replay localAddr` (per-thread cells), one per
                                           read / apiEnter / apiCheck / raise event, in trace order,
             "shared": [[tid, val], ...]   the same for `replay sharedAddr` (the broken machine),
             "threads":[{"t":tid,"wb":bool,"reads":[val,...]}, ...]
                                           per thread: its events with the single-line events folded into whole
                                           `enter`/`apiEnter` events, whether that program is `wellBracketed`,
                                           and the reads prescribed by `specReads` (C20_reads_own_context)}
-/
import Lean.Data.Json
import AY.Model.Slots
open Lean

namespace AY.Slots.Codec

def slotOf (j : Json) : Except String Slot :=
  match j with
  | .str "file" => .ok .file
  | .str "safe" => .ok .safe
  | _ => .error s!"bad slot {j.compress}"

def valOf (j : Json) : Except String Val :=
  match j with
  | .null => .ok .pyNone
  | .bool b => .ok (.bool b)
  | .str s => .ok (.str s)
  | _ => .error s!"bad slot value {j.compress}"

def valJ : Val → Json
  | .pyNone => .null
  | .bool b => .bool b
  | .str s => .str s

def eventOf (j : Json) : Except String Event :=
  match j with
  | .arr #[.str "enter", s, v] => do let s ← slotOf s; let v ← valOf v; pure (.enter s v)
  | .arr #[.str "exit", s] => do let s ← slotOf s; pure (.exit s)
  | .arr #[.str "read", s] => do let s ← slotOf s; pure (.read s)
  | .arr #[.str "apiEnter"] => .ok .apiEnter
  | .arr #[.str "apiExit"] => .ok .apiExit
  | .arr #[.str "raise", .str w] => .ok (.raise w)
  | .arr #[.str "init", s] => do let s ← slotOf s; pure (.slotInit s)
  | .arr #[.str "save", s] => do let s ← slotOf s; pure (.slotSave s)
  | .arr #[.str "install", s, v] => do let s ← slotOf s; let v ← valOf v; pure (.slotInstall s v)
  | .arr #[.str "apiCheck"] => .ok .apiCheck
  | .arr #[.str "apiSet"] => .ok .apiSet
  | _ => .error s!"bad event {j.compress}"

def tidOf (j : Json) : Except String Nat :=
  match j with
  | .num n => if n.exponent = 0 ∧ n.mantissa ≥ 0 then .ok n.mantissa.toNat else .error s!"bad thread id {j.compress}"
  | _ => .error s!"bad thread id {j.compress}"

def entryOf (j : Json) : Except String (Nat × Event) :=
  match j with
  | .arr #[t, e] => do let t ← tidOf t; let e ← eventOf e; pure (t, e)
  | _ => .error s!"bad trace entry {j.compress}"

def traceOf (j : Json) : Except String Interleaving :=
  match j.getObjVal? "trace" with
  | .ok (.arr a) => a.toList.mapM entryOf
  | _ => .error "trace expected"

def obsJ (o : Obs) : Json := .arr #[.num (o.tid : Int), valJ o.val]

/-- fold the single source lines of a context-manager entry / of `api_entry` into the whole events;
an `apiCheck` that is not followed by `apiSet` is a nested entry -/
def coarsen : List Event → List Event
  | [] => []
  | .slotInit s :: .slotSave s2 :: .slotInstall s3 v :: rest =>
    match decide (s = s2 ∧ s2 = s3) with
    | true => .enter s v :: coarsen rest
    | false => .slotInit s :: .slotSave s2 :: .slotInstall s3 v :: coarsen rest
  | .apiCheck :: .apiSet :: rest => .apiEnter :: coarsen rest
  | .apiCheck :: rest => .apiEnter :: coarsen rest
  | e :: rest => e :: coarsen rest

def maxTid : Interleaving → Nat
  | [] => 0
  | (t, _) :: rest => Nat.max (t + 1) (maxTid rest)

def threadJ (tr : Interleaving) (t : Nat) : Json :=
  let es := coarsen (eventsOf t tr)
  Json.mkObj [("t", .num (t : Int)), ("wb", .bool (wellBracketed es)),
              ("reads", .arr ((specReads t [] es).map (fun o => valJ o.val)).toArray)]

end AY.Slots.Codec

open AY.Slots AY.Slots.Codec in
/-- op "c20": replay a recorded interleaved execution through the slot machine -/
def opC20 (j : Json) : Json :=
  match traceOf j with
  | .error e => Json.mkObj [("bad", .str e)]
  | .ok tr =>
    Json.mkObj [
      ("obs", .arr ((replay localAddr tr Machine.init).map obsJ).toArray),
      ("shared", .arr ((replay sharedAddr tr Machine.init).map obsJ).toArray),
      ("threads", .arr ((List.range (maxTid tr)).map (threadJ tr)).toArray)]
