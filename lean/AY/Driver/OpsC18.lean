/-
  AY.Driver.OpsC18 — driver op "c18" (driver only; not part of the model).

  Request:  {"op":"c18","docs":[{"raw":…,"safe":bool?,"src":str?},…]}
  Answer:   {"ok":[R,…]} one per document, or {"err":…} when a document does not parse;
            R = {"tree": node,                      -- construct env raw
                 "dump": {"raw": Raw},                -- represent tree (the dump always exists)
                 "tree2": node | {"err":…},         -- construct env (represent tree)       (when dump ok)
                 "dump2": {"raw": Raw} | {"err":…}} -- represent tree2                      (when tree2 ok)
            Raw is encoded in the request format (`s`/`q`/`m`, `t`, `kw`).
-/
import Lean.Data.Json
import AY.Driver.Codec
import AY.Model.Dump
open Lean

namespace AY.OpsC18
open AY.Codec

def parseDocs (j : Json) : Except String (List (Env × Raw)) :=
  match j.getObjVal? "docs" with
  | .ok (.arr a) => a.toList.mapM (fun d => do
      let env ← envOf d
      let raw ← match d.getObjVal? "raw" with
        | .ok r => rawOf r
        | .error e => .error e
      pure (env, raw))
  | _ => .error "docs expected"

def tagJ : TagKind → Option Json
  | .none => none
  | .plain => some (Json.mkObj [("k", .str "plain")])
  | .xref => some (Json.mkObj [("k", .str "xref")])
  | .prev => some (Json.mkObj [("k", .str "prev")])
  | .required => some (Json.mkObj [("k", .str "required")])
  | .null => some (Json.mkObj [("k", .str "null")])
  | .clear => some (Json.mkObj [("k", .str "clear")])
  | .append => some (Json.mkObj [("k", .str "append")])
  | .extend => some (Json.mkObj [("k", .str "extend")])
  | .eval => some (Json.mkObj [("k", .str "eval")])
  | .fstr => some (Json.mkObj [("k", .str "fstr")])
  | .imp => some (Json.mkObj [("k", .str "import")])
  | .call f => some (Json.mkObj [("k", .str "call"), ("f", .str f)])
  | .bind f => some (Json.mkObj [("k", .str "bind"), ("f", .str f)])
  | .callName => some (Json.mkObj [("k", .str "callName")])
  | .bindName => some (Json.mkObj [("k", .str "bindName")])
  | .path r => some (Json.mkObj [("k", .str "path"), ("f", .str r)])
  | .incl => some (Json.mkObj [("k", .str "include")])

def kwJ (kw : CtorKw) : Option Json :=
  if kw.isEmpty then none
  else some (Json.mkObj (
    (match kw.prio with | some p => [("prio", Json.num (JsonNumber.fromInt p))] | none => []) ++
    (match kw.del with | some b => [("del", Json.bool b)] | none => []) ++
    (match kw.new with | some b => [("new", Json.bool b)] | none => []) ++
    (match kw.safe with | some b => [("safe", Json.bool b)] | none => []) ++
    (if kw.md.isEmpty then [] else [("md", Json.arr (kw.md.map (fun e => Json.arr #[.str e.1, scalarJ e.2])).toArray)])))

def rvalJ : RVal → Json
  | .empty => Json.mkObj [("e", .num 1)]
  | .lit v => Json.mkObj [("l", scalarJ v)]
  | .text s => Json.mkObj [("x", .str s)]

def withTagKw (t : TagKind) (kw : CtorKw) (body : List (String × Json)) : Json :=
  Json.mkObj (body ++ (match tagJ t with | some j => [("t", j)] | none => []) ++
    (match kwJ kw with | some j => [("kw", j)] | none => []))

partial def rawJ : Raw → Json
  | .scalar t kw v => withTagKw t kw [("s", rvalJ v)]
  | .seq t kw items => withTagKw t kw [("q", .arr (items.map rawJ).toArray)]
  | .map t kw items => withTagKw t kw [("m", .arr (items.map (fun kv => Json.arr #[keyJ kv.1, rawJ kv.2])).toArray)]

def dumpJ (n : Node) : Json := Json.mkObj [("raw", rawJ (represent n))]

def resultJ (env : Env) (n : Node) : Json :=
  let r := represent n
  match construct env r with
  | .error e => Json.mkObj [("tree", nodeJ n), ("dump", Json.mkObj [("raw", rawJ r)]), ("tree2", errJ e)]
  | .ok n2 => Json.mkObj [("tree", nodeJ n), ("dump", Json.mkObj [("raw", rawJ r)]), ("tree2", nodeJ n2), ("dump2", dumpJ n2)]

def results : List (Env × Raw) → Except Err (List Json)
  | [] => .ok []
  | (env, r) :: rest =>
    match construct env r with
    | .error e => .error e
    | .ok n =>
      match results rest with
      | .error e => .error e
      | .ok js => .ok (resultJ env n :: js)

def opC18 (j : Json) : Json :=
  match parseDocs j with
  | .error e => Json.mkObj [("bad", .str e)]
  | .ok docs =>
    match results docs with
    | .error e => errJ e
    | .ok js => Json.mkObj [("ok", .arr js.toArray)]

end AY.OpsC18
