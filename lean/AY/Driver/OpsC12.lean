/-
  AY.Driver.OpsC12 — driver op "c12" (driver only; not part of the model).

  Requests ({"op":"c12","q":<query>, ...}):
    q = "resolve": {"defs":[..],"syms":[..],"cfg":[..],"builtins":[..],"locals":[..],"names":[..],"build":k}
        → {"spec":[cls..]          `resolve` (the order stated by C12)
           "mech":[[cls,prov]..]   `Globals.lookup` on the fresh namespace of the build after the stores (LOAD_GLOBAL / module-level LOAD_NAME)
           "cbody":[[cls,prov]..]} `Globals.lookupClassBody` with the given class locals}
    q = "split":   {"stmts":[[kind,text]..]}   kind = "expr" | "other": the top-level statements of Python's parse of the code
        → {"exec":[text..],"eval":text,"multi":bool} | {"error":"syntax","multi":bool}        `splitStmts`, `multiStmt`
    q = "fstr":    {"explicit":bool,"s":text} → {"code":text|null}                 `normFstr`
    q = "hist":    {"builtins":[..],"steps":[{"build":k,"syms":[..],"cfg":[..],"path":text,"code":text,"stmts":n,
                     "persistent":bool,"defs":[..],"fails":bool,"names":[..]}..]}
        → {"steps":[{"lookups":[[cls,prov]..],"published":bool,"publishes":bool,"fresh":[[cls,prov]..]}..]}
          `evalStep` folded over the steps from the empty registry; "published": the key of the step is
          in the registry afterwards; "fresh": the lookups in `freshGlobals`; cls ∈ def|sym|cfg|builtin|nameError|injected
-/
import Lean.Data.Json
import AY.Model.Resolve
open Lean

namespace AY.Resolve.Codec

def strList (j : Json) (k : String) : Except String (List String) :=
  match j.getObjVal? k with
  | .ok (.arr a) => a.toList.mapM (fun x => match x with
      | .str s => .ok s
      | _ => .error s!"string expected in {k}")
  | .ok .null => .ok []
  | .error _ => .ok []
  | _ => .error s!"list expected for {k}"

def strOf (j : Json) (k : String) : Except String String :=
  match j.getObjVal? k with
  | .ok (.str s) => .ok s
  | _ => .error s!"string expected for {k}"

def boolOf (j : Json) (k : String) (dflt : Bool) : Bool :=
  match j.getObjVal? k with
  | .ok (.bool b) => b
  | _ => dflt

def natOf (j : Json) (k : String) : Nat :=
  match j.getObjVal? k with
  | .ok (.num n) => if n.exponent = 0 ∧ n.mantissa ≥ 0 then n.mantissa.toNat else 0
  | _ => 0

def resJ : Resolution → Json
  | .defn => .str "def"
  | .sym => .str "sym"
  | .cfg => .str "cfg"
  | .builtin => .str "builtin"
  | .nameError => .str "nameError"
  | .injected => .str "injected"

def foundJ (f : Resolution × Option Nat) : Json :=
  .arr #[resJ f.1, match f.2 with | some k => .num (k : Int) | none => .null]

def opResolve (j : Json) : Except String Json := do
  let defs ← strList j "defs"
  let syms ← strList j "syms"
  let cfg ← strList j "cfg"
  let bi ← strList j "builtins"
  let locals ← strList j "locals"
  let names ← strList j "names"
  let c : Ctx := { build := natOf j "build", syms := syms, cfg := cfg }
  let g : Globals := { dict := execDefs defs c.build (freshDict c), cfg := cfg, build := c.build }
  pure (Json.mkObj [
    ("spec", .arr (names.map (fun n => resJ (resolve defs syms cfg bi n))).toArray),
    ("mech", .arr (names.map (fun n => foundJ (Globals.lookup bi g n))).toArray),
    ("cbody", .arr (names.map (fun n => foundJ (Globals.lookupClassBody bi locals g n))).toArray)])

def stmtOf (j : Json) : Except String Stmt :=
  match j with
  | .arr #[.str "expr", .str t] => .ok (.expr t)
  | .arr #[.str "other", .str t] => .ok (.other t)
  | _ => .error s!"bad statement {j.compress}"

def opSplit (j : Json) : Except String Json := do
  let body ← match j.getObjVal? "stmts" with
    | .ok (.arr a) => a.toList.mapM stmtOf
    | _ => .error "stmts expected"
  match splitStmts body with
  | some (ex, ev) =>
    pure (Json.mkObj [("exec", .arr (ex.map (fun s => Json.str s.src)).toArray), ("eval", .str ev),
                      ("multi", .bool (multiStmt body))])
  | none => pure (Json.mkObj [("error", .str "syntax"), ("multi", .bool (multiStmt body))])

def opFstr (j : Json) : Except String Json := do
  let s ← strOf j "s"
  pure (Json.mkObj [("code", match normFstr (boolOf j "explicit" false) s with
    | some c => .str c
    | none => .null)])

structure StepReq where
  step : Step
  names : List String

def stepOf (j : Json) : Except String StepReq := do
  let syms ← strList j "syms"
  let cfg ← strList j "cfg"
  let defs ← strList j "defs"
  let names ← strList j "names"
  let path ← strOf j "path"
  let code ← strOf j "code"
  pure { step := ({ build := natOf j "build", syms := syms, cfg := cfg },
                  { path := path.toList, code := code.toList, stmts := natOf j "stmts", persistent := boolOf j "persistent" true,
                    defs := defs, fails := boolOf j "fails" false }),
         names := names }

def histGo (bi : List String) : Registry → List StepReq → List Json
  | _, [] => []
  | reg, s :: rest =>
    let r := evalStep reg s.step.1 s.step.2
    Json.mkObj [
      ("publishes", .bool (publishes s.step.2)),
      ("lookups", .arr (s.names.map (fun n => foundJ (Globals.lookup bi r.1 n))).toArray),
      ("fresh", .arr (s.names.map (fun n => foundJ (Globals.lookup bi (freshGlobals s.step) n))).toArray),
      ("published", .bool (Registry.get r.2 s.step.2.key).isSome)] :: histGo bi r.2 rest

def opHist (j : Json) : Except String Json := do
  let bi ← strList j "builtins"
  let steps ← match j.getObjVal? "steps" with
    | .ok (.arr a) => a.toList.mapM stepOf
    | _ => .error "steps expected"
  pure (Json.mkObj [("steps", .arr (histGo bi [] steps).toArray)])

end AY.Resolve.Codec

open AY.Resolve.Codec in
/-- op "c12" -/
def AY.opC12 (j : Json) : Json :=
  let r : Except String Json :=
    match j.getObjVal? "q" with
    | .ok (.str "resolve") => opResolve j
    | .ok (.str "split") => opSplit j
    | .ok (.str "fstr") => opFstr j
    | .ok (.str "hist") => opHist j
    | _ => .error "unknown c12 query"
  match r with
  | .ok a => a
  | .error e => Json.mkObj [("bad", .str e)]
