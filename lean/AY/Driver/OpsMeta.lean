/-
  AY.Driver.OpsMeta — driver ops for the `{{...}}` rewriting on text (AY.Model.MetaText; property C01, family `meta`
  of harness/props/c01.py).  Driver only; not part of the model.  Texts travel as arrays of code points, so that no
  JSON string escaping is involved.

  {"op":"metaSplice","text":[cp…],"ranges":[[beg,end,[cp…]]…],"ends":[[beg,end|null]…]}
    → {"text":[cp…]      `spliceAll text ranges` — the literal loop with the given replacements
       "spec":[cp…]      `spliceSpec text 0 ranges`
       "pre":bool        `rangesOK len 0 ranges` — the precondition of C01_splice_spec
       "erased":[cp…]    `spliceAll text (erasing ranges)`
       "outside":[cp…]   `keepOutside text ranges`
       "found":{"ok":[[beg,end]…]} | {"err":"noEnd","start":n,"beg":n} | {"err":"fuel"}
                         `metadataRanges findEnd text`, findEnd = the table "ends" (absent or null: no end)
       "ownEnds":[[beg,end|null]…]   the model's OWN `metadataEnd text beg` at every position of the table "ends"
       "foundOwn": like "found"      `metadataRangesOwn text` — search loop with the model's own end finder
       "tags":[[start,beg]…]}   every match of the tag regex, by repeated `findTag`
  {"op":"metaSplit","md":[[key,value]…]}        keys: "s:"+name for a str key, anything else for other keys
    → {"kw":[[key,value]…],"user":[[key,value]…]}   `decodeSplit specialNames md`
-/
import Lean.Data.Json
import AY.Model.MetaText
open Lean

namespace AY.OpsMeta
open AY.MetaText

def natOf (j : Json) : Except String Nat :=
  match j.getNat? with
  | .ok n => .ok n
  | .error e => .error e

def charsOf (j : Json) : Except String (List Char) :=
  match j with
  | .arr a => a.toList.mapM (fun x => match natOf x with
      | .ok n => .ok (Char.ofNat n)
      | .error e => .error e)
  | _ => .error "array of code points expected"

def charsJ (cs : List Char) : Json := .arr (cs.map (fun c => Json.num (JsonNumber.fromNat c.toNat))).toArray

def natJ (n : Nat) : Json := .num (JsonNumber.fromNat n)

def rangeOf (j : Json) : Except String (Nat × Nat × List Char) :=
  match j with
  | .arr #[b, e, r] =>
    match natOf b, natOf e, charsOf r with
    | .ok b, .ok e, .ok r => .ok (b, e, r)
    | _, _, _ => .error "range: [beg,end,[cp…]] expected"
  | _ => .error "range: [beg,end,[cp…]] expected"

def endOf (j : Json) : Except String (Nat × Option Nat) :=
  match j with
  | .arr #[b, .null] =>
    match natOf b with
    | .ok b => .ok (b, none)
    | .error e => .error e
  | .arr #[b, e] =>
    match natOf b, natOf e with
    | .ok b, .ok e => .ok (b, some e)
    | _, _ => .error "ends: [beg,end|null] expected"
  | _ => .error "ends: [beg,end|null] expected"

def tableEnd (t : List (Nat × Option Nat)) (b : Nat) : Option Nat :=
  match t.find? (fun x => x.1 = b) with
  | some (_, e) => e
  | none => none

/-- every match of the tag regex, left to right (searching on from one past the start of the last match) -/
def allTags (data : List Char) : Nat → Nat → List (Nat × Nat)
  | 0, _ => []
  | fuel + 1, pos =>
    match findTag data pos with
    | none => []
    | some (s, b) => (s, b) :: allTags data fuel (s + 1)

def foundJ : Except MetaErr (List (Nat × Nat)) → Json
  | .ok rs => Json.mkObj [("ok", .arr (rs.map (fun r => Json.arr #[natJ r.1, natJ r.2])).toArray)]
  | .error (.noEnd s b) => Json.mkObj [("err", .str "noEnd"), ("start", natJ s), ("beg", natJ b)]
  | .error .fuel => Json.mkObj [("err", .str "fuel")]

def arrOf (j : Json) (k : String) : Except String (List Json) :=
  match j.getObjVal? k with
  | .ok (.arr a) => .ok a.toList
  | _ => .error (k ++ ": array expected")

/-- op "metaSplice" -/
def opMetaSplice (j : Json) : Json :=
  let r : Except String Json :=
    match arrOf j "text", arrOf j "ranges", arrOf j "ends" with
    | .ok t, .ok rs, .ok es =>
      match charsOf (.arr t.toArray), rs.mapM rangeOf, es.mapM endOf with
      | .ok text, .ok ranges, .ok ends =>
        let plain := ranges.map (fun r => (r.1, r.2.1))
        .ok (Json.mkObj [
          ("text", charsJ (spliceAll text ranges)),
          ("spec", charsJ (spliceSpec text 0 ranges)),
          ("pre", .bool (rangesOK text.length 0 ranges)),
          ("erased", charsJ (spliceAll text (plain.map (fun r => (r.1, r.2, []))))),
          ("outside", charsJ (keepOutside text plain)),
          ("found", foundJ (metadataRanges (tableEnd ends) text)),
          ("ownEnds", .arr (ends.map (fun x => Json.arr #[natJ x.1,
              match metadataEnd text x.1 with | some e => natJ e | none => .null])).toArray),
          ("foundOwn", foundJ (metadataRangesOwn text)),
          ("tags", .arr ((allTags text (text.length + 1) 0).map (fun r => Json.arr #[natJ r.1, natJ r.2])).toArray)])
      | .error e, _, _ => .error e
      | _, .error e, _ => .error e
      | _, _, .error e => .error e
    | .error e, _, _ => .error e
    | _, .error e, _ => .error e
    | _, _, .error e => .error e
  match r with
  | .ok a => a
  | .error e => Json.mkObj [("bad", .str e)]

def pairOf (j : Json) : Except String (String × Json) :=
  match j with
  | .arr #[.str k, v] => .ok (k, v)
  | _ => .error "md: [key,value] expected"

def pairsJ (l : List (String × Json)) : Json := .arr (l.map (fun kv => Json.arr #[.str kv.1, kv.2])).toArray

/-- op "metaSplit" -/
def opMetaSplit (j : Json) : Json :=
  match arrOf j "md" with
  | .error e => Json.mkObj [("bad", .str e)]
  | .ok l =>
    match l.mapM pairOf with
    | .error e => Json.mkObj [("bad", .str e)]
    | .ok md =>
      let r := decodeSplit (specialNames.map (fun s => "s:" ++ s)) md
      Json.mkObj [("kw", pairsJ r.1), ("user", pairsJ r.2)]

end AY.OpsMeta
