/-
  AY.Driver.OpsC17 — driver ops of property C17 (driver only; not part of the model).

  {"op":"c17","kind":"dict"|"list","init":[[key,val]…] | [val…],"ops":[op…]}
      val  = {"id":n,"eq":m} | {"ref":pos,"id":n,"eq":m}
      op   = {"o":"setItem","k":key,"v":val} | {"o":"delItem","k":key} | {"o":"setAttr","n":str,"v":val}
           | {"o":"delAttr","n":str} | {"o":"setChild","k":key,"v":val} | {"o":"removeChild","k":key}
           | {"o":"renameChild","k":key,"k2":key} | {"o":"clear"} | {"o":"append","v":val}
           | {"o":"extend","vs":[val…]} | {"o":"insert","k":key,"v":val} | {"o":"remove","v":val}
           | {"o":"pop","k":key?,"d":bool?} | {"o":"update","kvs":[[key,val]…]} | {"o":"setdefault","k":key,"v":val}
    → {"init":state,"steps":[{"st":…,"ch":…,"attrs":…,"inv":bool,"out":{"ok":null|[id,eq,node]} | {"exc":name}}…]}
      state = {"st":[[key,id,eq,node]…],"ch":[[key,id,eq,node]…],"attrs":[str…],"inv":bool}
  {"op":"splitPath","s":str}   → {"ok":[key…]} | {"err":"value"}
  {"op":"joinPath","p":[key…]} → {"ok":str}
  {"op":"c17path","p":[key…]}  → {"join":str,"split":[key…]|null}
  {"op":"c17reserved"}         → {"ok":[str…]}
-/
import Lean.Data.Json
import AY.Model.Container
import AY.Driver.Codec
open Lean

namespace AY.OpsC17
open AY.Codec AY.Container

def getNat (j : Json) (k : String) : P Nat :=
  match j.getObjVal? k with
  | .ok v =>
    match getInt v with
    | .ok i => if i < 0 then .error s!"natural number expected for {k}" else .ok i.toNat
    | .error e => .error e
  | .error _ => .error s!"missing field {k} in {j.compress}"

def valOf (j : Json) : P Container.Val := do
  let id ← getNat j "id"
  let eq ← getNat j "eq"
  match j.getObjVal? "ref" with
  | .ok _ => do let pos ← getNat j "ref"; pure (.ref pos id eq)
  | .error _ => pure (.raw id eq)

def fieldKey (j : Json) (k : String) : P Key :=
  match j.getObjVal? k with
  | .ok v => keyOf v
  | .error _ => .error s!"missing key field {k} in {j.compress}"

def fieldVal (j : Json) (k : String) : P Container.Val :=
  match j.getObjVal? k with
  | .ok v => valOf v
  | .error _ => .error s!"missing value field {k} in {j.compress}"

def fieldStr (j : Json) (k : String) : P String :=
  match j.getObjVal? k with
  | .ok (.str s) => .ok s
  | _ => .error s!"missing string field {k} in {j.compress}"

def pairOf (e : Json) : P (Key × Container.Val) :=
  match e with
  | .arr #[k, v] => do let kk ← keyOf k; let vv ← valOf v; pure (kk, vv)
  | _ => .error s!"bad pair {e.compress}"

def opOf (j : Json) : P (Op Container.Val) := do
  let o ← fieldStr j "o"
  match o with
  | "setItem" => do let k ← fieldKey j "k"; let v ← fieldVal j "v"; pure (.setItem k v)
  | "delItem" => do let k ← fieldKey j "k"; pure (.delItem k)
  | "setAttr" => do let n ← fieldStr j "n"; let v ← fieldVal j "v"; pure (.setAttr n v)
  | "delAttr" => do let n ← fieldStr j "n"; pure (.delAttr n)
  | "setChild" => do let k ← fieldKey j "k"; let v ← fieldVal j "v"; pure (.setChild k v)
  | "removeChild" => do let k ← fieldKey j "k"; pure (.removeChild k)
  | "renameChild" => do let k ← fieldKey j "k"; let k2 ← fieldKey j "k2"; pure (.renameChild k k2)
  | "clear" => pure .clear
  | "append" => do let v ← fieldVal j "v"; pure (.append v)
  | "extend" =>
    match j.getObjVal? "vs" with
    | .ok (.arr a) => do let vs ← a.toList.mapM valOf; pure (.extend vs)
    | _ => .error "vs expected"
  | "insert" => do let k ← fieldKey j "k"; let v ← fieldVal j "v"; pure (.insert k v)
  | "remove" => do let v ← fieldVal j "v"; pure (.remove v)
  | "pop" => do
    let k ← match j.getObjVal? "k" with
      | .ok .null => pure none
      | .ok v => do let kk ← keyOf v; pure (some kk)
      | .error _ => pure none
    let d ← optBool j "d"
    pure (.pop k (d.getD false))
  | "update" =>
    match j.getObjVal? "kvs" with
    | .ok (.arr a) => do let kvs ← a.toList.mapM pairOf; pure (.update kvs)
    | _ => .error "kvs expected"
  | "setdefault" => do let k ← fieldKey j "k"; let v ← fieldVal j "v"; pure (.setdefault k v)
  | _ => .error s!"unknown container op {o}"

def natJ (n : Nat) : Json := .num (JsonNumber.fromNat n)

def entryFields (e : Entry) : List Json := [natJ e.id, natJ e.eqc, .bool e.node]

def kvJ (kv : Key × Entry) : Json := .arr (keyJ kv.1 :: entryFields kv.2).toArray

def excName : Exc → String
  | .indexError => "IndexError"
  | .keyError => "KeyError"
  | .typeError => "TypeError"
  | .valueError => "ValueError"
  | .attributeError => "AttributeError"

def outcomeJ : Outcome → Json
  | .ok none => Json.mkObj [("ok", .null)]
  | .ok (some e) => Json.mkObj [("ok", .arr (entryFields e).toArray)]
  | .exc x => Json.mkObj [("exc", .str (excName x))]

def attrsOf : CState → List String
  | .dict _ attrs => attrs
  | .list _ attrs => attrs

def stateFields (s : CState) : List (String × Json) :=
  [("st", .arr (s.storageKV.map kvJ).toArray), ("ch", .arr (s.childKV.map kvJ).toArray),
   ("attrs", .arr ((attrsOf s).map Json.str).toArray), ("inv", .bool (inv s))]

def stepJ (r : CState × Outcome) : Json := Json.mkObj (stateFields r.1 ++ [("out", outcomeJ r.2)])

def initOf (j : Json) : P CState :=
  match j.getObjVal? "kind", j.getObjVal? "init" with
  | .ok (.str "dict"), .ok (.arr a) => do
    let kvs ← a.toList.mapM pairOf
    pure (initDict (kvs.map (resolvePair [])))
  | .ok (.str "list"), .ok (.arr a) => do
    let vs ← a.toList.mapM valOf
    pure (initList (vs.map (resolveIn [])))
  | _, _ => .error "kind/init expected"

/-- op "c17": build the container, run the operations, report both views after every step -/
def opC17 (j : Json) : Json :=
  match initOf j with
  | .error e => Json.mkObj [("bad", .str e)]
  | .ok s0 =>
    match j.getObjVal? "ops" with
    | .ok (.arr a) =>
      match a.toList.mapM opOf with
      | .error e => Json.mkObj [("bad", .str e)]
      | .ok ops =>
        Json.mkObj [("init", Json.mkObj (stateFields s0)), ("steps", .arr ((trace s0 ops).map stepJ).toArray)]
    | _ => Json.mkObj [("bad", .str "ops expected")]

/-- op "splitPath": `NodePath.split_path` -/
def opSplitPath (j : Json) : Json :=
  match j.getObjVal? "s" with
  | .ok (.str s) =>
    match splitPath s with
    | some p => Json.mkObj [("ok", pathJ p)]
    | none => Json.mkObj [("err", .str "value")]
  | _ => Json.mkObj [("bad", .str "s expected")]

/-- op "joinPath": `NodePath.join_path` -/
def opJoinPath (j : Json) : Json :=
  match j.getObjVal? "p" with
  | .ok (.arr a) =>
    match a.toList.mapM keyOf with
    | .ok p => Json.mkObj [("ok", .str (joinPath p))]
    | .error e => Json.mkObj [("bad", .str e)]
  | _ => Json.mkObj [("bad", .str "p expected")]

/-- op "c17path": join a path list and split the text again -/
def opC17Path (j : Json) : Json :=
  match j.getObjVal? "p" with
  | .ok (.arr a) =>
    match a.toList.mapM keyOf with
    | .ok p =>
      Json.mkObj [("join", .str (joinPath p)),
        ("split", match splitPath (joinPath p) with | some q => pathJ q | none => .null)]
    | .error e => Json.mkObj [("bad", .str e)]
  | _ => Json.mkObj [("bad", .str "p expected")]

/-- op "c17reserved": the model's copy of `dir(ConfigDict)` -/
def opC17Reserved (_ : Json) : Json :=
  Json.mkObj [("ok", .arr (reservedNames.map Json.str).toArray)]

end AY.OpsC17
