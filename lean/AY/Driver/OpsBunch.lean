/-
  AY.Driver.OpsBunch — driver op for `Bunch` (AY.Model.Bunch; property C11, family `bunch` of harness/props/c11.py).
  Driver only; not part of the model.  Values are object numbers (the harness numbers Python objects by identity).

  {"op":"bunch","cls":[name…],"items":[[name,n]…],"attrs":[[name,n]…],"ops":[[kind,name]|[kind,name,n]…]}
     kind: getitem setitem delitem getattr setattr delattr contains dictSet
    → {"trace":[res…],"states":[{"items":[[name,n]…],"attrs":[[name,n]…]}…]}    one entry per operation
     res: {"val":n} | "cls" | {"bool":b} | "done" | "KeyError" | "AttributeError" | "ValueError"
-/
import Lean.Data.Json
import AY.Model.Bunch
open Lean

namespace AY.OpsBunch
open AY.Bunch

def natJ (n : Nat) : Json := .num (JsonNumber.fromNat n)

def pairOf (j : Json) : Except String (String × Nat) :=
  match j with
  | .arr #[.str k, v] =>
    match v.getNat? with
    | .ok n => .ok (k, n)
    | .error e => .error e
  | _ => .error "[name,n] expected"

def pairsJ (l : List (String × Nat)) : Json := .arr (l.map (fun kv => Json.arr #[.str kv.1, natJ kv.2])).toArray

def opOf (j : Json) : Except String (Op Nat) :=
  match j with
  | .arr #[.str "getitem", .str n] => .ok (.getitem n)
  | .arr #[.str "delitem", .str n] => .ok (.delitem n)
  | .arr #[.str "getattr", .str n] => .ok (.getattr n)
  | .arr #[.str "delattr", .str n] => .ok (.delattr n)
  | .arr #[.str "contains", .str n] => .ok (.contains n)
  | .arr #[.str k, .str n, v] =>
    match v.getNat? with
    | .error e => .error e
    | .ok x =>
      if k = "setitem" then .ok (.setitem n x)
      else if k = "setattr" then .ok (.setattr n x)
      else if k = "dictSet" then .ok (.dictSet n x)
      else .error ("unknown operation " ++ k)
  | _ => .error "operation: [kind,name] or [kind,name,n] expected"

def resJ : Res Nat → Json
  | .val v => Json.mkObj [("val", natJ v)]
  | .cls => .str "cls"
  | .bool b => Json.mkObj [("bool", .bool b)]
  | .done => .str "done"
  | .keyError => .str "KeyError"
  | .attributeError => .str "AttributeError"
  | .valueError => .str "ValueError"

def stateJ (b : State Nat) : Json := Json.mkObj [("items", pairsJ b.items), ("attrs", pairsJ b.attrs)]

def states (cls : String → Bool) : State Nat → List (Op Nat) → List (State Nat)
  | _, [] => []
  | b, op :: ops => (step cls b op).1 :: states cls (step cls b op).1 ops

def arrOf (j : Json) (k : String) : Except String (List Json) :=
  match j.getObjVal? k with
  | .ok (.arr a) => .ok a.toList
  | _ => .error (k ++ ": array expected")

/-- op "bunch" -/
def opBunch (j : Json) : Json :=
  let r : Except String Json :=
    match arrOf j "cls", arrOf j "items", arrOf j "attrs", arrOf j "ops" with
    | .ok c, .ok i, .ok a, .ok o =>
      match c.mapM (fun x => match x with | .str s => Except.ok s | _ => Except.error "cls: names expected"),
            i.mapM pairOf, a.mapM pairOf, o.mapM opOf with
      | .ok cls, .ok items, .ok attrs, .ok ops =>
        let clsF : String → Bool := fun n => cls.contains n
        let b : State Nat := { items := items, attrs := attrs }
        .ok (Json.mkObj [("trace", .arr ((trace clsF b ops).map resJ).toArray),
                         ("states", .arr ((states clsF b ops).map stateJ).toArray)])
      | .error e, _, _, _ => .error e
      | _, .error e, _, _ => .error e
      | _, _, .error e, _ => .error e
      | _, _, _, .error e => .error e
    | .error e, _, _, _ => .error e
    | _, .error e, _, _ => .error e
    | _, _, .error e, _ => .error e
    | _, _, _, .error e => .error e
  match r with
  | .ok a => a
  | .error e => Json.mkObj [("bad", .str e)]

end AY.OpsBunch
