/-
  C16, END TO END THROUGH `flatten` — "'p: !append L' makes the value at p the previous list followed by the
  elements of L (and fails if there is no previous list), '!extend' does the same but silently becomes a plain
  list when there is nothing to extend, and 'q: !prev p' places the entire previous subtree of p at q and
  removes it from p. In all cases every other path keeps its value, and elements keep their order and identity
  of content."

  Props/C16.lean states the clauses for ONE call of `premergeF` and for one stage with one operator at a
  TOP-LEVEL key.  This file states them for an operator at ANY DEPTH of the last stage and ANY NUMBER of
  earlier stages, through `Builder.flatten`, and adds the global frame clause.

  Setting of every theorem: the stages are `xs ++ [o]` with `xs ≠ []`; `s` is the accumulated tree of the
  earlier stages, `flattenWith (premergeF (stagesFuel (xs ++ [o]))) xs = .ok s` (the fold of `flatten` on the
  prefix, under the pre-merge fuel of the whole build); `o` is the last stage.
  * `soleAt (k :: p) o`: `o` consists of plain mappings along `k :: p` (any depth) and holds NO other pre-merge
    operator off that path (plain content of any shape is allowed everywhere else);
    `opsStage o` (theorem 4): ANY number of operators below plain non-deleting mappings with distinct keys.
  * `liveAlong (k :: p) o`: the mappings of `o` above the operator are NOT deleting and have distinct keys.
  * `dictAlong x s`: the accumulated tree consists of plain mappings with distinct keys along `x` as far as `x`
    exists in it ("mapping parent"); `divergesLive t o`: `t` leaves `o` below a plain non-deleting mapping
    ("`o` does not reach `t`"); `indep t x`: neither path is a prefix of the other.
  * all flags (priorities, delete, allow_new, safe, metadata) are arbitrary unless a theorem says otherwise.
  Data is observed with `native` and `Plain.at?` (the value stored at a path, through mappings).
  Definitions: AY/Lemmas/C16PipeDefs.lean (`soleAt`, `replaceAt`, `opsStage`, `touched`, `indep`),
  C16PipePremerge.lean (`parentFlags`), C16PipeErase.lean (`eraseAt`), C16PipeChain.lean (`chainAt`, `newLeafAt`),
  C04PathDefs.lean, C05Deep.lean; proofs: C16PipeOps.lean (one operator), C16PipeFrame.lean (`Frame`: the
  accumulated tree changes only at the touched paths), C16PipeTrack.lean / C16PipeAmong.lean (one operator
  among others), C16PipeFinal.lean (a merge never raises a PremergeError).  Every statement was fuzzed on the
  executable model before it was proved (notes/fuzz/C16_Pipeline_Fuzz.lean: documents built by `construct`
  from random `Raw` with 1–3 operators at depths 1–3 of the last of 2–4 stages, targets existing / missing /
  scalars / mappings / list elements, priorities, `!del`, `!merge`, `!notnew`, `!unsafe`; 48 000 stage lists,
  28 000 of them with an accumulated tree, no violation inside the stated domains).  What the fuzzer DID find:
  the build can fail although the previous list exists — `C16_notnew_list_counterexample` (replayed on the
  implementation) — hence success is stated separately (`C16_grow_chain_succeeds`) under its exact side
  condition, and `!extend` next to a `!merge` ancestor does not replace a non-list (hypothesis `eDel` of
  `C16_extend_at_path_fallback`).
-/
import AY.Lemmas.C16PipeAmong
import AY.Props.C16
import AY.Props.C04_AtPath
namespace AY
open AY.C04P AY.C16P

/-! ### Concrete inputs used by the non-vacuity examples (all built by the loader) -/

def c16pI (i : Int) : Raw := .scalar .none {} (.lit (.int i))

/-- `{a: {l: [1, 2, 3], x: 5, m: {u: 1}}, b: 7, t: [[1], [2], [3]]}` -/
def c16pD1 : Node := c04pNode (.map .none {} [
  (.str "a", .map .none {} [(.str "l", .seq .none {} [c16pI 1, c16pI 2, c16pI 3]), (.str "x", c16pI 5),
    (.str "m", .map .none {} [(.str "u", c16pI 1)])]),
  (.str "b", c16pI 7),
  (.str "t", .seq .none {} [.seq .none {} [c16pI 1], .seq .none {} [c16pI 2], .seq .none {} [c16pI 3]])])
/-- `{a: {y: 6}}` -/
def c16pD2 : Node := c04pNode (.map .none {} [(.str "a", .map .none {} [(.str "y", c16pI 6)])])
/-- the earlier stages of the examples -/
def c16pXs : List Node := [c16pD1, c16pD2]

/-- `{a: {l: !append [8, 9], z: 0}, c: 1}` -/
def c16pOApp : Node := c04pNode (.map .none {} [(.str "a", .map .none {} [(.str "l", .seq .append {} [c16pI 8, c16pI 9]),
  (.str "z", c16pI 0)]), (.str "c", c16pI 1)])
/-- `{a: {l: !extend [8, 9], z: 0}, c: 1}` -/
def c16pOExt : Node := c04pNode (.map .none {} [(.str "a", .map .none {} [(.str "l", .seq .extend {} [c16pI 8, c16pI 9]),
  (.str "z", c16pI 0)]), (.str "c", c16pI 1)])
/-- `{a: {l: !append [8, 9]}}` — the operator alone -/
def c16pOChain : Node := c04pNode (.map .none {} [(.str "a", .map .none {} [(.str "l", .seq .append {} [c16pI 8, c16pI 9])])])
/-- `{a: {n: !append [8]}}`: nothing at `a.n` -/
def c16pOAppMissing : Node := c04pNode (.map .none {} [(.str "a", .map .none {} [(.str "n", .seq .append {} [c16pI 8])])])
/-- `{a: {x: !append [8]}}`: a scalar at `a.x` -/
def c16pOAppScalar : Node := c04pNode (.map .none {} [(.str "a", .map .none {} [(.str "x", .seq .append {} [c16pI 8])])])
/-- `{a: {n: !extend [8, 9]}}`: nothing at `a.n` -/
def c16pOExtNew : Node := c04pNode (.map .none {} [(.str "a", .map .none {} [(.str "n", .seq .extend {} [c16pI 8, c16pI 9])])])
/-- `{a: {x: !extend [8]}}`: a scalar at `a.x` -/
def c16pOExtScalar : Node := c04pNode (.map .none {} [(.str "a", .map .none {} [(.str "x", .seq .extend {} [c16pI 8])])])
/-- `{q: {r: !prev "a.m"}}` -/
def c16pOPrev : Node := c04pNode (.map .none {} [(.str "q", .map .none {} [(.str "r", .scalar .prev {} (.text "a.m"))])])
/-- `{q: !prev "a.m"}` — the operator alone -/
def c16pOPrevTop : Node := c04pNode (.map .none {} [(.str "q", .scalar .prev {} (.text "a.m"))])
/-- `{b: !prev "a.x"}`: `b` exists -/
def c16pOPrevOnto : Node := c04pNode (.map .none {} [(.str "b", .scalar .prev {} (.text "a.x"))])
/-- `{q: !prev "t[0]"}`: the parent of the target is a list -/
def c16pOPrevL : Node := c04pNode (.map .none {} [(.str "q", .scalar .prev {} (.text "t[0]"))])
/-- `{q: !prev "a.nope"}` -/
def c16pOPrevMissing : Node := c04pNode (.map .none {} [(.str "q", .scalar .prev {} (.text "a.nope"))])
/-- `{a: {l: !append [8], n: !extend [9]}, q: !prev "a.m", c: 1}`: three operators in one stage -/
def c16pOMulti : Node := c04pNode (.map .none {} [(.str "a", .map .none {} [(.str "l", .seq .append {} [c16pI 8]),
  (.str "n", .seq .extend {} [c16pI 9])]), (.str "q", .scalar .prev {} (.text "a.m")), (.str "c", c16pI 1)])

/-- what the earlier stages flatten to (under the fuel of the whole build) -/
def c16pAcc (xs : List Node) (o : Node) : Node :=
  match flattenWith (premergeF (stagesFuel (xs ++ [o]))) xs with
  | .ok s => s
  | .error _ => .leaf {} (.scalar .null)

theorem c16pAcc_spec {xs : List Node} {o : Node}
    (h : (flattenWith (premergeF (stagesFuel (xs ++ [o]))) xs).toBool = true) :
    flattenWith (premergeF (stagesFuel (xs ++ [o]))) xs = .ok (c16pAcc xs o) := by
  simp only [c16pAcc]
  cases hf : flattenWith (premergeF (stagesFuel (xs ++ [o]))) xs with
  | error e => simp [hf, Except.toBool] at h
  | ok s => rfl

/-- `getNode` of a concrete tree, node by its parts -/
theorem c16pAt_comp {n : Node} {p : Path} (ck : CompKind)
    (h : (match getNode n p with | some (.comp _ ck' _) => decide (ck' = ck) | _ => false) = true) :
    getNode n p = some (.comp (c04pAt n p).flags ck (c04pAt n p).children) := by
  cases hg : getNode n p with
  | none => simp [hg] at h
  | some x =>
    cases x with
    | leaf _ _ => simp [hg] at h
    | comp f ck' cs =>
      simp only [hg, decide_eq_true_eq] at h
      subst h
      simp [c04pAt, hg, Node.flags, Node.children]

theorem c16pAt_prev {n : Node} {p : Path} (ps : String)
    (h : (match getNode n p with | some (.leaf _ (.prev ps')) => decide (ps' = ps) | _ => false) = true) :
    getNode n p = some (.leaf (c04pAt n p).flags (.prev ps)) := by
  cases hg : getNode n p with
  | none => simp [hg] at h
  | some x =>
    cases x with
    | comp _ _ _ => simp [hg] at h
    | leaf f lk =>
      cases lk <;> simp only [hg] at h <;> try (simp at h; done)
      simp only [decide_eq_true_eq] at h
      subst h
      simp [c04pAt, hg, Node.flags]

def c16pAL : Path := [.str "l"]

/-- the build failed with the error `e` -/
def c16pErrIs (x : Except Err Node) (e : Err) : Bool :=
  match x with
  | .error e' => decide (e' = e)
  | .ok _ => false

theorem c16pErrIs_sound {x : Except Err Node} {e : Err} (h : c16pErrIs x e = true) : x = .error e := by
  cases x with
  | ok _ => simp [c16pErrIs] at h
  | error e' => simp only [c16pErrIs, decide_eq_true_eq] at h; rw [h]

/-! ### (1) `!append` at a path -/

/- "'p: !append L' makes the value at p the previous list followed by the elements of L … In all cases every
   other path keeps its value": the last stage `o` holds `!append L` (`.comp f .append cs`) at `k :: p`, any
   depth, below plain non-deleting mappings, and no other operator; the accumulated tree `s` of the earlier
   stages holds a list-family node `.comp tf tk tcs` at `k :: p`, below mappings.  Then
   (a) the build is EXACTLY one merge: of `s` without the node at the path (`eraseAt`), with the stage in which
       the operator is replaced by the old list extended by `L` (`replaceAt`, `extendList`: same flags, same
       class, old children first);
   (b) the old data at the path is `old = nativeVals tcs`, and whenever the build succeeds the data at the path
       is `old ++ L`, in order (and below the path: the data of that list);
   (c) every path `o` does not reach keeps the data it had in `s`. -/
theorem C16_append_at_path (xs : List Node) (o s : Node) (k : Key) (p : Path) (f : Flags)
    (cs : List (Key × Node)) (tf : Flags) (tk : CompKind) (tcs : List (Key × Node)) (hx : xs ≠ [])
    (hs : flattenWith (premergeF (stagesFuel (xs ++ [o]))) xs = .ok s)
    (hsole : soleAt (k :: p) o = true) (ho : liveAlong (k :: p) o = true)
    (hop : getNode o (k :: p) = some (.comp f .append cs))
    (hsd : dictAlong (k :: p) s = true) (hse : getNode s (k :: p) = some (.comp tf tk tcs))
    (hk : tk.isListFam = true) :
    flatten (xs ++ [o]) = merge (eraseAt (k :: p) s)
      (replaceAt (.comp tf tk (extendList tf tk tcs (cs.map (·.2)))) (k :: p) o) ∧
    (native s).at? (k :: p) = some (.list (nativeVals tcs)) ∧
    ∀ r, flatten (xs ++ [o]) = .ok r →
      (native r).at? (k :: p) = some (.list (nativeVals tcs ++ cs.map (fun kv => native kv.2))) ∧
      (∀ q, (native r).at? (k :: p ++ q) =
        (Plain.list (nativeVals tcs ++ cs.map (fun kv => native kv.2))).at? q) ∧
      (∀ t, dictAlong t s = true → divergesLive t o = true → (native r).at? t = (native s).at? t) := by
  obtain ⟨h1, h2⟩ := grow_at xs o s k p f .append cs tf tk tcs (.inl rfl) hx hs hsole ho hop hsd hse hk
  have hd : tk.isDictFam = false := by simpa [CompKind.isListFam] using hk
  refine ⟨h1, ?_, ?_⟩
  · rw [getNode_at (k :: p) s _ hsd hse]; simp [native, hd]
  · intro r hr
    obtain ⟨h3, h4⟩ := h2 r hr
    refine ⟨?_, h3, h4⟩
    have := h3 []
    rw [List.append_nil] at this
    rw [this]; rfl

-- three stages, the operator two levels down: `a.l` becomes `[1, 2, 3, 8, 9]`, `b` and `a.x` (not reached) are kept
example : ∀ r, flatten (c16pXs ++ [c16pOApp]) = .ok r →
    (native r).at? [.str "a", .str "l"] = some (.list (nativeVals (c04pAt (c16pAcc c16pXs c16pOApp) [.str "a", .str "l"]).children ++
      (c04pAt c16pOApp [.str "a", .str "l"]).children.map (fun kv => native kv.2))) ∧
    (native r).at? [.str "b"] = (native (c16pAcc c16pXs c16pOApp)).at? [.str "b"] ∧
    (native r).at? [.str "a", .str "x"] = (native (c16pAcc c16pXs c16pOApp)).at? [.str "a", .str "x"] := fun r hr =>
  have h := (C16_append_at_path c16pXs c16pOApp (c16pAcc c16pXs c16pOApp) (.str "a") c16pAL _ _ _ .list _ (by simp [c16pXs])
    (c16pAcc_spec (by decide +kernel)) (by decide +kernel) (by decide +kernel) (c16pAt_comp .append (by decide +kernel))
    (by decide +kernel) (c16pAt_comp .list (by decide +kernel)) rfl).2.2 r hr
  ⟨h.1, h.2.2 [.str "b"] (by decide +kernel) (by decide +kernel),
    h.2.2 [.str "a", .str "x"] (by decide +kernel) (by decide +kernel)⟩
example : c04pOkAt (flatten (c16pXs ++ [c16pOApp])) [.str "a", .str "l"]
    (some (.list [.scalar (.int 1), .scalar (.int 2), .scalar (.int 3), .scalar (.int 8), .scalar (.int 9)])) = true := by
  decide +kernel

/- "(and fails if there is no previous list)", case 1: NO node at the path of the accumulated tree — the build
   ends in a PremergeError, at any depth, after any number of stages, whatever else the stage contains off
   the path (no hypothesis on the spine of `s`, none on deleting flags of `o`). -/
theorem C16_append_at_path_missing (xs : List Node) (o s : Node) (k : Key) (p : Path) (f : Flags)
    (cs : List (Key × Node)) (hx : xs ≠ [])
    (hs : flattenWith (premergeF (stagesFuel (xs ++ [o]))) xs = .ok s)
    (hsole : soleAt (k :: p) o = true) (hop : getNode o (k :: p) = some (.comp f .append cs))
    (hno : getNode s (k :: p) = none) :
    flatten (xs ++ [o]) = .error .premerge :=
  append_fails_at xs o s k p f cs hx hs hsole hop (by intro tf tk tcs hg; rw [hno] at hg; cases hg)

example : flatten (c16pXs ++ [c16pOAppMissing]) = .error .premerge :=
  C16_append_at_path_missing c16pXs c16pOAppMissing (c16pAcc c16pXs c16pOAppMissing) (.str "a") [.str "n"] _ _
    (by simp [c16pXs]) (c16pAcc_spec (by decide +kernel)) (by decide +kernel) (c16pAt_comp .append (by decide +kernel)) rfl

/- "(and fails if there is no previous list)", case 2: the node at the path is NOT a list (a scalar or any other
   leaf, a mapping, a function node) — PremergeError. -/
theorem C16_append_at_path_not_list (xs : List Node) (o s : Node) (k : Key) (p : Path) (f : Flags)
    (cs : List (Key × Node)) (e : Node) (hx : xs ≠ [])
    (hs : flattenWith (premergeF (stagesFuel (xs ++ [o]))) xs = .ok s)
    (hsole : soleAt (k :: p) o = true) (hop : getNode o (k :: p) = some (.comp f .append cs))
    (hse : getNode s (k :: p) = some e) (hne : ∀ tf tk tcs, e = .comp tf tk tcs → tk.isListFam = false) :
    flatten (xs ++ [o]) = .error .premerge :=
  append_fails_at xs o s k p f cs hx hs hsole hop
    (by intro tf tk tcs hg; rw [hse] at hg; injection hg with hg; exact hne tf tk tcs hg)

example : (getNode (c16pAcc c16pXs c16pOAppScalar) [.str "a", .str "x"]).map native = some (.scalar (.int 5)) :=
  optBeq_sound (by decide +kernel)
example : flatten (c16pXs ++ [c16pOAppScalar]) = .error .premerge :=
  C16_append_at_path_not_list c16pXs c16pOAppScalar (c16pAcc c16pXs c16pOAppScalar) (.str "a") [.str "x"] _ _
    (c04pAt (c16pAcc c16pXs c16pOAppScalar) [.str "a", .str "x"])
    (by simp [c16pXs]) (c16pAcc_spec (by decide +kernel)) (by decide +kernel) (c16pAt_comp .append (by decide +kernel))
    (c04pAt_spec (by decide +kernel))
    (by intro tf tk tcs h; have : (c04pAt (c16pAcc c16pXs c16pOAppScalar) [.str "a", .str "x"]).isComp = false := by decide +kernel
        rw [h] at this; cases this)

/- When does the build SUCCEED?  Not always when "there is a previous list" (next theorem).  It does when the
   last stage consists of the operator alone below single-entry mappings (`chainAt`: `{k1: {k2: … {kn: !append
   L}}}`) and the grown list, adopted by the mapping that receives it, passes `_require_all_new` (`hnew`: the
   default; it fails exactly for the explicit `!notnew` lists of the counterexample). -/
theorem C16_grow_chain_succeeds (xs : List Node) (o s : Node) (k : Key) (p : Path) (f : Flags) (ck : CompKind)
    (cs : List (Key × Node)) (tf : Flags) (tk : CompKind) (tcs : List (Key × Node))
    (hck : ck = .append ∨ ck = .extend) (hx : xs ≠ [])
    (hs : flattenWith (premergeF (stagesFuel (xs ++ [o]))) xs = .ok s)
    (hchain : chainAt (k :: p) o = true) (ho : liveAlong (k :: p) o = true)
    (hop : getNode o (k :: p) = some (.comp f ck cs))
    (hsd : dictAlong (k :: p) s = true) (hse : getNode s (k :: p) = some (.comp tf tk tcs))
    (hk : tk.isListFam = true)
    (hnew : reqNew [] [] (adopt (parentFlags (k :: p) o) .dict
      (.comp tf tk (extendList tf tk tcs (cs.map (·.2))))) = none) :
    ∃ r, flatten (xs ++ [o]) = .ok r := by
  have hsole := soleAt_of_chainAt (k :: p) o hchain
  rw [(grow_at xs o s k p f ck cs tf tk tcs hck hx hs hsole ho hop hsd hse hk).1]
  exact merge_chain_ok p k _ _ _ (chainAt_replaceAt _ p k o hchain)
    (liveAlong_replaceAt _ p k o ho hsole) (dictAlong_eraseAt (k :: p) (k :: p) s hsd)
    (newLeafAt_eraseAt (k :: p) s _ (by simp) hsd hse) (getNode_replaceAt _ p k o hsole) hnew

example : ∃ r, flatten (c16pXs ++ [c16pOChain]) = .ok r :=
  C16_grow_chain_succeeds c16pXs c16pOChain (c16pAcc c16pXs c16pOChain) (.str "a") c16pAL _ .append _ _ .list _ (.inl rfl)
    (by simp [c16pXs]) (c16pAcc_spec (by decide +kernel)) (by decide +kernel) (by decide +kernel)
    (c16pAt_comp .append (by decide +kernel)) (by decide +kernel) (c16pAt_comp .list (by decide +kernel)) rfl
    (by decide +kernel)

/- COUNTEREXAMPLE (model and implementation agree; found by the fuzzer) — "'p: !append L' makes the value at p
   the previous list followed by the elements of L (and fails if there is no previous list)" does NOT imply
   that the build succeeds when there IS a previous list: if the previous list was written with an explicit
   `!notnew` tag (`b: [1]` ← `b: !notnew [2]`), the list keeps `allow_new = False`; `!append` / `!extend` /
   `!prev` detach it and the merge re-inserts it under a NEW key, where its own elements fail
   `_require_all_new`: MergeError "Node 'b[0]' requires that the destination already exists".  All hypotheses of
   `C16_append_at_path` hold for the first build (only `hnew` of `C16_grow_chain_succeeds` fails). -/
theorem C16_notnew_list_counterexample :
    let d1 := c04pNode (.map .none {} [(.str "b", .seq .none {} [c16pI 1]), (.str "c", c16pI 2)])
    let d2 := c04pNode (.map .none {} [(.str "b", .seq .plain { new := some false } [c16pI 2])])
    let oa := c04pNode (.map .none {} [(.str "b", .seq .append {} [c16pI 3])])
    let oe := c04pNode (.map .none {} [(.str "b", .seq .extend {} [c16pI 3])])
    let op := c04pNode (.map .none {} [(.str "q", .scalar .prev {} (.text "b"))])
    flatten ([d1, d2] ++ [oa]) = .error (.notnew [.str "b", .int 0]) ∧
    flatten ([d1, d2] ++ [oe]) = .error (.notnew [.str "b", .int 0]) ∧
    flatten ([d1, d2] ++ [op]) = .error (.notnew [.str "q", .int 0]) ∧
    (flatten [d1, d2]).map native = .ok (.dict [(.str "b", .list [.scalar (.int 2)]), (.str "c", .scalar (.int 2))]) ∧
    soleAt [.str "b"] oa = true ∧ liveAlong [.str "b"] oa = true ∧ chainAt [.str "b"] oa = true ∧
    dictAlong [.str "b"] (c16pAcc [d1, d2] oa) = true ∧
    (match getNode (c16pAcc [d1, d2] oa) [.str "b"] with | some (.comp _ tk _) => tk.isListFam | _ => false) = true := by
  refine ⟨c16pErrIs_sound (by decide +kernel), c16pErrIs_sound (by decide +kernel),
    c16pErrIs_sound (by decide +kernel), resBeq_sound (by decide +kernel),
    by decide +kernel, by decide +kernel, by decide +kernel, by decide +kernel, by decide +kernel⟩

/-! ### (2) `!extend` at a path -/

/- "'!extend' does the same": with a list-family node at the path of the accumulated tree, everything
   `C16_append_at_path` says holds for `!extend L` — the build is the same merge, the data at the path is
   `old ++ L`, every path `o` does not reach keeps its data. -/
theorem C16_extend_at_path (xs : List Node) (o s : Node) (k : Key) (p : Path) (f : Flags)
    (cs : List (Key × Node)) (tf : Flags) (tk : CompKind) (tcs : List (Key × Node)) (hx : xs ≠ [])
    (hs : flattenWith (premergeF (stagesFuel (xs ++ [o]))) xs = .ok s)
    (hsole : soleAt (k :: p) o = true) (ho : liveAlong (k :: p) o = true)
    (hop : getNode o (k :: p) = some (.comp f .extend cs))
    (hsd : dictAlong (k :: p) s = true) (hse : getNode s (k :: p) = some (.comp tf tk tcs))
    (hk : tk.isListFam = true) :
    flatten (xs ++ [o]) = merge (eraseAt (k :: p) s)
      (replaceAt (.comp tf tk (extendList tf tk tcs (cs.map (·.2)))) (k :: p) o) ∧
    (native s).at? (k :: p) = some (.list (nativeVals tcs)) ∧
    ∀ r, flatten (xs ++ [o]) = .ok r →
      (native r).at? (k :: p) = some (.list (nativeVals tcs ++ cs.map (fun kv => native kv.2))) ∧
      (∀ q, (native r).at? (k :: p ++ q) =
        (Plain.list (nativeVals tcs ++ cs.map (fun kv => native kv.2))).at? q) ∧
      (∀ t, dictAlong t s = true → divergesLive t o = true → (native r).at? t = (native s).at? t) := by
  obtain ⟨h1, h2⟩ := grow_at xs o s k p f .extend cs tf tk tcs (.inr rfl) hx hs hsole ho hop hsd hse hk
  have hd : tk.isDictFam = false := by simpa [CompKind.isListFam] using hk
  refine ⟨h1, ?_, ?_⟩
  · rw [getNode_at (k :: p) s _ hsd hse]; simp [native, hd]
  · intro r hr
    obtain ⟨h3, h4⟩ := h2 r hr
    refine ⟨?_, h3, h4⟩
    have := h3 []
    rw [List.append_nil] at this
    rw [this]; rfl

example : ∀ r, flatten (c16pXs ++ [c16pOExt]) = .ok r →
    (native r).at? [.str "a", .str "l"] = some (.list (nativeVals (c04pAt (c16pAcc c16pXs c16pOExt) [.str "a", .str "l"]).children ++
      (c04pAt c16pOExt [.str "a", .str "l"]).children.map (fun kv => native kv.2))) := fun r hr =>
  ((C16_extend_at_path c16pXs c16pOExt (c16pAcc c16pXs c16pOExt) (.str "a") c16pAL _ _ _ .list _ (by simp [c16pXs])
    (c16pAcc_spec (by decide +kernel)) (by decide +kernel) (by decide +kernel) (c16pAt_comp .extend (by decide +kernel))
    (by decide +kernel) (c16pAt_comp .list (by decide +kernel)) rfl).2.2 r hr).1
example : c04pOkAt (flatten (c16pXs ++ [c16pOExt])) [.str "a", .str "l"]
    (some (.list [.scalar (.int 1), .scalar (.int 2), .scalar (.int 3), .scalar (.int 8), .scalar (.int 9)])) = true := by
  decide +kernel

/- "but silently becomes a plain list when there is nothing to extend": NO list-family node at the path of the
   accumulated tree (nothing there, or a scalar, a mapping, a function node).  Then
   (a) the operator never fails: the build is EXACTLY the merge of the UNTOUCHED accumulated tree with the
       stage in which `!extend L` is replaced by the plain list `newPlainList f L` (safety and metadata of the
       operator, data `L`); in particular the build never ends in a PremergeError;
   and whenever the build succeeds
   (b) nothing at the path (below mappings): the data at the path is `L`, in order;
   (c) a node `e` at the path: the data at and below the path is what ONE iteration of the key loop computes
       from `e` and the plain list `d'` (adopted by the mapping that holds it: `parentFlags`) — this is the
       setting of Props/C04_AtPath.lean, and by `C04_del_exact_at_path`: if `e` is a scalar / plain mapping /
       plain list, the list is deleting (`eDel d'`: the default; NOT below a `!merge` ancestor, fuzzer finding),
       not outranked and nothing of `e` is protected, the list REPLACES `e` wholesale: the data is `L`;
   (d) every path `o` does not reach keeps its data. -/
theorem C16_extend_at_path_fallback (xs : List Node) (o s : Node) (k : Key) (p : Path) (f : Flags)
    (cs : List (Key × Node)) (hx : xs ≠ [])
    (hs : flattenWith (premergeF (stagesFuel (xs ++ [o]))) xs = .ok s)
    (hsole : soleAt (k :: p) o = true) (ho : liveAlong (k :: p) o = true)
    (hop : getNode o (k :: p) = some (.comp f .extend cs))
    (hno : ∀ tf tk tcs, getNode s (k :: p) = some (.comp tf tk tcs) → tk.isListFam = false) :
    flatten (xs ++ [o]) = merge s (replaceAt (newPlainList f (cs.map (·.2))) (k :: p) o) ∧
    flatten (xs ++ [o]) ≠ .error .premerge ∧
    native (newPlainList f (cs.map (·.2))) = .list (cs.map (fun kv => native kv.2)) ∧
    ∀ r, flatten (xs ++ [o]) = .ok r →
      (dictAlong (k :: p) s = true → getNode s (k :: p) = none →
        (native r).at? (k :: p) = some (.list (cs.map (fun kv => native kv.2)))) ∧
      (∀ e d', dictAlong (k :: p) s = true → getNode s (k :: p) = some e →
        d' = adopt (parentFlags (k :: p) o) .dict (newPlainList f (cs.map (·.2))) →
        (∃ fuel' sf kl x?, stepAt (mergeF fuel') sf [] kl (some e) d' = .ok x? ∧
          ∀ q, (native r).at? (k :: p ++ q) = (x?.map native).bind (Plain.at? q)) ∧
        (plainKind e = true → eDel d' = true → hasPrio d'.flags e.flags true = true → noneProtected d' e = true →
          (native r).at? (k :: p) = some (.list (cs.map (fun kv => native kv.2))))) ∧
      (∀ t, dictAlong t s = true → divergesLive t o = true → (native r).at? t = (native s).at? t) := by
  obtain ⟨h1, h2⟩ := extend_fallback_at xs o s k p f cs hx hs hsole ho hop hno
  have hnat : native (newPlainList f (cs.map (·.2))) = .list (cs.map (fun kv => native kv.2)) := by
    rw [c16_native_newPlainList]; simp [List.map_map, Function.comp_def]
  refine ⟨h1, by rw [h1]; exact merge_ne_premerge _ _, hnat, ?_⟩
  intro r hr
  obtain ⟨b, hm, hlo, hgo, hfr⟩ := h2 r hr
  refine ⟨?_, ?_, hfr⟩
  · intro hd hn
    have := at_new_path p k _ _ _ r b _ hd hlo hm hn hgo []
    rw [List.append_nil] at this
    rw [this, native_adopt, hnat]; rfl
  · intro e d' hd he hd'
    subst hd'
    refine ⟨at_live_path p k _ _ _ r b e _ hd hlo hm he hgo, ?_⟩
    intro hkind hdel hprio hnone
    rw [(C04_del_exact_at_path _ s _ r b k p e _ hd hlo hm he hgo hkind hdel hprio hnone).1,
      removedBy_adopt_newPlainList, native_adopt, hnat]
    rfl

-- nothing at `a.n`: the list `[8, 9]` is created there; a scalar at `a.x`: replaced by `[8]`; never a PremergeError
example : ∀ r, flatten (c16pXs ++ [c16pOExtNew]) = .ok r →
    (native r).at? [.str "a", .str "n"] =
      some (.list ((c04pAt c16pOExtNew [.str "a", .str "n"]).children.map (fun kv => native kv.2))) := fun r hr =>
  ((C16_extend_at_path_fallback c16pXs c16pOExtNew (c16pAcc c16pXs c16pOExtNew) (.str "a") [.str "n"] _ _ (by simp [c16pXs])
    (c16pAcc_spec (by decide +kernel)) (by decide +kernel) (by decide +kernel) (c16pAt_comp .extend (by decide +kernel))
    (by intro tf tk tcs h
        have : getNode (c16pAcc c16pXs c16pOExtNew) [.str "a", .str "n"] = none := rfl
        rw [this] at h; cases h)).2.2.2 r hr).1 (by decide +kernel) rfl
example : c04pOkAt (flatten (c16pXs ++ [c16pOExtNew])) [.str "a", .str "n"] (some (.list [.scalar (.int 8), .scalar (.int 9)])) = true ∧
    c04pOkAt (flatten (c16pXs ++ [c16pOExtScalar])) [.str "a", .str "x"] (some (.list [.scalar (.int 8)])) = true := by
  decide +kernel
example : ∀ r, flatten (c16pXs ++ [c16pOExtScalar]) = .ok r →
    (native r).at? [.str "a", .str "x"] =
      some (.list ((c04pAt c16pOExtScalar [.str "a", .str "x"]).children.map (fun kv => native kv.2))) := fun r hr =>
  (((C16_extend_at_path_fallback c16pXs c16pOExtScalar (c16pAcc c16pXs c16pOExtScalar) (.str "a") [.str "x"] _ _ (by simp [c16pXs])
    (c16pAcc_spec (by decide +kernel)) (by decide +kernel) (by decide +kernel) (c16pAt_comp .extend (by decide +kernel))
    (by intro tf tk tcs h
        have : (c04pAt (c16pAcc c16pXs c16pOExtScalar) [.str "a", .str "x"]).isComp = false := by decide +kernel
        rw [c04pAt_spec (n := c16pAcc c16pXs c16pOExtScalar) (p := [.str "a", .str "x"]) (by decide +kernel)] at h
        injection h with h; rw [h] at this; cases this)).2.2.2 r hr).2.1
    (c04pAt (c16pAcc c16pXs c16pOExtScalar) [.str "a", .str "x"]) _ (by decide +kernel) (c04pAt_spec (by decide +kernel)) rfl).2
    (by decide +kernel) (by decide +kernel) (by decide +kernel) (by decide +kernel)

/-! ### (3) `!prev` at a path -/

/- "'q: !prev p' places the entire previous subtree of p at q and removes it from p … every other path keeps its
   value": the last stage `o` holds `!prev "tp"` at `q = k :: p`, any depth, below plain non-deleting mappings,
   and no other operator; the target `tp` exists in the accumulated tree `s` (node `d`) below MAPPINGS
   (`dictAlong tp s`: in particular its parent is a mapping).  `s' = eraseAt tp s` is `s` without `d`.  Then
   (a) the build is EXACTLY one merge: of `s'` with the stage in which the operator is replaced by `d`;
   and whenever the build succeeds
   (b) `q` NEW (no node at `q` of `s'` — `q` was missing in `s`, or `q` is at / below `tp`): the data at and below
       `q` is the data of the whole subtree `d`;
   (c) `q` EXISTED (node `e` at `q` of `s'`): the data at `q` is the MERGE of the old content `e` with the moved
       subtree (adopted by the mapping that holds the operator), `mergeF fuel' e d' = .ok (nw, same)`: the data
       of `nw`, unless that loop iteration ends in `remove_child` (`stepRemovesB`: `d` an explicitly `!del`
       node and the merged value falsy);
   (d) REMOVED: if `o` does not reach `tp`, nothing is found at or below `tp` in the result;
   (e) FRAME: every path that `o` does not reach and that is neither at / below nor above `tp` keeps its data. -/
theorem C16_prev_at_path (xs : List Node) (o s : Node) (k : Key) (p : Path) (f : Flags) (ps : String) (tp : Path)
    (d : Node) (hx : xs ≠ [])
    (hs : flattenWith (premergeF (stagesFuel (xs ++ [o]))) xs = .ok s)
    (hsole : soleAt (k :: p) o = true) (ho : liveAlong (k :: p) o = true)
    (hop : getNode o (k :: p) = some (.leaf f (.prev ps)))
    (hsp : splitPath ps = some tp) (hne : tp ≠ []) (htd : dictAlong tp s = true) (htg : getNode s tp = some d) :
    flatten (xs ++ [o]) = merge (eraseAt tp s) (replaceAt d (k :: p) o) ∧
    ∀ r, flatten (xs ++ [o]) = .ok r →
      (dictAlong (k :: p) s = true → (getNode s (k :: p) = none ∨ tp <+: (k :: p)) →
        ∀ q, (native r).at? (k :: p ++ q) = (native d).at? q) ∧
      (∀ e, dictAlong (k :: p) s = true → getNode (eraseAt tp s) (k :: p) = some e →
        ∃ fuel' nw same, mergeF fuel' e (adopt (parentFlags (k :: p) o) .dict d) = .ok (nw, same) ∧
          ∀ q, (native r).at? (k :: p ++ q) =
            if stepRemovesB e (adopt (parentFlags (k :: p) o) .dict d) nw same then none else (native nw).at? q) ∧
      (divergesLive tp o = true → ∀ q, (native r).at? (tp ++ q) = none) ∧
      (∀ t, dictAlong t s = true → divergesLive t o = true → indep t tp = true →
        (native r).at? t = (native s).at? t) := by
  have hr := removeNode_dictAlong tp s d hne htd htg
  obtain ⟨h1, h2⟩ := prev_at xs o s _ k p f ps tp d hx hs hsole ho hop hsp hr
  refine ⟨h1, ?_⟩
  intro r hb
  obtain ⟨c1, c2, c3⟩ := h2 r hb
  refine ⟨?_, ?_, ?_, ?_⟩
  · intro hd hq
    apply c1 (dictAlong_eraseAt tp (k :: p) s hd)
    rcases hq with hq | ⟨q', hq'⟩
    · exact getNode_eraseAt_of_none tp (k :: p) s htd hq
    · rw [← hq']; exact getNode_eraseAt_below tp q' s hne htd
  · intro e hd he
    exact c2 e (dictAlong_eraseAt tp (k :: p) s hd) he
  · intro hdv q
    apply at_append_none
    rw [c3 tp (dictAlong_eraseAt tp tp s htd) hdv]
    exact at_none_of_getNode_none tp _ (dictAlong_eraseAt tp tp s htd) (getNode_eraseAt_self tp s hne htd)
  · intro t ht hdv hi
    rw [c3 t (dictAlong_eraseAt tp t s ht) hdv]
    exact at_eraseAt_indep tp t s htd hi

-- `q.r: !prev "a.m"` two levels down: `q.r` holds `{u: 1}`, `a.m` is gone, `a.l`, `a.x`, `b` are kept
example : splitPath "a.m" = some [.str "a", .str "m"] := by decide +kernel
example : ∀ r, flatten (c16pXs ++ [c16pOPrev]) = .ok r →
    (native r).at? [.str "q", .str "r"] = some (native (c04pAt (c16pAcc c16pXs c16pOPrev) [.str "a", .str "m"])) ∧
    (native r).at? [.str "a", .str "m"] = none ∧
    (native r).at? [.str "a", .str "x"] = (native (c16pAcc c16pXs c16pOPrev)).at? [.str "a", .str "x"] := fun r hr =>
  have h := (C16_prev_at_path c16pXs c16pOPrev (c16pAcc c16pXs c16pOPrev) (.str "q") [.str "r"] _ "a.m" [.str "a", .str "m"]
    (c04pAt (c16pAcc c16pXs c16pOPrev) [.str "a", .str "m"]) (by simp [c16pXs])
    (c16pAcc_spec (by decide +kernel)) (by decide +kernel) (by decide +kernel) (c16pAt_prev "a.m" (by decide +kernel))
    (by decide +kernel) (by simp) (by decide +kernel) (c04pAt_spec (by decide +kernel))).2 r hr
  ⟨by simpa [Plain.at?] using h.1 (by decide +kernel) (.inl rfl) [], by simpa using h.2.2.1 (by decide +kernel) [],
    h.2.2.2 [.str "a", .str "x"] (by decide +kernel) (by decide +kernel) (by decide +kernel)⟩
example : c04pOkAt (flatten (c16pXs ++ [c16pOPrev])) [.str "q", .str "r"] (some (.dict [(.str "u", .scalar (.int 1))])) = true ∧
    c04pOkAt (flatten (c16pXs ++ [c16pOPrev])) [.str "a", .str "m"] none = true ∧
    -- `b: !prev "a.x"` onto the existing scalar `b: 7`: the merge of `7` with the moved `5` is `5`
    c04pOkAt (flatten (c16pXs ++ [c16pOPrevOnto])) [.str "b"] (some (.scalar (.int 5))) = true := by
  decide +kernel
example : ∃ e, getNode (eraseAt [.str "a", .str "x"] (c16pAcc c16pXs c16pOPrevOnto)) [.str "b"] = some e := ⟨_, rfl⟩

/- When does a `!prev` build SUCCEED?  As for `!append` (`C16_grow_chain_succeeds`): when the last stage consists
   of the operator alone below single-entry mappings, `q` is new but the mapping that receives it exists in the
   accumulated tree (`newLeafAt`), and the moved subtree, adopted there, passes `_require_all_new` (it does
   not when it carries an explicit `!notnew`: `C16_notnew_list_counterexample`). -/
theorem C16_prev_chain_succeeds (xs : List Node) (o s : Node) (k : Key) (p : Path) (f : Flags) (ps : String)
    (tp : Path) (d : Node) (hx : xs ≠ [])
    (hs : flattenWith (premergeF (stagesFuel (xs ++ [o]))) xs = .ok s)
    (hchain : chainAt (k :: p) o = true) (ho : liveAlong (k :: p) o = true)
    (hop : getNode o (k :: p) = some (.leaf f (.prev ps)))
    (hsp : splitPath ps = some tp) (hne : tp ≠ []) (htd : dictAlong tp s = true) (htg : getNode s tp = some d)
    (hqd : dictAlong (k :: p) s = true) (hq : newLeafAt (k :: p) (eraseAt tp s) = true)
    (hnew : reqNew [] [] (adopt (parentFlags (k :: p) o) .dict d) = none) :
    ∃ r, flatten (xs ++ [o]) = .ok r := by
  have hsole := soleAt_of_chainAt (k :: p) o hchain
  rw [(prev_at xs o s _ k p f ps tp d hx hs hsole ho hop hsp (removeNode_dictAlong tp s d hne htd htg)).1]
  exact merge_chain_ok p k _ _ _ (chainAt_replaceAt _ p k o hchain)
    (liveAlong_replaceAt _ p k o ho hsole) (dictAlong_eraseAt tp (k :: p) s hqd) hq
    (getNode_replaceAt _ p k o hsole) hnew

example : ∃ r, flatten (c16pXs ++ [c16pOPrevTop]) = .ok r :=
  C16_prev_chain_succeeds c16pXs c16pOPrevTop (c16pAcc c16pXs c16pOPrevTop) (.str "q") [] _ "a.m" [.str "a", .str "m"]
    (c04pAt (c16pAcc c16pXs c16pOPrevTop) [.str "a", .str "m"]) (by simp [c16pXs]) (c16pAcc_spec (by decide +kernel))
    (by decide +kernel) (by decide +kernel) (c16pAt_prev "a.m" (by decide +kernel)) (by decide +kernel) (by simp)
    (by decide +kernel) (c04pAt_spec (by decide +kernel)) (by decide +kernel) (by decide +kernel) (by decide +kernel)

/- `!prev` fails with a PremergeError when its target cannot be detached from the accumulated tree — the path
   string is not a valid node path, or no node is found there — at any depth of the stage, after any number
   of stages. -/
theorem C16_prev_at_path_missing (xs : List Node) (o s : Node) (k : Key) (p : Path) (f : Flags) (ps : String)
    (hx : xs ≠ [])
    (hs : flattenWith (premergeF (stagesFuel (xs ++ [o]))) xs = .ok s)
    (hsole : soleAt (k :: p) o = true) (hop : getNode o (k :: p) = some (.leaf f (.prev ps)))
    (hno : ∀ tp, splitPath ps = some tp → getNode s tp = none) :
    flatten (xs ++ [o]) = .error .premerge :=
  prev_fails_at xs o s k p f ps hx hs hsole hop (fun tp h => c16_removeNode_none_of_getNode (hno tp h))

example : flatten (c16pXs ++ [c16pOPrevMissing]) = .error .premerge :=
  C16_prev_at_path_missing c16pXs c16pOPrevMissing (c16pAcc c16pXs c16pOPrevMissing) (.str "q") [] _ "a.nope"
    (by simp [c16pXs]) (c16pAcc_spec (by decide +kernel)) (by decide +kernel) (c16pAt_prev "a.nope" (by decide +kernel))
    (by intro tp h
        have : splitPath "a.nope" = some [.str "a", .str "nope"] := by decide +kernel
        rw [this] at h; injection h with h; subst h; rfl)

/- LIST PARENT ("List parents renumber later elements"): the target `pp ++ [key]` is an element of a list
   `.comp lf lk pcs` found at `pp` below mappings, and `remove_node` detaches it (`hr`; for a numbered list and
   an index `0 ≤ j < n` it does: `C16_removeNode_of_getNode`).  Then `key` validates to an index `i < n` (for a
   numbered list `key = i` and `d` is the `i`-th element), and whenever the build succeeds
   (a) if `o` does not reach `pp`: the list at `pp` is the old list WITHOUT element `i` — the elements before `i`
       keep their positions, every later element moves one slot down, order kept (`eraseIdx`);
   (b) `q` new: the data at `q` is the data of `d` (as in `C16_prev_at_path`);
   (c) every path `o` does not reach and that is neither at / below nor above the LIST `pp` keeps its data
       (paths below `pp` do not: they are renumbered, `C16_removeNode_list_counterexample`). -/
theorem C16_prev_list_parent_at_path (xs : List Node) (o s s' : Node) (k : Key) (p : Path) (f : Flags)
    (ps : String) (pp : Path) (key : Key) (d : Node) (lf : Flags) (lk : CompKind) (pcs : List (Key × Node))
    (hx : xs ≠ [])
    (hs : flattenWith (premergeF (stagesFuel (xs ++ [o]))) xs = .ok s)
    (hsole : soleAt (k :: p) o = true) (ho : liveAlong (k :: p) o = true)
    (hop : getNode o (k :: p) = some (.leaf f (.prev ps)))
    (hsp : splitPath ps = some (pp ++ [key])) (hr : removeNode s (pp ++ [key]) = some (d, s'))
    (hpd : dictAlong pp s = true) (hp : getNode s pp = some (.comp lf lk pcs)) (hlk : lk.isListFam = true) :
    ∃ i, validateIndex pcs.length true key = some i ∧ i < pcs.length ∧
      (listKeys 0 pcs = true → key = .int (i : Int) ∧ (pcs.map (·.2))[i]? = some d) ∧
      ∀ r, flatten (xs ++ [o]) = .ok r →
        (divergesLive pp o = true → (native r).at? pp = some (.list ((nativeVals pcs).eraseIdx i))) ∧
        (dictAlong (k :: p) s' = true → getNode s' (k :: p) = none →
          ∀ q, (native r).at? (k :: p ++ q) = (native d).at? q) ∧
        (∀ t, dictAlong t s = true → divergesLive t o = true → indep t pp = true →
          (native r).at? t = (native s).at? t) := by
  obtain ⟨i, hv, hi, hgp, hnat, _, _, hnum⟩ := C16_removeNode_list_parent s pp key d s' lf lk pcs hr hp hlk
  obtain ⟨pcs', _, _, e5⟩ := c16_removeNode_parent hr hp
  refine ⟨i, hv, hi, hnum, ?_⟩
  intro r hb
  obtain ⟨c1, _, c3⟩ := (prev_at xs o s s' k p f ps _ d hx hs hsole ho hop hsp hr).2 r hb
  have hd : lk.isDictFam = false := by simpa [CompKind.isListFam] using hlk
  have hpd' : dictAlong pp s' = true := by rw [e5]; exact dictAlong_setNodeAt _ pp s _ hpd hp
  refine ⟨?_, c1, ?_⟩
  · intro hdv
    rw [c3 pp hpd' hdv, getNode_at pp s' _ hpd' hgp]
    simp [native, hd, hnat]
  · intro t ht hdv hi'
    rw [c3 t (by rw [e5]; exact dictAlong_setNodeAt_indep _ pp t s hpd ht hi') hdv, e5]
    exact at_setNodeAt_indep _ pp t s hpd hi'

-- `q: !prev "t[0]"` on `t: [[1], [2], [3]]`: `q` holds `[1]`, `t` is `[[2], [3]]`
example : splitPath "t[0]" = some ([.str "t"] ++ [.int 0]) := by decide +kernel
example : c04pOkAt (flatten (c16pXs ++ [c16pOPrevL])) [.str "q"] (some (.list [.scalar (.int 1)])) = true ∧
    c04pOkAt (flatten (c16pXs ++ [c16pOPrevL])) [.str "t"]
      (some (.list [.list [.scalar (.int 2)], .list [.scalar (.int 3)]])) = true := by decide +kernel
example : ∃ i, validateIndex 3 true (.int 0) = some i ∧
    ∀ r, flatten (c16pXs ++ [c16pOPrevL]) = .ok r →
      (native r).at? [.str "t"] =
        some (.list ((nativeVals (c04pAt (c16pAcc c16pXs c16pOPrevL) [.str "t"]).children).eraseIdx i)) :=
  have ⟨d, s', hr⟩ : ∃ d s', removeNode (c16pAcc c16pXs c16pOPrevL) ([.str "t"] ++ [.int 0]) = some (d, s') := ⟨_, _, rfl⟩
  have ⟨i, hv, _, _, h⟩ := C16_prev_list_parent_at_path c16pXs c16pOPrevL (c16pAcc c16pXs c16pOPrevL) s' (.str "q") [] _ "t[0]"
    [.str "t"] (.int 0) d _ .list _ (by simp [c16pXs]) (c16pAcc_spec (by decide +kernel)) (by decide +kernel)
    (by decide +kernel) (c16pAt_prev "t[0]" (by decide +kernel)) (by decide +kernel) hr (by decide +kernel)
    (c16pAt_comp .list (by decide +kernel)) rfl
  ⟨i, hv, fun r hr' => (h r hr').1 (by decide +kernel)⟩

/-! ### (4) the frame of a stage with any number of operators -/

/- "In all cases every other path keeps its value": the last stage `o` holds ANY number of `!append` /
   `!extend` / `!prev` operators, at any depths, below plain non-deleting mappings with distinct keys
   (`opsStage`; everything else in `o` is operator-free content of any shape).  `touched [] o` lists the paths
   the operators act on: the own path of every `!append` / `!extend`, the target path of every `!prev`.  If
   every touched path runs through MAPPINGS of the accumulated tree (`dictAlong`: no list on the way — below a
   list later elements are renumbered), then in a successful build EVERY path `t` that `o` does not reach
   (`divergesLive`) and that is neither at / below nor above a touched path (`indep`) keeps the data it had in
   `s` — through the whole pre-merge pass (operators run in document order, each on the tree the previous one
   left) and the merge.  No independence between the operators themselves is needed for this clause: if one
   operator removes what another one needs, the build fails. -/
theorem C16_operators_frame (xs : List Node) (o s r : Node) (hx : xs ≠ [])
    (hs : flattenWith (premergeF (stagesFuel (xs ++ [o]))) xs = .ok s)
    (hst : opsStage o = true) (hbuild : flatten (xs ++ [o]) = .ok r)
    (hX : ∀ x, x ∈ touched [] o → dictAlong x s = true) :
    ∀ t, dictAlong t s = true → divergesLive t o = true → (∀ x, x ∈ touched [] o → indep t x = true) →
      (native r).at? t = (native s).at? t :=
  ops_frame_last xs o s r hx hs hst hbuild hX

-- three operators in one stage (`a.l: !append`, `a.n: !extend`, `q: !prev "a.m"`): `b`, `t`, `a.x`, `a.y` are kept
example : touched [] c16pOMulti = [[.str "a", .str "l"], [.str "a", .str "n"], [.str "a", .str "m"]] := by decide +kernel
example : ∀ r, flatten (c16pXs ++ [c16pOMulti]) = .ok r →
    (native r).at? [.str "a", .str "x"] = (native (c16pAcc c16pXs c16pOMulti)).at? [.str "a", .str "x"] ∧
    (native r).at? [.str "t"] = (native (c16pAcc c16pXs c16pOMulti)).at? [.str "t"] := fun r hr =>
  have h := C16_operators_frame c16pXs c16pOMulti (c16pAcc c16pXs c16pOMulti) r (by simp [c16pXs])
    (c16pAcc_spec (by decide +kernel)) (by decide +kernel) hr
    (by have : allDictAlong (c16pAcc c16pXs c16pOMulti) (touched [] c16pOMulti) = true := by decide +kernel
        intro x hx; exact List.all_eq_true.1 this x hx)
  have hi : ∀ t, allIndep t (touched [] c16pOMulti) = true → ∀ x, x ∈ touched [] c16pOMulti → indep t x = true :=
    fun t ht x hx => List.all_eq_true.1 ht x hx
  ⟨h [.str "a", .str "x"] (by decide +kernel) (by decide +kernel) (hi _ (by decide +kernel)),
   h [.str "t"] (by decide +kernel) (by decide +kernel) (hi _ (by decide +kernel))⟩
example : (flatten (c16pXs ++ [c16pOMulti])).toBool = true ∧
    c04pOkAt (flatten (c16pXs ++ [c16pOMulti])) [.str "a", .str "x"] (some (.scalar (.int 5))) = true := by decide +kernel

/- The clauses for ONE operator hold AMONG ANY NUMBER of other operators of the same stage (`opsStage o`), provided
   the other operators do not interfere: every other touched path (`(touched [] o).erase x`: the own paths of
   the other `!append` / `!extend`, the targets of the other `!prev`) is neither at / below nor above the
   operator's own path / target (`indep`), and all touched paths run through mappings of the accumulated
   tree.  In a successful build
   (a) `!append L` / `!extend L` at `k :: p` with a list `.comp tf tk tcs` there: the data at the path is
       `old ++ L`;
   (b) `!extend L` with nothing at `k :: p`: the data at the path is `L`;
   (c) `!prev "tp"` at a NEW path `k :: p` that no operator touches: the data at and below `k :: p` is the data
       of the node `d` found at `tp` of the accumulated tree.
   (Without independence the operators run in document order on the tree the previous one left:
   `C16_premerge_sequential`, `C16_premerge_order_counterexample`.) -/
theorem C16_operator_among_operators (xs : List Node) (o s r : Node) (k : Key) (p : Path) (hx : xs ≠ [])
    (hs : flattenWith (premergeF (stagesFuel (xs ++ [o]))) xs = .ok s)
    (hst : opsStage o = true) (hbuild : flatten (xs ++ [o]) = .ok r)
    (hlive : liveAlong (k :: p) o = true)
    (hX : ∀ y, y ∈ touched [] o → dictAlong y s = true) :
    (∀ f ck cs tf tk tcs, (ck = .append ∨ ck = .extend) → getNode o (k :: p) = some (.comp f ck cs) →
      getNode s (k :: p) = some (.comp tf tk tcs) → tk.isListFam = true →
      (∀ y, y ∈ (touched [] o).erase (k :: p) → indep (k :: p) y = true) →
      (native r).at? (k :: p) = some (.list (nativeVals tcs ++ cs.map (fun kv => native kv.2)))) ∧
    (∀ f cs, getNode o (k :: p) = some (.comp f .extend cs) → getNode s (k :: p) = none →
      (∀ y, y ∈ (touched [] o).erase (k :: p) → indep (k :: p) y = true) →
      (native r).at? (k :: p) = some (.list (cs.map (fun kv => native kv.2)))) ∧
    (∀ f ps tp d, getNode o (k :: p) = some (.leaf f (.prev ps)) → splitPath ps = some tp → tp ≠ [] →
      getNode s tp = some d → (∀ y, y ∈ (touched [] o).erase tp → indep tp y = true) →
      dictAlong (k :: p) s = true → getNode s (k :: p) = none →
      (∀ y, y ∈ touched [] o → indep (k :: p) y = true) →
      ∀ q, (native r).at? (k :: p ++ q) = (native d).at? q) := by
  refine ⟨?_, ?_, ?_⟩
  · intro f ck cs tf tk tcs hck hg hse hk hI
    have := grow_among xs o s r k p f ck cs tf tk tcs hck hx hs hst hbuild hlive hg hX hse hk hI []
    rw [List.append_nil] at this
    rw [this]; rfl
  · intro f cs hg hse hI
    have := extend_new_among xs o s r k p f cs hx hs hst hbuild hlive hg hX hse hI []
    rw [List.append_nil] at this
    rw [this]; rfl
  · intro f ps tp d hg hsp hne htg hI hqd hq hqI
    exact prev_among xs o s r k p f ps tp d hx hs hst hbuild hlive hg hsp hne hX htg hI hqd hq hqI

-- `{a: {l: !append [8], n: !extend [9]}, q: !prev "a.m", c: 1}`: `a.l` is `[1, 2, 3, 8]`, `a.n` is `[9]`, `q` is `{u: 1}`
example : ∀ r, flatten (c16pXs ++ [c16pOMulti]) = .ok r →
    (native r).at? [.str "a", .str "l"] = some (.list (nativeVals (c04pAt (c16pAcc c16pXs c16pOMulti) [.str "a", .str "l"]).children ++
      (c04pAt c16pOMulti [.str "a", .str "l"]).children.map (fun kv => native kv.2))) ∧
    (native r).at? [.str "a", .str "n"] =
      some (.list ((c04pAt c16pOMulti [.str "a", .str "n"]).children.map (fun kv => native kv.2))) ∧
    (native r).at? [.str "q"] = some (native (c04pAt (c16pAcc c16pXs c16pOMulti) [.str "a", .str "m"])) := fun r hr =>
  have hX : ∀ y, y ∈ touched [] c16pOMulti → dictAlong y (c16pAcc c16pXs c16pOMulti) = true := by
    have : allDictAlong (c16pAcc c16pXs c16pOMulti) (touched [] c16pOMulti) = true := by decide +kernel
    intro x hx; exact List.all_eq_true.1 this x hx
  have hi : ∀ t l, allIndep t l = true → ∀ x, x ∈ l → indep t x = true := fun t l ht x hx => List.all_eq_true.1 ht x hx
  have h1 := (C16_operator_among_operators c16pXs c16pOMulti (c16pAcc c16pXs c16pOMulti) r (.str "a") c16pAL (by simp [c16pXs])
    (c16pAcc_spec (by decide +kernel)) (by decide +kernel) hr (by decide +kernel) hX).1 _ .append _ _ .list _ (.inl rfl)
    (c16pAt_comp .append (by decide +kernel)) (c16pAt_comp .list (by decide +kernel)) rfl (hi _ _ (by decide +kernel))
  have h2 := (C16_operator_among_operators c16pXs c16pOMulti (c16pAcc c16pXs c16pOMulti) r (.str "a") [.str "n"] (by simp [c16pXs])
    (c16pAcc_spec (by decide +kernel)) (by decide +kernel) hr (by decide +kernel) hX).2.1 _ _
    (c16pAt_comp .extend (by decide +kernel)) rfl (hi _ _ (by decide +kernel))
  have h3 := (C16_operator_among_operators c16pXs c16pOMulti (c16pAcc c16pXs c16pOMulti) r (.str "q") [] (by simp [c16pXs])
    (c16pAcc_spec (by decide +kernel)) (by decide +kernel) hr (by decide +kernel) hX).2.2 _ "a.m" [.str "a", .str "m"]
    (c04pAt (c16pAcc c16pXs c16pOMulti) [.str "a", .str "m"]) (c16pAt_prev "a.m" (by decide +kernel)) (by decide +kernel) (by simp)
    (c04pAt_spec (by decide +kernel)) (hi _ _ (by decide +kernel)) (by decide +kernel) rfl (hi _ _ (by decide +kernel)) []
  ⟨h1, h2, by simpa [Plain.at?] using h3⟩
example : c04pOkAt (flatten (c16pXs ++ [c16pOMulti])) [.str "a", .str "l"]
      (some (.list [.scalar (.int 1), .scalar (.int 2), .scalar (.int 3), .scalar (.int 8)])) = true ∧
    c04pOkAt (flatten (c16pXs ++ [c16pOMulti])) [.str "a", .str "n"] (some (.list [.scalar (.int 9)])) = true ∧
    c04pOkAt (flatten (c16pXs ++ [c16pOMulti])) [.str "q"] (some (.dict [(.str "u", .scalar (.int 1))])) = true ∧
    c04pOkAt (flatten (c16pXs ++ [c16pOMulti])) [.str "a", .str "m"] none = true := by decide +kernel

/-! ### (5) order and identity of content -/

/- "elements keep their order and identity of content": in the setting of `C16_append_at_path` /
   `C16_extend_at_path` (`ck` is `.append` or `.extend`) a successful build holds at the path a list `L` with
   `length L = old + new`; its first `old` elements are exactly the old elements in their order (`take`), the
   remaining ones exactly the elements of the operator in their order (`drop`) — nothing is dropped, duplicated
   or reordered; position-wise: `L[i] = old[i]` for `i < old`, `L[old + j] = new[j]`. -/
theorem C16_elements_keep_order (xs : List Node) (o s r : Node) (k : Key) (p : Path) (f : Flags) (ck : CompKind)
    (cs : List (Key × Node)) (tf : Flags) (tk : CompKind) (tcs : List (Key × Node))
    (hck : ck = .append ∨ ck = .extend) (hx : xs ≠ [])
    (hs : flattenWith (premergeF (stagesFuel (xs ++ [o]))) xs = .ok s)
    (hsole : soleAt (k :: p) o = true) (ho : liveAlong (k :: p) o = true)
    (hop : getNode o (k :: p) = some (.comp f ck cs))
    (hsd : dictAlong (k :: p) s = true) (hse : getNode s (k :: p) = some (.comp tf tk tcs))
    (hk : tk.isListFam = true) (hbuild : flatten (xs ++ [o]) = .ok r) :
    ∃ L, (native r).at? (k :: p) = some (.list L) ∧
      (native s).at? (k :: p) = some (.list (nativeVals tcs)) ∧
      L.length = tcs.length + cs.length ∧
      L.take tcs.length = nativeVals tcs ∧
      L.drop tcs.length = cs.map (fun kv => native kv.2) ∧
      (∀ i, i < tcs.length → L[i]? = (nativeVals tcs)[i]?) ∧
      (∀ j, L[tcs.length + j]? = (cs.map (fun kv => native kv.2))[j]?) := by
  obtain ⟨_, h2⟩ := grow_at xs o s k p f ck cs tf tk tcs hck hx hs hsole ho hop hsd hse hk
  have h3 := (h2 r hbuild).1 []
  rw [List.append_nil] at h3
  have hd : tk.isDictFam = false := by simpa [CompKind.isListFam] using hk
  have hlen : (nativeVals tcs).length = tcs.length := length_nativeVals tcs
  refine ⟨nativeVals tcs ++ cs.map (fun kv => native kv.2), by rw [h3]; rfl, ?_, ?_, ?_, ?_, ?_, ?_⟩
  · rw [getNode_at (k :: p) s _ hsd hse]; simp [native, hd]
  · simp [hlen]
  · rw [← hlen, List.take_left]
  · rw [← hlen, List.drop_left]
  · intro i hi
    rw [List.getElem?_append_left (by omega)]
  · intro j
    rw [List.getElem?_append_right (by omega)]
    congr 1; omega

example : ∃ L, L.length = 3 + 2 ∧ L.take 3 = [Plain.scalar (.int 1), .scalar (.int 2), .scalar (.int 3)] ∧
    c04pOkAt (flatten (c16pXs ++ [c16pOApp])) [.str "a", .str "l"] (some (.list L)) = true :=
  ⟨[.scalar (.int 1), .scalar (.int 2), .scalar (.int 3), .scalar (.int 8), .scalar (.int 9)], rfl, rfl, by decide +kernel⟩
example : (flatten (c16pXs ++ [c16pOApp])).toBool = true := by decide +kernel

end AY
