/-
  AY.Props.C17 — node containers stay consistent under any sequence of API operations.

  Property text: "A mapping or list node is at once a Python dict/list and a tree of child nodes
  addressable by path; after any sequence of public operations (item/attribute assignment and
  deletion, append, insert, extend, remove, pop, update, setdefault, clear, set/remove/rename
  child) both views contain the same entries in the same order, every entry is a node, and a
  list's children are numbered 0..n-1. Every node reported by the tree walk is the one returned by
  looking its path up again, and a path converted to text and parsed back is unchanged."

  The statements are about the executable definitions of AY.Model.Container (`step`, `run`,
  `trace`, `initList`, `initDict` are what the driver op "c17" runs), AY.Model.NodePath
  (`splitPathChars`, `joinPathChars`: driver ops "splitPath", "joinPath", "c17path") and
  AY.Model.Merge (`getNode`).  Only property theorems live here; lemmas are in
  AY.Lemmas.C17Lemmas.
-/
import AY.Lemmas.C17Lemmas
namespace AY
open Container

/-! ### Concrete states used by the non-vacuity examples -/

/-- `ConfigList([x1, x2, x3])` with three distinct plain values. -/
def c17ExList : CState := initList [⟨1, 1, false⟩, ⟨2, 2, false⟩, ⟨3, 1, false⟩]

/-- `ConfigDict({'a': x1, 2: x2, '_w': x3})`. -/
def c17ExDict : CState := initDict [(.str "a", ⟨1, 1, false⟩), (.int 2, ⟨2, 2, false⟩), (.str "_w", ⟨3, 3, false⟩)]

/-- a failing and several succeeding operations on a list -/
def c17ExListOps : List (Op Val) :=
  [.insert (.int 0) (.raw 9 9), .pop (some (.int 7)) false, .pop none false, .setItem (.int (-1)) (.ref 0 10 10),
   .remove (.raw 11 1), .setChild (.int 99) (.raw 12 4), .delItem (.str "x"), .extend [.raw 13 1, .ref 1 14 1]]

def c17ExDictOps : List (Op Val) :=
  [.setItem (.str "clear") (.raw 9 9), .renameChild (.str "a") (.str "z"), .pop (some (.str "q")) false,
   .setAttr "b" (.ref 1 10 10), .delAttr "_p", .update [(.int 2, .raw 11 1), (.str "pop", .raw 12 1), (.str "n", .raw 13 1)],
   .setdefault (.str "z") (.raw 14 1), .delItem (.int 5)]

/-- `{a: {x: 1, 0: [2, 3]}, b: 4}` -/
def c17ExTree : Node :=
  .comp {} .dict [
    (.str "a", .comp {} .dict [
      (.str "x", .leaf {} (.scalar (.int 1))),
      (.int 0, .comp {} .list [(.int 0, .leaf {} (.scalar (.int 2))), (.int 1, .leaf {} (.scalar (.int 3)))])]),
    (.str "b", .leaf {} (.scalar (.int 4)))]

/-! ### Construction -/

/- "A mapping or list node is at once a Python dict/list and a tree of child nodes": a freshly
   constructed `ConfigList(values)` / `ConfigDict(pairs)` has both views equal, in order, every
   entry a node, a list's children numbered 0..n-1 — for any values (plain or already nodes, also
   one object at several positions) and any pairs (also with repeated keys). -/
theorem C17_init (values : List Entry) (pairs : List (Key × Entry)) :
    Inv (initList values) ∧ Inv (initDict pairs) :=
  ⟨(Inv_iff_inv _).2 (initList_inv values), (Inv_iff_inv _).2 (initDict_inv pairs)⟩

example : Inv c17ExList ∧ Inv c17ExDict := C17_init _ _
example : c17ExList.storageKV = [(.int 0, ⟨1, 1, true⟩), (.int 1, ⟨2, 2, true⟩), (.int 2, ⟨3, 1, true⟩)] := by decide

/-! ### One operation -/

/- "after any sequence of public operations (item/attribute assignment and deletion, append,
   insert, extend, remove, pop, update, setdefault, clear, set/remove/rename child) both views
   contain the same entries in the same order, every entry is a node, and a list's children are
   numbered 0..n-1" — one step: EVERY operation of `Op`, on a dict or a list, with any key
   (in range, out of range, negative, non-integer, reserved, underscore) and any value (fresh or a
   node already stored), leaves a consistent container in a consistent state, also when it raises. -/
theorem C17_step (s : CState) (op : Op Val) (h : Inv s) : Inv (step s op).1 :=
  (Inv_iff_inv _).2 (step_inv s op ((Inv_iff_inv s).1 h))

example : Inv c17ExList := by decide
-- a succeeding and a failing step on the concrete list (the failing one raises IndexError)
example : (step c17ExList (.insert (.int 0) (.raw 9 9))).1.childKV
    = [(.int 0, ⟨9, 9, true⟩), (.int 1, ⟨1, 1, true⟩), (.int 2, ⟨2, 2, true⟩), (.int 3, ⟨3, 1, true⟩)] := by decide
example : (step c17ExList (.pop (some (.int 7)) false)).2 = .exc .indexError := by decide
example : (step c17ExDict (.setItem (.str "clear") (.raw 9 9))).2 = .exc .valueError := by decide

/-! ### Any finite sequence of operations -/

/- "after any sequence of public operations … both views contain the same entries in the same
   order, every entry is a node, and a list's children are numbered 0..n-1": induction over the
   operation list, from any consistent state; exceptions do not end the sequence. -/
theorem C17_reachable (s : CState) (ops : List (Op Val)) (h : Inv s) : Inv (run s ops) :=
  (Inv_iff_inv _).2 (run_inv ops s ((Inv_iff_inv s).1 h))

example : Inv (run c17ExList c17ExListOps) := C17_reachable _ _ (by decide)
example : (run c17ExList c17ExListOps).storageKV.length = 5 := by decide
example : Inv (run c17ExDict c17ExDictOps) := C17_reachable _ _ (by decide)
example : (run c17ExDict c17ExDictOps).storageKV.map (·.1) = [.int 2, .str "_w", .str "z", .str "b"] := by decide

/- The same for every intermediate state reported by the driver (`trace` is what op "c17" prints). -/
theorem C17_trace (s : CState) (ops : List (Op Val)) (h : Inv s) : ∀ r ∈ trace s ops, Inv r.1 := by
  induction ops generalizing s with
  | nil => intro r hr; cases hr
  | cons op ops ih =>
    intro r hr
    simp only [trace, List.mem_cons] at hr
    rcases hr with hr | hr
    · rw [hr]; exact C17_step s op h
    · exact ih _ (C17_step s op h) r hr

example : (trace c17ExList c17ExListOps).length = 8 := by decide

/- Sequences starting from a constructor: no hypothesis left. -/
theorem C17_reachable_from_init (values : List Entry) (pairs : List (Key × Entry)) (ops : List (Op Val)) :
    Inv (run (initList values) ops) ∧ Inv (run (initDict pairs) ops) :=
  ⟨C17_reachable _ _ (C17_init values pairs).1, C17_reachable _ _ (C17_init values pairs).2⟩

example : Inv (run (initList []) c17ExListOps) := (C17_reachable_from_init [] [] _).1

/-! ### What the invariant says, view by view -/

/- "both views contain the same entries in the same order" -/
theorem C17_views_equal (s : CState) (h : Inv s) : s.childKV = s.storageKV := by
  cases s with
  | dict d attrs => exact h.1
  | list l attrs => exact h.1

example : (run c17ExDict c17ExDictOps).childKV = (run c17ExDict c17ExDictOps).storageKV :=
  C17_views_equal _ (C17_reachable _ _ (by decide))

/- "every entry is a node" -/
theorem C17_entries_are_nodes (s : CState) (h : Inv s) :
    (∀ kv ∈ s.storageKV, kv.2.node = true) ∧ (∀ kv ∈ s.childKV, kv.2.node = true) := by
  have hst : ∀ kv ∈ s.storageKV, kv.2.node = true := by
    cases s with
    | dict d attrs => exact h.2.2
    | list l attrs =>
      intro kv hkv
      have hm : kv.2 ∈ (renum l.items).map (·.2) := List.mem_map_of_mem hkv
      rw [renum, renumFrom_map_snd] at hm
      exact h.2 _ hm
  exact ⟨hst, by rw [C17_views_equal s h]; exact hst⟩

example : ∀ kv ∈ (run c17ExList c17ExListOps).childKV, kv.2.node = true :=
  (C17_entries_are_nodes _ (C17_reachable _ _ (by decide))).2

/- "a list's children are numbered 0..n-1" (in this order), and a dict has no key twice -/
theorem C17_list_numbered (l : LSt) (attrs : List String) (h : Inv (.list l attrs)) :
    l.ch.map (·.1) = (List.range l.items.length).map (fun (i : Nat) => Key.int (i : Int)) := by
  have key : ∀ (xs : List Entry) (s : Nat),
      (renumFrom s xs).map (·.1) = (List.range' s xs.length).map (fun (i : Nat) => Key.int (i : Int)) := by
    intro xs
    induction xs with
    | nil => intro s; rfl
    | cons x xs ih => intro s; simp [renumFrom_cons, List.range'_succ, ih]
  rw [h.1, renum, key, List.range_eq_range']

theorem C17_dict_keys_distinct (d : DSt) (attrs : List String) (h : Inv (.dict d attrs)) :
    nodupKeys d.ch = true ∧ nodupKeys d.items = true := by
  rw [h.1]; exact ⟨h.2.1, h.2.1⟩

example : ∃ l attrs, run c17ExList c17ExListOps = .list l attrs ∧ l.items.length = 5 :=
  ⟨_, _, rfl, by decide⟩

/-! ### The tree walk -/

/- "Every node reported by the tree walk is the one returned by looking its path up again":
   `nodesWithPaths` mirrors `ayns.nodes_with_paths()` (depth first, children only, recursive),
   `getNode` mirrors `ayns.get_node(path)`.  Hypothesis: sibling keys are pairwise distinct at
   every level (each `_children` is a dict — for containers reached through the public API this
   is `C17_dict_keys_distinct` / `C17_list_numbered`). -/
theorem C17_walk_lookup (root : Node) (p : Path) (n : Node) (hd : distinctKeys root = true)
    (hm : (p, n) ∈ nodesWithPaths root) : getNode root p = some n := by
  obtain ⟨q, hp, hg⟩ := walk_sound root [] p n hd hm
  rw [hp]; exact hg

example : distinctKeys c17ExTree = true := by decide
example : (nodesWithPaths c17ExTree).map (·.1) =
    [[.str "a"], [.str "a", .str "x"], [.str "a", .int 0], [.str "a", .int 0, .int 0], [.str "a", .int 0, .int 1], [.str "b"]] := by
  decide
-- the hypothesis cannot be dropped: with a repeated key the walk reports a node that lookup does not return
example : ∃ root p n, (p, n) ∈ nodesWithPaths root ∧ getNode root p ≠ some n :=
  ⟨.comp {} .dict [(.str "a", .leaf {} .required), (.str "a", .leaf {} .clear)], [.str "a"], .leaf {} .clear,
   by simp [nodesWithPaths, walk, walkL], by simp [getNode, alookup]⟩

/-! ### Paths as text -/

/- "a path converted to text and parsed back is unchanged": for every path whose names are
   non-empty words over `[A-Za-z0-9_]` (what the tokeniser of `split_path` calls a name; also
   all-digit names) and whose indices are arbitrary integers (negative, zero, any size).
   `none` would be the `ValueError('Invalid path')` of `split_path`. -/
theorem C17_path_roundtrip (p : Path) (h : ValidComponents p) : splitPathChars (joinPathChars p) = some p :=
  splitPathChars_joinPathChars p h

theorem C17_path_roundtrip_str (p : Path) (h : ValidComponents p) : splitPath (joinPath p) = some p := by
  unfold splitPath joinPath
  rw [String.toList_ofList]
  exact C17_path_roundtrip p h

example : ValidComponents [.str "a", .int 0, .str "b_1", .int (-30), .str "12", .int 0] := by
  intro k hk
  simp only [List.mem_cons, List.mem_nil_iff, or_false] at hk
  rcases hk with h | h | h | h | h | h <;> rw [h] <;> decide
example : joinPathChars [.str "a", .int 0, .str "b_1", .int (-30), .str "12"] = "a[0].b_1[-30].12".toList := by decide
-- the hypothesis cannot be dropped: a name with a dot is read back as two names
example : splitPathChars (joinPathChars [.str "a.b"]) = some [.str "a", .str "b"] := by decide

end AY
