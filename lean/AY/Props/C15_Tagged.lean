/-
  C15 (continued) — key permutation and repeat-last for documents USING priority, `!del` and `!merge`
  tags.

  Statement (properties.jsonl, the clauses finished here): "… repeating the last document … does not
  change the result; and permuting the order of keys inside any mapping of any document changes at
  most the order of keys in the result. … all of this holds for documents using priority, !del and
  !merge tags (excluding the explicit remove-this-key idiom, which is intentionally not
  idempotent)."

  AY/Props/C15.lean and C15_Flags.lean proved both laws for TAG-FREE documents (through the
  specification `upd`).  Here they are proved on the model itself (`mergeF`, `merge`, `flatten`) for
  trees of MAPPINGS (any depth, distinct keys, leaves of any kind) with ARBITRARY flags on every
  node: priorities, explicit and inherited `delete`, metadata, safety, `allow_new`.  Lists stay outside:
  a list meeting priorities is finding D18, two keys addressing one list position finding D28 (the
  three `*_counterexample` theorems of C15.lean).

  Relations (AY/Lemmas/C15TaggedPerm.lean, C15TaggedCore.lean):
    `PermD n n'`  both trees are mappings-and-leaves with distinct keys, have the same flags on every
                  node and, at every mapping, the same keys with related values: only the ORDER of
                  keys may differ.  `PermD n n` is the domain (`dictTree n`).
    `PermC n n'`  the same, but of the flags only the effective priority and the explicit `delete`
                  must agree (`core`): the flags `has_priority_over` and the remove-this-key test read.
  What is proved
  * KEY ORDER   `PermD s s' → PermD o o' →` the two merges fail together, or succeed with results
                related by `PermD` and the same "is self" answer (`C15_key_permutation_tagged`); the
                fold of `Builder.flatten` (`C15_key_permutation_tagged_flatten`); through the loader
                for documents (`C15_key_permutation_tagged_docs`).
  * REPEAT      on the domain without `!notnew` (`Dom`), for a newer tree without the remove-this-key
                idiom (`noIdiom`: no explicit `delete = True` on a falsy node): merging it a second time
                succeeds and gives a tree related by `PermC` — the same data up to the order of keys,
                the same priority and explicit `delete` on every node (`C15_repeat_last_tagged`, the fold:
                `C15_repeat_last_tagged_flatten`, documents: `C15_repeat_last_tagged_docs`).
  * What CAN change when the last document is repeated: the ORDER of keys
                (`C15_repeat_last_tagged_reorders`: a key removed by the pruning of a deleting mapping
                is re-created at the end), replayed on the implementation; Python dicts compare equal.
  * The excluded idiom is excluded for a reason (`C15_repeat_last_tagged_idiom_counterexample`).
  Proofs: AY/Lemmas/C15Tagged{Base,Perm,Merge,Core,Spec,IdemA,IdemB,IdemC,Flatten,Construct}.lean.
-/
import AY.Lemmas.C15TaggedFlatten
import AY.Lemmas.C15TaggedConstruct
namespace AY
open AY.C15T

/-! ### Concrete inputs used by the non-vacuity examples -/

def c15tInt (i : Int) : Raw := .scalar .none {} (.lit (.int i))
def c15tForce (i : Int) : Raw := .scalar .plain { prio := some 1 } (.lit (.int i))
def c15tWeak (i : Int) : Raw := .scalar .plain { prio := some (-1) } (.lit (.int i))

/-- `{a: {x: !force 1, y: 2}, w: !weak 5, k: 0}` and the same with every mapping permuted -/
def c15tOld : Raw := .map .none {} [
  (.str "a", .map .none {} [(.str "x", c15tForce 1), (.str "y", c15tInt 2)]),
  (.str "w", c15tWeak 5), (.str "k", c15tInt 0)]
def c15tOld' : Raw := .map .none {} [
  (.str "k", c15tInt 0), (.str "w", c15tWeak 5),
  (.str "a", .map .none {} [(.str "y", c15tInt 2), (.str "x", c15tForce 1)])]
/-- `{a: !del {z: 3}, w: 6, m: !merge {q: 1, r: 2}}` and the same with every mapping permuted -/
def c15tNew : Raw := .map .none {} [
  (.str "a", .map .plain { del := some true } [(.str "z", c15tInt 3)]),
  (.str "w", c15tInt 6),
  (.str "m", .map .plain { del := some false } [(.str "q", c15tInt 1), (.str "r", c15tInt 2)])]
def c15tNew' : Raw := .map .none {} [
  (.str "m", .map .plain { del := some false } [(.str "r", c15tInt 2), (.str "q", c15tInt 1)]),
  (.str "w", c15tInt 6),
  (.str "a", .map .plain { del := some true } [(.str "z", c15tInt 3)])]

/-- the node tree of a document (a placeholder leaf when the loader fails: it never does here) -/
def c15tNode (r : Raw) : Node :=
  match construct {} r with
  | .ok n => n
  | .error _ => .leaf {} .clear

def c15tS : Node := c15tNode c15tOld
def c15tS' : Node := c15tNode c15tOld'
def c15tO : Node := c15tNode c15tNew
def c15tO' : Node := c15tNode c15tNew'

/-- parse and merge a sequence of documents, keep the data -/
def c15tBuild (ds : List Raw) : Except Err Plain :=
  match constructDocs (ds.map (fun d => (({} : Env), d))) with
  | .error e => .error e
  | .ok ns => (flatten ns).map native

/-! ### The domain and the relation -/

/- The relation `PermD` used below: it is reflexive exactly on trees of mappings with distinct keys
   and leaves (`dictTree`), it contains the relation "the entries of `.dict` mappings written in
   another order, at any depth" (`PermTree` of AY/Lemmas/OutcomeNestedDefs.lean) on that domain, it
   is symmetric, an executable check (`permDB`) is sound for it, and related trees have the same data
   up to the order of keys at every level (`Plain.PermEq`, the relation of `C15_key_permutation_plain`). -/
theorem C15_tagged_relation (n n' : Node) :
    (dictTree n = true ↔ PermD n n) ∧
    (PermTree n n' → dictTree n = true → dictTree n' = true → PermD n n') ∧
    (permDB n n' = true → PermD n n') ∧
    (PermD n n' → PermD n' n) ∧
    (PermD n n' → (native n).PermEq (native n') ∧ n'.flags = n.flags ∧ PermC n n') :=
  ⟨⟨fun h => PermD.refl h, fun h => h.dictTree_left⟩,
   fun h ht ht' => PermTree.toPermD n.depth n n' (Nat.le_refl _) h ht ht',
   permDB_sound n n',
   fun h => h.symm,
   fun h => ⟨h.native, h.flags_eq, h.toPermC⟩⟩

example : dictTree c15tS = true ∧ dictTree c15tO = true ∧ permDB c15tS c15tS' = true ∧ permDB c15tO c15tO' = true := by
  decide

/-! ### Permuting the keys of mappings, tagged trees -/

/- "permuting the order of keys inside any mapping of any document changes at most the order of keys
   in the result … for documents using priority, !del and !merge tags" — one merge, on the model,
   for ALL trees of mappings (any flags on any node, any fuel), permuting BOTH sides at once: if
   `s'` is `s` and `o'` is `o` up to the order of keys inside mappings (`PermD`), then
   * when `s ⊕ o` succeeds so does `s' ⊕ o'`, with the same "is self" answer and a result that is the
     same tree up to the order of keys (all raw flags of all nodes equal; hence the same data up to
     the order of keys at every level);
   * when `s ⊕ o` fails so does `s' ⊕ o'` (the error may name another path: `_require_all_new`
     reports the first offending key in the order of the newer mapping);
   * the same for `merge` (the public wrapper supplying the fuel). -/
theorem C15_key_permutation_tagged (fuel : Nat) (s s' o o' : Node) (hs : PermD s s') (ho : PermD o o') :
    (∀ r same, mergeF fuel s o = .ok (r, same) →
      ∃ r', mergeF fuel s' o' = .ok (r', same) ∧ PermD r r' ∧ (native r).PermEq (native r')) ∧
    (∀ e, mergeF fuel s o = .error e → ∃ e', mergeF fuel s' o' = .error e') ∧
    (∀ r, merge s o = .ok r → ∃ r', merge s' o' = .ok r' ∧ PermD r r' ∧ (native r).PermEq (native r')) := by
  refine ⟨?_, fun e h => mergeF_perm_error fuel hs ho e h, ?_⟩
  · intro r same h
    obtain ⟨r', h', hr⟩ := mergeF_perm fuel s s' o o' r same hs ho h
    exact ⟨r', h', hr, hr.native⟩
  · intro r h
    obtain ⟨r', h', hr⟩ := merge_perm hs ho h
    exact ⟨r', h', hr, hr.native⟩

-- the hypotheses hold for the two tagged documents and their permuted versions …
example : PermD c15tS c15tS' ∧ PermD c15tO c15tO' :=
  ⟨permDB_sound _ _ (by decide), permDB_sound _ _ (by decide)⟩
-- … the merge succeeds: the `!force` leaf `a.x` survives the `!del` on `a` (`a.y` does not), the `!weak`
-- leaf `w` is overwritten, the `!merge` mapping `m` is new …
example : (merge c15tS c15tO).map native = .ok (.dict [
    (.str "a", .dict [(.str "x", .scalar (.int 1)), (.str "z", .scalar (.int 3))]),
    (.str "w", .scalar (.int 6)), (.str "k", .scalar (.int 0)),
    (.str "m", .dict [(.str "q", .scalar (.int 1)), (.str "r", .scalar (.int 2))])]) := rfl
-- … and the key ORDER of the result really depends on the order of the keys in the documents
example : (merge c15tS' c15tO').map native = .ok (.dict [
    (.str "k", .scalar (.int 0)), (.str "w", .scalar (.int 6)),
    (.str "a", .dict [(.str "x", .scalar (.int 1)), (.str "z", .scalar (.int 3))]),
    (.str "m", .dict [(.str "r", .scalar (.int 2)), (.str "q", .scalar (.int 1))])]) := rfl

/- The two one-sided statements: permuting only the NEWER document, or only the OLDER one. -/
theorem C15_key_permutation_tagged_one_side (fuel : Nat) (s s' o o' : Node) (hs : PermD s s') (ho : PermD o o')
    (r : Node) (same : Bool) (h : mergeF fuel s o = .ok (r, same)) :
    (∃ r', mergeF fuel s o' = .ok (r', same) ∧ PermD r r') ∧
    (∃ r', mergeF fuel s' o = .ok (r', same) ∧ PermD r r') :=
  ⟨mergeF_perm fuel s s o o' r same (PermD.refl hs.dictTree_left) ho h,
   mergeF_perm fuel s s' o o r same hs (PermD.refl ho.dictTree_left) h⟩

example : (mergeF 3 c15tS c15tO).toBool = true := by decide

/- "… of any document …" — the builder's fold: two sequences of stages (mappings of mappings and
   scalars, distinct keys, any flags) that are position by position equal up to the order of keys:
   `Builder.flatten` fails on both or succeeds on both with results equal up to the order of keys
   (all flags equal). -/
theorem C15_key_permutation_tagged_flatten (stages stages' : List Node) (hl : ListRel PermD stages stages')
    (hd : ∀ st, st ∈ stages → dataT st = true ∧ st.isDict = true) :
    (∀ r, flatten stages = .ok r → ∃ r', flatten stages' = .ok r' ∧ PermD r r' ∧ (native r).PermEq (native r')) ∧
    (∀ e, flatten stages = .error e → ∃ e', flatten stages' = .error e') := by
  refine ⟨?_, fun e h => flatten_perm_error hl hd e h⟩
  intro r h
  obtain ⟨r', h', hr⟩ := flatten_perm hl hd r h
  exact ⟨r', h', hr, hr.native⟩

example : ListRel PermD [c15tS, c15tO, c15tO] [c15tS', c15tO', c15tO] ∧
    (∀ st, st ∈ [c15tS, c15tO, c15tO] → dataT st = true ∧ st.isDict = true) := by
  refine ⟨.cons (permDB_sound _ _ (by decide)) (.cons (permDB_sound _ _ (by decide))
    (.cons (permDB_sound _ _ (by decide)) .nil)), ?_⟩
  intro st hst
  simp only [List.mem_cons, List.not_mem_nil, or_false] at hst
  rcases hst with rfl | rfl | rfl <;> decide
example : (flatten [c15tS, c15tO, c15tO]).toBool = true := by decide

/- "… of any document …" — through the loader: two sequences of DOCUMENTS (mappings of mappings and
   scalars; every node untagged or carrying a merge-control tag with any combination of priority,
   `delete`, `allow_new`, safety and metadata keywords; distinct keys) that are position by position
   equal up to the order of the items inside mappings (`RawPermD`; same tags, same source context):
   both sequences are parsed, and the builds fail together or succeed with results equal up to the
   order of keys — the statement of `C15_key_permutation_plain`, now for tagged documents. -/
theorem C15_key_permutation_tagged_docs (docs docs' : List (Env × Raw)) (hl : DocsPerm docs docs') :
    ∃ ns ns', constructDocs docs = .ok ns ∧ constructDocs docs' = .ok ns' ∧
      (∀ r, flatten ns = .ok r → ∃ r', flatten ns' = .ok r' ∧ PermD r r' ∧ (native r).PermEq (native r')) ∧
      (∀ e, flatten ns = .error e → ∃ e', flatten ns' = .error e') := by
  obtain ⟨ns, ns', e1, e2, hrel, hd⟩ := constructDocs_perm hl
  refine ⟨ns, ns', e1, e2, ?_, fun e h => flatten_perm_error hrel hd e h⟩
  intro r h
  obtain ⟨r', h', hr⟩ := flatten_perm hrel hd r h
  exact ⟨r', h', hr, hr.native⟩

example : DocsPerm [(({} : Env), c15tOld), ({}, c15tNew)] [({}, c15tOld'), ({}, c15tNew')] :=
  docsPermB_sound _ _ (by decide)
example : (c15tBuild [c15tOld, c15tNew]).toBool = true ∧ (c15tBuild [c15tOld', c15tNew']).toBool = true ∧
    (match c15tBuild [c15tOld, c15tNew], c15tBuild [c15tOld', c15tNew'] with
      | .ok (.dict ((k, _) :: _)), .ok (.dict ((k', _) :: _)) => k != k'
      | _, _ => false) = true := by
  decide

/-! ### Repeating the last document, tagged trees -/

/-- `!del {a: {x: 7}, w: 6, m: !merge {q: 1}}`: a deleting root -/
def c15tLast : Raw := .map .plain { del := some true } [
  (.str "a", .map .none {} [(.str "x", c15tInt 7)]),
  (.str "w", c15tInt 6),
  (.str "m", .map .plain { del := some false } [(.str "q", c15tInt 1)])]
/-- `{a: {x: !force 1, y: 2}, w: !weak 5, k: 0}` -/
def c15tFirst : Raw := .map .none {} [
  (.str "a", .map .none {} [(.str "x", c15tForce 1), (.str "y", c15tInt 2)]),
  (.str "w", c15tWeak 5), (.str "k", c15tInt 0)]

/- "repeating the last document … does not change the result … for documents using priority, !del
   and !merge tags (excluding the explicit remove-this-key idiom …)" — one merge, on the model: for
   ALL trees of mappings `s`, `o` without `!notnew` restrictions (`Dom`: mappings with distinct keys
   and leaves; any priorities, explicit / inherited `delete`, metadata, safety), `o` free of the
   remove-this-key idiom (`noIdiom`: no node with an explicit `delete = True` that is an empty mapping
   or a falsy scalar) and enough fuel: when `s ⊕ o = r`, merging `o` again succeeds and
   * the data of `r ⊕ o` is the data of `r` up to the order of keys at every level;
   * FLAGS: at every path the node of `r ⊕ o` has the same effective priority and the same explicit
     `delete` flag as the node of `r` (`PermC`; path by path in the last clause).  Inherited flags,
     metadata and safety are not compared (the fuzzer finds no difference on trees built by the loader,
     and differences in inherited flags on hand-made trees with inconsistent inherited flags);
   * the same for `merge`. -/
theorem C15_repeat_last_tagged (fuel : Nat) (s o r : Node) (same : Bool) (hs : Dom s) (ho : Dom o)
    (hni : noIdiom o = true) (hd : o.depth < fuel) (h : mergeF fuel s o = .ok (r, same)) :
    ∃ r2 same2, mergeF fuel r o = .ok (r2, same2) ∧ PermC r r2 ∧ (native r).PermEq (native r2) ∧
      (∀ r1, merge s o = .ok r1 → ∃ r3, merge r1 o = .ok r3 ∧ PermC r1 r3) ∧
      (∀ p n, getNode r p = some n → ∃ n2, getNode r2 p = some n2 ∧ ePrio n2.flags = ePrio n.flags ∧
        n2.flags.del = n.flags.del ∧ n2.truthy = n.truthy ∧ (native n).PermEq (native n2)) := by
  obtain ⟨r2, b2, h2, hrr⟩ := mergeF_idem fuel hs ho hni hd h
  refine ⟨r2, b2, h2, hrr, hrr.native, fun r1 h1 => merge_idem hs ho hni h1, ?_⟩
  intro p n hn
  obtain ⟨n2, hn2, hnn⟩ := hrr.getNode p hn
  exact ⟨n2, hn2, ((coreF_eq_iff.1 hnn.coreF_eq).1).symm, hnn.del_eq, hnn.truthy_eq, hnn.native⟩

-- the hypotheses hold for the node trees of `{a: {x: !force 1, y: 2}, w: !weak 5, k: 0}` and
-- `!del {a: {x: 7}, w: 6, m: !merge {q: 1}}` …
example : Dom (c15tNode c15tFirst) ∧ Dom (c15tNode c15tLast) ∧ noIdiom (c15tNode c15tLast) = true ∧
    (c15tNode c15tLast).depth < 3 :=
  ⟨⟨by decide, by decide⟩, ⟨by decide, by decide⟩, by decide, by decide⟩
-- … the deleting root removes `k` and `a.y`; the `!force` leaf `a.x` survives the `!del` (and wins against
-- `a.x: 7`), the `!weak` leaf `w` is removed and overwritten by `6`
example : (mergeF 3 (c15tNode c15tFirst) (c15tNode c15tLast)).map (fun x => native x.1) = .ok (.dict [
    (.str "a", .dict [(.str "x", .scalar (.int 1))]),
    (.str "w", .scalar (.int 6)), (.str "m", .dict [(.str "q", .scalar (.int 1))])]) := rfl

/- "repeating the last document … does not change the result" — the builder's fold: for stages of
   the domain (mappings of mappings and scalars, distinct keys, no `!notnew`, any other flags), the
   last one free of the remove-this-key idiom: the sequence with the last stage repeated fails with
   the same error, or builds a tree with the same data up to the order of keys and the same priority
   and explicit `delete` on every node. -/
theorem C15_repeat_last_tagged_flatten (stages : List Node) (d : Node)
    (hst : ∀ st, st ∈ stages ++ [d] → StageN st) (hni : noIdiom d = true) :
    (∀ r, flatten (stages ++ [d]) = .ok r →
      ∃ r2, flatten (stages ++ [d, d]) = .ok r2 ∧ PermC r r2 ∧ (native r).PermEq (native r2)) ∧
    (∀ e, flatten (stages ++ [d]) = .error e → flatten (stages ++ [d, d]) = .error e) := by
  obtain ⟨h1, h2⟩ := flatten_repeat stages d hst hni
  refine ⟨?_, h2⟩
  intro r h
  obtain ⟨r2, hr2, hrr⟩ := h1 r h
  exact ⟨r2, hr2, hrr, hrr.native⟩

example : (∀ st, st ∈ [c15tS, c15tNode c15tFirst] ++ [c15tNode c15tLast] → StageN st) ∧
    noIdiom (c15tNode c15tLast) = true := by
  refine ⟨?_, by decide⟩
  intro st hst
  simp only [List.cons_append, List.nil_append, List.mem_cons, List.not_mem_nil, or_false] at hst
  rcases hst with rfl | rfl | rfl <;> exact ⟨⟨by decide, by decide, by decide⟩, by decide⟩
example : (flatten ([c15tS, c15tNode c15tFirst] ++ [c15tNode c15tLast])).toBool = true := by decide

/- "repeating the last document … does not change the result" — through the loader: for DOCUMENTS of
   the domain (mappings of mappings and scalars; untagged or merge-control tags with priority /
   `delete` / `allow_new = True` / safety / metadata keywords, no `!notnew`; distinct keys), the last
   one without an explicit `!del` on an empty mapping or a falsy / empty scalar (`rawNoIdiom`, the
   exclusion of the harness): every document is parsed, and the build with the last document
   repeated fails with the same error or gives the same data up to the order of keys. -/
theorem C15_repeat_last_tagged_docs (docs : List (Env × Raw)) (d : Env × Raw)
    (hdocs : ∀ x, x ∈ docs ++ [d] → rawDom x.2 = true) (hni : rawNoIdiom d.2 = true) :
    ∃ ns n, constructDocs docs = .ok ns ∧ construct d.1 d.2 = .ok n ∧
      constructDocs (docs ++ [d]) = .ok (ns ++ [n]) ∧ constructDocs (docs ++ [d, d]) = .ok (ns ++ [n, n]) ∧
      (∀ r, flatten (ns ++ [n]) = .ok r →
        ∃ r2, flatten (ns ++ [n, n]) = .ok r2 ∧ PermC r r2 ∧ (native r).PermEq (native r2)) ∧
      (∀ e, flatten (ns ++ [n]) = .error e → flatten (ns ++ [n, n]) = .error e) := by
  obtain ⟨ns, n, e1, e2, e3, e4, hst, hn⟩ := constructDocs_repeat docs d hdocs hni
  obtain ⟨h1, h2⟩ := flatten_repeat ns n hst hn
  refine ⟨ns, n, e1, e2, e3, e4, ?_, h2⟩
  intro r h
  obtain ⟨r2, hr2, hrr⟩ := h1 r h
  exact ⟨r2, hr2, hrr, hrr.native⟩

example : (∀ x, x ∈ [(({} : Env), c15tOld), ({}, c15tFirst)] ++ [(({} : Env), c15tLast)] → rawDom x.2 = true) ∧
    rawNoIdiom c15tLast = true := by
  refine ⟨?_, by decide⟩
  intro x hx
  simp only [List.cons_append, List.nil_append, List.mem_cons, List.not_mem_nil, or_false] at hx
  rcases hx with rfl | rfl | rfl <;> decide
example : (match c15tBuild [c15tOld, c15tFirst, c15tLast] with
      | .ok (.dict [(.str "a", .dict [(.str "x", .scalar (.int 1))]), (.str "w", .scalar (.int 6)),
          (.str "m", .dict [(.str "q", .scalar (.int 1))])]) => true
      | _ => false) = true ∧
    (match c15tBuild [c15tOld, c15tFirst, c15tLast, c15tLast] with
      | .ok (.dict [(.str "a", .dict [(.str "x", .scalar (.int 1))]), (.str "w", .scalar (.int 6)),
          (.str "m", .dict [(.str "q", .scalar (.int 1))])]) => true
      | _ => false) = true := by
  constructor <;> decide +kernel

/-! ### What repeating the last document can change: the order of keys -/

/-- `{b: {p: !force 1}, c: !force 2}` and `!del {b: ''}` -/
def c15tOrd1 : Raw := .map .none {} [
  (.str "b", .map .none {} [(.str "p", c15tForce 1)]), (.str "c", c15tForce 2)]
def c15tOrd2 : Raw := .map .plain { del := some true } [(.str "b", .scalar .none {} (.lit (.str "")))]

/- "… does not change the result" is equality of DATA, not of key order: in
   `{b: {p: !force 1}, c: !force 2}` ← `!del {b: ''}` the mapping `b` survives the pruning of the deleting
   root (it holds a protected leaf) and is then replaced IN PLACE by the scalar `''`; the second time
   `b` is an unprotected scalar, the pruning removes it and the key loop re-creates it at the END.
   Both documents are in the domain of `C15_repeat_last_tagged_docs` (`''` carries no explicit `!del`),
   so the two results are equal up to the order of keys — and, as Python dicts, equal.
   Replay: Config.build("b: {p: !force 1}\nc: !force 2", "!del {b: ''}")            = {'b': '', 'c': 2}
           Config.build("b: {p: !force 1}\nc: !force 2", "!del {b: ''}", "!del {b: ''}") = {'c': 2, 'b': ''} -/
theorem C15_repeat_last_tagged_reorders :
    rawDom c15tOrd1 = true ∧ rawDom c15tOrd2 = true ∧ rawNoIdiom c15tOrd2 = true ∧
    c15tBuild [c15tOrd1, c15tOrd2] =
      .ok (.dict [(.str "b", .scalar (.str "")), (.str "c", .scalar (.int 2))]) ∧
    c15tBuild [c15tOrd1, c15tOrd2, c15tOrd2] =
      .ok (.dict [(.str "c", .scalar (.int 2)), (.str "b", .scalar (.str ""))]) :=
  ⟨by decide, by decide, by decide, rfl, rfl⟩

example : (Plain.dict [(.str "b", .scalar (.str "")), (.str "c", .scalar (.int 2))]).PermEq
    (.dict [(.str "c", .scalar (.int 2)), (.str "b", .scalar (.str ""))]) :=
  PermEq_of_B 3 (by decide)

/-! ### The excluded idiom -/

/- "(excluding the explicit remove-this-key idiom, which is intentionally not idempotent)" — the
   hypothesis `noIdiom` / `rawNoIdiom` cannot be dropped: `{a: {x: 1}}` ← `{a: !del {}}` removes the key
   `a`; repeated, the key is absent, so the `!del {}` creates it: `{}` versus `{a: {}}`.
   Replay: Config.build("a: {x: 1}", "a: !del {}") = {},  Config.build("a: {x: 1}", "a: !del {}", "a: !del {}") = {'a': {}} -/
theorem C15_repeat_last_tagged_idiom_counterexample :
    rawNoIdiom (.map .none {} [(.str "a", .map .plain { del := some true } [])]) = false ∧
    c15tBuild [.map .none {} [(.str "a", .map .none {} [(.str "x", c15tInt 1)])],
               .map .none {} [(.str "a", .map .plain { del := some true } [])]] = .ok (.dict []) ∧
    c15tBuild [.map .none {} [(.str "a", .map .none {} [(.str "x", c15tInt 1)])],
               .map .none {} [(.str "a", .map .plain { del := some true } [])],
               .map .none {} [(.str "a", .map .plain { del := some true } [])]] =
      .ok (.dict [(.str "a", .dict [])]) :=
  ⟨by decide, rfl, rfl⟩

example : rawDom (.map .none {} [(.str "a", .map .plain { del := some true } [])]) = true := by decide

end AY
