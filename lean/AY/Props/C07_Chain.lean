/-
  AY.Props.C07_Chain — an unsafe reference in the middle of a chain of references (defect D31,
  repaired).

  Property text (C07): "… no value originating from unsafe content is ever passed to a call or
  resolved as a name …".

  `XRefNode.on_evaluate_impl` follows a chain of references through `ctx.get_node`: a reference that
  is already memoised is read from the memo table, one that is not is followed *as a node*, without
  `evaluate_node`. Before the repair the flags of a reference followed as a node were never looked
  at, so a strict consumer (an argument of a `!call` / `!bind`, a name in `!eval` code) obtained a
  value through an `!unsafe` reference if it happened to run before that reference was evaluated.
  The statements are about `xrefLoop` / `evalNodeF` of AY.Model.Eval; `Cov root st` is the invariant
  of the states of a build of a tree with pairwise distinct keys (`Cov.init`, `evalNodeF_cov`), of
  which only `utaint` is used: the memoised value of an unsafe node of the tree is tainted.
-/
import AY.Props.C07
import AY.Lemmas.OrderLemmas
namespace AY

/-- the former witness: `a` is an unsafe reference to the safe scalar `c`, `g` a `!bind` whose
    argument refers to `a` -/
def c07ChainA : Key × Node := (.str "a", .leaf { safe := some false } (.xref "c"))
def c07ChainC : Key × Node := (.str "c", .leaf {} (.scalar (.str "s")))
def c07ChainG : Key × Node := (.str "g", .comp {} (.bind "f") [(.str "x", .leaf {} (.xref "a"))])
def c07ChainWorld : World := { sigs := [("f", [{ name := "kw", kind := .varKw }])] }

/- "no value originating from unsafe content is ever passed to a call": a strict consumer cannot
   obtain a value through an unsafe reference, whether or not that reference was evaluated before.
   (1) the loop itself: under `require_all_safe` a chain whose current text names an unsafe `!xref`
   node of the tree ends with `UnsafeError` — if the reference is memoised its value is tainted and
   `ctx.get_node` refuses it, if it is not it is met as a node and its flag is checked. -/
theorem C07_unsafe_chain_link_refused (rec : Rec) (root : Node) (self : Path) (fuel : Nat) (cur : String)
    (chain : List String) (st : EvSt) (tp : Path) (f : Flags) (next : String)
    (hcov : Cov root st) (htp : splitPath cur = some tp)
    (hg : getNode root tp = some (.leaf f (.xref next))) (hs : eSafe f = false)
    (hc : cur ∉ chain) (hself : tp ≠ self) :
    xrefLoop rec root true self (fuel + 1) cur chain st = .error .unsafeE :=
  xrefLoop_unsafe_link_strict (fun h => hcov.utaint tp _ h hg hs) htp hg hs hc hself

/- the reference `a` met as a node, and read from the memo table -/
example : xrefLoop (evalNodeF (.comp {} .dict [c07ChainA, c07ChainC]) {} 5) (.comp {} .dict [c07ChainA, c07ChainC])
    true [.str "g", .str "x"] 3 "a" [] {} = .error .unsafeE := rfl
example : xrefLoop (evalNodeF (.comp {} .dict [c07ChainA, c07ChainC]) {} 5) (.comp {} .dict [c07ChainA, c07ChainC])
    true [.str "g", .str "x"] 3 "a" []
    { cache := [([.str "a"], .scalar (.str "s"))], tainted := [[.str "a"]] } = .error .unsafeE := rfl

/- (2) the consumer: a reference evaluated under `require_all_safe` (not memoised yet) whose text
   names an unsafe reference of the tree never evaluates successfully; the error is `UnsafeError`
   unless the consumer is itself in progress, refers to itself or there is no fuel -/
theorem C07_unsafe_chain_consumer_fails (root : Node) (w : World) (fuel : Nat) (fx : Flags) (cur : String)
    (self : Path) (st : EvSt) (tp : Path) (f : Flags) (next : String)
    (hcov : Cov root st) (hfresh : plookup self st.cache = none)
    (htp : splitPath cur = some tp) (hg : getNode root tp = some (.leaf f (.xref next)))
    (hs : eSafe f = false) :
    ∃ e, evalNodeF root w fuel true (.leaf fx (.xref cur)) self st = .error e ∧
      (eSafe fx = true → self ∉ st.inProgress → tp ≠ self → fuel ≠ 0 → e = .unsafeE) :=
  evalNodeF_unsafe_link_strict (fun h => hcov.utaint tp _ h hg hs) hfresh htp hg hs

/- the former witness of D31 now fails with `UnsafeError` in both orders: `a` evaluated before the
   strict consumer `g`, and after it -/
example : evaluate c07ChainWorld (.comp {} .dict [c07ChainA, c07ChainC, c07ChainG]) = .error .unsafeE ∧
    evaluate c07ChainWorld (.comp {} .dict [c07ChainG, c07ChainA, c07ChainC]) = .error .unsafeE :=
  ⟨rfl, rfl⟩

end AY
