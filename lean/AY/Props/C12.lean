/-
  AY.Props.C12 — `!eval` and f-strings compute what Python computes, with config names visible.

  Property text (C12): "An !eval node's value is what Python's exec/eval would produce for its code
  (all but the last line executed, the last line evaluated) in a namespace where a name resolves to,
  in order: a definition made by the code itself, a symbol supplied to the evaluation context, the
  evaluated top-level config entry of that name, a builtin - including inside nested functions,
  lambdas, comprehensions, loops, try/except and with blocks. An f-string node equals the
  corresponding Python f-string over the same names; user-code exceptions surface as EvalError
  carrying the original cause, never as a crash of the interpreter. The value depends only on the
  current build - its config, its evaluation context and its symbols - never on what was built
  earlier in the same process."

  Model: AY/Model/Resolve.lean.  Helper lemmas: AY/Lemmas/C12Lemmas.lean.

  What is proved here is the *logic around* the interpreter: the resolution order implemented by the
  dict-subclass mechanism, the textual split of the code, the normalisation of the two f-string
  forms, and the provenance of the names in the namespace registry across builds.  That CPython's
  `exec`/`eval` computes "what Python computes" on the prepared namespace is not a theorem: CPython is
  the reference, sampled by the program generator of harness/props/c12.py.

  Three clauses are FALSE for the code as it is; each is proved false on a witness that was replayed
  on the implementation (see the harness corpus and KNOWN_FINDINGS candidates D11, D23, D24):
  `C12_history_independent_fails`, `C12_split_code_textual`, `C12_class_body_skips_config`.
-/
import AY.Lemmas.C12Lemmas

namespace AY
open Resolve

/-! ### 1. resolution order -/

/--
C12, "a name resolves to, in order: a definition made by the code itself, a symbol supplied to the
evaluation context, the evaluated top-level config entry of that name, a builtin".
For all sets of definitions, symbols, config names and builtins, and every name that is not one of
the three injected names: the mechanism of the code — `PyObject_GetItem` on the `EvalGlobals` dict
(holding the symbols of the build and the stores of the code), then `__missing__` (config), then,
after `KeyError`, the builtins — yields exactly the resolution class of the stated order, and every
value that does not come from the builtins was supplied by the current build.
-/
theorem C12_resolution_order (builtins defs : List String) (c : Ctx) (name : String)
    (hn : name ∉ reserved) :
    Globals.lookup builtins { dict := execDefs defs c.build (freshDict c), cfg := c.cfg, build := c.build } name
      = (resolve defs c.syms c.cfg builtins name,
         if name ∈ defs ∨ name ∈ c.syms ∨ name ∈ c.cfg then some c.build else none) :=
  lookup_fresh builtins defs c name hn

example :
    Globals.lookup ["len", "abs"]
        { dict := execDefs ["x"] 3 (freshDict ⟨3, ["x", "s", "t"], ["x", "s", "a", "len"]⟩),
          cfg := ["x", "s", "a", "len"], build := 3 } <$> ["x", "s", "a", "len", "abs", "zz"]
      = [(.defn, some 3), (.sym, some 3), (.cfg, some 3), (.cfg, some 3), (.builtin, none), (.nameError, none)] := by
  decide

/--
C12, the shadowing laws of the stated order, for all name sets: a definition shadows everything;
a symbol shadows a config entry and a builtin; a config entry shadows a builtin; a builtin is found
last; an unknown name is a `NameError`.
-/
theorem C12_shadowing (defs syms cfg builtins : List String) (n : String) :
    (n ∈ defs → resolve defs syms cfg builtins n = .defn) ∧
    (n ∉ defs → n ∈ syms → resolve defs syms cfg builtins n = .sym) ∧
    (n ∉ defs → n ∉ syms → n ∈ cfg → resolve defs syms cfg builtins n = .cfg) ∧
    (n ∉ defs → n ∉ syms → n ∉ cfg → n ∈ builtins → resolve defs syms cfg builtins n = .builtin) ∧
    (n ∉ defs → n ∉ syms → n ∉ cfg → n ∉ builtins → resolve defs syms cfg builtins n = .nameError) := by
  refine ⟨?_, ?_, ?_, ?_, ?_⟩ <;> intros <;> simp_all [resolve]

example : resolve ["n"] ["n"] ["n"] ["n"] "n" = .defn ∧ resolve [] ["n"] ["n"] ["n"] "n" = .sym ∧
    resolve [] [] ["n"] ["n"] "n" = .cfg ∧ resolve [] [] [] ["n"] "n" = .builtin ∧
    resolve [] [] [] [] "n" = .nameError := by decide

/--
FINDING (D24), negation of "config names visible" for class bodies: `LOAD_NAME` with separate locals
reads the globals with `PyDict_GetItem`, so `__missing__` is not called.  For every namespace, a name
that is only a config entry resolves to the config entry at module level and inside functions but is
a `NameError` directly inside a class body.
-/
theorem C12_class_body_skips_config (builtins locals : List String) (g : Globals) (n : String)
    (hl : n ∉ locals) (hd : Dict.get g.dict n = none) (hc : n ∈ g.cfg) (hb : n ∉ builtins) :
    (Globals.lookup builtins g n).1 = .cfg ∧
    (Globals.lookupClassBody builtins locals g n).1 = .nameError := by
  simp [Globals.lookup, Globals.lookupClassBody, hl, hd, hc, hb]

example :
    (Globals.lookupClassBody ["len"] ["x"] { dict := freshDict ⟨0, ["s"], ["a"]⟩, cfg := ["a"], build := 0 })
      <$> ["x", "s", "a", "len"]
      = [(.defn, some 0), (.sym, some 0), (.nameError, none), (.builtin, none)] := by decide

/-- the injected names win over config entries of the same name (outside the property's domain) -/
example : (Globals.lookup [] { dict := freshDict ⟨0, [], ["ayns"]⟩, cfg := ["ayns"], build := 0 } "ayns").1
    = .injected := by decide

/-! ### 2. the split of the code text -/

/--
C12, "all but the last line executed, the last line evaluated": the pieces of the code are the
executed ones followed by exactly one more piece, and the evaluated text is that piece, stripped.
-/
theorem C12_split_code_last (code : Str) :
    ∃ last, splitStmts code = (splitCodeL code).1 ++ [last] ∧ (splitCodeL code).2 = strip last := by
  refine ⟨(splitStmts code).getLast?.getD [], ?_, rfl⟩
  exact (dropLast_append_getLast _ (splitStmts_ne_nil code)).symm

example : splitCodeL "x = 1\ny = x + 1; z = 2\n x + y \n".toList
    = (["x = 1".toList, "y = x + 1".toList, " z = 2".toList], "x + y".toList) := by decide

/--
C12, single-statement code: when the stripped code contains neither a newline nor a semicolon,
nothing is executed and the whole stripped code is evaluated.
-/
theorem C12_split_code_single (code : Str) (h1 : '\n' ∉ strip code) (h2 : ';' ∉ strip code) :
    splitCodeL code = ([], strip code) := by
  have : splitStmts code = [strip code] := by
    simp [splitStmts, splitOn_single _ _ h1, splitOn_single _ _ h2]
  simp [splitCodeL, this, strip_idem]

example : splitCodeL "  a + b  ".toList = ([], "a + b".toList) := by decide

theorem flatten_flatMap_splitOn (sep : Char) (ls : List Str) :
    (ls.flatMap (splitOn sep)).flatten = ls.flatten.filter (fun c => c != sep) := by
  induction ls with
  | nil => rfl
  | cons l rest ih =>
    simp [List.flatMap_cons, List.flatten_append, flatten_splitOn, ih]

theorem length_flatMap_splitOn (sep : Char) (ls : List Str) :
    (ls.flatMap (splitOn sep)).length = (ls.flatten.filter (fun c => c == sep)).length + ls.length := by
  induction ls with
  | nil => rfl
  | cons l rest ih =>
    simp only [List.flatMap_cons, List.length_append, length_splitOn, ih, List.flatten_cons,
      List.filter_append, List.length_cons]
    omega

theorem count_two (s : Str) :
    (s.filter (fun c => c == ';' || c == '\n')).length
      = (s.filter (fun c => c == ';' && c != '\n')).length + (s.filter (fun c => c == '\n')).length := by
  induction s with
  | nil => rfl
  | cons c cs ih =>
    by_cases h1 : c = ';'
    · subst h1; simp at ih ⊢; omega
    · by_cases h2 : c = '\n'
      · subst h2; simp at ih ⊢; omega
      · simp [h1, h2] at ih ⊢; omega

/--
C12, "joining back loses nothing but separators": the concatenation of all pieces is the stripped
code with exactly the newlines and semicolons removed; no piece contains a newline or a semicolon;
and the number of pieces is one more than the number of those separators.
-/
theorem C12_split_code_lossless (code : Str) :
    (splitStmts code).flatten = (strip code).filter (fun c => c != ';' && c != '\n') ∧
    (∀ p ∈ splitStmts code, '\n' ∉ p ∧ ';' ∉ p) ∧
    (splitStmts code).length = ((strip code).filter (fun c => c == ';' || c == '\n')).length + 1 := by
  refine ⟨?_, ?_, ?_⟩
  · unfold splitStmts
    rw [flatten_flatMap_splitOn, flatten_splitOn, List.filter_filter]
  rotate_left
  · unfold splitStmts
    rw [length_flatMap_splitOn, flatten_splitOn, length_splitOn, List.filter_filter]
    have h := count_two (strip code)
    omega
  · intro p hp
    unfold splitStmts at hp
    obtain ⟨l, hl, hpl⟩ := List.mem_flatMap.mp hp
    refine ⟨?_, splitOn_noSep ';' l p hpl⟩
    have hnl := splitOn_noSep '\n' (strip code) l hl
    intro hm
    apply hnl
    -- a piece of `l` is made of characters of `l`
    have : ∀ x ∈ (splitOn ';' l).flatten, x ∈ l := by
      rw [flatten_splitOn]; intro x hx; exact (List.mem_filter.mp hx).1
    exact this _ (List.mem_flatten.mpr ⟨p, hpl, hm⟩)

example : (splitStmts "a=1;b=2\nc".toList).flatten = "a=1b=2c".toList := by decide

theorem mem_joinSep (sep : Char) (ps : List Str) (c : Char) (h : c ∈ joinSep sep ps) :
    c = sep ∨ ∃ p ∈ ps, c ∈ p := by
  induction ps with
  | nil => simp [joinSep] at h
  | cons p rest ih =>
    cases rest with
    | nil => right; exact ⟨p, by simp, by simpa [joinSep] using h⟩
    | cons q rest' =>
      rw [joinSep_cons _ _ _ (by simp)] at h
      rcases List.mem_append.mp h with h | h
      · right; exact ⟨p, by simp, h⟩
      · rcases List.mem_cons.mp h with h | h
        · left; exact h
        · rcases ih h with h | ⟨x, hx, hc⟩
          · left; exact h
          · right; exact ⟨x, List.mem_cons_of_mem _ hx, hc⟩

theorem flatMap_splitOn_joinSep (sep : Char) (lss : List (List Str))
    (hne : ∀ l ∈ lss, l ≠ []) (h : ∀ l ∈ lss, ∀ p ∈ l, sep ∉ p) :
    (lss.map (joinSep sep)).flatMap (splitOn sep) = lss.flatten := by
  induction lss with
  | nil => rfl
  | cons l rest ih =>
    simp only [List.map_cons, List.flatMap_cons, List.flatten_cons]
    rw [splitOn_joinSep sep l (hne l (by simp)) (h l (by simp)),
      ih (fun x hx => hne x (List.mem_cons_of_mem _ hx)) (fun x hx => h x (List.mem_cons_of_mem _ hx))]

/--
C12, the split recovers the statements: for every layout of statements on lines (`lss`: the
statements of every line, joined by `';'`; the lines joined by newlines) in which no statement
contains a newline or a semicolon and the text has no leading or trailing whitespace, the executed
pieces are all statements but the last and the evaluated text is the last statement, stripped.
-/
theorem C12_split_code_statements (lss : List (List Str)) (hne : lss ≠ []) (hl : ∀ l ∈ lss, l ≠ [])
    (hs : ∀ l ∈ lss, ∀ p ∈ l, '\n' ∉ p ∧ ';' ∉ p)
    (hstrip : strip (joinSep '\n' (lss.map (joinSep ';'))) = joinSep '\n' (lss.map (joinSep ';'))) :
    splitCodeL (joinSep '\n' (lss.map (joinSep ';')))
      = (lss.flatten.dropLast, strip (lss.flatten.getLast?.getD [])) := by
  have hlines : splitOn '\n' (joinSep '\n' (lss.map (joinSep ';'))) = lss.map (joinSep ';') := by
    apply splitOn_joinSep
    · simpa using hne
    · intro p hp hm
      obtain ⟨l, hl', rfl⟩ := List.mem_map.mp hp
      rcases mem_joinSep ';' l '\n' hm with h | ⟨x, hx, hc⟩
      · exact absurd h (by decide)
      · exact (hs l hl' x hx).1 hc
  have : splitStmts (joinSep '\n' (lss.map (joinSep ';'))) = lss.flatten := by
    unfold splitStmts
    rw [hstrip, hlines]
    exact flatMap_splitOn_joinSep ';' lss hl (fun l hl' p hp => (hs l hl' p hp).2)
  simp [splitCodeL, this]

example : splitCodeL (joinSep '\n' ([["a = 1".toList, "b = 2".toList], ["a + b".toList]].map (joinSep ';')))
    = (["a = 1".toList, "b = 2".toList], "a + b".toList) := by decide

/--
FINDING (D23), the split is textual: a semicolon inside a string literal is a split point (the code
`'a;b'`, a valid Python expression with value 'a;b', is cut into `'a` and `b'`), and the piece after
`"; "` keeps its leading blank, which `exec` rejects as an unexpected indent.
-/
theorem C12_split_code_textual :
    splitCodeL "'a;b'".toList = (["'a".toList], "b'".toList) ∧
    splitCodeL "x = 1; y = 2\nx + y".toList = (["x = 1".toList, " y = 2".toList], "x + y".toList) := by
  decide

/-! ### 3. f-string normalisation -/

/--
C12, "An f-string node equals the corresponding Python f-string": the implicit form `f'fmt'` and the
explicit form `!fstr fmt` become nodes with the same code, the literal `f'fmt'`, for every format
text without a single quote and without a newline that does not itself look like an f-string
literal.
-/
theorem C12_fstr_normalise (fmt : Str) (h1 : '\'' ∉ fmt) (h2 : '\n' ∉ fmt) (h3 : wellFormed fmt = false) :
    normFstrL false (fLit '\'' fmt) = some (fLit '\'' fmt) ∧
    normFstrL true fmt = some (fLit '\'' fmt) := by
  have hq : isQuote '\'' = true := by decide
  constructor
  · simp [normFstrL, fstrRegex_fLit _ _ hq, fixFstr, wellFormed_fLit _ _ hq, h2]
  · simp [normFstrL, fixFstr, h3, (escapeQ_eq_self_iff fmt).mpr h1]

example : normFstrL false "f'x{a}'".toList = some "f'x{a}'".toList ∧
    normFstrL true "x{a}".toList = some "f'x{a}'".toList := by decide

/--
The condition of `C12_fstr_normalise` is exact: the two forms of the same format text give the same
node if and only if the text has no single quote, no newline and does not look like an f-string
literal.  (With a single quote the explicit form is escaped, `it's` ↦ `f'it\'s'`, and the implicit
text `f'it's'` is taken as it is; with a newline the implicit resolver does not match; a text like
`f"x"` under `!fstr` is taken as the literal itself.)
-/
theorem C12_fstr_normalise_iff (fmt : Str) :
    normFstrL false (fLit '\'' fmt) = normFstrL true fmt ↔
      ('\'' ∉ fmt ∧ '\n' ∉ fmt ∧ wellFormed fmt = false) := by
  have hq : isQuote '\'' = true := by decide
  constructor
  · intro h
    have hnl : '\n' ∉ fmt := by
      intro hm
      simp [normFstrL, fstrRegex_fLit _ _ hq] at h
      exact h.1 hm
    have himp : normFstrL false (fLit '\'' fmt) = some (fLit '\'' fmt) := by
      simp [normFstrL, fstrRegex_fLit _ _ hq, fixFstr, wellFormed_fLit _ _ hq, hnl]
    rw [himp] at h
    cases hw : wellFormed fmt with
    | true =>
      simp only [normFstrL, fixFstr, hw, Bool.true_or, if_true, Option.some.injEq] at h
      have := congrArg List.length h
      simp [fLit] at this
      omega
    | false =>
      simp only [normFstrL, fixFstr, hw, Bool.true_or, if_true, Option.some.injEq, Bool.false_eq_true,
        if_false, fLit] at h
      have h' : escapeQ fmt = fmt := by simpa using (List.append_cancel_right h).symm
      exact ⟨(escapeQ_eq_self_iff fmt).mp h', hnl, rfl⟩
  · intro ⟨h1, h2, h3⟩
    obtain ⟨a, b⟩ := C12_fstr_normalise fmt h1 h2 h3
    rw [a, b]

example : normFstrL false (fLit '\'' "it's".toList) ≠ normFstrL true "it's".toList ∧
    normFstrL true "it's".toList = some "f'it\\'s'".toList ∧
    normFstrL true "f\"x\"".toList = some "f\"x\"".toList ∧
    normFstrL false (fLit '\'' "a\nb".toList) = none := by decide

/--
The double-quoted implicit form `f"fmt"` keeps its delimiter: its code is `f"fmt"` while `!fstr fmt`
gives `f'fmt'` — not the same literal, but literals with the same format text.
-/
theorem C12_fstr_normalise_dq (fmt : Str) (h1 : '\'' ∉ fmt) (h2 : '\n' ∉ fmt) (h3 : wellFormed fmt = false) :
    normFstrL false (fLit '"' fmt) = some (fLit '"' fmt) ∧
    normFstrL true fmt = some (fLit '\'' fmt) ∧
    fstrBody (fLit '"' fmt) = fstrBody (fLit '\'' fmt) ∧
    fLit '"' fmt ≠ fLit '\'' fmt := by
  have hq : isQuote '"' = true := by decide
  refine ⟨?_, (C12_fstr_normalise fmt h1 h2 h3).2, ?_, ?_⟩
  · simp [normFstrL, fstrRegex_fLit _ _ hq, fixFstr, wellFormed_fLit _ _ hq, h2]
  · simp [fstrBody, fLit]
  · simp [fLit]

example : normFstrL false "f\"x{a}\"".toList = some "f\"x{a}\"".toList ∧
    fstrBody "f\"x{a}\"".toList = "x{a}".toList := by decide

/-! ### 4. the namespace registry across builds -/

/-- "The value depends only on the current build": every namespace of a history is the one its
step would get in a fresh process -/
def HistoryIndependent : Prop := ∀ hist : List Step, runHist [] hist = hist.map freshGlobals

/-- the witness: the multi-line node `r` with code `y = 1⏎s + y`, built twice in one process; the
first build supplies the eval symbol `s`, the second one does not but has a config entry `s` -/
def C12.exCode : Str := "y = 1\ns + y".toList
def C12.exHist : List Step :=
  [(⟨0, ["s"], ["r"]⟩, ⟨"r".toList, C12.exCode, true, ["y"], false⟩),
   (⟨1, [], ["r", "s"]⟩, ⟨"r".toList, C12.exCode, true, ["y"], false⟩)]

/--
FINDING (D11), negation of "never on what was built earlier in the same process" for the code as it
is: the second build of the witness finds the cached module of the first, so the name `s` resolves
to the eval symbol of build 0 although build 1 has no such symbol and has a config entry `s`
(the order of the property gives the config entry of build 1), and `ayns` is the one of build 0.
-/
theorem C12_history_independent_fails :
    ¬ HistoryIndependent ∧
    ((runHist [] C12.exHist).map (fun g => Globals.lookup [] g "s")) = [(.sym, some 0), (.sym, some 0)] ∧
    (C12.exHist.map (fun s => Globals.lookup [] (freshGlobals s) "s")) = [(.sym, some 0), (.cfg, some 1)] ∧
    ((runHist [] C12.exHist).map (fun g => Globals.lookup [] g "ayns")) = [(.injected, some 0), (.injected, some 0)] := by
  refine ⟨?_, by decide, by decide, by decide⟩
  intro h
  exact absurd (h C12.exHist) (by decide)

/--
C12, "The value depends only on the current build", the part that holds for the code as it is: in
every history in which no published module is met again (`NoReuse`: no multi-line persistent node
with the same path and code is evaluated after one that completed — in particular every history of
single-line `!eval` nodes and f-strings, and every history of pairwise different codes), the
namespace of every step is the one built from the step's own context; hence (by
`C12_resolution_order`) every name resolves in the stated order over the definitions, symbols and
config of *that* build, with provenance that build.
-/
theorem C12_history_independent_partial (hist : List Step) (h : NoReuse hist) :
    runHist [] hist = hist.map freshGlobals ∧
    ∀ s ∈ hist, ∀ builtins name, name ∉ reserved →
      Globals.lookup builtins (freshGlobals s) name
        = (resolve s.2.defs s.1.syms s.1.cfg builtins name,
           if name ∈ s.2.defs ∨ name ∈ s.1.syms ∨ name ∈ s.1.cfg then some s.1.build else none) := by
  constructor
  · exact runHist_noReuse hist [] (fun _ _ _ => rfl) h
  · intro s _ builtins name hn
    have : freshGlobals s = { dict := execDefs s.2.defs s.1.build (freshDict s.1), cfg := s.1.cfg, build := s.1.build } := by
      unfold freshGlobals evalStep baseDict
      cases s.2.persistent <;> simp [Registry.get]
    rw [this]
    exact C12_resolution_order builtins s.2.defs s.1 name hn

/-- non-vacuity: a history with a repeated single-line node, an f-string and two different
multi-line nodes satisfies `NoReuse`; the witness of the finding does not -/
example : NoReuse
    [(⟨0, ["s"], ["a"]⟩, ⟨"r".toList, "s + a".toList, true, [], false⟩),
     (⟨1, [], ["a", "s"]⟩, ⟨"r".toList, "s + a".toList, true, [], false⟩),
     (⟨1, [], ["a", "s"]⟩, ⟨"q".toList, "f'{a}'".toList, false, [], false⟩),
     (⟨2, [], ["a"]⟩, ⟨"r".toList, "y = 1\na + y".toList, true, ["y"], false⟩),
     (⟨3, [], ["a"]⟩, ⟨"r".toList, "y = 2\na + y".toList, true, ["y"], false⟩)] := by
  simp [NoReuse, publishes, Req.key]
  decide

example : ¬ NoReuse C12.exHist := by
  simp [NoReuse, publishes, C12.exHist, Req.key, Req.multiLine]
  decide

/--
C12, the part of history-independence that holds in every history, reuse or not: a name that is
not in the dict part of the namespace is looked up in the config of the current build (the
`EvalGlobals` wrapper is rebuilt around the current `ctx.ecfg` on every evaluation), never in an
earlier one.
-/
theorem C12_history_config_current (reg : Registry) (c : Ctx) (r : Req) (builtins : List String) (n : String)
    (h : (Globals.lookup builtins (evalStep reg c r).1 n).1 = .cfg) :
    (Globals.lookup builtins (evalStep reg c r).1 n).2 = some c.build ∧ n ∈ c.cfg := by
  simp only [Globals.lookup, evalStep] at h ⊢
  split at h
  · rename_i b hb
    cases ho : b.origin <;> simp [Origin.toRes, ho] at h
  · split at h
    · rename_i hc; simp [*]
    · split at h <;> simp at h

example : (Globals.lookup [] ((runHist [] C12.exHist).getD 1 ⟨[], [], 9⟩) "r") = (.cfg, some 1) := by decide

end AY
