/-
  AY.Props.C12 — `!eval` and f-strings compute what Python computes, with config names visible.

  Property text (C12): "An !eval node's value is what Python's exec/eval would produce for its code
  (all but the last line executed, the last line evaluated) in a namespace where a name resolves to,
  in order: a definition made by the code itself, a symbol supplied to the evaluation context, the
  evaluated top-level config entry of that name, a builtin - including inside nested functions,
  lambdas, comprehensions, loops, try/except and with blocks. An f-string node equals the
  corresponding Python f-string over the same names; user-code exceptions surface as EvalError
  carrying the original cause, never as a crash of the interpreter. The value depends only on the
  current build - its config, its evaluation context and its symbols - never on what was built
  earlier in the same process."

  Model: AY/Model/Resolve.lean.  Helper lemmas: AY/Lemmas/C12Lemmas.lean.

  What is proved here is the *logic around* the interpreter: the resolution order implemented by the
  dict-subclass mechanism, what is done with the parsed statements of the code, the normalisation of
  the f-string forms, and the provenance of the names in the namespace registry across builds.  That
  CPython's parser and `exec`/`eval` compute "what Python computes" on the prepared namespace is not a
  theorem: CPython is the reference, sampled by the program generator of harness/props/c12.py.

  One clause is FALSE for the code as it is and is proved false on a witness that was replayed on the
  implementation (KNOWN_FINDINGS D26): `C12_class_body_skips_config`.  The former negations about the
  cached namespace (D11), the textual `;` split (D23) and the escaping of quotes in `!fstr` (D25) are
  gone with their repairs; `C12_history_independent` now holds at full strength.
-/
import AY.Lemmas.C12Lemmas

namespace AY
open Resolve

/-! ### 1. resolution order -/

/--
C12, "a name resolves to, in order: a definition made by the code itself, a symbol supplied to the
evaluation context, the evaluated top-level config entry of that name, a builtin".
For all sets of definitions, symbols, config names and builtins, and every name that is not one of
the three injected names: the mechanism of the code — `PyObject_GetItem` on the `EvalGlobals` dict
(holding the symbols of the build and the stores of the code), then `__missing__` (config), then,
after `KeyError`, the builtins — yields exactly the resolution class of the stated order, and every
value that does not come from the builtins was supplied by the current build.
-/
theorem C12_resolution_order (builtins defs : List String) (c : Ctx) (name : String)
    (hn : name ∉ reserved) :
    Globals.lookup builtins { dict := execDefs defs c.build (freshDict c), cfg := c.cfg, build := c.build } name
      = (resolve defs c.syms c.cfg builtins name,
         if name ∈ defs ∨ name ∈ c.syms ∨ name ∈ c.cfg then some c.build else none) :=
  lookup_fresh builtins defs c name hn

example :
    Globals.lookup ["len", "abs"]
        { dict := execDefs ["x"] 3 (freshDict ⟨3, ["x", "s", "t"], ["x", "s", "a", "len"]⟩),
          cfg := ["x", "s", "a", "len"], build := 3 } <$> ["x", "s", "a", "len", "abs", "zz"]
      = [(.defn, some 3), (.sym, some 3), (.cfg, some 3), (.cfg, some 3), (.builtin, none), (.nameError, none)] := by
  decide

/--
C12, the shadowing laws of the stated order, for all name sets: a definition shadows everything;
a symbol shadows a config entry and a builtin; a config entry shadows a builtin; a builtin is found
last; an unknown name is a `NameError`.
-/
theorem C12_shadowing (defs syms cfg builtins : List String) (n : String) :
    (n ∈ defs → resolve defs syms cfg builtins n = .defn) ∧
    (n ∉ defs → n ∈ syms → resolve defs syms cfg builtins n = .sym) ∧
    (n ∉ defs → n ∉ syms → n ∈ cfg → resolve defs syms cfg builtins n = .cfg) ∧
    (n ∉ defs → n ∉ syms → n ∉ cfg → n ∈ builtins → resolve defs syms cfg builtins n = .builtin) ∧
    (n ∉ defs → n ∉ syms → n ∉ cfg → n ∉ builtins → resolve defs syms cfg builtins n = .nameError) := by
  refine ⟨?_, ?_, ?_, ?_, ?_⟩ <;> intros <;> simp_all [resolve]

example : resolve ["n"] ["n"] ["n"] ["n"] "n" = .defn ∧ resolve [] ["n"] ["n"] ["n"] "n" = .sym ∧
    resolve [] [] ["n"] ["n"] "n" = .cfg ∧ resolve [] [] [] ["n"] "n" = .builtin ∧
    resolve [] [] [] [] "n" = .nameError := by decide

/--
FINDING (D26), negation of "config names visible" for class bodies: `LOAD_NAME` with separate locals
reads the globals with `PyDict_GetItem`, so `__missing__` is not called.  For every namespace, a name
that is only a config entry resolves to the config entry at module level and inside functions but is
a `NameError` directly inside a class body.
-/
theorem C12_class_body_skips_config (builtins locals : List String) (g : Globals) (n : String)
    (hl : n ∉ locals) (hd : Dict.get g.dict n = none) (hc : n ∈ g.cfg) (hb : n ∉ builtins) :
    (Globals.lookup builtins g n).1 = .cfg ∧
    (Globals.lookupClassBody builtins locals g n).1 = .nameError := by
  simp [Globals.lookup, Globals.lookupClassBody, hl, hd, hc, hb]

example :
    (Globals.lookupClassBody ["len"] ["x"] { dict := freshDict ⟨0, ["s"], ["a"]⟩, cfg := ["a"], build := 0 })
      <$> ["x", "s", "a", "len"]
      = [(.defn, some 0), (.sym, some 0), (.nameError, none), (.builtin, none)] := by decide

/-- the injected names win over config entries of the same name (outside the property's domain) -/
example : (Globals.lookup [] { dict := freshDict ⟨0, [], ["ayns"]⟩, cfg := ["ayns"], build := 0 } "ayns").1
    = .injected := by decide

/-! ### 2. what is done with the statements of the code -/

/--
C12, "all but the last line executed, the last line evaluated" (for Python's own statements): the
code runs exactly when its last statement is an expression statement; then the executed part is all
statements before it, in order, and the evaluated expression is that last statement.
-/
theorem C12_split_code_last (body ex : List Stmt) (ev : String) :
    splitStmts body = some (ex, ev) ↔ body = ex ++ [.expr ev] := by
  unfold splitStmts
  constructor
  · intro h
    cases hb : body.getLast? with
    | none => simp [hb] at h
    | some l =>
      have hne : body ≠ [] := by intro e; simp [e] at hb
      have hl : body.getLast hne = l := by
        have := List.getLast?_eq_some_getLast hne; rw [this] at hb; exact Option.some.inj hb
      cases l with
      | other t => simp [hb] at h
      | expr e =>
        simp only [hb, Option.some.injEq, Prod.mk.injEq] at h
        rw [← h.1, ← h.2, ← hl]
        exact (List.dropLast_concat_getLast hne).symm
  · intro h
    subst h
    simp

example : splitStmts [.other "x = 1", .other "if c: x = 1; y = 2", .expr "x + y"]
    = some ([.other "x = 1", .other "if c: x = 1; y = 2"], "x + y") := by decide

/--
C12, the error clause of the split: the code is rejected (SyntaxError, surfacing as EvalError) exactly
when it has no statement or its last statement is not an expression.
-/
theorem C12_split_code_error (body : List Stmt) :
    splitStmts body = none ↔ body = [] ∨ ∃ pre t, body = pre ++ [.other t] := by
  unfold splitStmts
  constructor
  · intro h
    cases hb : body.getLast? with
    | none => left; simpa using hb
    | some l =>
      have hne : body ≠ [] := by intro e; simp [e] at hb
      have hl : body.getLast hne = l := by
        have := List.getLast?_eq_some_getLast hne; rw [this] at hb; exact Option.some.inj hb
      cases l with
      | expr e => simp [hb] at h
      | other t => right; exact ⟨body.dropLast, t, by rw [← hl]; exact (List.dropLast_concat_getLast hne).symm⟩
  · rintro (h | ⟨pre, t, h⟩) <;> subst h <;> simp

example : splitStmts [] = none ∧ splitStmts [.expr "x", .other "y = 1"] = none := by decide

/--
C12, single-statement code and publication: whenever the code runs, `len(tree.body) > 1` (the
condition for publishing a module) holds exactly when something is executed before the evaluation,
and code that is one expression has an empty executed part.
-/
theorem C12_split_code_single (body ex : List Stmt) (ev : String) (h : splitStmts body = some (ex, ev)) :
    (multiStmt body = true ↔ ex ≠ []) ∧ (body = [.expr ev] ↔ ex = []) := by
  have hb := (C12_split_code_last body ex ev).mp h
  subst hb
  constructor
  · cases ex <;> simp [multiStmt]
  · cases ex <;> simp

example : splitStmts [.expr "a + b"] = some ([], "a + b") ∧ multiStmt [.expr "a + b"] = false := by decide

/--
C12, nothing is lost: the sources of the executed statements followed by the evaluated expression
are the sources of all statements of the code, in order.
-/
theorem C12_split_code_lossless (body ex : List Stmt) (ev : String) (h : splitStmts body = some (ex, ev)) :
    ex.map Stmt.src ++ [ev] = body.map Stmt.src := by
  have hb := (C12_split_code_last body ex ev).mp h
  subst hb
  simp [Stmt.src]

example : (([Stmt.other "a=1", .other "b=2"].map Stmt.src) ++ ["c"])
    = [Stmt.other "a=1", .other "b=2", .expr "c"].map Stmt.src := by decide

/-! ### 3. f-string normalisation -/

theorem fits_sq (fmt : Str) (h1 : '\'' ∉ fmt) (h2 : '\n' ∉ fmt) : fits fmt ['\''] = true := by
  have hl : fmt.getLast? ≠ some '\'' := by
    intro h; exact h1 (List.mem_of_getLast? h)
  simp [fits, hasSub_single, h1, h2, hl]

/--
C12, "An f-string node equals the corresponding Python f-string": the implicit form `f'fmt'` and the
explicit form `!fstr fmt` become nodes with the same code, the literal `f'fmt'`, for every format
text without a single quote and without a newline that does not itself look like an f-string
literal.
-/
theorem C12_fstr_normalise (fmt : Str) (h1 : '\'' ∉ fmt) (h2 : '\n' ∉ fmt) (h3 : wellFormed fmt = false) :
    normFstrL false (fLit '\'' fmt) = some (fLit '\'' fmt) ∧
    normFstrL true fmt = some (fLit '\'' fmt) := by
  have hq : isQuote '\'' = true := by decide
  constructor
  · simp [normFstrL, fstrRegex_fLit _ _ hq, fixFstr, wellFormed_fLit _ _ hq, h2]
  · simp [normFstrL, fixFstr, h3, find_quotes_first fmt (fits_sq fmt h1 h2), fLitQ, fLit]

example : normFstrL false "f'x{a}'".toList = some "f'x{a}'".toList ∧
    normFstrL true "x{a}".toList = some "f'x{a}'".toList := by decide

/--
C12, the explicit form never alters the text when a delimiter fits: for a text that is not itself a
literal, if `q` is the first of the four delimiters (single quote, double quote, three single quotes,
three double quotes) that does not occur in the text, does not meet the text's last character and can
hold its newlines, the node's code is `f q text q`; `q` does not occur in the text, and the format
text of that literal is the text itself, character for character (in particular quotes inside
replacement fields stay as they are).  Only when no delimiter fits is the old escaping used, and a
delimiter is found whenever one fits.
-/
theorem C12_fstr_explicit (fmt : Str) (h : wellFormed fmt = false) :
    (∀ q, quotes.find? (fits fmt) = some q →
        normFstrL true fmt = some (fLitQ q fmt) ∧ q ∈ quotes ∧ hasSub q fmt = false ∧
        fstrText q (fLitQ q fmt) = fmt) ∧
    ((∀ q ∈ quotes, fits fmt q = false) → normFstrL true fmt = some (fLit '\'' (escapeQ fmt))) ∧
    ((∃ q ∈ quotes, fits fmt q = true) → ∃ q, quotes.find? (fits fmt) = some q) := by
  refine ⟨?_, ?_, ?_⟩
  · intro q hq
    have hfit : fits fmt q = true := List.find?_some hq
    have hsub : hasSub q fmt = false := by
      simp only [fits, Bool.and_eq_true, Bool.not_eq_eq_eq_not, Bool.not_true] at hfit
      exact hfit.1.1
    exact ⟨by simp [normFstrL, fixFstr, h, hq], List.mem_of_find?_eq_some hq, hsub, fstrText_fLitQ q fmt⟩
  · intro hno
    have : quotes.find? (fits fmt) = none := by
      rw [List.find?_eq_none]; intro q hq; simp [hno q hq]
    simp [normFstrL, fixFstr, h, this]
  · rintro ⟨q, hq, hf⟩
    cases hfind : quotes.find? (fits fmt) with
    | some q' => exact ⟨q', rfl⟩
    | none =>
      rw [List.find?_eq_none] at hfind
      exact absurd hf (by simpa using hfind q hq)

/-- the repaired witness of D25, a text with both kinds of quotes, a text with a newline, and a text
for which no delimiter fits -/
example : normFstrL true "{d['k']}".toList = some "f\"{d['k']}\"".toList ∧
    normFstrL true "it's \"{a}\"".toList = some "f'''it's \"{a}\"'''".toList ∧
    normFstrL true "a\nb".toList = some "f'''a\nb'''".toList ∧
    normFstrL true "a'''b\"".toList = some "f'a\\'\\'\\'b\"'".toList := by decide

/--
The condition of `C12_fstr_normalise` is exact: the two forms of the same format text give the same
node if and only if the text has no single quote, no newline and does not look like an f-string
literal.  (With a single quote the explicit form takes another delimiter and the implicit text
`f'it's'` is taken as it is; with a newline the implicit resolver does not match; a text like `f"x"`
under `!fstr` is taken as the literal itself.)
-/
theorem C12_fstr_normalise_iff (fmt : Str) :
    normFstrL false (fLit '\'' fmt) = normFstrL true fmt ↔
      ('\'' ∉ fmt ∧ '\n' ∉ fmt ∧ wellFormed fmt = false) := by
  have hq : isQuote '\'' = true := by decide
  constructor
  · intro h
    have hnl : '\n' ∉ fmt := by
      intro hm
      simp [normFstrL, fstrRegex_fLit _ _ hq] at h
      exact h.1 hm
    have himp : normFstrL false (fLit '\'' fmt) = some (fLit '\'' fmt) := by
      simp [normFstrL, fstrRegex_fLit _ _ hq, fixFstr, wellFormed_fLit _ _ hq, hnl]
    rw [himp] at h
    cases hw : wellFormed fmt with
    | true =>
      simp only [normFstrL, fixFstr, hw, Bool.true_or, if_true, Option.some.injEq] at h
      have := congrArg List.length h
      simp [fLit] at this
      omega
    | false =>
      refine ⟨?_, hnl, rfl⟩
      cases hfind : quotes.find? (fits fmt) with
      | none =>
        simp only [normFstrL, fixFstr, hw, hfind, Bool.true_or, if_true, Option.some.injEq, Bool.false_eq_true,
          if_false, fLit] at h
        have h' : escapeQ fmt = fmt := by simpa using (List.append_cancel_right h).symm
        exact (escapeQ_eq_self_iff fmt).mp h'
      | some q =>
        have hfit : fits fmt q = true := List.find?_some hfind
        have hmem : q ∈ quotes := List.mem_of_find?_eq_some hfind
        simp only [normFstrL, fixFstr, hw, hfind, Bool.true_or, if_true, Option.some.injEq, Bool.false_eq_true,
          if_false, fLit, fLitQ] at h
        have hlen := congrArg List.length h
        simp only [quotes, List.mem_cons, List.not_mem_nil, or_false] at hmem
        rcases hmem with rfl | rfl | rfl | rfl
        · intro hm
          have : hasSub ['\''] fmt = true := by simp [hasSub_single, hm]
          simp [fits, this] at hfit
        · simp at h
        · simp at hlen
        · simp at hlen
  · intro ⟨h1, h2, h3⟩
    obtain ⟨a, b⟩ := C12_fstr_normalise fmt h1 h2 h3
    rw [a, b]

example : normFstrL false (fLit '\'' "it's".toList) ≠ normFstrL true "it's".toList ∧
    normFstrL true "it's".toList = some "f\"it's\"".toList ∧
    normFstrL true "f\"x\"".toList = some "f\"x\"".toList ∧
    normFstrL false (fLit '\'' "a\nb".toList) = none := by decide

/--
The double-quoted implicit form `f"fmt"` keeps its delimiter.  When the text has no single quote the
explicit form gives `f'fmt'` — not the same literal, but a literal with the same format text; when
the text has a single quote (and no double quote) the explicit form gives `f"fmt"` itself.
-/
theorem C12_fstr_normalise_dq (fmt : Str) (h2 : '\n' ∉ fmt) (h3 : wellFormed fmt = false) :
    normFstrL false (fLit '"' fmt) = some (fLit '"' fmt) ∧
    ('\'' ∉ fmt → normFstrL true fmt = some (fLit '\'' fmt) ∧
        fstrBody (fLit '"' fmt) = fstrBody (fLit '\'' fmt) ∧ fLit '"' fmt ≠ fLit '\'' fmt) ∧
    ('\'' ∈ fmt → '"' ∉ fmt → normFstrL true fmt = normFstrL false (fLit '"' fmt)) := by
  have hq : isQuote '"' = true := by decide
  have himp : normFstrL false (fLit '"' fmt) = some (fLit '"' fmt) := by
    simp [normFstrL, fstrRegex_fLit _ _ hq, fixFstr, wellFormed_fLit _ _ hq, h2]
  refine ⟨himp, ?_, ?_⟩
  · intro h1
    exact ⟨(C12_fstr_normalise fmt h1 h2 h3).2, by simp [fstrBody, fLit], by simp [fLit]⟩
  · intro h1 hd
    have hs : fits fmt ['\''] = false := by simp [fits, hasSub_single, h1]
    have hl : fmt.getLast? ≠ some '"' := by
      intro h; exact hd (List.mem_of_getLast? h)
    have hdq : fits fmt ['"'] = true := by simp [fits, hasSub_single, hd, h2, hl]
    rw [himp]
    simp [normFstrL, fixFstr, h3, quotes, hs, hdq, fLitQ, fLit]

example : normFstrL false "f\"x{a}\"".toList = some "f\"x{a}\"".toList ∧
    fstrBody "f\"x{a}\"".toList = "x{a}".toList ∧
    normFstrL true "{d['k']}".toList = normFstrL false "f\"{d['k']}\"".toList := by decide

/-! ### 4. the namespace registry across builds -/

/--
C12, "The value depends only on the current build - its config, its evaluation context and its
symbols - never on what was built earlier in the same process", at full strength: for EVERY history
of node evaluations in one process and every state of the registry it starts from, the namespace of
every step is the one built from the step's own context (what a fresh process would give); hence
every name that is not one of the injected ones resolves in the stated order over the definitions,
symbols and config of *that* build, and every value that is not a builtin was supplied by that build.
-/
theorem C12_history_independent (reg : Registry) (hist : List Step) :
    runHist reg hist = hist.map freshGlobals ∧
    ∀ s ∈ hist, ∀ builtins name, name ∉ reserved →
      Globals.lookup builtins (freshGlobals s) name
        = (resolve s.2.defs s.1.syms s.1.cfg builtins name,
           if name ∈ s.2.defs ∨ name ∈ s.1.syms ∨ name ∈ s.1.cfg then some s.1.build else none) := by
  constructor
  · exact runHist_fresh hist reg
  · intro s _ builtins name hn
    exact C12_resolution_order builtins s.2.defs s.1 name hn

/-- the former witness of D11: the multi-statement node `r` built twice, first with the eval symbol
`s`, then without it but with a config entry `s` -/
def C12.exHist : List Step :=
  [(⟨0, ["s"], ["r"]⟩, ⟨"r".toList, "y = 1\ns + y".toList, 2, true, ["y"], false⟩),
   (⟨1, [], ["r", "s"]⟩, ⟨"r".toList, "y = 1\ns + y".toList, 2, true, ["y"], false⟩)]

example : ((runHist [] C12.exHist).map (fun g => Globals.lookup [] g "s")) = [(.sym, some 0), (.cfg, some 1)] ∧
    ((runHist [] C12.exHist).map (fun g => Globals.lookup [] g "ayns")) = [(.injected, some 0), (.injected, some 1)] ∧
    ((runHist [] C12.exHist).map (fun g => Globals.lookup [] g "y")) = [(.defn, some 0), (.defn, some 1)] := by
  decide

/--
C12, the config part of history-independence, stated on the mechanism: a name that is not in the
dict part of the namespace is looked up in the config of the current build (the `EvalGlobals` wrapper
is built around the current `ctx.ecfg` on every evaluation), never in an earlier one.
-/
theorem C12_history_config_current (reg : Registry) (c : Ctx) (r : Req) (builtins : List String) (n : String)
    (h : (Globals.lookup builtins (evalStep reg c r).1 n).1 = .cfg) :
    (Globals.lookup builtins (evalStep reg c r).1 n).2 = some c.build ∧ n ∈ c.cfg := by
  simp only [Globals.lookup, evalStep] at h ⊢
  split at h
  · rename_i b hb
    cases ho : b.origin <;> simp [Origin.toRes, ho] at h
  · split at h
    · rename_i hc; simp [*]
    · split at h <;> simp at h

example : (Globals.lookup [] ((runHist [] C12.exHist).getD 1 ⟨[], [], 9⟩) "r") = (.cfg, some 1) := by decide

/--
The registry is write-only: after a step a module exists under a key exactly when the step publishes
under that key (persistent node, more than one statement, no error) or the module existed before.
-/
theorem C12_history_publication (reg : Registry) (c : Ctx) (r : Req) (k : Key) :
    (Registry.get (evalStep reg c r).2 k).isSome =
      ((publishes r && decide (k = r.key)) || (Registry.get reg k).isSome) := by
  unfold evalStep
  by_cases hp : publishes r = true
  · by_cases hk : k = r.key
    · simp [hp, hk, Registry.set, Registry.get]
    · simp [hp, hk, Registry.set, Registry.get]
  · simp [hp]

example : ((runReg [] C12.exHist).map (·.1)) = [("r".toList, "y = 1\ns + y".toList), ("r".toList, "y = 1\ns + y".toList)] ∧
    (runReg [] [(⟨0, [], []⟩, ⟨"r".toList, "a + 1".toList, 1, true, [], false⟩),
                (⟨0, [], []⟩, ⟨"q".toList, "f'{a}'".toList, 1, false, [], false⟩)]) = [] := by decide

end AY
