/-
  C03 (continued) — "Priorities: the highest-priority writer wins, the latest among equals", for an
  entry written as a FUNCTION NODE (`!call:f {..}` / `!bind:f {..}`) or as a plain string naming a
  target (`FunctionNode.ayns.on_merge_impl` = `funcMerge`: a string names a new target, a same-name
  string only hands over priority and metadata, a lower-priority writer is ignored).

  Statement (properties.jsonl): For every leaf path, the merged value is the one written by the
  stage whose value there has the highest priority (!force > untagged > !weak), and among equal
  priorities the latest stage; a priority tag on a container applies to everything below it. This
  holds for any number of stages and any order in which differently-prioritised writers appear, and
  user metadata attached to the competing values is combined under the same rule without losing
  keys.

  The "value" of a function node is its TARGET; its arguments follow the merge table of C13 (cited
  in `C03_function_entry_arguments`).  A `Writer` (AY/Lemmas/C03FuncWriters.lean) is a function node
  `(call | bind, target, args, flags)` or a target-name string `(target, flags)`; `foldW` merges a
  writer sequence node on node (`acc = acc.ayns.merge(w)`).
  * `C03_function_entry_writer_wins`, `C03_function_entry_metadata`: ARBITRARY arguments and flags,
    any number of writers, any order: whenever the fold succeeds the result is a function node with
    the target and the priority of the arg-max writer, metadata = fold of `{**loser, **winner}`.
  * `C03_function_entry_fold_total`: for writers as the loader builds them (scalar arguments; tags:
    priority, metadata, `!del`/`!merge`; `entShaped`) the fold always succeeds.
  * `C03_function_entry_in_documents`: the same with every writer sitting at the same path of
    otherwise arbitrary (shape-compatible) mapping documents, through `Builder.flatten`.
  * `C03_function_entry_mutant_counterexample`: the seeded regression (a same-name string never
    hands over its priority) is refuted by `!bind:f [1]` ← `!force "f"` ← `!bind:g [2]`.
  Lemmas: AY/Lemmas/C03FuncStep.lean (`funcStep`), C03FuncES.lean, C03FuncArgs.lean,
  C03FuncMerge.lean (`entMerge_total`, `mergeF_ES`), C03FuncFold.lean (`flatten_ES`),
  C03FuncWriters.lean.
-/
import AY.Lemmas.C03FuncWriters
import AY.Props.C13
namespace AY
open AY.C03F

/-! ### Concrete writers used by the non-vacuity examples -/

/-- `!bind:f {{x: 1}} {a: 1}` -/
def c03fRaw0 : Raw := .map (.bind "f") { md := [("x", .int 1)] } [(.str "a", .scalar .none {} (.lit (.int 1)))]
/-- `!force {{y: 2}} f` (a string naming the current target) -/
def c03fRaw1 : Raw := .scalar .plain { prio := some 1, md := [("y", .int 2)] } (.lit (.str "f"))
/-- `!bind:g {b: 2}` -/
def c03fRaw2 : Raw := .map (.bind "g") {} [(.str "b", .scalar .none {} (.lit (.int 2)))]
/-- `!weak !merge !call:h {{z: 3}} {c: 3}` -/
def c03fRaw3 : Raw := .map (.call "h") { prio := some (-1), del := some false, md := [("z", .int 3)] }
  [(.str "c", .scalar .none {} (.lit (.int 3)))]

/-- the same four as the loader builds them -/
def c03fW0 : Writer := .func false "f" [(.str "a", .leaf { iDel := some true } (.scalar (.int 1)))]
  { del := some true, md := [("x", .int 1)] }
def c03fW1 : Writer := .name "f" { prio := some 1, md := [("y", .int 2)] }
def c03fW2 : Writer := .func false "g" [(.str "b", .leaf { iDel := some true } (.scalar (.int 2)))] { del := some true }
def c03fW3 : Writer := .func true "h" [(.str "c", .leaf { prio := some (-1), iDel := some false } (.scalar (.int 3)))]
  { prio := some (-1), del := some false, md := [("z", .int 3)] }

/-- `{r: w}`: a writer below the key `r` of a mapping document -/
def c03fDoc (w : Raw) : Raw := .map .none {} [(.str "r", w)]

/-! ### The loader builds such writers -/

/- "the stage whose value there …": what the competing values ARE when an entry is a function node
   or a target name.  For a function-node tag carrying priority / metadata / `!del` / `!merge`
   (`kwFN`: no `!new`/`!notnew`, no `!unsafe`), a non-empty target and scalar arguments (untagged or
   tagged with priority / metadata: `rawArgs`) the loader returns — in both construction modes, also
   below a dict-shaped parent — the function node `esBuild env none r`: flags = the tag's priority and
   metadata and `delete = True` unless the tag says otherwise (`FunctionNode.__init__`,
   `Tables.funcCtorDelete`), every argument carrying the node's priority keyword (if any) and the
   inherited `delete`; it is an entry (`entShaped`) and what it writes is
   (priority keyword or default, target, metadata). -/
theorem C03_function_entry_loader_writers (env : Env) (isCall : Bool) (f : String) (kw : CtorKw)
    (items : List (Key × Raw)) (hkw : kwFN kw = true) (hf : f ≠ "") (hargs : rawArgs items = true) :
    let r : Raw := .map (if isCall then .call f else .bind f) kw items
    construct env r = .ok (esBuild env none r) ∧
    (∀ parent, ParentDS parent → constructTD env parent r = .ok (esBuild env none r)) ∧
    esBuild env none r = .comp (fnFlags env none kw) (if isCall then .call f else .bind f)
      (esArgs env kw.prio (fnDel (fnFlags env none kw)) items) ∧
    entShaped (esBuild env none r) = true ∧
    entryInfo (esBuild env none r) = some (kw.prio.getD Tables.defaultPriority, .str f, kw.md) := by
  have hr : rawEntShaped (.map (if isCall then .call f else .bind f) kw items) = true := by
    cases isCall <;> simp [rawEntShaped, hkw, hf, hargs]
  refine ⟨construct_es env _ hr, fun parent hp => constructTD_es env _ parent hr hp, ?_, esBuild_ES env none _ hr, ?_⟩
  · cases isCall <;> rfl
  · cases isCall <;> rfl

example : kwFN { prio := some (-1), del := some false, md := [("z", .int 3)] } = true ∧
    rawArgs [(.str "c", .scalar .none {} (.lit (.int 3)))] = true := by decide
-- the four example writers are what `construct` returns for the four documents
example : construct {} c03fRaw0 = .ok c03fW0.node ∧ construct {} c03fRaw1 = .ok c03fW1.node ∧
    construct {} c03fRaw2 = .ok c03fW2.node ∧ construct {} c03fRaw3 = .ok c03fW3.node := ⟨rfl, rfl, rfl, rfl⟩
example : entShaped c03fW0.node = true ∧ entShaped c03fW1.node = true ∧ entShaped c03fW2.node = true ∧
    entShaped c03fW3.node = true := by decide

/-! ### One writer merged onto a function node -/

/- "the merged value is the one written by the stage whose value there has the highest priority …
   and among equal priorities the latest stage" — ONE step at a function-node entry: for ANY function
   node `self` (any flags, any arguments) and ANY writer `o` (a function node, or a string naming a
   target; any flags, any arguments) and every fuel: if `self.ayns.on_merge(o)` succeeds, the result
   is a function node, it is the `self` object when `o` is a string, and its information
   (effective priority, target, metadata) is the leaf rule `pickInfo` of the two informations: `self`
   wins only with a STRICTLY higher priority; the winner's target and priority survive, the metadata
   is `{**loser.md, **winner.md}` (`C03_md_union`).  In particular a string naming the CURRENT target
   with at least the priority of `self` hands its priority over. -/
theorem C03_function_entry_step (fuel : Nat) (sf : Flags) (sk : CompKind) (f : String)
    (scs : List (Key × Node)) (o r : Node) (same : Bool) (hsk : sk.func? = some f)
    (ho : isWriter o = true) (h : mergeF (fuel + 1) (.comp sf sk scs) o = .ok (r, same)) :
    isFuncN r = true ∧
    entryInfo r = pickInfo (some (ePrio sf, .str f, sf.md)) (entryInfo o) ∧
    (o.isComp = false → same = true) := by
  have := funcStep fuel sf sk f scs o r same hsk ho h
  rw [entryInfo_func hsk] at this
  exact this

example : isWriter c03fW1.node = true ∧ isWriter c03fW2.node = true := by decide
-- the same-name `!force` string hands its priority over: target f, priority 1, both metadata keys
example : (mergeF 1 c03fW0.node c03fW1.node).toOption.map (fun r => entryInfo r.1) =
    some (some (1, .str "f", [("x", .int 1), ("y", .int 2)])) := rfl
example : pickInfo (some c03fW0.info) (some c03fW1.info) = some (1, .str "f", [("x", .int 1), ("y", .int 2)]) := by
  decide

/-! ### Any number of writers, any order -/

/- "For every leaf path, the merged value is the one written by the stage whose value there has the
   highest priority (!force > untagged > !weak), and among equal priorities the latest stage … This
   holds for any number of stages and any order in which differently-prioritised writers appear":
   for EVERY non-empty writer sequence `w0 :: ws` that starts with a function node (any number of
   function-node and target-name writers in any order; any flags, any arguments): whenever the fold
   of the merge over the sequence succeeds, the result is a function node whose TARGET and effective
   PRIORITY are those of one writer `w` at a position `i` such that every writer `m` at a position
   `j` has a strictly lower priority, or the same priority and `j ≤ i` — the highest priority, the
   latest among equals. -/
theorem C03_function_entry_writer_wins (w0 : Writer) (ws : List Writer) (hw0 : w0.isFunc = true) (r : Node)
    (h : foldW w0.node (ws.map Writer.node) = .ok r) :
    ∃ (fl : Flags) (k : CompKind) (cs : List (Key × Node)) (t : String) (i : Nat) (w : Writer),
      r = .comp fl k cs ∧ k.func? = some t ∧ (w0 :: ws)[i]? = some w ∧
      t = w.target ∧ ePrio fl = w.prio ∧
      ∀ (j : Nat) (m : Writer), (w0 :: ws)[j]? = some m → m.prio < w.prio ∨ (m.prio = w.prio ∧ j ≤ i) := by
  obtain ⟨hf, hi⟩ := foldW_writers_info w0 ws hw0 r h
  obtain ⟨fl, k, cs, t, rfl, hk⟩ := isFuncN_comp hf
  obtain ⟨i, w, hw, hpv, hmax⟩ := argmax_writers w0 ws
  have h2 := congrArg (Option.map pv) hi
  rw [foldl_pickInfo_argmax, entryInfo_func hk] at h2
  have h3 : some (ePrio fl, Scalar.str t) = some (w.prio, Scalar.str w.target) := by
    rw [← hpv]; exact h2
  simp only [Option.some.injEq, Prod.mk.injEq, Scalar.str.injEq] at h3
  exact ⟨fl, k, cs, t, i, w, rfl, hk, hw, h3.2, h3.1, hmax⟩

-- untagged bind f, `!force "f"`, untagged bind g, `!weak !merge` call h: the force string wins (f, 1)
example : (foldW c03fW0.node ([c03fW1, c03fW2, c03fW3].map Writer.node)).toOption.map targetPrio =
    some (some ("f", 1)) := rfl
-- without the string: equal priorities, the latest (g) wins; the weak writer is ignored
example : (foldW c03fW0.node ([c03fW2, c03fW3].map Writer.node)).toOption.map targetPrio =
    some (some ("g", 0)) := rfl
-- the weak writer first: every later writer outranks it
example : (foldW c03fW3.node ([c03fW0, c03fW2].map Writer.node)).toOption.map targetPrio =
    some (some ("g", 0)) := rfl

/- "This holds for any number of stages and any order": for writers as the loader builds them
   (`entShaped`: scalar arguments; tags: priority, metadata, `!del` / `!merge`; non-empty targets —
   `C03_function_entry_loader_writers`) the fold over ANY sequence SUCCEEDS, the result is again such
   an entry, and it is the function node of `C03_function_entry_writer_wins`. -/
theorem C03_function_entry_fold_total (w0 : Writer) (ws : List Writer) (hw0 : w0.isFunc = true)
    (hes : ∀ w, w ∈ w0 :: ws → entShaped w.node = true) :
    ∃ (r : Node) (fl : Flags) (k : CompKind) (cs : List (Key × Node)) (t : String) (i : Nat) (w : Writer),
      foldW w0.node (ws.map Writer.node) = .ok r ∧ entShaped r = true ∧
      r = .comp fl k cs ∧ k.func? = some t ∧ (w0 :: ws)[i]? = some w ∧
      t = w.target ∧ ePrio fl = w.prio ∧
      ∀ (j : Nat) (m : Writer), (w0 :: ws)[j]? = some m → m.prio < w.prio ∨ (m.prio = w.prio ∧ j ≤ i) := by
  obtain ⟨r, hr, hre, _⟩ := foldW_total (ws.map Writer.node) w0.node (hes w0 List.mem_cons_self) (isMap_writer w0)
    (by
      intro x hx
      obtain ⟨w, hw, rfl⟩ := List.mem_map.1 hx
      exact ⟨hes w (List.mem_cons_of_mem _ hw), isMap_writer w⟩)
  obtain ⟨fl, k, cs, t, i, w, h1, h2, h3, h4, h5, h6⟩ := C03_function_entry_writer_wins w0 ws hw0 r hr
  exact ⟨r, fl, k, cs, t, i, w, hr, hre, h1, h2, h3, h4, h5, h6⟩

example : c03fW0.isFunc = true ∧ ∀ w, w ∈ [c03fW0, c03fW1, c03fW2, c03fW3] → entShaped w.node = true := by
  refine ⟨rfl, ?_⟩
  intro w hw
  simp only [List.mem_cons, List.not_mem_nil, or_false] at hw
  rcases hw with rfl | rfl | rfl | rfl <;> decide

/-! ### Metadata -/

/- "user metadata attached to the competing values is combined under the same rule without losing
   keys": under the hypotheses of `C03_function_entry_writer_wins` the COMPLETE information of the
   resulting function node (priority, target, metadata) is the left fold of the leaf rule `pickInfo`
   over what the writers contribute (winner's target and priority, metadata `{**loser, **winner}` at
   every step), and its metadata has a key exactly when the metadata of SOME writer has it. -/
theorem C03_function_entry_metadata (w0 : Writer) (ws : List Writer) (hw0 : w0.isFunc = true) (r : Node)
    (h : foldW w0.node (ws.map Writer.node) = .ok r) :
    entryInfo r = (ws.map (fun w => some w.info)).foldl pickInfo (some w0.info) ∧
    ∀ key : String, (mlookup key r.flags.md).isSome = (w0 :: ws).any (fun w => (mlookup key w.md).isSome) := by
  obtain ⟨hf, hi⟩ := foldW_writers_info w0 ws hw0 r h
  refine ⟨hi, ?_⟩
  intro key
  obtain ⟨fl, k, cs, t, rfl, hk⟩ := isFuncN_comp hf
  have := congrArg (mdHas key) hi
  rw [mdHas_foldl, entryInfo_func hk] at this
  simp only [mdHas, Node.flags] at this ⊢
  rw [this, List.any_cons, List.any_map]
  rfl

-- x from the first writer, y from the `!force` string, z from the ignored weak writer: none is lost
example : (foldW c03fW0.node ([c03fW1, c03fW2, c03fW3].map Writer.node)).toOption.map entryInfo =
    some (some (1, .str "f", [("z", .int 3), ("x", .int 1), ("y", .int 2)])) := rfl
example : ([c03fW1, c03fW2, c03fW3].map (fun w => some w.info)).foldl pickInfo (some c03fW0.info) =
    some (1, .str "f", [("z", .int 3), ("x", .int 1), ("y", .int 2)]) := by decide

/-! ### The writers inside documents -/

/- "For every leaf path … any number of stages": the same with every writer sitting at one and the
   same path `p` of a mapping document — documents given as entry-shaped trees (`entShaped`: plain
   mappings of mappings whose leaves are scalars or function nodes with scalar arguments; what
   `construct` returns for such documents, AY/Props/C03_Pipeline.lean), pairwise shape-compatible,
   otherwise arbitrary (other keys, other entries, any nesting).  `Builder.flatten` succeeds, the
   entry at `p` of the result is a function node, and its target and priority are those of the
   arg-max writer; its information is the fold of the leaf rule (metadata: no key lost). -/
theorem C03_function_entry_in_documents (dw0 : Node × Writer) (dws : List (Node × Writer)) (p : Path)
    (hst : ∀ dw, dw ∈ dw0 :: dws → entShaped dw.1 = true ∧ isMap dw.1 = true ∧ entAt dw.1 p = some dw.2.node)
    (hpw : pairwiseCompatE ((dw0 :: dws).map (·.1))) (hw0 : dw0.2.isFunc = true) :
    ∃ (root : Node) (fl : Flags) (k : CompKind) (cs : List (Key × Node)) (t : String) (i : Nat) (w : Writer),
      flatten ((dw0 :: dws).map (·.1)) = .ok root ∧
      entAt root p = some (.comp fl k cs) ∧ k.func? = some t ∧
      ((dw0 :: dws).map (·.2))[i]? = some w ∧ t = w.target ∧ ePrio fl = w.prio ∧
      (∀ (j : Nat) (m : Writer), ((dw0 :: dws).map (·.2))[j]? = some m → m.prio < w.prio ∨ (m.prio = w.prio ∧ j ≤ i)) ∧
      some ((ePrio fl, .str t, fl.md) : LeafInfo) =
        (dws.map (fun dw => some dw.2.info)).foldl pickInfo (some dw0.2.info) := by
  have hinfo : ∀ dw, dw ∈ dw0 :: dws → infoAt dw.1 p = some dw.2.info := by
    intro dw hdw
    simp only [infoAt, (hst dw hdw).2.2, Option.bind_some, entryInfo_writer]
  obtain ⟨root, hfl, _, hi, _, hfun⟩ := flatten_ES dw0.1 (dws.map (·.1))
    (by
      intro st hm
      have hm' : st ∈ (dw0 :: dws).map (·.1) := by simpa using hm
      obtain ⟨dw, hdw, rfl⟩ := List.mem_map.1 hm'
      exact ⟨(hst dw hdw).1, (hst dw hdw).2.1⟩)
    (by simpa using hpw)
  have hfa : funcAt root p = true := by
    apply hfun p
    · simp only [funcAt, (hst dw0 List.mem_cons_self).2.2, isFuncN_writer]; exact hw0
    · intro st hm
      obtain ⟨dw, hdw, rfl⟩ := List.mem_map.1 hm
      simp only [writerAt, (hst dw (List.mem_cons_of_mem _ hdw)).2.2, isWriter_writer]
  cases he : entAt root p with
  | none => simp [funcAt, he] at hfa
  | some e =>
    simp only [funcAt, he] at hfa
    obtain ⟨fl, k, cs, t, rfl, hk⟩ := isFuncN_comp hfa
    have hfold : some ((ePrio fl, Scalar.str t, fl.md) : LeafInfo) =
        (dws.map (fun dw => some dw.2.info)).foldl pickInfo (some dw0.2.info) := by
      have h0 := hi p
      have hr : infoAt root p = some (ePrio fl, Scalar.str t, fl.md) := by
        simp only [infoAt, he, Option.bind_some, entryInfo_func hk]
      rw [hr] at h0
      rw [h0, hinfo dw0 List.mem_cons_self, List.map_map]
      congr 1
      apply List.map_congr_left
      intro dw hdw
      exact hinfo dw (List.mem_cons_of_mem _ hdw)
    obtain ⟨i, w, hw, hpv, hmax⟩ := argmax_writers dw0.2 (dws.map (·.2))
    have h2 := congrArg (Option.map pv) hfold
    have hmm : (dws.map (fun dw => some dw.2.info)) = (dws.map (·.2)).map (fun w => some w.info) := by
      rw [List.map_map]; rfl
    rw [hmm, foldl_pickInfo_argmax] at h2
    have h3 : some (ePrio fl, Scalar.str t) = some (w.prio, Scalar.str w.target) := by
      rw [← hpv]; exact h2
    simp only [Option.some.injEq, Prod.mk.injEq, Scalar.str.injEq] at h3
    exact ⟨root, fl, k, cs, t, i, w, by simpa using hfl, he, hk, by simpa using hw, h3.2, h3.1,
      by simpa using hmax, hfold⟩

/-- the four example writers below the key `r` of four mapping documents, as the loader builds them -/
def c03fD (w : Raw) : Node := match construct {} (c03fDoc w) with | .ok n => n | .error _ => default

example : (∀ dw, dw ∈ [(c03fD c03fRaw0, c03fW0), (c03fD c03fRaw1, c03fW1), (c03fD c03fRaw2, c03fW2), (c03fD c03fRaw3, c03fW3)] →
      entShaped dw.1 = true ∧ isMap dw.1 = true ∧ entAt dw.1 [.str "r"] = some dw.2.node) ∧
    pairwiseCompatE ([(c03fD c03fRaw0, c03fW0), (c03fD c03fRaw1, c03fW1), (c03fD c03fRaw2, c03fW2), (c03fD c03fRaw3, c03fW3)].map (·.1)) := by
  refine ⟨?_, pairwiseCompatE_of_B _ (by decide)⟩
  intro dw hdw
  simp only [List.mem_cons, List.not_mem_nil, or_false] at hdw
  rcases hdw with rfl | rfl | rfl | rfl <;> exact ⟨by decide, by decide, rfl⟩
example : (flatten [c03fD c03fRaw0, c03fD c03fRaw1, c03fD c03fRaw2, c03fD c03fRaw3]).toOption.map
    (fun root => (entAt root [.str "r"]).bind entryInfo) =
    some (some (1, .str "f", [("z", .int 3), ("x", .int 1), ("y", .int 2)])) := rfl

/-! ### The arguments (two writers): the merge table of C13 -/

/- What the ARGUMENTS of the surviving function node are, for one writer merged onto a function node
   `self = comp sf sk scs` with target `f` (at every fuel; by the theorems of AY/Props/C13.lean):
   * a string naming ANOTHER target, not outranked: the target is replaced and the old arguments
     are dropped (`C13_str_other_name_replaces`);
   * a string naming the CURRENT target (`C13_str_same_name_noop`), or any outranked string
     (`C13_str_outranked_noop`): same object, same argument keys in order, same data;
   * a function node with another target, deleting (the default: `delete = True`), not outranked:
     the result has ITS class, target and exactly ITS arguments (`C13_func_other_target_replaces`;
     unless it refuses new keys: `_require_all_new`);
   * … tagged `!merge` (`eDel = false`): the target is replaced, the old arguments are KEPT and
     updated key-wise by the key loop (`C13_func_other_target_merge_keeps_args`);
   * a function node with the SAME target, deleting, not outranked, no argument of `self`
     outranking it (`ArgsYield`): its arguments replace the old ones
     (`C13_func_same_target_replaces_args`);
   * an outranked function node with another target: nothing changes
     (`C13_func_other_target_outranked_noop`). -/
theorem C03_function_entry_arguments (fuel : Nat) (sf : Flags) (sk : CompKind) (f : String)
    (scs : List (Key × Node)) (hsk : sk.func? = some f) :
    (∀ (of : Flags) (g : String), g ≠ f → hasPrio of sf true = true →
      mergeF (fuel + 1) (.comp sf sk scs) (.leaf of (.scalar (.str g))) =
        .ok (.comp (replaceSelfFlags sf of) (sk.setFunc g) [], true)) ∧
    (∀ (of : Flags) (g : String), (g = f ∨ hasPrio of sf true = false) →
      ∃ fl cs, mergeF (fuel + 1) (.comp sf sk scs) (.leaf of (.scalar (.str g))) = .ok (.comp fl sk cs, true) ∧
        cs.map (·.1) = scs.map (·.1) ∧ native (.comp fl sk cs) = native (.comp sf sk scs)) ∧
    (∀ (of : Flags) (ok : CompKind) (ocs : List (Key × Node)) (g : String), ok.func? = some g → g ≠ f →
      hasPrio of sf true = true → eDel (.comp of ok ocs) = true →
      mergeF (fuel + 1) (.comp sf sk scs) (.comp of ok ocs) =
        match reqNew [[]] [] (.comp of ok ocs) with
        | some p => .error (.notnew p)
        | none => .ok (propagate (.comp (replaceOtherFlags of sf) ok ocs), false)) ∧
    (∀ (of : Flags) (ok : CompKind) (ocs : List (Key × Node)) (g : String), ok.func? = some g → g ≠ f →
      hasPrio of sf true = true → eDel (.comp of ok ocs) = false →
      mergeF (fuel + 1) (.comp sf sk scs) (.comp of ok ocs) =
        (match mergeLoop (mergeF fuel) sf (sk.setFunc g) [] scs ocs with
         | .error e => .error e
         | .ok scs' => .ok (propagate (.comp (replaceSelfFlags sf of) (sk.setFunc g) scs'), true)) ∧
      ∀ scs', mergeLoop (mergeF fuel) sf (sk.setFunc g) [] scs ocs = .ok scs' →
        ∀ k, (∀ kv ∈ ocs, kv.1 ≠ k) → alookup k scs' = alookup k scs) ∧
    (∀ (of : Flags) (ok : CompKind) (ocs : List (Key × Node)), ok.func? = some f →
      hasPrio of sf true = true → eDel (.comp of ok ocs) = true → ArgsYield scs (.comp of ok ocs) →
      mergeF (fuel + 1) (.comp sf sk scs) (.comp of ok ocs) =
        match reqNew ([] :: (filterNode (maybeKeep (.comp of ok ocs)) [] (.comp sf sk scs)).2) []
            (.comp of ok ocs) with
        | some p => .error (.notnew p)
        | none => .ok (propagate (.comp (replaceOtherFlags of sf) ok ocs), false)) ∧
    (∀ (of : Flags) (ok : CompKind) (ocs : List (Key × Node)) (g : String), ok.func? = some g → g ≠ f →
      hasPrio of sf true = false →
      ∃ cs, mergeF (fuel + 1) (.comp sf sk scs) (.comp of ok ocs) = .ok (.comp (replaceOtherFlags sf of) sk cs, true) ∧
        cs.map (·.1) = scs.map (·.1) ∧
        native (.comp (replaceOtherFlags sf of) sk cs) = native (.comp sf sk scs)) := by
  refine ⟨?_, ?_, ?_, ?_, ?_, ?_⟩
  · intro of g hg hp
    rw [C13_mergeF_is_funcMerge fuel sf sk f scs _ hsk]
    exact C13_str_other_name_replaces _ sf sk f scs of (.scalar (.str g)) rfl hg hp
  · intro of g hg
    rw [C13_mergeF_is_funcMerge fuel sf sk f scs _ hsk]
    by_cases hp : hasPrio of sf true = false
    · obtain ⟨h1, cs, h2, h3, h4⟩ := C13_str_outranked_noop (mergeF fuel) sf sk f scs of (.scalar (.str g)) rfl hp
      exact ⟨_, cs, by rw [h1, h2], h3, h4⟩
    · rcases hg with hg | hg
      · exact C13_str_same_name_noop (mergeF fuel) sf sk f scs of (.scalar (.str g)) rfl hg
      · exact absurd hg hp
  · intro of ok ocs g hok hg hp hd
    rw [C13_mergeF_is_funcMerge fuel sf sk f scs _ hsk]
    exact C13_func_other_target_replaces _ sf sk f g scs of ok ocs hsk hok hg hp hd
  · intro of ok ocs g hok hg hp hd
    rw [C13_mergeF_is_funcMerge fuel sf sk f scs _ hsk]
    obtain ⟨h1, h2⟩ := C13_func_other_target_merge_keeps_args (mergeF fuel) sf sk f g scs of ok ocs hsk hok hg hp hd
    exact ⟨h1, fun scs' hl => (h2 scs' hl).1⟩
  · intro of ok ocs hok hp hd hy
    rw [C13_mergeF_is_funcMerge fuel sf sk f scs _ hsk]
    exact C13_func_same_target_replaces_args _ sf sk f scs of ok ocs hsk hok hp hd hy
  · intro of ok ocs g hok hg hp
    rw [C13_mergeF_is_funcMerge fuel sf sk f scs _ hsk]
    obtain ⟨h1, cs, h2, h3, h4⟩ := C13_func_other_target_outranked_noop (mergeF fuel) sf sk f g scs of ok ocs hok hg hp
    exact ⟨cs, by rw [h1, h2], h3, h4⟩

example : (CompKind.bind "f").func? = some "f" := rfl
-- `!bind:f {a: 1}` ← `!bind:g {b: 2}`: the arguments of g replace those of f
example : (merge c03fW0.node c03fW2.node).toOption.map (fun r => (targetPrio r, r.children.map (·.1))) =
    some (some ("g", 0), [.str "b"]) := rfl
-- `!bind:f {a: 1}` ← `!merge !call:h {c: 3}` (made untagged-priority): the old argument is kept
example : (merge c03fW0.node (Writer.func true "h" [(.str "c", .leaf { iDel := some false } (.scalar (.int 3)))]
      { del := some false }).node).toOption.map (fun r => (targetPrio r, r.children.map (·.1))) =
    some (some ("h", 0), [.str "a", .str "c"]) := rfl
-- `!bind:f {a: 1}` ← `!force "f"`: same arguments
example : (merge c03fW0.node c03fW1.node).toOption.map (fun r => (targetPrio r, r.children.map (·.1))) =
    some (some ("f", 1), [.str "a"]) := rfl

/-! ### The seeded regression is refuted -/

/-- `!bind:f [1]`, `!force "f"`, `!bind:g [2]` as the loader builds them -/
def c03fMutRaw : List Raw :=
  [.seq (.bind "f") {} [.scalar .none {} (.lit (.int 1))],
   .scalar .plain { prio := some 1 } (.lit (.str "f")),
   .seq (.bind "g") {} [.scalar .none {} (.lit (.int 2))]]
def c03fM0 : Writer := .func false "f" [(.int 0, .leaf { iDel := some true } (.scalar (.int 1)))] { del := some true }
def c03fM1 : Writer := .name "f" { prio := some 1 }
def c03fM2 : Writer := .func false "g" [(.int 0, .leaf { iDel := some true } (.scalar (.int 2)))] { del := some true }

/- The regression seeded into `FunctionNode.on_merge_impl` (`funcMergeMut`: a string naming the
   current target always takes the lower-priority route `_replace_other`, so it never hands its
   priority over) violates the property on `!bind:f [1]` ← `!force "f"` ← `!bind:g [2]`: the
   arg-max writer is the `!force` string (target `f`, priority 1); `funcMerge` yields target `f`
   with priority 1, the mutant lets the third, untagged writer win: target `g`, priority 0.  (The
   three nodes are what `construct` returns for the three documents.) -/
theorem C03_function_entry_mutant_counterexample :
    (c03fMutRaw.map (construct {})) = [.ok c03fM0.node, .ok c03fM1.node, .ok c03fM2.node] ∧
    (foldW c03fM0.node [c03fM1.node, c03fM2.node]).toOption.map targetPrio = some (some ("f", 1)) ∧
    (foldWMut c03fM0.node [c03fM1.node, c03fM2.node]).toOption.map targetPrio = some (some ("g", 0)) ∧
    (argmaxInfo ([c03fM0, c03fM1, c03fM2].map (fun w => some w.info))).map pv = some (1, .str "f") :=
  ⟨rfl, rfl, rfl, by decide⟩

-- the mutant differs from the model only in that branch: on a string naming ANOTHER target they agree
example : (foldWMut c03fM0.node [(Writer.name "g" { prio := some 1 }).node]).toOption.map targetPrio =
    (foldW c03fM0.node [(Writer.name "g" { prio := some 1 }).node]).toOption.map targetPrio := rfl

end AY
