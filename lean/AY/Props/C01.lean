/-
  C01 — "Tags are transparent: one source evaluates to its plain-YAML content".

  Statement (properties.jsonl): Building a config from a single YAML source yields exactly the data
  PyYAML would load from that source once awesomeyaml's merge-control tags (!force, !weak, !del,
  !merge, !new, !unsafe, !metadata and the {{...}} metadata syntax; !notnew is by design an error in
  a first document) are erased: same keys, same order of list elements, same scalar values and
  Python types. Adding, removing or moving such tags on any node of a single document never changes
  the evaluated content.
  Quantifier: every YAML mapping document and every placement of merge-control tags / metadata on
  its nodes.

  What is proved: for every mapping document with merge-control tags on any nodes (arbitrary
  keywords and metadata) the loader (`construct`, both construction modes) succeeds and the data of
  the node tree (`native`) is the tag-erased document (`plainOfRaw`); the single-stage builder
  (`flatten [n]`: pre-merge pass, first-stage `allow_new` check) returns that tree unchanged unless
  the `allow_new` check fires; the evaluator (`config`) on that tree succeeds and returns the same
  data (`valData` drops the object identities of the evaluated value).
  PARTIAL (suffix `_partial`): the end-to-end statement is split at the first-stage `allow_new`
  check — `reqNew [] [] n = none` is a hypothesis-free fact only for documents without `!notnew`
  (`new = some false`), which is by design an error in a first document; that "no `!notnew` ⇒ the
  check passes" step (an invariant on the inherited `allow_new` flag through the loader) is not
  proved here, `C01_build_partial` exposes the check explicitly instead.
  Predicates and proofs: AY/Lemmas/C01Construct.lean (`rawTaggedDoc`, `rawTagged`, `tagOK`),
  AY/Lemmas/DataTree.lean (`dataT`), AY/Lemmas/C01Eval.lean (`valData`, evaluator invariant
  `Fresh`), AY/Lemmas/Native.lean (`inheritInto`, `adopt`, `propagate`, `setPrioAll`, `applyKw`
  preserve `native`).
-/
import AY.Lemmas.C01Construct
import AY.Lemmas.C01Eval
import AY.Lemmas.C02Fold
namespace AY

/-! ### Concrete documents used by the non-vacuity examples -/

/-- `!force {a: !del [1, {x: !weak y}], b: !unsafe {c: ~}, 3: !merge {{note: n}} [], d: !new z}`:
    tagged containers at several depths (deep construction), an untagged mapping inside a tagged
    sequence, tags on scalars, metadata -/
def c01Doc : Raw :=
  .map .plain { prio := some 1 } [
    (.str "a", .seq .plain { del := some true } [
      .scalar .none {} (.lit (.int 1)),
      .map .none {} [(.str "x", .scalar .plain { prio := some (-1) } (.lit (.str "y")))]]),
    (.str "b", .map .plain { safe := some false } [(.str "c", .scalar .none {} (.lit .null))]),
    (.int 3, .seq .plain { del := some false, md := [("note", .str "n")] } []),
    (.str "d", .scalar .plain { new := some true } (.text "z"))]

/-- the same shape with an untagged root: top-down construction above tagged subtrees -/
def c01Doc2 : Raw :=
  .map .none {} [
    (.str "k", .map .none {} [(.str "a", .seq .plain { prio := some 1 } [.seq .none {} [.scalar .none {} .empty]])]),
    (.str "l", .seq .none {} [.map .plain { del := some true } []])]

/-! ### The loader -/

/- "Building a config from a single YAML source yields exactly the data PyYAML would load from
   that source once awesomeyaml's merge-control tags … are erased … Adding, removing or moving such
   tags on any node of a single document never changes the evaluated content": for every mapping
   document whose tags are merge-control tags (any keywords `priority/delete/allow_new/safe`, any
   metadata, on any node), parsing succeeds and the data of the node tree is the tag-erased
   document — the flag bookkeeping (`inheritInto`, `adopt`, `propagate`, `setPrioAll`, `applyKw`)
   is invisible in the data. -/
theorem C01_tag_transparent_partial (env : Env) (r : Raw) (h : rawTaggedDoc r = true) :
    ∃ n, construct env r = .ok n ∧ native n = plainOfRaw r := by
  cases r with
  | scalar t kw v => simp [rawTaggedDoc] at h
  | seq t kw items => simp [rawTaggedDoc] at h
  | map t kw items =>
    obtain ⟨n, h1, h2, _⟩ := constructTD_tag env _ none (by simpa [rawTaggedDoc] using h)
    exact ⟨n, h1, h2⟩

example : rawTaggedDoc c01Doc = true ∧ rawTaggedDoc c01Doc2 = true := by decide
example : ∃ n, construct {} c01Doc = .ok n ∧ native n = plainOfRaw c01Doc :=
  C01_tag_transparent_partial {} c01Doc (by decide)
example : ((construct {} c01Doc).map (fun n => n.depth)).toOption = some 3 := by decide

/- The same inside a tagged region and below any parent: every subtree, constructed in either
   mode (`deep=True` bottom-up, or top-down with adoption by an arbitrary parent), carries the
   tag-erased data. -/
theorem C01_subtree_transparent_partial (env : Env) (r : Raw) (parent : Option (Flags × CompKind))
    (h : rawTagged r = true) :
    (∃ n, constructDeep env r = .ok n ∧ native n = plainOfRaw r) ∧
    (∃ n, constructTD env parent r = .ok n ∧ native n = plainOfRaw r) :=
  ⟨(constructDeep_tag env r h).imp fun _ x => ⟨x.1, x.2.1⟩,
   (constructTD_tag env r parent h).imp fun _ x => ⟨x.1, x.2.1⟩⟩

example : rawTagged (.seq .plain { prio := some 1 } [.scalar .plain { del := some true } .empty]) = true := by
  decide

/-! ### Loader, single-stage builder and evaluator together -/

/- "Building a config from a single YAML source yields exactly the data PyYAML would load from
   that source once awesomeyaml's merge-control tags … are erased: same keys, same order of list
   elements, same scalar values and Python types": for every mapping document with merge-control
   tags, with `n` the parsed tree,
   * `Builder.flatten` of the single stage is `n` itself, or the `notnew` error of the first-stage
     `allow_new` check (`!notnew is by design an error in a first document`), nothing else;
   * `Config(n)` (check_missing + evaluation, any `World`) succeeds and the evaluated value carries
     exactly the tag-erased data. -/
theorem C01_build_partial (env : Env) (w : World) (r : Raw) (h : rawTaggedDoc r = true) :
    ∃ n, construct env r = .ok n ∧
      (flatten [n] = match reqNew [] [] n with
        | some p => .error (.notnew p)
        | none => .ok n) ∧
      ∃ v st, config w n = .ok (v, st) ∧ valData v = plainOfRaw r := by
  cases r with
  | scalar t kw v => simp [rawTaggedDoc] at h
  | seq t kw items => simp [rawTaggedDoc] at h
  | map t kw items =>
    have h' : rawTagged (.map t kw items) = true := by simpa [rawTaggedDoc] using h
    obtain ⟨n, h1, h2, h3⟩ := constructTD_tag env _ none h'
    have hd : n.isDict = true := by
      have : ∃ cs, native n = .dict cs := ⟨_, by rw [h2]; rfl⟩
      obtain ⟨cs, hcs⟩ := this
      cases n with
      | leaf f lk => cases lk <;> simp [native] at hcs
      | comp f k cs' =>
        simp only [native] at hcs
        split at hcs
        · simpa [Node.isDict]
        · cases hcs
    obtain ⟨v, st, e1, e2⟩ := config_data w n h3 hd
    exact ⟨n, h1, flatten_single_dataT n h3 hd, v, st, e1, by rw [e2, h2]⟩

example : rawTaggedDoc c01Doc = true := by decide
-- on the concrete document the first-stage check passes and the evaluation succeeds
example : ((construct {} c01Doc).map (fun n => (reqNew [] [] n).isNone)).toOption = some true := by decide
example : ((construct {} c01Doc).toOption.map (fun n => (config {} n).toBool)) = some true := by decide

/- The evaluator on any mapping tree of plain mappings, plain lists and scalars with distinct
   sibling keys — whatever its flags (priorities, delete/allow_new flags, `!unsafe`, metadata) —
   returns the data of the tree: "plain node evaluation" is flag-blind. -/
theorem C01_config_flag_blind (w : World) (n : Node) (hn : dataT n = true) (hd : n.isDict = true) :
    ∃ v st, config w n = .ok (v, st) ∧ valData v = native n :=
  config_data w n hn hd

example : dataT (.comp { safe := some false, prio := some 1 } .dict
    [(.str "a", .comp { del := some true } .list [(.int 0, .leaf { new := some false } (.scalar (.int 1)))])]) = true := by
  decide

/- Two placements of tags on the same document give the same data ("adding, removing or moving
   such tags … never changes the evaluated content", at the level of the node tree). -/
theorem C01_tags_irrelevant_partial (env env' : Env) (r r' : Raw) (h : rawTaggedDoc r = true)
    (h' : rawTaggedDoc r' = true) (hsame : plainOfRaw r = plainOfRaw r') :
    ∃ n n', construct env r = .ok n ∧ construct env' r' = .ok n' ∧ native n = native n' := by
  obtain ⟨n, h1, h2⟩ := C01_tag_transparent_partial env r h
  obtain ⟨n', g1, g2⟩ := C01_tag_transparent_partial env' r' h'
  exact ⟨n, n', h1, g1, by rw [h2, g2, hsame]⟩

/- The flag operations of the loader preserve the data (the lemmas the theorems above rest on,
   for ALL nodes). -/
theorem C01_flag_ops_preserve_data (n : Node) :
    (∀ p kw, native (inheritInto p kw n) = native n) ∧
    (∀ pf pk, native (adopt pf pk n) = native n) ∧
    native (propagate n) = native n ∧
    (∀ p, native (setPrioAll p n) = native n) ∧
    (∀ kw, native (applyKw kw n) = native n) :=
  ⟨fun p kw => native_inheritInto p kw n, fun pf pk => native_adopt pf pk n, nativeOf_propagate n,
   fun p => native_setPrioAll p n, fun kw => nativeOf_applyKw kw n⟩

example : native (setPrioAll 1 (.comp {} .list [(.int 0, .leaf {} (.scalar (.int 4)))])) =
    .list [.scalar (.int 4)] := rfl

/- First stage of the builder for a tag-free document (where `_require_all_new` cannot fire and
   the pre-merge pass is the identity): `flatten` of the single parsed document returns it. The
   version with merge-control tags needs the first-stage `allow_new` check (`!notnew` is an error
   by design) and the pre-merge pass on tagged trees; not proved here. -/
theorem C01_first_stage_partial (env : Env) (r : Raw) (h : rawPlain r = true) :
    ∃ n, construct env r = .ok n ∧ (flatten [n]).map native = .ok (plainOfRaw r) := by
  obtain ⟨n, h1, h2, h3, h4⟩ := construct_plain env r h
  refine ⟨n, h1, ?_⟩
  have := flatten_plain [n] (by simp) (by
    intro st hst
    simp only [List.mem_cons, List.not_mem_nil, or_false] at hst
    subst hst; exact ⟨h3, h4⟩)
  rw [this, ← h2]
  rfl

example : rawPlain (.map .none {} [(.str "a", .seq .none {} [.scalar .none {} (.lit (.int 1))])]) = true := by
  decide

end AY
