import AY.Spec.Plain
namespace AY
theorem C01_placeholder : foldUpd [] = .error .value := rfl
end AY
