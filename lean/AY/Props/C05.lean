/-
  C05 — "Merging is local".

  Statement (properties.jsonl): Wrapping every document of a merge sequence under the same extra
  key (or key chain) yields exactly the unwrapped result wrapped under that key, and the merged
  value at any path is unaffected by what sibling paths contain or how keys elsewhere are named.
  Paths that the newer document does not mention, and that are not below a deleting node of it,
  come out unchanged.
  Quantifier: every merge sequence (all merge-control tags) and every wrapping prefix.

  The theorems below are about `mergeF` of AY.Model.Merge for ALL nodes (any class, any flags, any
  metadata); only the wrapper mappings are restricted to what the loader creates for an untagged
  top-level mapping (`bareW`: no explicit and no inherited flag, no metadata; `dSafe`/`src` free).
  Auxiliary definitions and proofs: AY/Lemmas/C05Wrap.lean (`wrapChildren`, `wrapFlags`, `wrapN`,
  `wrapRes`, `wrapPlain`, `prependAll`), AY/Lemmas/UpdFrame.lean.
-/
import AY.Lemmas.C05Wrap
import AY.Lemmas.C05Frame
import AY.Lemmas.C02Merge
import AY.Lemmas.UpdFrame
namespace AY

/-! ### Concrete nodes used by the non-vacuity examples -/

/-- `!force {x: 1, y: !del {}}` as stored below a wrapper -/
def c05A : Node :=
  .comp { prio := some 1 } .dict
    [(.str "x", .leaf { prio := some 1 } (.scalar (.int 1))),
     (.str "y", .comp { prio := some 1, del := some true, iDel := some true } .dict [])]

/-- `{x: !weak 2, z: [1], y: !del {}}` -/
def c05B : Node :=
  .comp {} .dict
    [(.str "x", .leaf { prio := some (-1) } (.scalar (.int 2))),
     (.str "z", .comp { iDel := none } .list [(.int 0, .leaf { iDel := some true } (.scalar (.int 1)))]),
     (.str "y", .comp { del := some true, iDel := some true } .dict [])]

/-- wrapper flags of two different source files -/
def c05Wa : Flags := { src := some "a.yaml" }
def c05Wb : Flags := { src := some "b.yaml", dSafe := false }

/-! ### One wrapping key -/

/- "Wrapping every document of a merge sequence under the same extra key … yields exactly the
   unwrapped result wrapped under that key": for ALL nodes `a b`, every key `k`, every fuel and
   bare wrapper flags, merging `{k: a}` and `{k: b}` is determined by merging `a` and `b`:
   * an error of the child merge is reported with `k` prepended to its path;
   * on success the wrapper (flags: `_replace_self` of the two wrappers, re-propagated) contains
     what the key loop leaves (`wrapChildren`): the merged child — in place, or re-adopted — or
     nothing in the two remove-this-key cases (emptied container under an explicit `!del`; empty
     `!del` replacement of a leaf), or a `notnew` error when the replacement of a leaf violates
     `allow_new` below itself.  The result is always the `self` object (`true`). -/
theorem C05_wrap (fuel : Nat) (k : Key) (wa wb : Flags) (a b : Node)
    (hwa : bareW wa = true) (hwb : bareW wb = true) :
    mergeF (fuel + 1) (.comp wa .dict [(k, a)]) (.comp wb .dict [(k, b)]) =
      match mergeF fuel a b with
      | .error e => .error (e.prepend k)
      | .ok (nw, same) =>
        match wrapChildren wa k a b nw same with
        | .error e => .error e
        | .ok cs => .ok (propagate (.comp (wrapFlags wa wb) .dict cs), true) :=
  mergeF_wrap fuel k wa wb a b hwa hwb

example : bareW c05Wa = true ∧ bareW c05Wb = true := by decide
-- the statement instantiated on tagged nodes (priorities, `!del`, a list) …
example := C05_wrap 3 (.str "k") c05Wa c05Wb c05A c05B (by decide) (by decide)
-- … where the child merge succeeds and the wrapped merge keeps the key
example : ((mergeF 3 c05A c05B).map (fun r => native r.1)).toBool = true := by decide
example : ((mergeF 4 (.comp c05Wa .dict [(.str "k", c05A)]) (.comp c05Wb .dict [(.str "k", c05B)])).map
    (fun r => match native r.1 with | .dict [(.str "k", _)] => true | _ => false)).toOption = some true := by
  decide

/- Error part alone: "the merged value at any path is unaffected by … how keys elsewhere are
   named" — a failing child merge fails the wrapped merge with the same error, path extended. -/
theorem C05_wrap_error (fuel : Nat) (k : Key) (wa wb : Flags) (a b : Node) (e : Err)
    (hwa : bareW wa = true) (hwb : bareW wb = true) (h : mergeF fuel a b = .error e) :
    mergeF (fuel + 1) (.comp wa .dict [(k, a)]) (.comp wb .dict [(k, b)]) = .error (e.prepend k) := by
  rw [C05_wrap fuel k wa wb a b hwa hwb, h]

example : (match mergeF 2 (.comp {} .list [(.int 0, .leaf {} (.scalar .null))])
      (.comp { del := some false } .dict [(.str "q", .leaf {} (.scalar .null))]) with
    | .error .merge => true | _ => false) = true := by decide

/- Data part alone: whenever the wrapped merge succeeds, its data is the wrapper around the data
   of the merged child, or the empty wrapper (remove-this-key cases). -/
theorem C05_wrap_data (fuel : Nat) (k : Key) (wa wb : Flags) (a b r : Node) (s : Bool)
    (hwa : bareW wa = true) (hwb : bareW wb = true)
    (h : mergeF (fuel + 1) (.comp wa .dict [(k, a)]) (.comp wb .dict [(k, b)]) = .ok (r, s)) :
    ∃ nw same, mergeF fuel a b = .ok (nw, same) ∧ s = true ∧
      (native r = .dict [(k, native nw)] ∨ native r = .dict []) := by
  rw [C05_wrap fuel k wa wb a b hwa hwb] at h
  cases hm : mergeF fuel a b with
  | error e => simp [hm] at h
  | ok res =>
    obtain ⟨nw, same⟩ := res
    refine ⟨nw, same, rfl, ?_⟩
    simp only [hm] at h
    cases hc : wrapChildren wa k a b nw same with
    | error e => simp [hc] at h
    | ok cs =>
      simp only [hc] at h
      injection h with h
      injection h with h1 h2
      refine ⟨h2.symm, ?_⟩
      rw [← h1, nativeOf_propagate]
      rcases wrapChildren_shape wa k a b nw same cs hc with hcs | ⟨x, hcs, hx⟩
      · right; subst hcs; simp [native, nativeList, CompKind.isDictFam]
      · left; subst hcs; simp [native, nativeList, CompKind.isDictFam, hx]

example : ∃ r s, mergeF 4 (.comp c05Wa .dict [(.str "k", c05A)]) (.comp c05Wb .dict [(.str "k", c05B)]) = .ok (r, s) := by
  cases h : mergeF 4 (.comp c05Wa .dict [(.str "k", c05A)]) (.comp c05Wb .dict [(.str "k", c05B)]) with
  | ok p => exact ⟨p.1, p.2, rfl⟩
  | error e =>
    have : (mergeF 4 (.comp c05Wa .dict [(.str "k", c05A)]) (.comp c05Wb .dict [(.str "k", c05B)])).toBool = true := by
      decide
    simp [h, Except.toBool] at this

/-! ### A key chain -/

/- "… under the same extra key (or key chain)": below the innermost wrapping key `k`, any further
   chain `ks` of wrapping keys only prepends `ks` to error paths and wraps the result `ks` more
   times (each level a mapping mutated in place and re-propagated); on data: `wrapPlain ks`. -/
theorem C05_wrap_chain (fuel : Nat) (ks : List Key) (k : Key) (wa wb : Flags) (a b : Node)
    (hwa : bareW wa = true) (hwb : bareW wb = true) :
    mergeF (fuel + 1 + ks.length) (wrapN wa ks (.comp wa .dict [(k, a)])) (wrapN wb ks (.comp wb .dict [(k, b)])) =
      (match mergeF (fuel + 1) (.comp wa .dict [(k, a)]) (.comp wb .dict [(k, b)]) with
        | .error e => .error (prependAll ks e)
        | .ok (r, _) => .ok (wrapRes (wrapFlags wa wb) ks r, true))
    ∧ ∀ r, native (wrapRes (wrapFlags wa wb) ks r) = wrapPlain ks (native r) := by
  refine ⟨?_, native_wrapRes _ ks⟩
  apply mergeF_wrapN wa wb hwa hwb (fuel + 1) _ _ rfl
  · simp [Node.flags, ((bareW_iff wb).1 hwb).2.1]
  · intro r s h
    exact mergeF_wrap_same fuel k wa wb a b hwa hwb r s h

example := C05_wrap_chain 3 [.str "p", .int 7] (.str "k") c05Wa c05Wb c05A c05B (by decide) (by decide)
example : wrapPlain [.str "p", .int 7] (.scalar .null) = .dict [(.str "p", .dict [(.int 7, .scalar .null)])] := rfl

/-! ### Frame: what the newer document does not mention -/

/- "Paths that the newer document does not mention, and that are not below a deleting node of it,
   come out unchanged": for ALL mapping nodes (any flags, any children, all merge-control tags
   below), when the newer mapping `o` is not deleting (`eDel o = false`) and the merge succeeds,
   every key `k` that `o` does not have keeps its old child (only the inherited flags may be
   re-propagated into it, so its data is unchanged), whatever the sibling keys contain. -/
theorem C05_frame (fuel : Nat) (sf of : Flags) (scs ocs : List (Key × Node)) (r : Node) (s : Bool)
    (hlive : eDel (.comp of .dict ocs) = false)
    (h : mergeF (fuel + 1) (.comp sf .dict scs) (.comp of .dict ocs) = .ok (r, s))
    (k : Key) (hk : alookup k ocs = none) :
    (alookup k r.children).map native = (alookup k scs).map native := by
  simp only [mergeF, compMerge, hlive, Bool.false_eq_true, if_false] at h
  cases hl : mergeLoop (mergeF fuel) sf .dict [] scs ocs with
  | error e => simp [hl] at h
  | ok scs' =>
    simp only [hl] at h
    rw [finishMerge_dict_children sf of scs' ocs r s h k,
      mergeLoop_frame (mergeF fuel) rfl ocs scs scs' hl k hk]

-- a non-deleting tagged mapping, a key it does not mention, and a successful merge
example : eDel c05B = false ∧ alookup (.str "keep") c05B.children = none := by decide
example : ((mergeF 3 (.comp { prio := some 1 } .dict ((.str "keep", .leaf {} (.scalar (.int 7))) :: c05A.children))
    c05B).map (fun r => match (alookup (.str "keep") r.1.children).map native with
      | some (.scalar (.int 7)) => true | _ => false)).toOption = some true := by decide

/-! ### The same laws on the data-only specification -/

/- The wrap law of the specification `updF` (what C02 equates the merge of tag-free documents with). -/
theorem C05_wrap_spec (fuel : Nat) (k : Key) (a b : Plain) :
    updF (fuel + 1) (.dict [(k, a)]) (.dict [(k, b)]) = (updF fuel a b).map (fun r => .dict [(k, r)]) := by
  rw [updF_dict_dict]
  simp only [updF.updDict, alookup, if_true]
  cases updF fuel a b <;> simp [Except.map, aset]

/- "Paths that the newer document does not mention … come out unchanged" (specification side):
   a key the newer mapping does not have keeps exactly its old value (or stays absent). -/
theorem C05_frame_spec (fuel : Nat) (as bs : List (Key × Plain)) (r : Plain) (k : Key)
    (h : updF (fuel + 1) (.dict as) (.dict bs) = .ok r) (hk : alookup k bs = none) :
    ∃ rs, r = .dict rs ∧ alookup k rs = alookup k as := by
  rw [updF_dict_dict] at h
  cases hu : updF.updDict (updF fuel) as bs with
  | error e => simp [hu, Except.map] at h
  | ok rs =>
    simp only [hu, Except.map] at h
    injection h with h
    refine ⟨rs, h.symm, ?_⟩
    have hkeys := updDict_keys _ bs as rs hu
    -- generalise over duplicate keys in `bs`: induction instead of `updDict_pointwise`
    clear h hkeys
    induction bs generalizing as with
    | nil => simp only [updF.updDict] at hu; injection hu with hu; rw [hu]
    | cons kv rest ih =>
      obtain ⟨k', vb⟩ := kv
      have hk' : ¬ k' = k ∧ alookup k rest = none := by
        by_cases e : k' = k <;> simp_all [alookup]
      rw [updDict_cons] at hu
      cases hl : alookup k' as with
      | none =>
        simp only [hl] at hu
        rw [ih _ hk'.2 hu, alookup_aset]; simp [hk'.1]
      | some va =>
        simp only [hl] at hu
        cases hr : updF fuel va vb with
        | error e => simp [hr] at hu
        | ok v =>
          simp only [hr] at hu
          rw [ih _ hk'.2 hu, alookup_aset]; simp [hk'.1]

example : alookup (.str "q") [(Key.str "b", Plain.scalar .null)] = none := by decide

end AY
