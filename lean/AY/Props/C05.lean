import AY.Spec.Plain
namespace AY
theorem C05_placeholder : foldUpd [] = .error .value := rfl
end AY
