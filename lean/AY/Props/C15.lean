import AY.Spec.Plain
namespace AY
theorem C15_placeholder : foldUpd [] = .error .value := rfl
end AY
