/-
  C15 — "Merge laws: deterministic, idempotent, empty-neutral, order- and flag-neutral".

  Statement (properties.jsonl): Building the same sources twice gives equal results; repeating the
  last document, or adding an empty mapping document anywhere in the sequence, does not change the
  result; permuting the order of keys inside any mapping changes at most the order of keys in the
  result. Marking any node of any document !unsafe or !new does not change the merged data either;
  all of this holds for documents using priority, !del and !merge tags (excluding the explicit
  remove-this-key idiom).

  Model side: `construct`, `mergeF`/`merge`, `flatten`.  Specification side: `upd`, `foldUpd`.
  What is proved
  * determinism (trivial: the model is a function);
  * empty mapping on the right of ANY mapping-family node and on the left of ANY mapping whose
    children carry no `!notnew` restriction: exact result, data unchanged (model, all flags);
    the fold version for tag-free documents (through C02) and for dict-shaped documents with
    priority / metadata tags (through the C03 induction);
  * repeat-last: idempotence of `upd` on the specification and of the builder's fold for tag-free
    documents — PARTIAL: for a repeated document without negative integer keys.  The unrestricted
    statement is FALSE (also on the real code): negative integer keys can alias a list position
    (`C15_repeat_last_spec_counterexample`), and — known finding D18 — a list meeting priority tags
    is not idempotent either (`C15_repeat_last_counterexample`);
  * key permutation on the specification (`Plain.PermEq` is a congruence for `upd`) — PARTIAL: for
    newer values without integer keys; with integer keys aliasing one list position (`0` / `-2`)
    the order of the keys decides which value the position ends up with, also on the real code
    (`C15_key_permutation_spec_counterexample`);
  * `!unsafe` / `!new` markers — PARTIAL (`C15_flag_neutral_ops_partial`): `eraseSN` (forget
    `safe` / `allow_new` everywhere) preserves the data and commutes with every flag combination,
    the leaf rule (winner, flags and data of the surviving node; the node itself when it is a leaf)
    and every priority / `delete` test of the merge; the commutation with `mergeF`
    on whole trees is NOT proved (see the comment at the theorem).
  Proofs: AY/Lemmas/{C15Empty,C15Spec,C15Perm,C15Flag,C15EmptyDS}.lean.
-/
import AY.Lemmas.C15Empty
import AY.Lemmas.C15Spec
import AY.Lemmas.C15Perm
import AY.Lemmas.C15Flag
import AY.Lemmas.C15EmptyDS
import AY.Props.C02
import AY.Props.C03
namespace AY

/-! ### Concrete inputs used by the non-vacuity examples -/

/-- `!force {x: 1, y: !del {}}` / `{x: !weak 2, z: [1], y: !del {}}` as node trees -/
def c15A : Node :=
  .comp { prio := some 1 } .dict
    [(.str "x", .leaf { prio := some 1 } (.scalar (.int 1))),
     (.str "y", .comp { prio := some 1, del := some true, iDel := some true } .dict [])]
def c15B : Node :=
  .comp { prio := some (-1), md := [("m", .int 3)] } .dict
    [(.str "x", .leaf { prio := some (-1) } (.scalar (.int 2))),
     (.str "z", .comp { iDel := none } .list [(.int 0, .leaf { iDel := some true } (.scalar (.int 1)))]),
     (.str "y", .comp { del := some true, iDel := some true } .dict [])]
/-- flags of an untagged empty mapping document read from another file -/
def c15E : Flags := { src := some "e.yaml", dSafe := false }

def c15Int (i : Int) : Raw := .scalar .none {} (.lit (.int i))
def c15Force (i : Int) : Raw := .scalar .plain { prio := some 1 } (.lit (.int i))
/-- parse and merge a sequence of documents, keep the data -/
def c15Build (ds : List Raw) : Except Err Plain :=
  match constructDocs (ds.map (fun d => (({} : Env), d))) with
  | .error e => .error e
  | .ok ns => (flatten ns).map native

/-- parse and merge a sequence of documents (each with its own source context) -/
def c15Flatten (docs : List (Env × Raw)) : Except Err Node :=
  match constructDocs docs with
  | .error e => .error e
  | .ok ns => flatten ns

/-! ### Determinism -/

/- "Building the same sources twice gives equal results": the model (`constructDocs`, `flatten`) is
   a function of the sources, so this is trivial in Lean; stated for completeness. -/
theorem C15_deterministic (docs : List (Env × Raw)) (r₁ r₂ : Except Err Node)
    (h₁ : c15Flatten docs = r₁) (h₂ : c15Flatten docs = r₂) : r₁ = r₂ :=
  h₁.symm.trans h₂

example : ∃ r, c15Flatten [(({} : Env), c02Doc1), ({}, c02Doc2)] = r := ⟨_, rfl⟩

/-! ### The empty mapping document -/

/- "adding an empty mapping document anywhere in the sequence does not change the result" — on the
   right: for ANY node `a` of the mapping family (dict, !call, !bind; any flags, any children) and
   an untagged empty mapping `e` (flags `bareW`: nothing explicit, nothing inherited, no metadata),
   with any positive fuel the merge succeeds, returns the `self` object, and its result is `a` with
   the flags of the root combined by the tail of `on_merge_impl` (`finishMerge`):
   `_replace_self` (priority and `delete` of the root are overwritten by those of `e`, i.e. reset,
   metadata and safety combined, inherited flags re-propagated into the children) when `e` has
   priority over `a` or the same priority, `_replace_other` (only safety / metadata, re-propagated
   likewise) when `a` has the strictly higher priority.  The data, and the data and order of the
   children, are unchanged. -/
theorem C15_empty_neutral_right (fuel : Nat) (sf : Flags) (sk : CompKind) (scs : List (Key × Node))
    (ef : Flags) (hk : sk.isDictFam = true) (he : bareW ef = true) :
    mergeF (fuel + 1) (.comp sf sk scs) (.comp ef .dict []) =
      .ok ((if hasPrio ef sf true then propagate (.comp (replaceSelfFlags sf ef) sk scs)
            else propagate (.comp (replaceOtherFlags sf ef) sk scs)), true)
    ∧ (∀ r s, mergeF (fuel + 1) (.comp sf sk scs) (.comp ef .dict []) = .ok (r, s) →
        native r = native (.comp sf sk scs) ∧ nativeList r.children = nativeList scs ∧
        (merge (.comp sf sk scs) (.comp ef .dict [])).map native = .ok (native (.comp sf sk scs))) := by
  have h := mergeF_empty_right fuel sf sk scs ef hk he
  refine ⟨h, ?_⟩
  intro r s hr
  rw [h] at hr
  injection hr with hr
  injection hr with hr _
  subst hr
  refine ⟨native_emptyRightResult sf sk scs ef, (children_emptyRightResult sf sk scs ef).1, ?_⟩
  have h0 := mergeF_empty_right 0 sf sk scs ef hk he
  have hd : (Node.comp ef .dict []).depth + 1 = 0 + 1 + 1 := rfl
  have h1 := mergeF_empty_right 1 sf sk scs ef hk he
  simp only [merge, hd, h1, Except.map, native_emptyRightResult]

example : (CompKind.dict).isDictFam = true ∧ bareW c15E = true ∧ hasPrio c15E c15A.flags true = false ∧
    hasPrio c15E c15B.flags true = true := by decide
example := C15_empty_neutral_right 0 c15A.flags .dict c15A.children c15E (by decide) (by decide)

/- "adding an empty mapping document anywhere …" — on the left: for an empty mapping `e` (ANY
   flags) and ANY mapping `b` (any flags) whose keys are pairwise distinct and below whose root no
   node is `!notnew`-restricted (`allNewList`: effective `allow_new` everywhere; equivalently
   `reqNewList [] [] bcs = none`), the merge succeeds and the data of the result is the data of
   `b`: every child of `b` is adopted (re-parented, inherited flags re-propagated, in order) —
   or, when `b` is deleting and has priority over `e`, `b` itself takes the place of `e`. -/
theorem C15_empty_neutral_left (fuel : Nat) (ef bf : Flags) (bcs : List (Key × Node))
    (hnd : keysNodup bcs = true) (hnew : allNewList bcs = true) :
    mergeF (fuel + 1) (.comp ef .dict []) (.comp bf .dict bcs) =
      .ok (if eDel (.comp bf .dict bcs) && hasPrio bf ef true then
             (propagate (.comp (replaceOtherFlags bf ef) .dict bcs), false)
           else if hasPrio bf ef true then
             (propagate (.comp (replaceSelfFlags ef bf) .dict (adoptList ef bcs)), true)
           else (propagate (.comp (replaceOtherFlags ef bf) .dict (adoptList ef bcs)), true))
    ∧ (∀ r s, mergeF (fuel + 1) (.comp ef .dict []) (.comp bf .dict bcs) = .ok (r, s) →
        native r = native (.comp bf .dict bcs))
    ∧ (allNewList bcs = true ↔ reqNewList [] [] bcs = none) := by
  have h := mergeF_empty_left fuel ef bf bcs hnd hnew
  refine ⟨h, ?_, fun _ => reqNewList_allNew [] [] bcs hnew, fun h => allNewList_of_reqNewList [] bcs h⟩
  intro r s hr
  rw [h] at hr
  injection hr with hr
  have := native_emptyLeftResult ef bf bcs
  rw [hr] at this
  exact this

example : keysNodup c15B.children = true ∧ allNewList c15B.children = true ∧
    keysNodup c15A.children = true ∧ allNewList c15A.children = true := by decide
example := C15_empty_neutral_left 3 c15E c15B.flags c15B.children (by decide) (by decide)

/- Specification side: the empty mapping is a two-sided unit of `upd` on mappings (keys of the
   newer mapping pairwise distinct). -/
theorem C15_empty_neutral_spec (as bs : List (Key × Plain)) (h : keysNodup bs = true) :
    upd (.dict as) (.dict []) = .ok (.dict as) ∧ upd (.dict []) (.dict bs) = .ok (.dict bs) :=
  ⟨upd_empty_right as, upd_empty_left bs h⟩

example : keysNodup [(Key.str "a", Plain.scalar .null), (Key.int 1, Plain.list [])] = true := by decide

/- "adding an empty mapping document anywhere in the sequence does not change the result" — the
   builder's fold, PARTIAL: for tag-free mapping documents (through `C02_plain_fold`): parsing and
   flattening the sequence with `{}` inserted at any position gives the same `Except` value (data,
   or error) as without it. -/
theorem C15_empty_anywhere_partial (docs₁ docs₂ : List (Env × Raw)) (env : Env) (hne : docs₁ ++ docs₂ ≠ [])
    (h₁ : ∀ d, d ∈ docs₁ → rawPlain d.2 = true) (h₂ : ∀ d, d ∈ docs₂ → rawPlain d.2 = true) :
    ∃ ns ns', constructDocs (docs₁ ++ docs₂) = .ok ns ∧
      constructDocs (docs₁ ++ (env, .map .none {} []) :: docs₂) = .ok ns' ∧
      (flatten ns').map native = (flatten ns).map native := by
  have hall : ∀ d, d ∈ docs₁ ++ docs₂ → rawPlain d.2 = true := by
    intro d hd
    rcases List.mem_append.1 hd with h | h
    · exact h₁ d h
    · exact h₂ d h
  have hall' : ∀ d, d ∈ docs₁ ++ (env, Raw.map .none {} []) :: docs₂ → rawPlain d.2 = true := by
    intro d hd
    rcases List.mem_append.1 hd with h | h
    · exact h₁ d h
    · rcases List.mem_cons.1 h with h | h
      · subst h; rfl
      · exact h₂ d h
  obtain ⟨ns, e1, f1⟩ := C02_plain_fold (docs₁ ++ docs₂) hne hall
  obtain ⟨ns', e2, f2⟩ := C02_plain_fold (docs₁ ++ (env, Raw.map .none {} []) :: docs₂) (by simp) hall'
  refine ⟨ns, ns', e1, e2, ?_⟩
  rw [f1, f2]
  simp only [List.map_append, List.map_cons, plainOfRaw, plainOfRawMap]
  apply foldUpd_insert_empty
  · simpa using hne
  · intro x hx
    obtain ⟨d, hd, rfl⟩ := List.mem_map.1 hx
    exact plainOfRaw_isDict (h₁ d hd)
  · intro y hy
    obtain ⟨d, hd, rfl⟩ := List.mem_map.1 hy
    exact plainOfRaw_isDictNodup (h₂ d hd)

example : [(({} : Env), c02Doc1)] ++ [(({} : Env), c02Doc2)] ≠ [] ∧ rawPlain c02Doc1 = true ∧ rawPlain c02Doc2 = true := by
  decide

/- "adding an empty mapping document anywhere …" — the builder's fold, PARTIAL: for dict-shaped
   documents (mappings of mappings with scalar leaves; priority and metadata tags on any node; the
   domain of C03), pairwise shape-compatible: inserting an untagged empty mapping (any `flagsDS`
   flags, e.g. another source file) at any position, both sequences flatten successfully and at
   every path the two results have the very same leaf (value, priority, metadata, all flags). -/
theorem C15_empty_anywhere_dictshaped_partial (ef : Flags) (xs ys : List Node) (hne : xs ++ ys ≠ [])
    (hef : flagsDS ef = true)
    (hst : ∀ st, st ∈ xs ++ ys → dictShaped st = true ∧ st.isDict = true)
    (hpw : pairwiseCompat (xs ++ .comp ef .dict [] :: ys)) :
    ∃ r r', flatten (xs ++ ys) = .ok r ∧ flatten (xs ++ .comp ef .dict [] :: ys) = .ok r' ∧
      ∀ p, leafAt r' p = leafAt r p :=
  flatten_insert_empty_DS ef xs ys hne hef hst hpw

example : flagsDS c15E = true ∧ [c03D1] ++ [c03D2, c03D3] ≠ [] ∧
    (∀ st, st ∈ [c03D1] ++ [c03D2, c03D3] → dictShaped st = true ∧ st.isDict = true) ∧
    pairwiseCompat ([c03D1] ++ .comp c15E .dict [] :: [c03D2, c03D3]) := by
  refine ⟨by decide, by simp, ?_, pairwiseCompat_of_B _ (by decide)⟩
  intro st hst
  simp only [List.cons_append, List.nil_append, List.mem_cons, List.not_mem_nil, or_false] at hst
  rcases hst with rfl | rfl | rfl <;> decide

/-! ### Repeating the last document -/

/- "repeating the last document … does not change the result" — specification, PARTIAL: for a
   newer value `b` whose sibling keys are pairwise distinct and whose integer keys are non-negative
   at every level (`keysOK`), updating by `b` twice is updating once, and updating `b` by itself
   gives `b`. -/
theorem C15_repeat_last_spec_partial (a b r : Plain) (hb : b.keysOK = true) (h : upd a b = .ok r) :
    upd r b = .ok r ∧ upd b b = .ok b :=
  ⟨upd_idem a b r hb h, upd_self b hb⟩

example : (plainOfRaw c02Doc3).keysOK = true ∧ (upd (plainOfRaw c02Doc1) (plainOfRaw c02Doc1)).toBool = true := by
  decide

/- The unrestricted statement is FALSE on the specification, hence (C02) on the model and on the
   real code: in `a: [x, y]` ← `a: {0: {p: 1}, -2: [5]}` both keys address position 0; the first pass
   leaves `[5]` there, the second pass merges `{p: 1}` onto that list: MergeError. -/
theorem C15_repeat_last_spec_counterexample :
    ∃ a b r, upd a b = .ok r ∧ upd r b = .error .merge :=
  ⟨.dict [(.str "a", .list [.scalar (.str "x"), .scalar (.str "y")])],
   .dict [(.str "a", .dict [(.int 0, .dict [(.str "p", .scalar (.int 1))]), (.int (-2), .list [.scalar (.int 5)])])],
   _, rfl, rfl⟩

/- The builder's fold, PARTIAL: for tag-free mapping documents the last of which has no negative
   integer key, repeating the last document gives the same `Except` value. -/
theorem C15_repeat_last_plain (docs : List (Env × Raw)) (d : Env × Raw)
    (h : ∀ x, x ∈ docs → rawPlain x.2 = true) (hd : rawPlain d.2 = true)
    (hk : (plainOfRaw d.2).keysOK = true) :
    ∃ ns ns', constructDocs (docs ++ [d]) = .ok ns ∧ constructDocs (docs ++ [d, d]) = .ok ns' ∧
      (flatten ns').map native = (flatten ns).map native := by
  have hall : ∀ x, x ∈ docs ++ [d] → rawPlain x.2 = true := by
    intro x hx
    rcases List.mem_append.1 hx with h' | h'
    · exact h x h'
    · simp at h'; subst h'; exact hd
  have hall' : ∀ x, x ∈ docs ++ [d, d] → rawPlain x.2 = true := by
    intro x hx
    rcases List.mem_append.1 hx with h' | h'
    · exact h x h'
    · simp at h'; subst h'; exact hd
  obtain ⟨ns, e1, f1⟩ := C02_plain_fold (docs ++ [d]) (by simp) hall
  obtain ⟨ns', e2, f2⟩ := C02_plain_fold (docs ++ [d, d]) (by simp) hall'
  refine ⟨ns, ns', e1, e2, ?_⟩
  rw [f1, f2]
  simp only [List.map_append, List.map_cons, List.map_nil]
  exact foldUpd_repeat_last _ _ hk

example : rawPlain c02Doc1 = true ∧ rawPlain c02Doc3 = true ∧ (plainOfRaw c02Doc3).keysOK = true := by decide

/- For tagged documents repeating the last document is NOT idempotent (known finding D18, a list
   meeting priority tags): `a: [1, !force 2]` ← `a: [!force 8, 9]` gives `a: [8]`, with the last
   document repeated `a: [8, 9]` (the pre-filter of `ConfigList.on_merge_impl` drops the outranked
   `9` before the index-wise merge; the second time nothing outranks it). -/
theorem C15_repeat_last_counterexample :
    (match c15Build [.map .none {} [(.str "a", .seq .none {} [c15Int 1, c15Force 2])],
                     .map .none {} [(.str "a", .seq .none {} [c15Force 8, c15Int 9])]] with
      | .ok (.dict [(.str "a", .list [.scalar (.int 8)])]) => true
      | _ => false) = true
    ∧ (match c15Build [.map .none {} [(.str "a", .seq .none {} [c15Int 1, c15Force 2])],
                       .map .none {} [(.str "a", .seq .none {} [c15Force 8, c15Int 9])],
                       .map .none {} [(.str "a", .seq .none {} [c15Force 8, c15Int 9])]] with
      | .ok (.dict [(.str "a", .list [.scalar (.int 8), .scalar (.int 9)])]) => true
      | _ => false) = true := by
  constructor <;> decide +kernel


/-! ### Permuting the keys of mappings -/

/-- `{b: {y: 2, x: [1, {p: 1, q: 2}]}, a: 1}` and the same with every mapping permuted -/
def c15P1 : Plain := .dict [(.str "b", .dict [(.str "y", .scalar (.int 2)),
    (.str "x", .list [.scalar (.int 1), .dict [(.str "p", .scalar (.int 1)), (.str "q", .scalar (.int 2))]])]),
  (.str "a", .scalar (.int 1))]
def c15P1' : Plain := .dict [(.str "a", .scalar (.int 1)), (.str "b", .dict [
    (.str "x", .list [.scalar (.int 1), .dict [(.str "q", .scalar (.int 2)), (.str "p", .scalar (.int 1))]]),
    (.str "y", .scalar (.int 2))])]

/- "permuting the order of keys inside any mapping changes at most the order of keys in the
   result" — specification, PARTIAL: `Plain.PermEq` (equal up to the order of keys inside every
   mapping; list elements in order; no repeated keys) is a congruence for `upd` when the newer
   value has no integer keys at any level (`noIntKeysH`): if `a ~ a'`, `b ~ b'` and `upd a b`
   succeeds with `r`, then `upd a' b'` succeeds with some `r' ~ r`; `~` is symmetric, so with the
   hypothesis on both newer values the two updates also fail together.  The same holds for `updF`
   with any common fuel. -/
theorem C15_key_permutation_spec_partial (a a' b b' : Plain) (ha : a.PermEq a') (hb : b.PermEq b')
    (hq : b.noIntKeysH = true) :
    (∀ r, upd a b = .ok r → ∃ r', upd a' b' = .ok r' ∧ r.PermEq r') ∧
    (∀ m r, updF m a b = .ok r → ∃ r', updF m a' b' = .ok r' ∧ r.PermEq r') ∧
    (b'.noIntKeysH = true → ((upd a b).toBool = (upd a' b').toBool)) := by
  refine ⟨fun r h => upd_perm ha hb hq h, ?_, ?_⟩
  · intro m r h
    obtain ⟨n1, ha1⟩ := ha
    obtain ⟨n2, hb2⟩ := hb
    obtain ⟨r', h1, h2⟩ := updF_perm m (max n1 n2) a a' b b' r
      (permEqF_mono (Nat.le_max_left _ _) ha1) (permEqF_mono (Nat.le_max_right _ _) hb2) hq h
    exact ⟨r', h1, _, h2⟩
  · intro hq'
    cases h : upd a b with
    | ok r =>
      obtain ⟨r', h', _⟩ := upd_perm ha hb hq h
      simp [h', Except.toBool]
    | error e =>
      cases h' : upd a' b' with
      | error e' => simp [Except.toBool]
      | ok r' =>
        obtain ⟨r, hr, _⟩ := upd_perm (PermEq_symm ha) (PermEq_symm hb) hq' h'
        rw [h] at hr; cases hr

example : c15P1.PermEq c15P1' ∧ c15P1.noIntKeysH = true ∧ c15P1'.noIntKeysH = true :=
  ⟨PermEq_of_B 6 (by decide), by decide, by decide⟩

/- The unrestricted statement is FALSE on the specification, hence (C02) on the model and on the
   real code: with integer keys aliasing one list position (`0` and `-2` on a list of length 2)
   the later key wins, so the order of the keys decides the value: `a: [x, y]` ← `a: {0: 1, -2: 2}`
   gives `a: [2, y]`, the permuted `a: {-2: 2, 0: 1}` gives `a: [1, y]`. -/
theorem C15_key_permutation_spec_counterexample :
    ∃ a b b' : Plain, b.PermEq b' ∧
      upd a b = .ok (.dict [(.str "a", .list [.scalar (.int 2), .scalar (.str "y")])]) ∧
      upd a b' = .ok (.dict [(.str "a", .list [.scalar (.int 1), .scalar (.str "y")])]) :=
  ⟨.dict [(.str "a", .list [.scalar (.str "x"), .scalar (.str "y")])],
   .dict [(.str "a", .dict [(.int 0, .scalar (.int 1)), (.int (-2), .scalar (.int 2))])],
   .dict [(.str "a", .dict [(.int (-2), .scalar (.int 2)), (.int 0, .scalar (.int 1))])],
   PermEq_of_B 3 (by decide), rfl, rfl⟩

/-! ### `!unsafe` / `!new` markers -/

/- "Marking any node of any document !unsafe or !new does not change the merged data" — PARTIAL:
   the building blocks.  `eraseSN` forgets `safe`, `allow_new` and everything inherited from them
   on every node.  It never changes the data; priorities, `delete`, truthiness and the class of a
   node do not depend on the erased flags; it commutes with both flag combinations of the merge
   (`_replace_self`, `_replace_other`), with the leaf rule (same winner, same flags of the surviving
   node, same data; the surviving node itself when it is a leaf — below a surviving container
   `_replace_other` re-propagates the inherited flags, see the obstacle below and the
   counterexample after the theorem), with the lookup of the deepest existing node, and therefore leaves both pruning conditions (`maybe_keep`,
   `keep_if_exists`) and the inherited `delete` handed to children unchanged; on erased trees
   `_require_all_new` never fires (the only place `allow_new` is consulted) and `safe` is only
   combined in `mergeSafe`.  NOT proved: the commutation `mergeF (eraseSN a) (eraseSN b) ~
   eraseSN (mergeF a b)` for whole trees.  Obstacle: `_propagate_implicit_values` decides whether
   to descend (`flagsChanged`) by comparing `implicit_allow_new` / `implicit_safe` too, and when it
   descends it also rewrites `implicit_delete` (data relevant) below; commutation therefore needs
   the invariant "every child already carries what its parent hands down", preserved by all
   operations of the merge, which is not established here (the correspondence harness tests the
   end-to-end statement on the real code). -/
theorem C15_flag_neutral_ops_partial (a b : Node) (s o : Flags) (p : Path) :
    native (eraseSN a) = native a ∧
    (ePrio (eraseF s) = ePrio s ∧ ∀ e, hasPrio (eraseF s) (eraseF o) e = hasPrio s o e) ∧
    (eDel (eraseSN a) = eDel a ∧ (eraseSN a).truthy = a.truthy ∧ (eraseSN a).isComp = a.isComp) ∧
    eraseF (replaceSelfFlags s o) = replaceSelfFlags (eraseF s) (eraseF o) ∧
    eraseF (replaceOtherFlags s o) = replaceOtherFlags (eraseF s) (eraseF o) ∧
    ((leafRule (eraseSN a) (eraseSN b)).2 = (leafRule a b).2 ∧
      (leafRule (eraseSN a) (eraseSN b)).1.flags = eraseF (leafRule a b).1.flags ∧
      native (leafRule (eraseSN a) (eraseSN b)).1 = native (leafRule a b).1 ∧
      ((leafRule a b).1.isComp = false →
        leafRule (eraseSN a) (eraseSN b) = (eraseSN (leafRule a b).1, (leafRule a b).2))) ∧
    firstNotMissing (eraseSN a) p = eraseSN (firstNotMissing a p) ∧
    maybeKeep (eraseSN a) p (eraseSN b) = maybeKeep a p b ∧
    keepIfExists (eraseSN a) p (eraseSN b) = keepIfExists a p b ∧
    (∀ k, (childKw (eraseF s) k).map (·.iDel) = (childKw s k).map (·.iDel)) ∧
    (∀ exc q, reqNew exc q (eraseSN a) = none) := by
  refine ⟨native_eraseSN a, ⟨rfl, fun _ => rfl⟩, ⟨eDel_eraseSN a, truthy_eraseSN a, isComp_eraseSN a⟩,
    eraseF_replaceSelfFlags s o, eraseF_replaceOtherFlags s o,
    ⟨(leafRule_eraseSN_root a b).1, (leafRule_eraseSN_root a b).2.1, (leafRule_eraseSN_root a b).2.2,
      leafRule_eraseSN a b⟩,
    firstNotMissing_eraseSN p a, maybeKeep_eraseSN a p b, keepIfExists_eraseSN a p b, ?_,
    fun exc q => reqNew_allNew exc q _ (allNew_eraseSN a)⟩
  intro k
  rw [childKw_eraseF]
  cases childKw s k <;> rfl

/-- `!force !notnew {x: {y: 1}}` as a node tree whose inherited flags were never handed down
    (`y` still carries an `implicit_delete` of its own) -/
def c15G : Node :=
  .comp { prio := some 1, new := some false } .dict
    [(.str "x", .comp {} .dict [(.str "y", .leaf { iDel := some true } (.scalar (.int 1)))])]
/- the unrestricted commutation `leafRule (eraseSN a) (eraseSN b) = (eraseSN (leafRule a b).1, _)`
   (true before `_replace_other` re-propagated the inherited flags) FAILS for a surviving container:
   with `!notnew` present the re-propagation descends into `x` (its `implicit_allow_new` changes) and
   resets the `implicit_delete` of `y`; with the flag erased nothing changes at `x`, the descent
   stops and `y` keeps its `implicit_delete` — the obstacle described above, now inside the leaf rule -/
example : (leafRule c15G (.leaf {} (.scalar (.int 2)))).2 = true ∧
    (getNode (leafRule (eraseSN c15G) (eraseSN (.leaf {} (.scalar (.int 2))))).1
      [.str "x", .str "y"]).map (·.flags.iDel) = some (some true) ∧
    (getNode (eraseSN (leafRule c15G (.leaf {} (.scalar (.int 2)))).1)
      [.str "x", .str "y"]).map (·.flags.iDel) = some none := by decide

/-- `!unsafe {x: !new 1}` as a node tree -/
def c15F : Node :=
  .comp { safe := some false, dSafe := false } .dict
    [(.str "x", .leaf { new := some true, iSafe := some false, prio := some 1 } (.scalar (.int 1)))]
example : (eraseSN c15F).flags.safe = none ∧ eSafe c15F.flags = false ∧ eSafe (eraseSN c15F).flags = true := by
  decide
-- the leaf case of the leaf-rule clause is inhabited: the newer scalar survives
example : (leafRule c15F (.leaf {} (.scalar (.int 2)))).1.isComp = false := by decide

end AY
