/-
  C12 — "user-code exceptions surface as EvalError carrying the original cause, never as a crash" (and what the same
  machinery does for C07 "the build fails with UnsafeError", C08 "MergeError naming a missing path", C14, C20 "an error raised
  in one thread is reported in that thread with its own context"): the glue of errors.py — `rethrow_point`, the
  `rethrow_as_*_error` decorators, `api_entry`, the three switches, the thread-local re-entrancy guard — as AY.Model.ErrWrap.
  Theorems, for every nesting depth (induction over the nesting), every raised exception, every value of the guard:

    0. `C12_point_result_is_instance_of_its_class`   what leaves a rethrow point of class T is a T;
    1. `C12_boundary_class`                 which class reaches the API boundary, for every nesting of the pipeline's rethrow
                                            points: the OUTERMOST point's class, unless the exception is an instance of the
                                            class of every point (then it passes unchanged); `C12_boundary_class_shorten_off`;
                                            `C12_innermost_point_names_the_node` (the payload is the innermost point's);
    2. `C12_user_exception_becomes_eval_error_with_cause`;   `C12_pipeline_user_exception` (through `Config.build`'s nesting);
    3. `C12_unsafe_error_is_preserved`, `C12_unsafe_error_without_shortening_is_a_cause`;
    4. `C12_api_entry_reentrant`, `C12_api_guard_is_thread_local`, `C12_directly_raised_error_has_no_foreign_cause`,
       `C12_api_entry_repeatable` (since repo fix D43 `api_entry` reads `__cause__`; before: finding D40);
    5. the switches: `C12_flag_rethrow_off_passes_foreign_exceptions`, `C12_flag_include_off_drops_the_cause`,
       `C12_flag_shorten_off_one_layer_per_point`.

  Tie: harness/props/c12.py families `errwrap` (real `rethrow_point` / decorators / `api_entry` nestings with real exceptions
  under all switch combinations; driver op `errwrap`) and `errbuild` (`Config.build` end to end).  Lemmas: AY/Lemmas/ErrWrap.lean.
-/
import AY.Lemmas.ErrWrap
namespace AY
open ErrWrap

/-! ### Concrete inputs used by the non-vacuity examples -/

def c12Zero : Exc := .mk (.foreign "ZeroDivisionError") "division by zero" {} none none false
def c12Unsafe : Exc := .mk (.ay .unsafeErr) "" { msg := some "Note: unsafe", node := some 3, path := some "a.b" } none none false
def c12Sites : List Site := [{ node := some 1, path := some "" }, { node := some 2, path := some "a" }, { node := some 3, path := some "a.b" }]
/-- `evaluate_node` three levels deep around code that raises -/
def c12Eval3 (e : Exc) : Prog := evalNest c12Sites (.raise e)
def c12AllOn : Flags := {}

/-- class, `__cause__` classes and path of what a call raised -/
def c12Seen (r : Except Exc Unit × Bool) : Option (Cls × List Cls × Option String) × Bool :=
  (match r.1 with
   | .ok _ => none
   | .error x => some (x.cls, x.causes.map Exc.cls, x.pl.path), r.2)

/-! ### 1. Which class reaches the boundary -/

/- "the innermost awesomeyaml error class that the raised exception is an instance of wins / otherwise the class of the
   innermost rethrow point": NOT so.  What is true (default switches `rethrow`, `shorten_traceback`): for every nesting of
   rethrow points of the five stage classes (listed outermost first) around code that raises an `Exception` `e` of ANY class,
   the class that leaves the nesting is `e`'s own class if `e` is an instance of the class of EVERY point (it passes all of
   them unchanged: an UnsafeError through EvalError points), and otherwise the class of the OUTERMOST point (a MergeError
   inside an include's PreprocessError point is a PreprocessError; the inner classes are on the `__cause__` chain). -/
theorem C12_boundary_class (fl : Flags) (hr : fl.rethrow = true) (hs : fl.shorten = true) (pts : List (AyCls × Site))
    (hst : ∀ p ∈ pts, p.1.isStage = true) (e : Exc) (he : e.cls.isException = true) (g : Bool) :
    ∃ x, run fl (nest pts (.raise e)) g = (.error x, g) ∧
      x.cls = if pts.all (fun p => e.cls.sub p.1) then e.cls else (pts.head?.map (fun p => Cls.ay p.1)).getD e.cls := by
  refine ⟨wrapAll fl pts e, run_nest_raise fl pts e g, ?_⟩
  induction pts with
  | nil => rfl
  | cons p r ih =>
    have ih := ih (fun q hq => hst q (by simp [hq]))
    have hp : p.1.isStage = true := hst p (by simp)
    have hx := wrapAll_isException fl r e he
    simp only [wrapAll, List.all_cons, List.head?_cons, Option.map_some, Option.getD_some]
    rcases Bool.eq_false_or_eq_true (r.all (fun p => e.cls.sub p.1)) with hall | hall
    · simp only [hall, if_true, Bool.and_true] at ih ⊢
      cases hsub : e.cls.sub p.1 with
      | true =>
        rw [wrap_sub fl p.1 p.2 _ (by rw [ih]; exact hsub), hs]
        simpa using ih
      | false =>
        rw [wrap_other fl p.1 p.2 _ (by rw [ih]; exact hsub) hx, hr]
        simp
    · simp only [hall, Bool.false_eq_true, if_false, Bool.and_false] at ih ⊢
      cases r with
      | nil => simp at hall
      | cons q r' =>
        simp only [List.head?_cons, Option.map_some, Option.getD_some] at ih
        have hq : q.1.isStage = true := hst q (by simp)
        cases hsub : (Cls.ay q.1).sub p.1 with
        | true =>
          rw [wrap_sub fl p.1 p.2 _ (by rw [ih]; exact hsub), hs]
          simp only [if_true]
          rw [ih, stage_sub_stage q.1 p.1 hq hp hsub]
        | false =>
          rw [wrap_other fl p.1 p.2 _ (by rw [ih]; exact hsub) hx, hr]
          simp

/-- an include inside a build: PreprocessError around two MergeError points; the ValueError leaves as PreprocessError -/
example : c12Seen (run c12AllOn (nest [(.preprocess, {}), (.merge, {}), (.merge, { path := some "x" })]
      (.raise (.mk (.foreign "ValueError") "v" {} none none false))) false) =
    (some (.ay .preprocess, [.ay .preprocess, .ay .merge, .foreign "ValueError"], none), false) := by decide +kernel

/- "errors happening inside awesomeyaml should be rethrown as higher-level errors": whatever `Exception` leaves a rethrow point
   of class `T` IS a `T` (with `rethrow` on; any other switches): the stage in which something went wrong can be read off the
   class, an awesomeyaml error of ANOTHER stage does not pass unwrapped. -/
theorem C12_point_result_is_instance_of_its_class (fl : Flags) (hr : fl.rethrow = true) (T : AyCls) (s : Site) (body : Prog)
    (g : Bool) (x : Exc) (h : (run fl (.point T s body) g).1 = .error x) (hx : x.cls.isException = true) :
    x.cls.sub T = true := by
  simp only [run, rethrowPoint] at h
  cases hb : run fl body g with
  | mk r g' =>
    rw [hb] at h
    cases r with
    | ok v => cases h
    | error e =>
      simp only at h
      injection h with h
      subst h
      cases hsub : e.cls.sub T with
      | true =>
        rw [wrap_sub fl T s e hsub]
        by_cases hs : fl.shorten = true
        · rw [if_pos hs]; exact hsub
        · rw [if_neg hs]; simp [Cls.sub, AyCls.sub_refl]
      | false =>
        cases he : e.cls.isException with
        | true => rw [wrap_other fl T s e hsub he, hr]; simp [Cls.sub, AyCls.sub_refl]
        | false => rw [wrap_base fl T s e hsub he] at hx; rw [he] at hx; cases hx

example : c12Seen (run c12AllOn (.point .preprocess {} (.point .merge {} (.raise c12Zero))) false) =
    (some (.ay .preprocess, [.ay .preprocess, .ay .merge, .foreign "ZeroDivisionError"], none), false) := by decide +kernel

/- With `shorten_traceback` off every point wraps again: the class is the outermost point's, for points of any class. -/
theorem C12_boundary_class_shorten_off (fl : Flags) (hr : fl.rethrow = true) (hs : fl.shorten = false) (p : AyCls × Site)
    (pts : List (AyCls × Site)) (e : Exc) (he : e.cls.isException = true) (g : Bool) :
    ∃ x, run fl (nest (p :: pts) (.raise e)) g = (.error x, g) ∧ x.cls = .ay p.1 := by
  refine ⟨wrapAll fl (p :: pts) e, run_nest_raise fl _ e g, ?_⟩
  have hx := wrapAll_isException fl pts e he
  simp only [wrapAll]
  cases hsub : (wrapAll fl pts e).cls.sub p.1 with
  | true => rw [wrap_sub _ _ _ _ hsub, hs]; rfl
  | false => rw [wrap_other _ _ _ _ hsub hx, hr]; rfl

example : c12Seen (run { shorten := false } (nest [(.eval, {}), (.eval, {})] (.raise c12Unsafe)) false) =
    (some (.ay .eval, [.ay .eval, .ay .eval, .ay .unsafeErr], none), false) := by decide +kernel

/- "EvalError naming the node": below points that all have the same class `T` (the `evaluate_node` recursion, the merge
   recursion) the exception is wrapped ONCE, at the innermost point — node, path and `str(e)` of the innermost node — and
   passes every outer point of that class unchanged. -/
theorem C12_innermost_point_names_the_node (fl : Flags) (hs : fl.shorten = true) (T : AyCls) (outer : List Site) (s : Site)
    (e : Exc) (g : Bool) :
    run fl (nest ((outer ++ [s]).map (fun x => (T, x))) (.raise e)) g = (.error (wrap fl T s e), g) := by
  rw [run_nest_raise]
  congr 2
  induction outer with
  | nil => rfl
  | cons o r ih =>
    simp only [List.cons_append, List.map_cons, wrapAll]
    rw [ih]
    exact wrap_idem fl hs T s o e

example : c12Seen (run c12AllOn (nest (c12Sites.map (fun x => (AyCls.eval, x))) (.raise c12Zero)) false) =
    (some (.ay .eval, [.ay .eval, .foreign "ZeroDivisionError"], some "a.b"), false) := by decide +kernel

/-! ### 2. User exceptions -/

/- "user-code exceptions surface as EvalError carrying the original cause": an arbitrary non-awesomeyaml `Exception` raised
   inside `n + 1` EvalError rethrow points and any number of api entries in any arrangement — no bound on the depth — with
   `rethrow` and `include_original_exception` on (whatever `shorten_traceback` and the guard are): what reaches the caller is
   an EvalError whose `__cause__` chain is one or more EvalErrors followed by the chain of the ORIGINAL exception (it ends in
   it); with `shorten_traceback` on the original is the direct `__cause__`. -/
theorem C12_user_exception_becomes_eval_error_with_cause (fl : Flags) (hr : fl.rethrow = true) (hi : fl.includeOriginal = true)
    (name : String) (e : Exc) (he : e.cls = .foreign name) (p : Prog) (n : Nat) (hp : Around (.raise e) .eval p (n + 1)) (g : Bool) :
    ∃ x, run fl p g = (.error x, g) ∧ x.cls = .ay .eval ∧
      (∃ pre, pre ≠ [] ∧ x.causes = pre ++ e.causes ∧ ∀ y ∈ pre, y.cls = .ay .eval) ∧
      (fl.shorten = true → x.cause = some e) := by
  -- the conclusion, as an invariant of everything outside the first point
  let Jr : Exc → Prop := fun x => x.cls = .ay .eval ∧
    (∃ pre, pre ≠ [] ∧ x.causes = pre ++ e.causes ∧ ∀ y ∈ pre, y.cls = .ay .eval) ∧ (fl.shorten = true → x.cause = some e)
  let I : Nat → Exc → Prop := fun k x => (k = 0 ∧ x = e) ∨ (k ≠ 0 ∧ Jr x)
  have hsub : e.cls.sub .eval = false := by rw [he]; rfl
  have hexc : e.cls.isException = true := by rw [he]; rfl
  have hnay : e.cls.isAy = false := by rw [he]; rfl
  have hfirst : ∀ s, Jr (wrap fl .eval s e) := by
    intro s
    rw [wrap_other fl .eval s e hsub hexc, hr, hi]
    simp only [if_true]
    refine ⟨rfl, ⟨[_], by simp, causes_mkErr_some _ _ _ _ _, ?_⟩, fun _ => rfl⟩
    intro y hy
    rw [List.mem_singleton.mp hy]; rfl
  obtain ⟨x, hx, hI⟩ := around_invariant fl .eval e I (Or.inl ⟨rfl, rfl⟩)
    (by
      intro k s x hI
      refine Or.inr ⟨by omega, ?_⟩
      rcases hI with ⟨_, hxe⟩ | ⟨_, hc, ⟨pre, hpre, hch, hall⟩, hsh⟩
      · rw [hxe]; exact hfirst s
      · have hs' : x.cls.sub .eval = true := by rw [hc]; rfl
        rw [wrap_sub fl .eval s x hs']
        by_cases hsh' : fl.shorten = true
        · rw [if_pos hsh']; exact ⟨hc, ⟨pre, hpre, hch, hall⟩, hsh⟩
        · rw [if_neg hsh']
          refine ⟨rfl, ⟨mkErr .eval none s (some x) x :: pre, by simp, ?_, ?_⟩, fun h => absurd h hsh'⟩
          · rw [causes_mkErr_some, hch]; rfl
          · intro y hy
            rcases List.mem_cons.mp hy with h | h
            · rw [h]; rfl
            · exact hall y h)
    (by
      -- re-creation at the active api entry: same class, same `__cause__`
      intro k x hI _ hs
      rcases hI with ⟨hk, hxe⟩ | ⟨hk, hc, ⟨pre, hpre, hch, hall⟩, hsh⟩
      · rw [hxe, hnay]; exact Or.inl ⟨hk, rfl⟩
      · refine Or.inr ⟨hk, ?_⟩
        have hay : x.cls.isAy = true := by rw [hc]; rfl
        rw [hay]
        simp only [if_true]
        cases pre with
        | nil => exact absurd rfl hpre
        | cons y pre' =>
          rw [causes_cons_tail x] at hch
          simp only [List.cons_append] at hch
          injection hch with _ htl
          refine ⟨by rw [recreate_cls]; exact hc, ⟨recreate fl x :: pre', by simp, ?_, ?_⟩, ?_⟩
          · rw [causes_recreate fl hi x, htl]; rfl
          · intro z hz
            rcases List.mem_cons.mp hz with h | h
            · rw [h, recreate_cls]; exact hc
            · exact hall z (by simp [h])
          · intro _
            rw [recreate_cause, hi]
            simp only [if_true]
            exact hsh hs)
    p (n + 1) hp g
  refine ⟨x, hx, ?_⟩
  rcases hI with ⟨h, _⟩ | ⟨_, hJ⟩
  · omega
  · exact hJ

/-- three levels of `evaluate_node`, the caller's api entry active: EvalError at the innermost path, cause ZeroDivisionError -/
example : c12Seen (run c12AllOn (c12Eval3 c12Zero) false) =
    (some (.ay .eval, [.ay .eval, .foreign "ZeroDivisionError"], some "a.b"), false) := by decide +kernel
example : Around (.raise c12Zero) .eval (c12Eval3 c12Zero) (2 + 1) := around_evalNest _ c12Sites
/-- without shortening every level adds an EvalError; the chain still ends in the original -/
example : c12Seen (run { shorten := false } (c12Eval3 c12Zero) false) =
    (some (.ay .eval, [.ay .eval, .ay .eval, .ay .eval, .foreign "ZeroDivisionError"], some ""), false) := by decide +kernel

/- The same through the nesting of `Config.build` (api entry around `Builder.build` — itself an api entry around preprocess and
   the api entry `flatten` — and the api entry `evaluate` around the `evaluate_node` recursion), default switches: a foreign
   exception raised while evaluating the node at the end of a path of any length reaches the caller of `Config.build` as an
   EvalError whose `__cause__` IS the original exception and whose node, path and message are those of the INNERMOST node. -/
theorem C12_pipeline_user_exception (name : String) (e : Exc) (he : e.cls = .foreign name) (outer : List Site) (s : Site) :
    ∃ x, run {} (buildPipeline .ret .ret (evalNest (outer ++ [s]) (.raise e))) false = (.error x, false) ∧
      x.cls = .ay .eval ∧ x.cause = some e ∧
      x.pl = { msg := some e.str, node := s.node, path := s.path, extra := s.other, note := none } := by
  have hsub : e.cls.sub .eval = false := by rw [he]; rfl
  have hexc : e.cls.isException = true := by rw [he]; rfl
  have hw : wrap {} .eval s e = mkErr .eval (some e.str) s (some e) e := by
    rw [wrap_other {} .eval s e hsub hexc]; rfl
  have hin := run_evalNest_true {} rfl outer s e
  rw [hw] at hin
  refine ⟨recreate {} (mkErr .eval (some e.str) s (some e) e), ?_, rfl, rfl, rfl⟩
  unfold buildPipeline
  have hbody : run {} (.seq (.api (.seq .ret (.api .ret))) (.api (evalNest (outer ++ [s]) (.raise e)))) true =
      (.error (mkErr .eval (some e.str) s (some e) e), true) := by
    simp only [run, apiEntry, Bool.true_or, if_true]
    exact hin
  have := run_api_active_error {} _ rfl rfl _ true hbody
  simpa [Cls.isAy] using this

example : c12Seen (run {} (buildPipeline .ret .ret (c12Eval3 c12Zero)) false) =
    (some (.ay .eval, [.ay .eval, .foreign "ZeroDivisionError"], some "a.b"), false) := by decide +kernel

/-! ### 3. UnsafeError -/

/- "the build fails with UnsafeError": with `shorten_traceback` on (the default; whatever the other switches and the guard),
   an UnsafeError raised at ANY depth inside EvalError rethrow points and api entries reaches the caller as an UnsafeError —
   never downgraded to a plain EvalError — with its payload (message, node, path); where no api entry is active it is the
   very same exception object. -/
theorem C12_unsafe_error_is_preserved (fl : Flags) (hs : fl.shorten = true) (e : Exc) (he : e.cls = .ay .unsafeErr)
    (p : Prog) (n : Nat) (hp : Around (.raise e) .eval p n) (g : Bool) :
    ∃ x, run fl p g = (.error x, g) ∧ x.cls = .ay .unsafeErr ∧ x.pl = e.pl ∧ (g = true → x = e) := by
  have hsub : e.cls.sub .eval = true := by rw [he]; rfl
  obtain ⟨x, hx, hI⟩ := around_invariant_guarded fl .eval e (fun _ x => x = e) (fun _ x => x.cls = .ay .unsafeErr ∧ x.pl = e.pl) rfl
    (by
      intro k s x hI
      rw [hI, wrap_sub fl .eval s e hsub, hs]; rfl)
    (by
      intro k x hI _ _
      rw [hI]
      have : e.cls.isAy = true := by rw [he]; rfl
      rw [this]
      exact ⟨by rw [if_pos rfl, recreate_cls]; exact he, by rw [if_pos rfl, recreate_pl]⟩)
    (by
      intro k s x hR _ _
      have : x.cls.sub .eval = true := by rw [hR.1]; rfl
      rw [wrap_sub fl .eval s x this, hs]
      exact hR)
    p n hp g
  refine ⟨x, hx, ?_⟩
  rcases hI with h | ⟨hg, _, _, h1, h2⟩
  · rw [h]; exact ⟨he, rfl, fun _ => rfl⟩
  · exact ⟨h1, h2, fun h => by rw [hg] at h; cases h⟩

example : c12Seen (run c12AllOn (c12Eval3 c12Unsafe) false) = (some (.ay .unsafeErr, [.ay .unsafeErr], some "a.b"), false) ∧
    c12Seen (run { rethrow := false, includeOriginal := false } (c12Eval3 c12Unsafe) false) =
      (some (.ay .unsafeErr, [.ay .unsafeErr], some "a.b"), false) := by decide +kernel
example : Around (.raise c12Unsafe) .eval (c12Eval3 c12Unsafe) 3 := around_evalNest _ c12Sites

/- With `shorten_traceback` OFF the statement is false: every EvalError point wraps again, the caller sees a plain EvalError
   and finds the UnsafeError on its `__cause__` chain (`classify_error` of the harness looks there). -/
theorem C12_unsafe_error_without_shortening_is_a_cause (fl : Flags) (hs : fl.shorten = false) (e : Exc)
    (he : e.cls = .ay .unsafeErr) (p : Prog) (n : Nat) (hp : Around (.raise e) .eval p (n + 1)) (g : Bool) :
    ∃ x, run fl p g = (.error x, g) ∧ x.cls = .ay .eval ∧ e ∈ x.causes := by
  obtain ⟨x, hx, hI⟩ := around_invariant fl .eval e (fun k x => (k = 0 ∧ x = e) ∨ (k ≠ 0 ∧ x.cls = .ay .eval ∧ e ∈ x.causes))
    (Or.inl ⟨rfl, rfl⟩)
    (by
      intro k s x hI
      refine Or.inr ⟨by omega, ?_⟩
      have hsub : x.cls.sub .eval = true := by
        rcases hI with ⟨_, h⟩ | ⟨_, h, _⟩
        · rw [h, he]; rfl
        · rw [h]; rfl
      rw [wrap_sub fl .eval s x hsub, hs]
      simp only [Bool.false_eq_true, if_false]
      refine ⟨rfl, ?_⟩
      rw [causes_mkErr_some]
      rcases hI with ⟨_, h⟩ | ⟨_, _, h⟩
      · rw [h]; exact List.mem_cons_of_mem _ (mem_causes_self e)
      · exact List.mem_cons_of_mem _ h)
    (by
      intro k x _ _ hs'
      rw [hs] at hs'; cases hs')
    p (n + 1) hp g
  refine ⟨x, hx, ?_⟩
  rcases hI with ⟨h, _⟩ | ⟨_, h⟩
  · omega
  · exact h

example : c12Seen (run { shorten := false } (c12Eval3 c12Unsafe) false) =
    (some (.ay .eval, [.ay .eval, .ay .eval, .ay .eval, .ay .unsafeErr], some ""), false) := by decide +kernel

/-! ### 4. The re-entrancy guard -/

/- "nested api entries: only the outermost re-raises; the guard is restored on every exit path, so a second call after a
   failing one behaves like the first": for every program (returning or raising, any nesting, any switches) the thread's
   `_api_entered.value` is after the call what it was before; an api entry met while the guard is on is transparent; an api
   entry directly around an api entry adds nothing; a call made after a failed call (`attempt`) and consecutive calls
   (`runCalls`) each behave as from the initial guard. -/
theorem C12_api_entry_reentrant (fl : Flags) (p q : Prog) (ps : List Prog) (g : Bool) :
    (run fl p g).2 = g ∧ run fl (.api p) true = run fl p true ∧ run fl (.api (.api p)) g = run fl (.api p) g ∧
    run fl (.attempt p q) g = run fl q g ∧ runCalls fl ps g = ps.map (fun c => run fl c g) := by
  refine ⟨run_guard fl p g, run_api_inactive fl p true (by simp), ?_, ?_, ?_⟩
  · by_cases hc : (g || !fl.rethrow || !fl.shorten) = true
    · exact run_api_inactive fl _ g hc
    · have hg : g = false := by cases g <;> simp_all
      have hr : fl.rethrow = true := by cases h : fl.rethrow <;> simp_all
      have hs : fl.shorten = true := by cases h : fl.shorten <;> simp_all
      have hin : run fl (.api p) true = run fl p true := run_api_inactive fl p true (by simp)
      rw [hg]
      cases h : run fl p true with
      | mk r g' =>
        cases r with
        | ok v =>
          rw [run_api_active_ok fl p hr hs g' h, run_api_active_ok fl (.api p) hr hs g' (by rw [hin, h])]
        | error x =>
          rw [run_api_active_error fl p hr hs x g' h, run_api_active_error fl (.api p) hr hs x g' (by rw [hin, h])]
  · simp only [run]; rw [run_guard]
  · induction ps with
    | nil => rfl
    | cons c cs ih => simp only [runCalls, List.map_cons, run_guard]; rw [ih]

/-- a failing build, then the same build again: both re-created at the boundary, the guard off in between -/
example : (runCalls c12AllOn [c12Eval3 c12Zero, c12Eval3 c12Zero] false).map c12Seen =
    [(some (.ay .eval, [.ay .eval, .foreign "ZeroDivisionError"], some "a.b"), false),
     (some (.ay .eval, [.ay .eval, .foreign "ZeroDivisionError"], some "a.b"), false)] := by decide +kernel

/- "an awesomeyaml error raised directly — not via a rethrow point — inside an api entry reaches the caller with cause = its own
   explicit cause (none if none), whatever exception the CALLER is handling: the caller's context never becomes the cause"
   (repo fix D43; before it `api_entry` read `e.__context__`, finding D40).  For every awesomeyaml class `c`, every explicit
   cause, EVERY `__context__` (what Python sets implicitly when the caller is inside an `except` block), every nesting of api
   entries and rethrow points of a class `T` the error is an instance of (UnsafeError inside the EvalError points of
   `evaluate_node`), any guard, `shorten_traceback` and `include_original_exception` on: class, payload and `__cause__` of what
   the caller gets do not mention the context. -/
theorem C12_directly_raised_error_has_no_foreign_cause (fl : Flags) (hs : fl.shorten = true) (hi : fl.includeOriginal = true)
    (c T : AyCls) (hcT : c.sub T = true) (t : String) (pl : Payload) (cause callerCtx : Option Exc) (sup : Bool)
    (p : Prog) (n : Nat) (hp : Around (.raise (.mk (.ay c) t pl cause callerCtx sup)) T p n) (g : Bool) :
    ∃ x, run fl (.api p) g = (.error x, g) ∧ x.cls = .ay c ∧ x.pl = pl ∧ x.cause = cause ∧
      x.causes.map Exc.cls = .ay c :: (match cause with | none => [] | some d => d.causes.map Exc.cls) := by
  obtain ⟨x, hx, hI⟩ := around_invariant_guarded fl T (.mk (.ay c) t pl cause callerCtx sup)
    (fun _ x => x = .mk (.ay c) t pl cause callerCtx sup) (fun _ x => x.cls = .ay c ∧ x.pl = pl ∧ x.cause = cause) rfl
    (by
      intro k s x hI
      rw [hI, wrap_sub fl T s _ (by exact hcT), hs]; rfl)
    (by
      intro k x hI _ _
      rw [hI]
      refine ⟨rfl, rfl, ?_⟩
      show (recreate fl _).cause = cause
      rw [recreate_cause, hi]; rfl)
    (by
      intro k s x hR _ _
      have : x.cls.sub T = true := by rw [hR.1]; exact hcT
      rw [wrap_sub fl T s x this, hs]
      exact hR)
    (.api p) n (.api hp) g
  have hfin : x.cls = .ay c ∧ x.pl = pl ∧ x.cause = cause := by
    rcases hI with h | ⟨_, _, _, h⟩
    · rw [h]; exact ⟨rfl, rfl, rfl⟩
    · exact h
  refine ⟨x, hx, hfin.1, hfin.2.1, hfin.2.2, ?_⟩
  rw [causes_eq x, hfin.2.2, List.map_cons, hfin.1]
  cases cause <;> rfl

/-- the UnsafeError of an `!unsafe` node three levels down, raised while the caller handles a KeyError: no cause -/
def c12Caller : Exc := .mk (.foreign "KeyError") "what the caller was handling" {} none none false
def c12Direct (ctx : Option Exc) : Exc := .mk (.ay .unsafeErr) "" { path := some "a.c" } none ctx false
example : c12Seen (run {} (.api (c12Eval3 (c12Direct (some c12Caller)))) false) = (some (.ay .unsafeErr, [.ay .unsafeErr], some "a.c"), false) ∧
    c12Seen (run {} (.api (c12Eval3 (c12Direct none))) false) = (some (.ay .unsafeErr, [.ay .unsafeErr], some "a.c"), false) := by
  decide +kernel

/- "calling the same failing api entry any number of times, inside or outside a handler of the caller, gives the same class /
   cause chain every time: no crash": for every list `ctxs` of what the caller is handling at each call (`none`: outside any
   handler) — induction over the number of calls — every one of the consecutive calls of the api entry around `build`
   (any nesting as above around the directly raised error) raises the error of class `c` with the same payload, the same
   `__cause__` and the same class chain, and leaves the guard as it was. -/
theorem C12_api_entry_repeatable (fl : Flags) (hs : fl.shorten = true) (hi : fl.includeOriginal = true)
    (c T : AyCls) (hcT : c.sub T = true) (t : String) (pl : Payload) (cause : Option Exc) (sup : Bool)
    (build : Exc → Prog) (n : Nat) (hb : ∀ e, Around (.raise e) T (build e) n) (ctxs : List (Option Exc)) (g : Bool) :
    ∀ r ∈ runCalls fl (ctxs.map (fun ctx => Prog.api (build (.mk (.ay c) t pl cause ctx sup)))) g,
      ∃ x, r = (.error x, g) ∧ x.cls = .ay c ∧ x.pl = pl ∧ x.cause = cause ∧
        x.causes.map Exc.cls = .ay c :: (match cause with | none => [] | some d => d.causes.map Exc.cls) := by
  induction ctxs with
  | nil => intro r hr; cases hr
  | cons ctx rest ih =>
    intro r hr
    simp only [List.map_cons, runCalls, run_guard] at hr
    rcases List.mem_cons.mp hr with h | h
    · rw [h]
      exact C12_directly_raised_error_has_no_foreign_cause fl hs hi c T hcT t pl cause ctx sup _ n (hb _) g
    · exact ih r h

/-- outside a handler, then twice inside the caller's `except KeyError:` — three times the same UnsafeError -/
example : (runCalls {} ([none, some c12Caller, some c12Caller].map (fun ctx => Prog.api (c12Eval3 (c12Direct ctx)))) false).map c12Seen =
    List.replicate 3 (some (.ay .unsafeErr, [.ay .unsafeErr], some "a.c"), false) := by decide +kernel

/- "an error raised in one thread is reported in that thread with its own context" (the part errors.py contributes): the guard
   is a `threading.local` — a call in thread `t` reads and writes the slot of `t` only; what it raises does not depend on the
   guards of other threads (another thread being inside an api entry does not turn this thread's entry into a nested one). -/
theorem C12_api_guard_is_thread_local {α : Type} (t : Nat) (c : Comp α) (st st' : Nat → Bool) :
    (∀ u, u ≠ t → (runIn t c st).2 u = st u) ∧ (st' t = st t → (runIn t c st').1 = (runIn t c st).1) := by
  refine ⟨fun u hu => by simp [runIn, hu], fun h => by simp [runIn, h]⟩

/-- thread 1 is inside an api entry (its guard is on); thread 2 gets its own error re-created at its own boundary -/
example : c12Seen ((runIn 2 (run c12AllOn (c12Eval3 c12Zero)) (fun u => u == 1)).1, false) =
    (some (.ay .eval, [.ay .eval, .foreign "ZeroDivisionError"], some "a.b"), false) := by decide +kernel

/-! ### 5. The switches -/

/- `rethrow = False`: "errors happening inside awesomeyaml are NOT rethrown as higher-level errors": an exception that is not an
   awesomeyaml error passes every rethrow point of every class and every api entry unchanged (the same object), whatever the
   other switches. -/
theorem C12_flag_rethrow_off_passes_foreign_exceptions (fl : Flags) (hr : fl.rethrow = false) (e : Exc) (he : e.cls.isAy = false)
    (p : Prog) (hp : Nesting (.raise e) p) (g : Bool) : run fl p g = (.error e, g) := by
  obtain ⟨x, hx, hI⟩ := nesting_invariant fl e (fun x => x = e) rfl
    (by
      intro ty s x hI
      rw [hI]
      have hsub := sub_of_not_ay e.cls ty he
      cases hx : e.cls.isException with
      | true => rw [wrap_other fl ty s e hsub hx, hr]; rfl
      | false => exact wrap_base fl ty s e hsub hx)
    (by
      intro x _ hr' _
      rw [hr] at hr'; cases hr')
    p hp g
  rw [hx, hI]

example : c12Seen (run { rethrow := false } (c12Eval3 c12Zero) false) =
    (some (.foreign "ZeroDivisionError", [.foreign "ZeroDivisionError"], none), false) := by decide +kernel
example : Nesting (.raise c12Zero) (.api (.point .merge {} (.api (.point .eval {} (.raise c12Zero))))) :=
  .api (.point _ _ (.api (.point _ _ .leaf)))

/- `include_original_exception = False`: the original exception is not on the `__cause__` chain of what the caller gets — every
   member of the chain is an awesomeyaml error; with `shorten_traceback` on there is no `__cause__` at all and
   `__suppress_context__` is set (the original still sits in `__context__`). -/
theorem C12_flag_include_off_drops_the_cause (fl : Flags) (hr : fl.rethrow = true) (hi : fl.includeOriginal = false)
    (name : String) (e : Exc) (he : e.cls = .foreign name) (p : Prog) (n : Nat) (hp : Around (.raise e) .eval p (n + 1)) (g : Bool) :
    ∃ x, run fl p g = (.error x, g) ∧ x.cls = .ay .eval ∧ (∀ y ∈ x.causes, y.cls.isAy = true) ∧
      (fl.shorten = true → x.cause = none ∧ x.suppress = true) := by
  have hsub : e.cls.sub .eval = false := by rw [he]; rfl
  have hexc : e.cls.isException = true := by rw [he]; rfl
  have hnay : e.cls.isAy = false := by rw [he]; rfl
  obtain ⟨x, hx, hI⟩ := around_invariant fl .eval e
    (fun k x => (k = 0 ∧ x = e) ∨ (k ≠ 0 ∧ x.cls = .ay .eval ∧ (∀ y ∈ x.causes, y.cls.isAy = true) ∧
      (fl.shorten = true → x.cause = none ∧ x.suppress = true)))
    (Or.inl ⟨rfl, rfl⟩)
    (by
      intro k s x hI
      refine Or.inr ⟨by omega, ?_⟩
      rcases hI with ⟨_, hxe⟩ | ⟨_, hc, hall, hsh⟩
      · rw [hxe, wrap_other fl .eval s e hsub hexc, hr, hi]
        simp only [if_true, Bool.false_eq_true, if_false]
        refine ⟨rfl, ?_, fun _ => ⟨rfl, rfl⟩⟩
        rw [causes_mkErr_none]
        intro y hy
        rw [List.mem_singleton.mp hy]; rfl
      · have hs' : x.cls.sub .eval = true := by rw [hc]; rfl
        rw [wrap_sub fl .eval s x hs']
        by_cases hsh' : fl.shorten = true
        · rw [if_pos hsh']; exact ⟨hc, hall, hsh⟩
        · rw [if_neg hsh']
          refine ⟨rfl, ?_, fun h => absurd h hsh'⟩
          rw [causes_mkErr_some]
          intro y hy
          rcases List.mem_cons.mp hy with h | h
          · rw [h]; rfl
          · exact hall y h)
    (by
      intro k x hI _ _
      rcases hI with ⟨hk, hxe⟩ | ⟨hk, hc, _, _⟩
      · rw [hxe, hnay]; exact Or.inl ⟨hk, rfl⟩
      · have hay : x.cls.isAy = true := by rw [hc]; rfl
        rw [hay]
        simp only [if_true]
        refine Or.inr ⟨hk, by rw [recreate_cls]; exact hc, ?_, fun _ => ⟨by rw [recreate_cause, hi]; rfl, rfl⟩⟩
        rw [causes_recreate_no_include fl hi]
        intro y hy
        rw [List.mem_singleton.mp hy, recreate_cls]; exact hay)
    p (n + 1) hp g
  refine ⟨x, hx, ?_⟩
  rcases hI with ⟨h, _⟩ | ⟨_, h⟩
  · omega
  · exact h

example : c12Seen (run { includeOriginal := false } (c12Eval3 c12Zero) false) = (some (.ay .eval, [.ay .eval], some "a.b"), false) ∧
    c12Seen (run { includeOriginal := false, shorten := false } (c12Eval3 c12Zero) false) =
      (some (.ay .eval, [.ay .eval, .ay .eval, .ay .eval], some ""), false) := by decide +kernel

/- `shorten_traceback = False`: api entries do nothing (no re-creation, the guard is not touched), and — with `rethrow` and
   `include_original_exception` on — EVERY rethrow point adds one layer: the `__cause__` chain of what leaves a nesting of points
   is the classes of the points, outermost first, followed by the chain of the raised exception. -/
theorem C12_flag_shorten_off_one_layer_per_point (fl : Flags) (hs : fl.shorten = false) :
    (∀ p g, run fl (.api p) g = run fl p g) ∧
    (fl.rethrow = true → fl.includeOriginal = true → ∀ (pts : List (AyCls × Site)) (e : Exc), e.cls.isException = true →
      (wrapAll fl pts e).causes.map Exc.cls = pts.map (fun p => Cls.ay p.1) ++ e.causes.map Exc.cls) := by
  refine ⟨fun p g => run_api_inactive fl p g (by simp [hs]), ?_⟩
  intro hr hi pts e he
  induction pts with
  | nil => rfl
  | cons p r ih =>
    have hx := wrapAll_isException fl r e he
    simp only [wrapAll, List.map_cons, List.cons_append]
    cases hsub : (wrapAll fl r e).cls.sub p.1 with
    | true =>
      rw [wrap_sub _ _ _ _ hsub, hs]
      simp only [Bool.false_eq_true, if_false]
      rw [causes_mkErr_some, List.map_cons, ih]; rfl
    | false =>
      rw [wrap_other _ _ _ _ hsub hx, hr, hi]
      simp only [if_true]
      rw [causes_mkErr_some, List.map_cons, ih]; rfl

example : (wrapAll { shorten := false } [(.preprocess, {}), (.merge, {}), (.merge, {})] c12Zero).causes.map Exc.cls =
    [.ay .preprocess, .ay .merge, .ay .merge, .foreign "ZeroDivisionError"] := by decide +kernel

end AY
