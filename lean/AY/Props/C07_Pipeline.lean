/-
  AY.Props.C07_Pipeline — property C07 end to end: unsafety written in the DOCUMENTS survives the whole
  pipeline  loader (`construct`) → pre-merge operators (`premergeF`) → merge fold (`flatten`) → evaluator.

  Property text (the clause finished here): "… Merging can only spread unsafety, never remove it: no
  ordering or shape of safe stages before or after makes an unsafe dynamic node run."

  AY/Props/C07.lean proves that the evaluator never executes a node with `eSafe = false` and that ONE merge
  step never heals the node it returns.  What was missing is the path from the documents to the flattened
  tree — in particular the pre-merge operators, which no step theorem covered (a seeded regression, an
  `!extend` node carrying `safe=False` that becomes a plain list, slipped through exactly there).

  Vocabulary (AY/Lemmas/C07Pipe*.lean, namespace `AY.C07P`):
    `allUnsafe t`        every node of `t` has `eSafe = false`
    `streamFree t`       no `StreamNode` in `t`
    `allN p q t`         every node of `t` has flags satisfying `p` and a container class satisfying `q`
    `srcMarkF L`         flags predicate: `_source_file ∈ L → unsafe`
    `markS` / `markD`    an explicit `safe=False` / a source-level `safe=False` on a node
    `Contributed cs a`   the nodes `a` are the elements `cs` of an operator node after adoption
    `getD t q`           `get_node(q)` descending through mappings / function nodes only
    `plainAbove o q`     strictly above `q` the tree `o` consists of plain (`ConfigDict`) non-deleting mappings in
                         which the keys of `q` occur once (a scalar above `q` is excluded, a missing key is not)
    `dfAbove s q`        strictly above `q` the tree `s` has no list-family container, keys of `q` occur once
    `opFree y`           no `!append` / `!extend` / `!prev` / `!clear` / nested stream in `y`
-/
import AY.Props.C07_Built
import AY.Lemmas.C07PipeFold
namespace AY
open AY.C07P

/-- a stage of the examples: the tree the loader builds for a document -/
def c07pStage (env : Env) (r : Raw) : Node :=
  match construct env r with | .ok n => n | .error _ => .leaf {} .required

/-! ### (a) the loader -/

/- "read from a source added with safe=False": `Builder.add_source(…, safe=False)` parses the document
   under `Env.dSafe = false`; EVERY node of the tree the loader returns is unsafe — whatever tags,
   `safe: True` metadata or operators the document contains. -/
theorem C07_construct_unsafe_source (env : Env) (raw : Raw) (t : Node) (he : env.dSafe = false)
    (h : construct env raw = .ok t) :
    allUnsafe t = true ∧ ∀ p n, getNode t p = some n → eSafe n.flags = false := by
  have hall := construct_allUnsafe he h
  refine ⟨hall, fun p n hg => ?_⟩
  have := allN_flags (getNode_all p t n hall hg)
  simpa [isUnsafeF] using this

/-- `{a: !call:f{{safe: True}} {x: 1}, l: !extend [!eval "T(a)"]}` -/
def c07pDocA : Raw :=
  .map .none {} [
    (.str "a", .map (.call "f") { safe := some true } [(.str "x", .scalar .none {} (.lit (.int 1)))]),
    (.str "l", .seq .extend {} [.scalar .eval {} (.text "T(a)")])]

example : ∃ t, construct { dSafe := false } c07pDocA = .ok t ∧ allUnsafe t = true ∧
    (getNode t [.str "a"]).map (fun n => n.flags.safe) = some (some true) := ⟨_, rfl, by decide, rfl⟩

/- "marked !unsafe, below an !unsafe node": in the tree of ANY document, a node that carries an explicit
   `safe=False` (tag `!unsafe` or `{{safe: False}}` metadata), or that inherited one, is unsafe together
   with every node below it — an explicit `safe: True` further down does not heal (D30). -/
theorem C07_construct_unsafe_below (env : Env) (raw : Raw) (t : Node) (h : construct env raw = .ok t)
    (p : Path) (n : Node) (hg : getNode t p = some n)
    (hm : n.flags.safe = some false ∨ n.flags.iSafe = some false) :
    allUnsafe n = true ∧ ∀ q m, getNode n q = some m → eSafe m.flags = false := by
  have hc := C15W.getNode_cons p t n (C15W.constructTD_cons env none raw t h).1 hg
  have hs : streamFree n = true := getNode_all p t n (construct_streamFree h) hg
  have hall : allUnsafe n = true := by
    rcases hm with hm | hm
    · exact marked_allUnsafe hc hs hm
    · exact inherited_allUnsafe n hc hs hm
  refine ⟨hall, fun q m hq => ?_⟩
  have := allN_flags (getNode_all q n m hall hq)
  simpa [isUnsafeF] using this

/-- `{u: !unsafe {b: !metadata{{safe: True}} {c: !call:f {}}, l: [!import os]}, s: !import os}` -/
def c07pDocB : Raw :=
  .map .none {} [
    (.str "u", .map .plain { safe := some false } [
      (.str "b", .map .plain { safe := some true } [(.str "c", .map (.call "f") {} [])]),
      (.str "l", .seq .none {} [.scalar .imp {} (.text "os")])]),
    (.str "s", .scalar .imp {} (.text "os"))]

example : ∃ t n, construct {} c07pDocB = .ok t ∧ getNode t [.str "u"] = some n ∧ n.flags.safe = some false ∧
    (getNode n [.str "b", .str "c"]).map (fun m => eSafe m.flags) = some false ∧
    (getNode n [.str "l", .int 0]).map (fun m => eSafe m.flags) = some false ∧
    (getNode t [.str "s"]).map (fun m => eSafe m.flags) = some true := ⟨_, _, rfl, rfl, rfl, rfl, rfl, rfl⟩

/- "marked !unsafe", when the tagged value is ALREADY a node: `a: !unsafe ~` (an explicit null is an existing
   `ConfigNone` node that the tag constructor hands to `ConfigNode(value, safe=False)`; only the inheritable keywords
   used to reach it, D49) keeps the mark, wherever it stands.  The same code path serves `a: !unsafe f'{…}'` (the
   implicit f-string resolver returns a node before the tag is applied): that document is NOT representable as a `Raw`
   (a `.plain` tag on text builds a string scalar; `.fstr` is the explicit `!fstr` tag, whose keywords go to the
   constructor), and the evaluator model treats f-strings as unsupported — the f-string half of D49 is covered by the
   harness only (oracle-only family of C07). -/
theorem C07_unsafe_mark_on_existing_node (env : Env) (parent : Option (Flags × CompKind)) (kw : CtorKw) (n : Node)
    (hk : kw.safe = some false) (h : constructTD env parent (.scalar .plain kw (.lit .null)) = .ok n) :
    n.flags.safe = some false ∧ eSafe n.flags = false := by
  simp only [constructTD, wrapScalar, hk, if_true, Except.ok.injEq] at h
  have hs : n.flags.safe = some false := by
    subst h
    cases parent with
    | none => rfl
    | some pr =>
      simp only [adoptBy, adopt, inheritInto]
      cases childKw pr.1 pr.2 <;> rfl
  exact ⟨hs, by simp [eSafe, hs]⟩

example : construct {} (.map .none {} [(.str "a", .scalar .plain { safe := some false, prio := some 1 } (.lit .null))]) =
    .ok (.comp {} .dict [(.str "a", .leaf { prio := some 1, safe := some false } (.scalar .null))]) := rfl

/-! ### (b) adoption never heals -/

/- "Merging can only spread unsafety": a tree that is unsafe throughout stays unsafe throughout when it
   is handed to ANY parent — `_propagate_implicit_values`, the metaclass call on an existing node
   (`inheritInto`), `set_child` (`adopt`), whatever flags the parent has (an inherited `safe=False` is
   sticky, an explicit `safe=True` of the parent does not reach a node that is already unsafe). -/
theorem C07_adoption_keeps_unsafe (v : Node) (hv : allUnsafe v = true) (pf : Flags) (pk : CompKind)
    (prio? : Option Int) (kw? : Option ChildKw) :
    allUnsafe (propagate v) = true ∧ allUnsafe (inheritInto prio? kw? v) = true ∧
    allUnsafe (adopt pf pk v) = true ∧
    ∀ key cs cs', (∀ kv, kv ∈ cs → allUnsafe kv.2 = true) → setChild pf pk key v cs = .ok cs' →
      ∀ kv, kv ∈ cs' → allUnsafe kv.2 = true :=
  ⟨propagate_all stable_isUnsafe_any hv, inheritInto_all stable_isUnsafe_any prio? kw? hv,
   adopt_all stable_isUnsafe_any pf pk hv,
   fun _ cs cs' hcs h => (allL_iff cs').1 (setChild_all stable_isUnsafe_any hv ((allL_iff cs).2 hcs) h)⟩

example : allUnsafe (.comp { iSafe := some false } (.call "f") [(.str "a", .leaf { safe := some true, iSafe := some false } (.imp "os"))]) = true ∧
    adopt { safe := some true } .dict
      (.comp { iSafe := some false } (.call "f") [(.str "a", .leaf { safe := some true, iSafe := some false } (.imp "os"))])
    = .comp { iSafe := some false } (.call "f") [(.str "a", .leaf { safe := some true, iDel := some true, iSafe := some false } (.imp "os"))] :=
  ⟨by decide, rfl⟩

/-! ### (c) one merge, whole trees -/

/- the flags of the node `on_merge` returns are always one of the three combinations of `_replace_self`
   / `_replace_other` — whichever of the twelve class pairings, priorities, delete modes and promotions
   apply — with `_safe = False` on top when an unsafe node was promoted (`C07_promotion_keeps_unsafety`).  All three run `mergeSafe`, so an explicit `safe=False` (`markS`) and a source-level
   `safe=False` (`markD`) on EITHER node is on the result, and the result is unsafe. -/
theorem C07_merge_result_flags (fuel : Nat) (s o r : Node) (b : Bool) (h : mergeF fuel s o = .ok (r, b)) :
    (∃ g, (g = replaceOtherFlags s.flags o.flags ∨ g = replaceSelfFlags s.flags o.flags ∨
        g = replaceOtherFlags o.flags s.flags) ∧ (r.flags = g ∨ r.flags = { g with safe := some false })) ∧
    (markS s.flags = true ∨ markS o.flags = true → markS r.flags = true) ∧
    (markD s.flags = true ∨ markD o.flags = true → markD r.flags = true) ∧
    (markS s.flags = true ∨ markS o.flags = true ∨ markD s.flags = true ∨ markD o.flags = true →
      eSafe r.flags = false) := by
  refine ⟨mergeF_flags fuel s o r b h, mergeF_mark absorb_markS h, mergeF_mark absorb_markD h, ?_⟩
  rintro (hm | hm | hm | hm)
  · exact markS_unsafe (mergeF_mark absorb_markS h (.inl hm))
  · exact markS_unsafe (mergeF_mark absorb_markS h (.inr hm))
  · exact markD_unsafe (mergeF_mark absorb_markD h (.inl hm))
  · exact markD_unsafe (mergeF_mark absorb_markD h (.inr hm))

example : ∃ r b, mergeF 2 (.comp { prio := some 1 } (.call "f") []) (.comp { dSafe := false } (.call "g") [(.str "x", .leaf {} (.imp "os"))])
    = .ok (r, b) ∧ r = .comp { prio := some 1, dSafe := false } (.call "f") [] := ⟨_, _, rfl, rfl⟩

/- every node of the merged tree is a node of one of the two inputs (or an empty function node built from
   the surviving one) whose flags went only through flag updates that keep an unsafe node unsafe: merging
   two trees that are unsafe throughout gives a tree that is unsafe throughout — every class pairing,
   pruning by `!del`, promotion, list renumbering, any fuel. -/
theorem C07_merge_allUnsafe_closed (fuel : Nat) (s o r : Node) (b : Bool) (hs : allUnsafe s = true)
    (ho : allUnsafe o = true) (h : mergeF fuel s o = .ok (r, b)) : allUnsafe r = true :=
  mergeF_all stable_isUnsafe_any fuel s o r b hs ho h

example : allUnsafe (.comp { dSafe := false } .dict [(.str "a", .leaf { dSafe := false } (.imp "os"))]) = true ∧
    allUnsafe (.comp { safe := some false } .dict [(.str "a", .leaf { iSafe := some false, prio := some 1 } (.scalar (.int 1)))]) = true ∧
    ∃ r b, mergeF 3 (.comp { dSafe := false } .dict [(.str "a", .leaf { dSafe := false } (.imp "os"))])
      (.comp { safe := some false } .dict [(.str "a", .leaf { iSafe := some false, prio := some 1 } (.scalar (.int 1)))]) = .ok (r, b) :=
  ⟨by decide, by decide, _, _, rfl⟩


/-! ### (c′) one merge, path by path -/

/- "Merging can only spread unsafety" for what the NEWER stage writes: let `o` write a node `m` at the mapping
   path `q` (`o` consists of plain non-deleting mappings strictly above `q`; `m` itself is arbitrary: a
   `!call`, a list, a `!del` node …) and let the older tree `s` have no list above `q`.  If the merged tree
   still has a node at `q` — whoever won the priorities on the way, whether `q` existed before or not — that
   node carries `m`'s explicit `safe=False` and `m`'s source-level `safe=False`, and is unsafe.
   (Outside this domain the statement is false: below a LIST of `s` the pre-filter of `ConfigList.on_merge_impl`
   drops an outranked element of `o` and the index keeps `s`'s safe element; see the fuzzing report.) -/
theorem C07_merge_unsafe_stage_marks_result (fuel : Nat) (s o r : Node) (b : Bool) (q : Path) (m : Node)
    (h : mergeF fuel s o = .ok (r, b)) (hp : plainAbove o q = true) (hs : dfAbove s q = true)
    (hg : getNode o q = some m) :
    ∀ n, getNode r q = some n →
      (m.flags.safe = some false → n.flags.safe = some false) ∧
      (m.flags.dSafe = false → n.flags.dSafe = false) ∧
      (m.flags.safe = some false ∨ m.flags.dSafe = false → eSafe n.flags = false) := by
  intro n hn
  have key : ∀ mk : Flags → Bool, Absorb mk → mk m.flags = true → mk n.flags = true := by
    intro mk hA hm
    rcases mark_lands hA fuel q s o r b m h hp hs hg hm with h1 | ⟨n', hn', hmk⟩
    · rw [hn] at h1; cases h1
    · have := getD_getNode q r n' hn'
      rw [hn] at this; cases this; exact hmk
  have hS : m.flags.safe = some false → n.flags.safe = some false := fun hm => by
    have := key markS absorb_markS (by simp [markS, hm]); simpa [markS] using this
  have hD : m.flags.dSafe = false → n.flags.dSafe = false := fun hm => by
    have := key markD absorb_markD (by simp [markD, hm]); simpa [markD] using this
  refine ⟨hS, hD, ?_⟩
  rintro (hm | hm)
  · simp [eSafe, hS hm]
  · simp [eSafe, hD hm]

/-- older `{a: {x: !import os, k: !force 1}}`, newer `{a: {k: !unsafe !call:g {}, n: !unsafe !call:g {}}}` -/
def c07pOlder : Node := .comp {} .dict [(.str "a", .comp {} .dict [
  (.str "x", .leaf {} (.imp "os")), (.str "k", .leaf { prio := some 1 } (.scalar (.int 1)))])]
def c07pNewer : Node := .comp {} .dict [(.str "a", .comp {} .dict [
  (.str "k", .comp { safe := some false, del := some true } (.call "g") []),
  (.str "n", .comp { safe := some false, del := some true } (.call "g") [])])]

/- the outranked `k` stays the older scalar but takes the mark; the new `n` arrives with it -/
example : plainAbove c07pNewer [.str "a", .str "k"] = true ∧ dfAbove c07pOlder [.str "a", .str "k"] = true ∧
    ∃ r b, mergeF 3 c07pOlder c07pNewer = .ok (r, b) ∧
      getNode r [.str "a", .str "k"] = some (.leaf { prio := some 1, safe := some false } (.scalar (.int 1))) ∧
      (getNode r [.str "a", .str "n"]).map (fun n => n.flags.safe) = some (some false) :=
  ⟨by decide, by decide, _, _, rfl, rfl, rfl⟩

/- outside the domain (`plainAbove` asks for PLAIN mappings in the newer stage): a newer function node of
   another name and lower priority is ignored wholesale by `FunctionNode.on_merge_impl`, so the older `c.a` stays
   safe although the newer stage wrote an `!unsafe` node at `c.a` — nothing of the newer node is in the tree -/
example : plainAbove (.comp {} .dict [(.str "c", .comp { del := some true } (.call "g") [(.str "a", .leaf { safe := some false, iDel := some true } (.imp "os"))])])
      [.str "c", .str "a"] = false ∧
    mergeF 3 (.comp {} .dict [(.str "c", .comp { prio := some 1, del := some true } (.call "f") [(.str "a", .leaf { iDel := some true } (.scalar (.int 1)))])])
      (.comp {} .dict [(.str "c", .comp { del := some true } (.call "g") [(.str "a", .leaf { safe := some false, iDel := some true } (.imp "os"))])])
    = .ok (.comp {} .dict [(.str "c", .comp { prio := some 1, del := some true } (.call "f") [(.str "a", .leaf { iDel := some true } (.scalar (.int 1)))])], true) :=
  ⟨by decide, rfl⟩

/- "never remove it", for what the OLDER tree holds: a node of `s` at the mapping path `q` (dict-family
   containers above it) that carries an explicit or a source-level `safe=False` is still there after the merge,
   with the mark, whatever the newer stage `o` is — as long as `o` consists of plain non-deleting mappings
   strictly above `q` and does not DELETE at `q` (a deleting node replaces what is below it wholesale: then
   the content at `q` is the newer stage's own).  `o` may overwrite `q` with any value of any class and
   priority: the node at `q` of the result is unsafe. -/
theorem C07_merge_never_heals_node (fuel : Nat) (s o r : Node) (b : Bool) (q : Path) (m : Node)
    (h : mergeF fuel s o = .ok (r, b)) (hp : plainAbove o q = true)
    (hnd : ∀ y, getNode o q = some y → eDel y = false) (hg : getD s q = some m) :
    (m.flags.safe = some false → ∃ n, getNode r q = some n ∧ n.flags.safe = some false ∧ eSafe n.flags = false) ∧
    (m.flags.dSafe = false → ∃ n, getNode r q = some n ∧ n.flags.dSafe = false ∧ eSafe n.flags = false) := by
  refine ⟨fun hm => ?_, fun hm => ?_⟩
  · obtain ⟨n, hn, hmk⟩ := mark_persists absorb_markS fuel q s o r b m h hp hnd hg (by simp [markS, hm])
    have hs : n.flags.safe = some false := by simpa [markS] using hmk
    exact ⟨n, getD_getNode q r n hn, hs, by simp [eSafe, hs]⟩
  · obtain ⟨n, hn, hmk⟩ := mark_persists absorb_markD fuel q s o r b m h hp hnd hg (by simp [markD, hm])
    have hs : n.flags.dSafe = false := by simpa [markD] using hmk
    exact ⟨n, getD_getNode q r n hn, hs, by simp [eSafe, hs]⟩

/- an `!unsafe !import` overwritten by a later `!force` scalar: the scalar is unsafe -/
example : ∃ r b, mergeF 3 (.comp {} .dict [(.str "a", .comp {} (.call "f") [(.str "m", .leaf { safe := some false } (.imp "os"))])])
      (.comp {} .dict [(.str "a", .comp {} .dict [(.str "m", .leaf { prio := some 1 } (.scalar (.int 5)))])]) = .ok (r, b) ∧
    getNode r [.str "a", .str "m"] = some (.leaf { prio := some 1, safe := some false, iDel := some true } (.scalar (.int 5))) :=
  ⟨_, _, rfl, rfl⟩

/-! ### (c″) promotion -/

/- "Merging can only spread unsafety, never remove it", for `_maybe_promote`: when `other` is promoted — returned
   in place of `self`, cleared, refilled with `self`'s content and given `self.__dict__` (a function or path node
   taking over the content of the plain container that replaces it) — and it was unsafe, BY WHATEVER CAUSE (an
   explicit mark, its source, or only the sticky inherited `_implicit_safe = False` of a node that `!prev` moved out
   from under an `!unsafe` mapping), the node returned is unsafe and carries an explicit `safe=False`.  History:
   `other.__dict__.update(self.__dict__)` overwrote every flag of the promoted node with the safe container's
   (reported by a seeding author, D50); the library was repaired (`was_unsafe = not other.ayns.safe` … `other._safe =
   False`), the model follows (`promotedFlags`), the translated `_maybe_promote` is proved equal (`TIE_maybePromote`). -/
theorem C07_promotion_keeps_unsafety (sf : Flags) (sk : CompKind) (scs : List (Key × Node)) (o r : Node)
    (h : maybePromote sf sk scs o = .ok (r, false)) :
    r.flags = promotedFlags sf o.flags ∧ eSafe r.flags = (eSafe sf && eSafe o.flags) ∧
    (eSafe o.flags = false → eSafe r.flags = false ∧ r.flags.safe = some false) := by
  have hf : r.flags = promotedFlags sf o.flags := by simpa using maybePromote_flags h
  refine ⟨hf, by rw [hf, eSafe_promotedFlags], fun ho => ⟨by rw [hf, eSafe_promotedFlags, ho]; simp, ?_⟩⟩
  rw [hf]; simp [promotedFlags, ho]

/-- the moved call node of the witness: unsafe only through its inherited flag -/
def c07pMovedCall : Node := .comp { del := some true, iSafe := some false } (.call "f") [(.str "x", .leaf { iDel := some true, iSafe := some false } (.scalar (.int 1)))]

example : ∃ r, maybePromote {} .dict [] c07pMovedCall = .ok (r, false) ∧ r.flags = { safe := some false } := ⟨_, rfl, rfl⟩

/- the three-stage witness `a: !unsafe {c: !call:f {x: 1}}`, `b: !prev a.c`, `b: !del {}` ends in UnsafeError
   (it ran `f` before the repair) -/
example : (match flatten [
      c07pStage {} (.map .none {} [(.str "a", .map .plain { safe := some false } [
        (.str "c", .map (.call "f") {} [(.str "x", .scalar .none {} (.lit (.int 1)))])])]),
      c07pStage {} (.map .none {} [(.str "b", .scalar .prev {} (.text "a.c"))]),
      c07pStage {} (.map .none {} [(.str "b", .map .plain { del := some true } [])])] with
    | .ok r => ((getNode r [.str "b"]).map (fun n => (dynWhat n, n.flags.safe, eSafe n.flags)),
                match evaluate c07ExWorld r with | .error .unsafeE => true | _ => false)
    | .error _ => (none, false)) = (some (some "call:f", some false, false), true) := by decide +kernel

/- the old `_maybe_promote` as a mutant of the model (`maybePromoteOld`: the promoted node has exactly `self`'s
   flags): the moved call node comes out SAFE, so `C07_promotion_keeps_unsafety` is false of it -/
theorem C07_promotion_mutant_counterexample :
    eSafe c07pMovedCall.flags = false ∧
    ∃ r, maybePromoteOld {} .dict [] c07pMovedCall = .ok (r, false) ∧ eSafe r.flags = true ∧ dynWhat r = some "call:f" :=
  ⟨by decide, _, rfl, by decide, rfl⟩

example : maybePromoteOld {} .dict [] c07pMovedCall = .ok (.comp {} (.call "f") [], false) := rfl

/-! ### (d) the pre-merge operators -/

/- "no ordering or shape of safe stages before or after makes an unsafe dynamic node run", for `!append` and
   `!extend` (both branches of each: with a destination list in the accumulated tree, and without —
   `ConfigList(self)._replace_other(self)`): the node that takes the operator's place consists of the
   destination's old children followed by the operator's elements, and if those elements were unsafe throughout
   (what the loader guarantees for an operator that is `!unsafe`, below an `!unsafe` node or read from an unsafe
   source: `C07_construct_unsafe_below`, `C07_construct_unsafe_source`) they are unsafe throughout in the result
   — under the destination's flags as well as under the new list's.  Without destination the new list itself
   carries the operator's explicit `safe=False` and the flag of its source (repair "the plain list stands for
   this node"): if the operator node is unsafe by either, the list node is unsafe and so is everything in it. -/
theorem C07_premerge_keeps_unsafe (fuel : Nat) (f : Flags) (k : CompKind) (cs : List (Key × Node)) (path : Path)
    (into into' : Option Node) (r : Node) (same : Bool) (hk : k = .append ∨ k = .extend)
    (hu : ∀ kv, kv ∈ cs → allUnsafe kv.2 = true)
    (h : premergeF (fuel + 1) (.comp f k cs) path into = .ok (r, same, into')) :
    ∃ rf rk old added, r = .comp rf rk (old ++ added) ∧ added.length = cs.length ∧
      (∀ a, a ∈ added → allUnsafe a.2 = true) ∧
      ((r = newPlainList f (cs.map (·.2)) ∧ rf = replaceOtherFlags freshFlags f ∧ rk = .list ∧ old = [] ∧
          (f.safe = some false ∨ f.dSafe = false → eSafe r.flags = false ∧ allUnsafe r = true)) ∨
       (∃ root, into = some root ∧ (getNode root path = some (.comp rf rk old) ∨
          ∃ root', removeNode root path = some (.comp rf rk old, root')))) := by
  obtain ⟨_, rf, rk, old, added, hr, _, hc, hcase⟩ := premergeF_op_shape hk h
  refine ⟨rf, rk, old, added, hr, contributed_length hc, contributed_allUnsafe hc hu, ?_⟩
  rcases hcase with ⟨e1, e2, e3, e4⟩ | hd
  · refine .inl ⟨e1, e2, e3, e4, fun hm => ?_⟩
    have hrf : eSafe rf = false := by
      rw [e2, C07_replaceOther_conj]
      rcases hm with hm | hm <;> simp [hm]
    subst e4
    refine ⟨by rw [hr]; exact hrf, ?_⟩
    rw [hr]
    simp only [allUnsafe]
    rw [allN_comp]
    exact ⟨by simp [isUnsafeF, hrf], rfl, (allL_iff _).2 (fun a ha => contributed_allUnsafe hc hu a (by simpa using ha))⟩
  · exact .inr hd

/-- the operator of the seeded regression after the loader: `!extend{{safe: False}} [!call:f {}]` -/
def c07pExtend : Node :=
  .comp { safe := some false } .extend [(.int 0, .comp { del := some true, iDel := some true, iSafe := some false } (.call "f") [])]

example : construct {} (.seq .extend { safe := some false } [.map (.call "f") {} []]) = .ok c07pExtend := rfl
/- without destination (first stage / new path: the list takes over the mark) and with one -/
example : premergeF 3 c07pExtend [.str "steps"] none =
    .ok (.comp { safe := some false } .list [(.int 0, .comp { del := some true, iDel := some true, iSafe := some false } (.call "f") [])], false, none) := rfl
example : premergeF 3 c07pExtend [.str "steps"] (some (.comp {} .dict [(.str "steps", .comp {} .list [(.int 0, .leaf {} (.scalar (.int 1)))])])) =
    .ok (.comp {} .list [(.int 0, .leaf {} (.scalar (.int 1))),
      (.int 1, .comp { del := some true, iDel := some true, iSafe := some false } (.call "f") [])], false,
      some (.comp {} .dict [])) := rfl

/- the seeded regression as a mutant of the model (`updFlagsMut`: the metaclass call overwrites an inherited
   `safe=False`; `newPlainListMut`: `ConfigList(self)` built with it): the element of the `!extend` node
   above comes out SAFE, so `C07_premerge_keeps_unsafe` is false of the mutant — the proof of
   `contributed_fresh` (`inheritInto_all`, through `Stable.upd`) is where it breaks. -/
theorem C07_premerge_mutant_counterexample :
    (∀ kv, kv ∈ c07pExtend.children → allUnsafe kv.2 = true) ∧
    ∃ a, a ∈ (newPlainListMut (c07pExtend.children.map (·.2))).children ∧ allUnsafe a.2 = false :=
  ⟨by decide, (.int 0, .comp { del := some true, iDel := some true } (.call "f") []),
    (List.mem_cons_self : _ ∈ [(Key.int 0, Node.comp { del := some true, iDel := some true } (.call "f") [])]), by decide⟩

example : newPlainListMut (c07pExtend.children.map (·.2)) =
    .comp {} .list [(.int 0, .comp { del := some true, iDel := some true } (.call "f") [])] := rfl

/-! ### (e) the fold -/

/-- stages parsed from documents; a source whose file name is in `L` was added with `safe=False` -/
def C07StagesFrom (L : Option String → Bool) (stages : List Node) : Prop :=
  ∀ s, s ∈ stages → ∃ env raw, construct env raw = .ok s ∧ (L env.src = true → env.dSafe = false)

/- "read from a source added with safe=False … no ordering or shape of safe stages before or after makes an
   unsafe dynamic node run": let `L` be a set of file names such that every source of that name was added
   with `safe=False` (other sources: any name outside `L`, or none).  Whatever the documents contain —
   every tag, `!append` / `!extend` / `!prev` / `!clear`, deleting nodes, lists — and wherever the unsafe
   sources stand in the stage order: every node OBJECT of the flattened tree that was created while such a
   source was read (`_source_file ∈ L`; `_replace_self` / `_replace_other` never change it) is unsafe, and a
   successful evaluation logs no execution for any of them. -/
theorem C07_unsafe_source_never_runs (L : Option String → Bool) (hL : L none = false) (stages : List Node)
    (hs : C07StagesFrom L stages) (root : Node) (hf : flatten stages = .ok root) :
    (∀ p n, getNode root p = some n → L n.flags.src = true → eSafe n.flags = false) ∧
    ∀ w v st, evaluate w root = .ok (v, st) →
      ∀ e, e ∈ st.log → ∃ m, Placed root m e.path ∧ dynWhat m = some e.what ∧ L m.flags.src = false := by
  have hall : allN (srcMarkF L) anyKind root = true :=
    flatten_all (stable_srcMark L) (fresh_srcMark hL) stages root
      (fun s hm => by obtain ⟨env, raw, hc, he⟩ := hs s hm; exact construct_srcMark he hc) hf
  refine ⟨fun p n hg hl => ?_, fun w v st he e hm => ?_⟩
  · have := allN_flags (getNode_all p root n hall hg)
    simpa [srcMarkF, hl] using this
  · obtain ⟨m, hp, hsafe, hd⟩ := C07_evaluate_only_safe w root v st he e hm
    refine ⟨m, hp, hd, ?_⟩
    have := allN_flags (placed_all hall hp)
    cases hl : L m.flags.src with
    | false => rfl
    | true => simp [srcMarkF, hl, hsafe] at this

/-- stage documents for the examples: a safe stage, a stage read from the unsafe file `u.yaml` that uses every
    pre-merge operator shape (`!extend` onto an existing list, `!extend` under a new path, a plain `!call`),
    and a later safe stage that appends to both lists -/
def c07pS1 : Raw := .map .none {} [
  (.str "l", .seq .none {} [.scalar .imp {} (.text "os")]),
  (.str "m", .scalar .imp {} (.text "os"))]
def c07pU : Raw := .map .none {} [
  (.str "l", .seq .extend {} [.map (.call "f") {} [(.str "a", .scalar .none {} (.lit (.int 1)))]]),
  (.str "n", .seq .extend {} [.scalar .imp {} (.text "os")]),
  (.str "c", .map (.call "f") {} [(.str "a", .scalar .xref {} (.text "m"))])]
def c07pS2 : Raw := .map .none {} [
  (.str "l", .seq .append {} [.scalar .none {} (.lit (.int 2))]),
  (.str "n", .seq .append {} [.scalar .none {} (.lit (.int 3))])]
def c07pUEnv : Env := { dSafe := false, src := some "u.yaml" }
def c07pStages : List Node := [c07pStage {} c07pS1, c07pStage c07pUEnv c07pU, c07pStage {} c07pS2]
def c07pRoot : Node := match flatten c07pStages with | .ok r => r | .error _ => .leaf {} .required
def c07pL (s : Option String) : Bool := s == some "u.yaml"

theorem c07p_flatten : flatten c07pStages = .ok c07pRoot := by
  have h : (match flatten c07pStages with | .ok _ => true | .error _ => false) = true := by decide +kernel
  unfold c07pRoot
  split at h
  · rename_i r hr; rw [hr]
  · cases h

theorem c07p_stagesFrom : C07StagesFrom c07pL c07pStages := fun s hm => by
  rcases List.mem_cons.1 hm with e | hm
  · exact ⟨{}, c07pS1, e ▸ rfl, fun h => by cases h⟩
  · rcases List.mem_cons.1 hm with e | hm
    · exact ⟨c07pUEnv, c07pU, e ▸ rfl, fun _ => rfl⟩
    · rcases List.mem_cons.1 hm with e | hm
      · exact ⟨{}, c07pS2, e ▸ rfl, fun h => by cases h⟩
      · cases hm
/- the theorem applied to these stages -/
example : ∀ p n, getNode c07pRoot p = some n → n.flags.src = some "u.yaml" → eSafe n.flags = false :=
  fun p n hg hsrc => (C07_unsafe_source_never_runs c07pL rfl c07pStages c07p_stagesFrom c07pRoot c07p_flatten).1 p n hg
    (by simp [c07pL, hsrc])
/- the unsafe stage's elements sit inside lists that belong to safe stages (`l`: the first stage's list) or to
   nobody (`n`: the fresh list), between safe elements; they are unsafe, their safe neighbours are not -/
example : (getNode c07pRoot [.str "l", .int 1]).map (fun n => (n.flags.src, eSafe n.flags)) = some (some "u.yaml", false) ∧
    (getNode c07pRoot [.str "n", .int 0]).map (fun n => (n.flags.src, eSafe n.flags)) = some (some "u.yaml", false) ∧
    (getNode c07pRoot [.str "c"]).map (fun n => (n.flags.src, eSafe n.flags)) = some (some "u.yaml", false) ∧
    (getNode c07pRoot [.str "l", .int 0]).map (fun n => eSafe n.flags) = some true ∧
    (getNode c07pRoot [.str "l", .int 2]).map (fun n => eSafe n.flags) = some true ∧
    (getNode c07pRoot [.str "n", .int 1]).map (fun n => eSafe n.flags) = some true := by
  refine ⟨?_, ?_, ?_, ?_, ?_, ?_⟩ <;> decide +kernel
/- without the unsafe stage's dynamic nodes the build succeeds and runs the safe nodes -/
example : (match flatten [c07pStage {} c07pS1, c07pStage c07pUEnv (.map .none {} [(.str "n", .seq .extend {} [.scalar .none {} (.lit (.int 7))])]),
      c07pStage {} c07pS2] with
    | .ok r => (match evaluate c07ExWorld r with | .ok (_, st) => st.log.map (·.what) | .error _ => ["error"])
    | .error _ => ["error"]) = ["import:os", "import:os"] := by decide +kernel

/- "below an !unsafe node", for the whole build: if the ROOT of any stage — first, last or in the middle —
   carries an explicit `safe=False` (a document `!unsafe {…}`), then the root of the flattened tree carries
   it, EVERY node of the flattened tree is unsafe — also everything the safe stages before and after wrote,
   the new lists of `!extend` and the nodes moved by `!prev` — and a successful evaluation executes
   nothing at all.  Any documents (every tag and operator), any order. -/
theorem C07_unsafe_root_poisons_build (stages : List Node)
    (hs : ∀ s, s ∈ stages → ∃ env raw, construct env raw = .ok s)
    (hu : ∃ u, u ∈ stages ∧ u.flags.safe = some false) (root : Node) (hf : flatten stages = .ok root) :
    root.flags.safe = some false ∧ allUnsafe root = true ∧
    ∀ w v st, evaluate w root = .ok (v, st) → st.log = [] := by
  have hcons : C15W.FlagsConsistent root = true :=
    C15W.flatten_cons stages root (fun s hm => by
      obtain ⟨env, raw, hc⟩ := hs s hm; exact (C15W.constructTD_cons env none raw s hc).1) hf
  have hsf : streamFree root = true :=
    flatten_all stable_notStream fresh_notStream stages root (fun s hm => by
      obtain ⟨env, raw, hc⟩ := hs s hm; exact construct_streamFree hc) hf
  have hmark : markS root.flags = true :=
    flatten_root_mark absorb_markS hf (by
      obtain ⟨u, hm, h⟩ := hu; exact ⟨u, hm, by simp [markS, h]⟩)
  have hroot : root.flags.safe = some false := by simpa [markS] using hmark
  have hall := marked_allUnsafe hcons hsf hroot
  refine ⟨hroot, hall, fun w v st he => ?_⟩
  cases hlog : st.log with
  | nil => rfl
  | cons e rest =>
    obtain ⟨m, hp, hsafe, _⟩ := C07_evaluate_only_safe w root v st he e (by rw [hlog]; simp)
    have := allN_flags (placed_all hall hp)
    simp [isUnsafeF, hsafe] at this

/-- `{a: {x: 1}}`, `!unsafe {b: 2}`, `{l: !extend [3]}` -/
def c07pRootStages : List Node := [
  c07pStage {} (.map .none {} [(.str "a", .map .none {} [(.str "x", .scalar .none {} (.lit (.int 1)))])]),
  c07pStage {} (.map .plain { safe := some false } [(.str "b", .scalar .none {} (.lit (.int 2)))]),
  c07pStage {} (.map .none {} [(.str "l", .seq .extend {} [.scalar .none {} (.lit (.int 3))])])]

example : (match flatten c07pRootStages with
    | .ok r => (allUnsafe r, (getNode r [.str "a", .str "x"]).map (fun n => eSafe n.flags),
        (getNode r [.str "l"]).map (fun n => eSafe n.flags),
        (match evaluate c07ExWorld r with | .ok (_, st) => some st.log.length | .error _ => none))
    | .error _ => (false, none, none, none)) = (true, some false, some false, some 0) := by decide +kernel


/-! ### (e′) the fold, path by path -/

/- "no ordering or shape of safe stages before or after makes an unsafe dynamic node run", path by path.
   Stages `xs ++ [u] ++ ys`; the stage `u` (operator-free) writes a node `m` at the mapping path `q` that carries
   an explicit `safe=False` (`mk = markS`) or comes from an unsafe source (`mk = markD`).
   BEFORE: the stages `xs` are arbitrary (any tags, operators, order); the only condition is on their result:
   no list above `q` (vacuous when `u` is the first stage).
   AFTER: any number of later stages that cannot remove the node at `q` — operator-free, plain non-deleting
   mappings above `q`, not deleting at `q`; they may overwrite `q` and anything below it with any content.
   Then either what `u` wrote at `q` did not make it into the tree when `u` was merged (an older scalar of
   higher priority stands above it), or the node at `q` of the FINAL tree carries the mark. -/
theorem C07_unsafe_stage_marks_build (mk : Flags → Bool) (hA : mk = markS ∨ mk = markD)
    (xs ys : List Node) (u root : Node) (q : Path) (m : Node)
    (hf : flatten (xs ++ u :: ys) = .ok root) (hop : opFree u = true) (hp : plainAbove u q = true)
    (hg : getNode u q = some m) (hm : mk m.flags = true)
    (hs : ∀ s, flattenWith (premergeF (stagesFuel (xs ++ u :: ys))) xs = .ok s → dfAbove s q = true)
    (hy : ∀ y, y ∈ ys → opFree y = true ∧ plainAbove y q = true ∧ ∀ x, getNode y q = some x → eDel x = false) :
    (∃ s r1, flattenWith (premergeF (stagesFuel (xs ++ u :: ys))) xs = .ok s ∧ merge s u = .ok r1 ∧
        getNode r1 q = none) ∨
    ∃ n, getNode root q = some n ∧ mk n.flags = true ∧ eSafe n.flags = false := by
  have hAb : Absorb mk := by rcases hA with rfl | rfl; exact absorb_markS; exact absorb_markD
  have hun : ∀ f, mk f = true → eSafe f = false := by
    rcases hA with rfl | rfl
    · exact fun f => markS_unsafe
    · exact fun f => markD_unsafe
  have hdu : u.depth < stagesFuel (xs ++ u :: ys) := depth_lt_stagesFuel (by simp)
  have hgy : ∀ y, y ∈ ys → Gentle (stagesFuel (xs ++ u :: ys)) q y := fun y hmem =>
    ⟨(hy y hmem).1, depth_lt_stagesFuel (by simp [hmem]), (hy y hmem).2.1, (hy y hmem).2.2⟩
  have fin : Marked mk root q → ∃ n, getNode root q = some n ∧ mk n.flags = true ∧ eSafe n.flags = false :=
    fun ⟨n, hn, hmk⟩ => ⟨n, getD_getNode q root n hn, hmk, hun _ hmk⟩
  unfold flatten at hf
  cases xs with
  | nil =>
    right
    have hl := flattenWith_first_opFree hop hdu hf
    have hself : Marked mk u q := by
      rcases mark_lands_self hAb q u m hp hg hm with h1 | h1
      · rw [hg] at h1; cases h1
      · exact h1
    exact fin (fold_persists hAb ys u root hl hgy hself)
  | cons x0 xs' =>
    obtain ⟨s, hs1, hs2⟩ := flattenWith_append (x0 :: xs') (u :: ys) (by simp) root hf
    obtain ⟨r1, hm1, _, hcase⟩ := fold_lands hAb hs2 hop hdu hp (hs s hs1) hg hm hgy
    rcases hcase with h1 | h1
    · exact .inl ⟨s, r1, hs1, hm1, h1⟩
    · exact .inr (fin h1)

/-- safe `{a: {x: !import os}, l: [1]}`; `{a: !unsafe {c: !call:f {}}}`; later safe stages `{b: 2}` and
    `{a: {x: !import os, z: 3}}`, the second one writing below the marked node -/
def c07pFoldStages : List Node := [
  c07pStage {} (.map .none {} [(.str "a", .map .none {} [(.str "x", .scalar .imp {} (.text "os"))]),
    (.str "l", .seq .none {} [.scalar .none {} (.lit (.int 1))])]),
  c07pStage {} (.map .none {} [(.str "a", .map .plain { safe := some false } [(.str "c", .map (.call "f") {} [])])]),
  c07pStage {} (.map .none {} [(.str "b", .scalar .none {} (.lit (.int 2)))]),
  c07pStage {} (.map .none {} [(.str "a", .map .none {} [(.str "x", .scalar .imp {} (.text "os")),
    (.str "z", .scalar .none {} (.lit (.int 3)))])])]

example : (match c07pFoldStages with
    | [x, u, y1, y2] =>
      (opFree u && plainAbove u [.str "a"] && (getNode u [.str "a"]).any (fun m => markS m.flags) &&
       opFree y1 && plainAbove y1 [.str "a"] && (getNode y1 [.str "a"]).all (fun n => !eDel n) &&
       opFree y2 && plainAbove y2 [.str "a"] && (getNode y2 [.str "a"]).all (fun n => !eDel n),
       match flattenWith (premergeF (stagesFuel c07pFoldStages)) [x] with
       | .ok s => dfAbove s [.str "a"]
       | .error _ => false,
       match flatten c07pFoldStages with
       | .ok r => ((getNode r [.str "a"]).map (fun n => (n.flags.safe, allUnsafe n)),
                   (getNode r [.str "a", .str "z"]).map (fun n => eSafe n.flags),
                   (getNode r [.str "b"]).map (fun n => eSafe n.flags))
       | .error _ => (none, none, none))
    | _ => (false, false, none, none, none)) =
    (true, true, some (some false, true), some false, some true) := by decide +kernel

/- "below an !unsafe node", in the tree a Builder produces (stages parsed from documents without duplicate
   sibling keys): a node of the flattened tree that carries an explicit `safe=False` — for instance one that
   `C07_unsafe_stage_marks_build` puts there — or an inherited one is unsafe with EVERYTHING below it:
   what its own stage wrote there, what earlier stages had there, what later stages add there, through
   lists and function nodes; and a successful evaluation logs no execution at or below its path. -/
theorem C07_marked_subtree_never_runs (stages : List Node) (root : Node) (hb : BuiltFrom stages)
    (hf : flatten stages = .ok root) (q : Path) (n : Node) (hn : getNode root q = some n)
    (hm : n.flags.safe = some false ∨ n.flags.iSafe = some false) :
    allUnsafe n = true ∧
    ∀ w v st, evaluate w root = .ok (v, st) → ∀ e, e ∈ st.log → ∀ q', e.path ≠ q ++ q' := by
  have hcons : C15W.FlagsConsistent root = true :=
    C15W.flatten_cons stages root (fun s hmem => by
      obtain ⟨env, raw, _, hc⟩ := hb s hmem; exact (C15W.constructTD_cons env none raw s hc).1) hf
  have hsf : streamFree root = true :=
    flatten_all stable_notStream fresh_notStream stages root (fun s hmem => by
      obtain ⟨env, raw, _, hc⟩ := hb s hmem; exact construct_streamFree hc) hf
  have hc := C15W.getNode_cons q root n hcons hn
  have hs : streamFree n = true := getNode_all q root n hsf hn
  have hall : allUnsafe n = true := by
    rcases hm with hm | hm
    · exact marked_allUnsafe hc hs hm
    · exact inherited_allUnsafe n hc hs hm
  refine ⟨hall, fun w v st he e hmem q' hq => ?_⟩
  obtain ⟨m', hm', hsafe, _⟩ := C07_evaluate_only_safe_built w stages root v st hb hf he e hmem
  rw [hq, getNode_append, hn] at hm'
  have := allN_flags (getNode_all q' n m' hall hm')
  simp [isUnsafeF, hsafe] at this

/- the final tree of the stages above: `a` carries the mark, so nothing at or below `a` can run -/
example : (match flatten c07pFoldStages with
    | .ok r => (match evaluate c07ExWorld r with | .error .unsafeE => true | _ => false)
    | .error _ => false) = true := by decide +kernel

/-! ### the list an `!extend` / `!append` node leaves behind stands for the operator -/

/-- `{steps: !extend []}` read from a source added with `safe=False`, `{steps: !extend{{safe: False}} []}` in a
    safe source, and a safe `{c: !call:f {a: !xref steps}}` -/
def c07pGapU : Raw := .map .none {} [(.str "steps", .seq .extend {} [])]
def c07pGapT : Raw := .map .none {} [(.str "steps", .seq .extend { safe := some false } [])]
def c07pGapS : Raw := .map .none {} [(.str "c", .map (.call "f") {} [(.str "a", .scalar .xref {} (.text "steps"))])]

/- "no value originating from unsafe content is ever passed to a call", for the LIST NODE an `!extend` /
   `!append` operator leaves behind when there is no destination (`!append`: first stage; `!extend`: first stage,
   missing path, or a node at the path that is not a list).  History: `ConfigList(self)` was created while
   flattening, outside every `add_source`, with fresh flags — neither the operator's own `safe=False` nor the
   flag of its unsafe source was copied — so an EMPTY operator list written by unsafe content reached a safe
   call as `[]` (found by this development as `C07_fresh_list_counterexample`, replayed on the library).  The
   library was repaired (`ConfigList(self)._replace_other(self)`), the model follows (`newPlainList f`): the node
   returned is `newPlainList f …`, its flags are `_replace_other(fresh, operator)`, the operator's explicit
   `safe=False` and its source-level `safe=False` are on it, and then the list node is unsafe. -/
theorem C07_operator_list_keeps_unsafety (fuel : Nat) (f : Flags) (k : CompKind) (cs : List (Key × Node)) (path : Path)
    (into into' : Option Node) (r : Node) (same : Bool) (hk : k = .append ∨ k = .extend)
    (hnd : ∀ root tf tk tcs, into = some root → getNode root path = some (.comp tf tk tcs) → tk.isListFam = false)
    (hka : k = .append → into = none)
    (h : premergeF (fuel + 1) (.comp f k cs) path into = .ok (r, same, into')) :
    r = newPlainList f (cs.map (·.2)) ∧ r.flags = replaceOtherFlags freshFlags f ∧
    (f.safe = some false → r.flags.safe = some false) ∧ (f.dSafe = false → r.flags.dSafe = false) ∧
    (f.safe = some false ∨ f.dSafe = false → eSafe r.flags = false) := by
  have hr : r = newPlainList f (cs.map (·.2)) := by
    rcases hk with rfl | rfl
    · rw [hka rfl] at h
      simp only [premergeF, Except.ok.injEq, Prod.mk.injEq] at h
      exact h.1.symm
    · cases into with
      | none =>
        simp only [premergeF, Except.ok.injEq, Prod.mk.injEq] at h
        exact h.1.symm
      | some root =>
        simp only [premergeF] at h
        split at h
        · rename_i tf tk tcs hg
          rw [if_neg (by rw [hnd root tf tk tcs rfl hg]; simp)] at h
          simp only [Except.ok.injEq, Prod.mk.injEq] at h
          exact h.1.symm
        · simp only [Except.ok.injEq, Prod.mk.injEq] at h
          exact h.1.symm
  have hf : r.flags = replaceOtherFlags freshFlags f := by rw [hr]; exact newPlainList_flags f _
  refine ⟨hr, hf, fun hm => ?_, fun hm => ?_, fun hm => ?_⟩
  · rw [hf]; exact (C07_merge_explicit_unsafe_kept freshFlags f (.inr hm)).2.1
  · rw [hf]; simp [replaceOtherFlags, mergeSafe, hm]
  · rw [hf, C07_replaceOther_conj]
    rcases hm with hm | hm <;> simp [hm]

/- both forms of the former counterexample are refused now; with a safe operator the build runs -/
example : (match construct c07pUEnv c07pGapU, construct {} c07pGapS with
    | .ok u, .ok s => (match flatten [u, s] with
      | .ok r => ((getNode r [.str "steps"]).map (fun n => eSafe n.flags),
                  match evaluate c07ExWorld r with | .error .unsafeE => true | _ => false)
      | .error _ => (none, false))
    | _, _ => (none, false)) = (some false, true) := by decide +kernel
example : (match construct {} c07pGapT, construct {} c07pGapS with
    | .ok u, .ok s => (match flatten [s, u] with
      | .ok r => ((getNode r [.str "steps"]).map (fun n => (n.flags.safe, eSafe n.flags)),
                  match evaluate c07ExWorld r with | .error .unsafeE => true | _ => false)
      | .error _ => (none, false))
    | _, _ => (none, false)) = (some (some false, false), true) := by decide +kernel
example : (match construct {} c07pGapU, construct {} c07pGapS with
    | .ok u, .ok s => (match flatten [u, s] with
      | .ok r => (match evaluate c07ExWorld r with | .ok (_, st) => st.log.map (·.what) | .error _ => ["error"])
      | .error _ => ["error"])
    | _, _ => ["error"]) = ["call:f"] := by decide +kernel

/- the behaviour before the repair as a mutant of the model (`freshPlainList`: `ConfigList(self)` with bare
   fresh flags): the list of an operator that is `!unsafe` and read from an unsafe source is a SAFE node, so
   `C07_operator_list_keeps_unsafety` is false of it -/
theorem C07_operator_list_mutant_counterexample :
    eSafe (newPlainList { safe := some false, dSafe := false } []).flags = false ∧
    eSafe (freshPlainList []).flags = true ∧
    ∀ vals, eSafe (freshPlainList vals).flags = true :=
  ⟨by decide, by decide, fun _ => rfl⟩

example : freshPlainList [] = .comp {} .list [] ∧
    newPlainList { safe := some false, dSafe := false } [] = .comp { safe := some false, dSafe := false } .list [] :=
  ⟨rfl, rfl⟩

/-- `{l: [1, 2], c: !call:f {a: !xref l}}` then `{l: !clear}` read with `safe=False`; and
    `{v: 7}`, `{w: !prev v}` read with `safe=False`, `{c: !call:f {a: !xref w}}` -/
def c07pGapClearRoot : Node :=
  .comp { dSafe := false } .dict [
    (.str "l", .comp {} .list []),
    (.str "c", .comp { del := some true } (.call "f") [(.str "a", .leaf { iDel := some true } (.xref "l"))])]
def c07pGapPrevRoot : Node :=
  .comp { dSafe := false } .dict [
    (.str "w", .leaf {} (.scalar (.int 7))),
    (.str "c", .comp { del := some true } (.call "f") [(.str "a", .leaf { iDel := some true } (.xref "w"))])]

/- a remaining gap, recorded and not repaired (control of data flow by unsafe content; both replayed on the
   library): the node `!clear` returns is the
   emptied DESTINATION with the destination's flags, the node `!prev` returns is the MOVED node with its own
   flags; the operator's flags — here the flag of its unsafe source — are dropped with the operator node, and a
   parent that is unsafe only by its source hands nothing down.  An unsafe source thus decides that the safe
   call receives `[]` (`!clear`), resp. wires the safe value `7` to it under a new name (`!prev`; written as
   `w: !xref v` the build fails with UnsafeError).  Below an `!unsafe` mapping the parent's inherited flag
   covers all three operators (`C07_marked_subtree_never_runs`). -/
theorem C07_clear_prev_counterexample :
    (flatten [c07pStage {} (.map .none {} [
        (.str "l", .seq .none {} [.scalar .none {} (.lit (.int 1)), .scalar .none {} (.lit (.int 2))]),
        (.str "c", .map (.call "f") {} [(.str "a", .scalar .xref {} (.text "l"))])]),
      c07pStage { dSafe := false } (.map .none {} [(.str "l", .scalar .clear {} .empty)])] = .ok c07pGapClearRoot ∧
     ∃ v st, evaluate c07ExWorld c07pGapClearRoot = .ok (v, st) ∧
      plookup [.str "c"] st.cache = some (.app [.str "c"] "f" [("a", .list [.str "l"] [])] [] [])) ∧
    (flatten [c07pStage {} (.map .none {} [(.str "v", .scalar .none {} (.lit (.int 7)))]),
      c07pStage { dSafe := false } (.map .none {} [(.str "w", .scalar .prev {} (.text "v"))]),
      c07pStage {} (.map .none {} [(.str "c", .map (.call "f") {} [(.str "a", .scalar .xref {} (.text "w"))])])]
        = .ok c07pGapPrevRoot ∧
     ∃ v st, evaluate c07ExWorld c07pGapPrevRoot = .ok (v, st) ∧
      plookup [.str "c"] st.cache = some (.app [.str "c"] "f" [("a", .scalar (.int 7))] [] [])) :=
  ⟨⟨by rfl, _, _, rfl, rfl⟩, ⟨by rfl, _, _, rfl, rfl⟩⟩

/- `w: !xref v` instead of `w: !prev v` is refused -/
example : (match flatten [c07pStage {} (.map .none {} [(.str "v", .scalar .none {} (.lit (.int 7)))]),
      c07pStage { dSafe := false } (.map .none {} [(.str "w", .scalar .xref {} (.text "v"))]),
      c07pStage {} (.map .none {} [(.str "c", .map (.call "f") {} [(.str "a", .scalar .xref {} (.text "w"))])])] with
    | .ok r => (match evaluate c07ExWorld r with | .error .unsafeE => true | _ => false)
    | .error _ => false) = true := by decide +kernel

end AY
