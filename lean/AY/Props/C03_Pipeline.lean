/-
  C03 (continued) — "Priorities: the highest-priority writer wins, the latest among equals", for
  DOCUMENTS whose leaves may also be FUNCTION NODES and target names: the generalisation of
  `C03_highest_priority_writer_wins` / `C03_loader_fold_metadata` (AY/Props/C03_Loader.lean) from
  `rawDictShaped` documents (mappings and scalar leaves) to `rawEntShaped` documents.

  Statement (properties.jsonl): For every leaf path, the merged value is the one written by the
  stage whose value there has the highest priority (!force > untagged > !weak), and among equal
  priorities the latest stage; a priority tag on a container applies to everything below it. This
  holds for any number of stages and any order in which differently-prioritised writers appear, and
  user metadata attached to the competing values is combined under the same rule without losing
  keys.

  Documents (`rawEntDoc`): mappings of mappings (any depth, pairwise distinct sibling keys; untagged or
  tagged with priority / metadata) whose leaves — the ENTRIES — are
  * scalars, untagged or tagged with priority / metadata (not the empty string), in particular
    plain strings naming a target, and
  * function nodes `!call:f {..}` / `!bind:f {..}`, `f` non-empty, tagged with priority / metadata /
    `!del` / `!merge`, with scalar arguments (untagged or tagged with priority / metadata).
  An entry path is a path through plain mappings that ends at an entry (paths do not descend into
  function nodes).  What a stage writes at an entry path is read off the document (`rawInfoAt`):
  (effective priority, value, user metadata) where the VALUE of a function node is its target name
  and the effective priority is the `priority` keyword of the outermost tagged ancestor-or-self
  that has one.  Stages must be pairwise shape-compatible (`rawCompatE`: a path existing in two
  documents is an entry in both or a mapping in both); entries of different kinds (scalar / string /
  function node) may meet in any order.
  Definitions and proofs: AY/Lemmas/C03FuncES.lean (`entShaped`), C03FuncArgs.lean, C03FuncMerge.lean
  (`mergeF_ES`: main induction), C03FuncFold.lean (`flatten_ES`), C03FuncLoader.lean (`esBuild`, closed
  form of the loader), C03FuncRead.lean (`rawInfoAt`, `rawShapeE`, `rawFuncAt`, `rawWriterAt`).
  The other spellings of a function node — `!call:f [x0, …]`, `!call:f x`, `!call:f` — construct the
  node of the mapping spelling `!call:f {0: x0, …}` (`normFn`, AY/Lemmas/C03FuncNorm.lean: proved for
  EVERY document), so the theorems hold for every document whose normal form is entry-shaped
  (`C03_pipeline_any_function_spelling`).
  Scope: arguments of function nodes follow C13 (`C03_function_entry_arguments`); lists, nested
  arguments and a function node meeting a MAPPING at the same path belong to C04 / C13.
-/
import AY.Lemmas.C03FuncWriters
import AY.Lemmas.C03FuncNorm
namespace AY
open AY.C03F

/-! ### Concrete documents used by the non-vacuity examples -/

/-- `{a: {r: !bind:f {{x: 1}} {u: 1}}, s: 5, t: !weak {{m: 1}} g}` -/
def c03pRaw1 : Raw :=
  .map .none {} [
    (.str "a", .map .none {} [
      (.str "r", .map (.bind "f") { md := [("x", .int 1)] } [(.str "u", .scalar .none {} (.lit (.int 1)))])]),
    (.str "s", .scalar .none {} (.lit (.int 5))),
    (.str "t", .scalar .plain { prio := some (-1), md := [("m", .int 1)] } (.lit (.str "g")))]
/-- `{a: !force {r: f}, s: !force !call:k {}, t: !bind:h {b: 2}}`: the `!force` on the container `a`
    applies to the string `f` below it -/
def c03pRaw2 : Raw :=
  .map .none {} [
    (.str "a", .map .plain { prio := some 1 } [(.str "r", .scalar .none {} (.lit (.str "f")))]),
    (.str "s", .map (.call "k") { prio := some 1 } []),
    (.str "t", .map (.bind "h") {} [(.str "b", .scalar .none {} (.lit (.int 2)))])]
/-- `{a: {r: !bind:g {{y: 2}} {v: 3}}, s: 7, n: 1}` -/
def c03pRaw3 : Raw :=
  .map .none {} [
    (.str "a", .map .none {} [
      (.str "r", .map (.bind "g") { md := [("y", .int 2)] } [(.str "v", .scalar .none {} (.lit (.int 3)))])]),
    (.str "s", .scalar .none {} (.lit (.int 7))),
    (.str "n", .scalar .none {} (.lit (.int 1)))]

/-! ### The loader on entry-shaped documents -/

/- "a priority tag on a container applies to everything below it" — the loader, exactly: for an
   entry-shaped document (in either construction mode, below any dict-shaped parent) parsing succeeds
   with the tree `esBuild env none r`, which is entry-shaped, and for every entry path `p`
   * the entry stored at `p` carries the value (scalar / target of the function node) and the
     metadata written in the document and the EFFECTIVE priority `rawInfoAt r p` computes: the
     `priority` keyword of the outermost tagged ancestor-or-self that has one (a string or function
     node below a `!force` mapping is forced), the default priority when no enclosing tag has one;
   * the shape at `p` (mapping / entry / absent) and the kind of the entry (function node; writer of
     a function entry) are those of the document. -/
theorem C03_pipeline_construct_entShaped (env : Env) (r : Raw) (h : rawEntShaped r = true) :
    ∃ n, construct env r = .ok n ∧ entShaped n = true ∧
      (rawEntDoc r = true → isMap n = true ∧ n.isDict = true) ∧
      (∀ p, infoAt n p = rawInfoAt r p) ∧
      (∀ p, shapeE n p = rawShapeE r p) ∧
      (∀ p, funcAt n p = rawFuncAt r p) ∧
      (∀ p, writerAt n p = rawWriterAt r p) ∧
      (∀ parent, ParentDS parent → constructTD env parent r = .ok n) ∧
      constructDeep env r = .ok n := by
  refine ⟨esBuild env none r, construct_es env r h, esBuild_ES env none r h, ?_,
    fun p => infoAt_esBuild env p none r h, fun p => shapeE_esBuild env p none r h,
    fun p => funcAt_esBuild env p none r h, fun p => writerAt_esBuild env p none r h,
    fun parent hp => constructTD_es env r parent h hp, constructDeep_es env r h⟩
  intro hd
  have hm := isMap_esBuild_doc env hd
  exact ⟨hm, isDict_of_es_map (esBuild_ES env none r h) hm⟩

example : rawEntDoc c03pRaw1 = true ∧ rawEntDoc c03pRaw2 = true ∧ rawEntDoc c03pRaw3 = true := by decide
-- the `!force` of the container `a` reaches the string below it; function nodes write their target
example : rawInfoAt c03pRaw2 [.str "a", .str "r"] = some (1, .str "f", []) ∧
    rawInfoAt c03pRaw1 [.str "a", .str "r"] = some (0, .str "f", [("x", .int 1)]) ∧
    rawInfoAt c03pRaw2 [.str "s"] = some (1, .str "k", []) ∧
    rawInfoAt c03pRaw1 [.str "t"] = some (-1, .str "g", [("m", .int 1)]) ∧
    rawInfoAt c03pRaw1 [.str "a", .str "r", .str "u"] = none := by
  refine ⟨by decide, by decide, by decide, by decide, by decide⟩
example : ((construct {} c03pRaw2).map (fun n => infoAt n [.str "a", .str "r"])).toOption =
    some (rawInfoAt c03pRaw2 [.str "a", .str "r"]) := rfl

/- The documents of AY/Props/C03_Loader.lean are a special case: a dict-shaped document
   (`rawDictShaped`: mappings and scalar leaves only) without empty strings is entry-shaped, and what
   it writes at a path is what `rawLeafAt` reads there. -/
theorem C03_pipeline_subsumes_dict_shaped (r : Raw) (h : rawDictShaped r = true) (hn : rawNoEmptyStr r = true) :
    rawEntShaped r = true ∧ ∀ p, rawInfoAt r p = rawLeafAt r p :=
  ⟨rawEntShaped_of_DS r h hn, fun p => rawInfoFrom_eq_rawLeafAtFrom p none r h⟩

example : rawDictShaped c03Raw1 = true ∧ rawNoEmptyStr c03Raw1 = true := by decide

/- Shape compatibility of the parsed documents follows from shape compatibility of the documents,
   whatever the parse contexts. -/
theorem C03_pipeline_construct_compat (env env' : Env) (a b : Raw) (ha : rawEntShaped a = true)
    (hb : rawEntShaped b = true) (h : rawCompatE a b) :
    ∃ na nb, construct env a = .ok na ∧ construct env' b = .ok nb ∧ compatE na nb :=
  ⟨_, _, construct_es env a ha, construct_es env' b hb, compatE_esBuild env env' ha hb h⟩

example : rawCompatE c03pRaw1 c03pRaw2 := rawCompatE_of_B _ _ (by decide)

/-! ### Any number of stages, as documents -/

/- "For every leaf path, the merged value is the one written by the stage whose value there has the
   highest priority (!force > untagged > !weak), and among equal priorities the latest stage … This
   holds for any number of stages and any order in which differently-prioritised writers appear":
   for every non-empty sequence of pairwise shape-compatible entry-shaped mapping documents (each
   with its own parse context) every document parses, `Builder.flatten` of the parsed stages
   succeeds with an entry-shaped tree, and at every entry path `p`
   * the value (scalar, or target of the function node) and the priority of the merged entry are
     those of `argmaxInfo` over what the DOCUMENTS write at `p` (`rawInfoAt`): the stage maximising
     (effective priority at `p`, stage index) among the stages that have `p`
     (`C03_argmaxInfo_is_lex_max`); the entry is absent exactly when no stage writes it;
   * `p` is a mapping / an entry / absent in the result as in the first stage that has it. -/
theorem C03_pipeline_highest_priority_writer_wins (d0 : Env × Raw) (ds : List (Env × Raw))
    (hds : ∀ d, d ∈ d0 :: ds → rawEntDoc d.2 = true)
    (hpw : rawPairwiseCompatE ((d0 :: ds).map (·.2))) :
    ∃ ns r, constructAll (d0 :: ds) = .ok ns ∧ flatten ns = .ok r ∧ entShaped r = true ∧
      (∀ p, (infoAt r p).map pv = (argmaxInfo ((d0 :: ds).map (fun d => rawInfoAt d.2 p))).map pv) ∧
      (∀ p, shapeE r p = (ds.map (fun d => rawShapeE d.2 p)).foldl Option.or (rawShapeE d0.2 p)) := by
  have hsh : ∀ d, d ∈ d0 :: ds → rawEntShaped d.2 = true := fun d hd => rawEntShaped_of_doc (hds d hd)
  have hst : ∀ st, st ∈ (d0 :: ds).map (fun d => esBuild d.1 none d.2) →
      entShaped st = true ∧ isMap st = true := by
    intro st hm
    obtain ⟨d, hd, rfl⟩ := List.mem_map.1 hm
    exact ⟨esBuild_ES d.1 none d.2 (hsh d hd), isMap_esBuild_doc d.1 (hds d hd)⟩
  have hcomp := pairwiseCompatE_esBuild (d0 :: ds) hsh hpw
  simp only [List.map_cons] at hst hcomp
  obtain ⟨r, h1, h2, h3, h4, _⟩ := flatten_ES _ _ hst hcomp
  refine ⟨_, r, constructAll_es (d0 :: ds) hsh, by simpa using h1, h2, ?_, ?_⟩
  · intro p
    rw [h3 p, infoAt_esBuild d0.1 p none d0.2 (hsh d0 List.mem_cons_self), foldl_pickInfo_argmax]
    congr 2
    simp only [List.map_cons, List.map_map, rawInfoAt]
    congr 1
    apply List.map_congr_left
    intro d hd
    exact infoAt_esBuild d.1 p none d.2 (hsh d (List.mem_cons_of_mem _ hd))
  · intro p
    rw [h4 p, shapeE_esBuild d0.1 p none d0.2 (hsh d0 List.mem_cons_self)]
    congr 1
    simp only [List.map_map]
    apply List.map_congr_left
    intro d hd
    exact shapeE_esBuild d.1 p none d.2 (hsh d (List.mem_cons_of_mem _ hd))

example : (∀ d, d ∈ [(({}, c03pRaw1) : Env × Raw), ({}, c03pRaw2), ({ dSafe := false }, c03pRaw3)] →
      rawEntDoc d.2 = true) ∧
    rawPairwiseCompatE ([(({}, c03pRaw1) : Env × Raw), ({}, c03pRaw2), ({ dSafe := false }, c03pRaw3)].map (·.2)) := by
  refine ⟨?_, rawPairwiseCompatE_of_B _ (by decide)⟩
  intro d hd
  simp only [List.mem_cons, List.not_mem_nil, or_false] at hd
  rcases hd with rfl | rfl | rfl <;> decide
-- `a.r`: bind f, then the string f forced through its container, then bind g: target f, priority 1;
-- `s`: 5, `!force !call:k`, 7: the function node k; `t`: weak string g, then bind h: h
example : (argmaxInfo ([c03pRaw1, c03pRaw2, c03pRaw3].map (fun d => rawInfoAt d [.str "a", .str "r"]))).map pv =
      some (1, .str "f") ∧
    (argmaxInfo ([c03pRaw1, c03pRaw2, c03pRaw3].map (fun d => rawInfoAt d [.str "s"]))).map pv = some (1, .str "k") ∧
    (argmaxInfo ([c03pRaw1, c03pRaw2, c03pRaw3].map (fun d => rawInfoAt d [.str "t"]))).map pv = some (0, .str "h") ∧
    (argmaxInfo ([c03pRaw1, c03pRaw2, c03pRaw3].map (fun d => rawInfoAt d [.str "n"]))).map pv = some (0, .int 1) := by
  refine ⟨by decide, by decide, by decide, by decide⟩
-- the executable model on the same three documents
example : ((constructAll [({}, c03pRaw1), ({}, c03pRaw2), ({ dSafe := false }, c03pRaw3)]).bind flatten).toOption.map
    (fun r => ((infoAt r [.str "a", .str "r"]).map pv, (infoAt r [.str "s"]).map pv, (infoAt r [.str "t"]).map pv)) =
    some (some (1, .str "f"), some (1, .str "k"), some (0, .str "h")) := rfl

/- "user metadata attached to the competing values is combined under the same rule without losing
   keys": under the same hypotheses the COMPLETE information of the merged entry (priority, value,
   metadata) is the left fold of the leaf rule `pickInfo` over what the documents write at `p`
   (winner's value and priority, metadata `{**loser, **winner}` at every step), and the merged
   metadata has a key exactly when some stage's metadata at `p` has it. -/
theorem C03_pipeline_fold_metadata (d0 : Env × Raw) (ds : List (Env × Raw))
    (hds : ∀ d, d ∈ d0 :: ds → rawEntDoc d.2 = true)
    (hpw : rawPairwiseCompatE ((d0 :: ds).map (·.2))) :
    ∃ ns r, constructAll (d0 :: ds) = .ok ns ∧ flatten ns = .ok r ∧
      (∀ p, infoAt r p = (ds.map (fun d => rawInfoAt d.2 p)).foldl pickInfo (rawInfoAt d0.2 p)) ∧
      (∀ p k, mdHas k (infoAt r p) = ((d0 :: ds).map (fun d => rawInfoAt d.2 p)).any (mdHas k)) := by
  have hsh : ∀ d, d ∈ d0 :: ds → rawEntShaped d.2 = true := fun d hd => rawEntShaped_of_doc (hds d hd)
  have hst : ∀ st, st ∈ (d0 :: ds).map (fun d => esBuild d.1 none d.2) →
      entShaped st = true ∧ isMap st = true := by
    intro st hm
    obtain ⟨d, hd, rfl⟩ := List.mem_map.1 hm
    exact ⟨esBuild_ES d.1 none d.2 (hsh d hd), isMap_esBuild_doc d.1 (hds d hd)⟩
  have hcomp := pairwiseCompatE_esBuild (d0 :: ds) hsh hpw
  simp only [List.map_cons] at hst hcomp
  obtain ⟨r, h1, h2, h3, _⟩ := flatten_ES _ _ hst hcomp
  have hfold : ∀ p, infoAt r p = (ds.map (fun d => rawInfoAt d.2 p)).foldl pickInfo (rawInfoAt d0.2 p) := by
    intro p
    rw [h3 p, infoAt_esBuild d0.1 p none d0.2 (hsh d0 List.mem_cons_self)]
    congr 1
    simp only [List.map_map, rawInfoAt]
    apply List.map_congr_left
    intro d hd
    exact infoAt_esBuild d.1 p none d.2 (hsh d (List.mem_cons_of_mem _ hd))
  refine ⟨_, r, constructAll_es (d0 :: ds) hsh, by simpa using h1, hfold, ?_⟩
  intro p k
  rw [hfold p, mdHas_foldl]
  simp [List.any_cons]

-- `a.r`: x from the first bind f, nothing from the forced string, y from the losing bind g: both kept
example : ([c03pRaw2, c03pRaw3].map (fun d => rawInfoAt d [.str "a", .str "r"])).foldl pickInfo
    (rawInfoAt c03pRaw1 [.str "a", .str "r"]) = some (1, .str "f", [("y", .int 2), ("x", .int 1)]) := by decide
-- `t`: the weak string's metadata survives on the function node that replaces it
example : ([c03pRaw2, c03pRaw3].map (fun d => rawInfoAt d [.str "t"])).foldl pickInfo
    (rawInfoAt c03pRaw1 [.str "t"]) = some (0, .str "h", [("m", .int 1)]) := by decide

/- An entry that starts as a function node stays a function node as long as the later stages write
   there nothing, function nodes or strings (which then only name targets): under the same
   hypotheses, if the first document writes a function node at `p` and every later document writes
   at `p` nothing, a function node or a string, the merged entry at `p` is a function node — whose
   target and priority are the arg-max of `C03_pipeline_highest_priority_writer_wins`. -/
theorem C03_pipeline_function_entry_stays_function (d0 : Env × Raw) (ds : List (Env × Raw)) (p : Path)
    (hds : ∀ d, d ∈ d0 :: ds → rawEntDoc d.2 = true)
    (hpw : rawPairwiseCompatE ((d0 :: ds).map (·.2)))
    (h0 : rawFuncAt d0.2 p = true) (hws : ∀ d, d ∈ ds → rawWriterAt d.2 p = true) :
    ∃ ns r fl k cs t, constructAll (d0 :: ds) = .ok ns ∧ flatten ns = .ok r ∧
      entAt r p = some (.comp fl k cs) ∧ k.func? = some t ∧
      (argmaxInfo ((d0 :: ds).map (fun d => rawInfoAt d.2 p))).map pv = some (ePrio fl, .str t) := by
  have hsh : ∀ d, d ∈ d0 :: ds → rawEntShaped d.2 = true := fun d hd => rawEntShaped_of_doc (hds d hd)
  obtain ⟨ns, r, hc, hf, _, hinfo, _⟩ := C03_pipeline_highest_priority_writer_wins d0 ds hds hpw
  have hst : ∀ st, st ∈ (d0 :: ds).map (fun d => esBuild d.1 none d.2) →
      entShaped st = true ∧ isMap st = true := by
    intro st hm
    obtain ⟨d, hd, rfl⟩ := List.mem_map.1 hm
    exact ⟨esBuild_ES d.1 none d.2 (hsh d hd), isMap_esBuild_doc d.1 (hds d hd)⟩
  have hcomp := pairwiseCompatE_esBuild (d0 :: ds) hsh hpw
  simp only [List.map_cons] at hst hcomp
  obtain ⟨r', h1, _, _, _, hfun⟩ := flatten_ES _ _ hst hcomp
  have hns : ns = esBuild d0.1 none d0.2 :: ds.map (fun d => esBuild d.1 none d.2) := by
    have := constructAll_es (d0 :: ds) hsh
    rw [hc] at this
    simpa using this
  have hrr : r' = r := by
    rw [hns, h1] at hf
    injection hf
  subst hrr
  have hfa : funcAt r' p = true := by
    apply hfun p
    · rw [funcAt_esBuild d0.1 p none d0.2 (hsh d0 List.mem_cons_self)]; exact h0
    · intro st hm
      obtain ⟨d, hd, rfl⟩ := List.mem_map.1 hm
      rw [writerAt_esBuild d.1 p none d.2 (hsh d (List.mem_cons_of_mem _ hd))]
      exact hws d hd
  cases he : entAt r' p with
  | none => simp [funcAt, he] at hfa
  | some e =>
    simp only [funcAt, he] at hfa
    obtain ⟨fl, k, cs, t, rfl, hk⟩ := isFuncN_comp hfa
    refine ⟨ns, r', fl, k, cs, t, hc, hf, he, hk, ?_⟩
    rw [← hinfo p]
    simp only [infoAt, he, Option.bind_some, entryInfo_func hk]
    rfl

example : rawFuncAt c03pRaw1 [.str "a", .str "r"] = true ∧
    ∀ d, d ∈ [(({}, c03pRaw2) : Env × Raw), ({ dSafe := false }, c03pRaw3)] → rawWriterAt d.2 [.str "a", .str "r"] = true := by
  refine ⟨by decide, ?_⟩
  intro d hd
  simp only [List.mem_cons, List.not_mem_nil, or_false] at hd
  rcases hd with rfl | rfl <;> decide
-- at `s` the first stage writes the integer 5: the hypothesis fails there, and indeed kinds may change
example : rawFuncAt c03pRaw1 [.str "s"] = false ∧ rawWriterAt c03pRaw3 [.str "s"] = false := by decide

/-! ### The other spellings of a function node -/

/-- `{r: !bind:f [1]}`, `{r: !force f}`, `{r: !bind:g [2]}`, `{r: !weak !call:h 5}`, `{r: !call:h}` -/
def c03pSeq1 : Raw := .map .none {} [(.str "r", .seq (.bind "f") {} [.scalar .none {} (.lit (.int 1))])]
def c03pSeq2 : Raw := .map .none {} [(.str "r", .scalar .plain { prio := some 1 } (.lit (.str "f")))]
def c03pSeq3 : Raw := .map .none {} [(.str "r", .seq (.bind "g") {} [.scalar .none {} (.lit (.int 2))])]
def c03pSeq4 : Raw := .map .none {} [(.str "r", .scalar (.call "h") { prio := some (-1) } (.lit (.int 5)))]
def c03pSeq5 : Raw := .map .none {} [(.str "r", .scalar (.call "h") {} .empty)]

/- "any number of stages and any order", for function nodes in ANY spelling: `!call:f [x0, …]` (list
   arguments), `!call:f x` (one scalar argument) and `!call:f` (no argument) construct — for every
   document, in both construction modes — exactly the node of the mapping spelling
   `!call:f {0: x0, …}` (`normFn` rewrites the function nodes at entry positions).  Hence for every
   non-empty sequence of documents whose NORMAL FORMS are pairwise shape-compatible entry-shaped
   mapping documents, the documents themselves parse, `Builder.flatten` succeeds, and at every entry
   path the merged entry is the fold of the leaf rule / the arg-max over what the normal forms
   write there. -/
theorem C03_pipeline_any_function_spelling (d0 : Env × Raw) (ds : List (Env × Raw))
    (hds : ∀ d, d ∈ d0 :: ds → rawEntDoc (normFn d.2) = true)
    (hpw : rawPairwiseCompatE ((d0 :: ds).map (fun d => normFn d.2))) :
    (∀ env r, construct env (normFn r) = construct env r ∧ constructDeep env (normFn r) = constructDeep env r) ∧
    ∃ ns r, constructAll (d0 :: ds) = .ok ns ∧ flatten ns = .ok r ∧ entShaped r = true ∧
      (∀ p, (infoAt r p).map pv = (argmaxInfo ((d0 :: ds).map (fun d => rawInfoAt (normFn d.2) p))).map pv) ∧
      (∀ p, infoAt r p = (ds.map (fun d => rawInfoAt (normFn d.2) p)).foldl pickInfo (rawInfoAt (normFn d0.2) p)) := by
  refine ⟨fun env r => ⟨construct_normFn' env r, (construct_normFn env r).1⟩, ?_⟩
  have hds' : ∀ d, d ∈ (d0.1, normFn d0.2) :: ds.map (fun d => (d.1, normFn d.2)) → rawEntDoc d.2 = true := by
    intro d hd
    have : d ∈ (d0 :: ds).map (fun d => (d.1, normFn d.2)) := by simpa using hd
    obtain ⟨x, hx, rfl⟩ := List.mem_map.1 this
    exact hds x hx
  have hpw' : rawPairwiseCompatE (((d0.1, normFn d0.2) :: ds.map (fun d => (d.1, normFn d.2))).map (·.2)) := by
    have e : ((d0.1, normFn d0.2) :: ds.map (fun d => (d.1, normFn d.2))).map (·.2) =
        (d0 :: ds).map (fun d => normFn d.2) := by simp [List.map_map, Function.comp_def]
    rw [e]; exact hpw
  obtain ⟨ns, r, h1, h2, h3, h4, _⟩ := C03_pipeline_highest_priority_writer_wins _ _ hds' hpw'
  obtain ⟨ns', r', h1', h2', h5, _⟩ := C03_pipeline_fold_metadata _ _ hds' hpw'
  have hc : constructAll (d0 :: ds) = .ok ns := by
    rw [← constructAll_normFn (d0 :: ds)]; simpa using h1
  have hns : ns' = ns := by rw [h1] at h1'; injection h1' with e; exact e.symm
  subst hns
  have hr : r' = r := by rw [h2] at h2'; injection h2' with e; exact e.symm
  subst hr
  refine ⟨ns', r', hc, h2, h3, ?_, ?_⟩
  · intro p
    rw [h4 p]
    simp [List.map_map, Function.comp_def]
  · intro p
    rw [h5 p]
    simp [List.map_map, Function.comp_def]

example : (∀ d, d ∈ [(({}, c03pSeq1) : Env × Raw), ({}, c03pSeq2), ({}, c03pSeq3), ({}, c03pSeq4), ({}, c03pSeq5)] →
      rawEntDoc (normFn d.2) = true) ∧
    rawPairwiseCompatE ([(({}, c03pSeq1) : Env × Raw), ({}, c03pSeq2), ({}, c03pSeq3), ({}, c03pSeq4), ({}, c03pSeq5)].map
      (fun d => normFn d.2)) := by
  refine ⟨?_, rawPairwiseCompatE_of_B _ (by decide)⟩
  intro d hd
  simp only [List.mem_cons, List.not_mem_nil, or_false] at hd
  rcases hd with rfl | rfl | rfl | rfl | rfl <;> decide
-- the documents of the seeded regression: `!bind:f [1]` ← `!force f` ← `!bind:g [2]` (← weak / untagged h): f, 1
example : (argmaxInfo ([c03pSeq1, c03pSeq2, c03pSeq3, c03pSeq4].map (fun d => rawInfoAt (normFn d) [.str "r"]))).map pv =
    some (1, .str "f") := by decide
example : ((constructAll [({}, c03pSeq1), ({}, c03pSeq2), ({}, c03pSeq3), ({}, c03pSeq4)]).bind flatten).toOption.map
    (fun r => (infoAt r [.str "r"]).map pv) = some (some (1, .str "f")) := rfl
-- without the string the latest of the untagged writers wins: `!call:h` without arguments
example : (argmaxInfo ([c03pSeq1, c03pSeq3, c03pSeq4, c03pSeq5].map (fun d => rawInfoAt (normFn d) [.str "r"]))).map pv =
    some (0, .str "h") := by decide

end AY
