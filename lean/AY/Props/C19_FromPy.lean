/-
  AY.Props.C19_FromPy — property C19 for trees built through the PYTHON API: `ConfigNode(data, **kwargs)`
  on plain data (what `Config(dict)` does through `ConfigDict(dict)`), model `fromPy` (Model/FromPy.lean).

  AY.Props.C19 / C19_Built prove "deepcopy / pickle reproduce the tree" for loader-built and merged
  trees.  Here the same is proved for every tree the constructors build from plain data, with every
  combination of the keyword arguments they accept (priority, delete, allow_new, safe, metadata,
  source_file, implicit_delete, implicit_allow_new, implicit_safe) and any thread-local defaults, and for
  every tree obtained by merging such trees with each other and with parsed documents.

  Domain (see the header of Model/FromPy.lean): the input is a tree of DISTINCT Python objects.  The
  constructors give one node to one object (`nodes_memo`), so an input that holds one object at two
  places — which in CPython includes two `True`s, two equal small ints, two equal literal strings — is
  a DAG of nodes, outside the value model (replayed on the code, see the end of this file).

  Only property theorems (and the inputs of their examples) live here; lemmas are in AY.Lemmas.FromPy.
-/
import AY.Props.C19_Built
import AY.Lemmas.FromPy
namespace AY

/-! ### Concrete inputs used by the non-vacuity examples -/

/-- `{'a': [1, {'b': 'x'}], 'c': None, 3: 1.5, 'e': {}}` -/
def c19PyData : Plain :=
  .dict [(.str "a", .list [.scalar (.int 1), .dict [(.str "b", .scalar (.str "x"))]]),
    (.str "c", .scalar .null), (.int 3, .scalar (.float "1.5")), (.str "e", .dict [])]

/-- `priority=1, delete=True, allow_new=False, safe=False, metadata={'x': 1}, source_file='f.yaml'` -/
def c19PyKw : PyKw :=
  { prio := some 1, del := some true, new := some false, safe := some false, md := [("x", .int 1)], src := some "f.yaml" }

/-- a thread in which nothing has been parsed yet: no default file name, default safe flag `False` -/
def c19PyEnv : Env := { dSafe := false, src := none }

/-- `ConfigNode(c19PyData, **c19PyKw)`: the children carry the parent's `priority` and `source_file`, not its
    `delete / allow_new / safe / metadata`; their inherited flags are what the parent prescribes -/
def c19PyTree : Node :=
  let cf : Flags := { prio := some 1, iDel := some true, iNew := some false, iSafe := some false, dSafe := false, src := some "f.yaml" }
  .comp { prio := some 1, del := some true, new := some false, safe := some false, md := [("x", .int 1)],
          dSafe := false, src := some "f.yaml" } .dict [
    (.str "a", .comp cf .list [(.int 0, .leaf cf (.scalar (.int 1))),
      (.int 1, .comp cf .dict [(.str "b", .leaf cf (.scalar (.str "x")))])]),
    (.str "c", .leaf cf (.scalar .null)), (.int 3, .leaf cf (.scalar (.float "1.5"))), (.str "e", .comp cf .dict [])]

example : fromPy c19PyEnv c19PyKw c19PyData = c19PyTree := rfl
example : fromPyE c19PyEnv c19PyKw c19PyData = .ok c19PyTree ∧
    fromPyE c19PyEnv { prio := some 5 } c19PyData = .error .value := ⟨rfl, rfl⟩
/- without keywords: a list hands `implicit_delete=True` to its elements, a dict hands down nothing -/
example : fromPy {} {} (.dict [(.str "l", .list [.scalar (.int 1)]), (.str "d", .dict [(.str "k", .scalar (.int 2))])]) =
    .comp {} .dict [(.str "l", .comp {} .list [(.int 0, .leaf { iDel := some true } (.scalar (.int 1)))]),
      (.str "d", .comp {} .dict [(.str "k", .leaf {} (.scalar (.int 2)))])] := rfl

/-! ### the constructors establish the hypotheses of the copy theorems -/

/- "for every tree over all node kinds and flag combinations": every tree the constructors build from
   plain data is `FlagsConsistent` — for EVERY input (any nesting, empty containers, any scalar) and
   EVERY combination of keyword arguments and thread-local defaults.  `ComposedNode.__init__` hands
   `_get_child_kwargs()` to the constructor of each child, so a child is born with the inherited flags
   its parent prescribes; nothing is propagated afterwards.  No guard is needed. -/
theorem C19_fromPy_consistent (env : Env) (kw : PyKw) (d : Plain) : FlagsConsistent (fromPy env kw d) = true :=
  FP.fromPy_cons env kw d

example : FlagsConsistent c19PyTree = true := C19_fromPy_consistent c19PyEnv c19PyKw c19PyData

/- The child maps are well-keyed (mappings have pairwise different keys, list elements are stored under
   `0 … n-1`) whenever every mapping of the input has pairwise distinct keys — which a Python dict
   guarantees; the model's `Plain.dict` is an association list, hence the decidable hypothesis. -/
theorem C19_fromPy_wellKeyed (env : Env) (kw : PyKw) (d : Plain) (hk : pyKeysDistinct d = true) :
    WellKeyed (fromPy env kw d) = true :=
  FP.fromPy_wellKeyed env kw d hk

example : pyKeysDistinct c19PyData = true := by decide
example : WellKeyed c19PyTree = true := C19_fromPy_wellKeyed c19PyEnv c19PyKw c19PyData (by decide)
/- the hypothesis is exactly what is needed at the first level: an association list with a repeated key
   (not a Python dict) gives a child map with a repeated key -/
example : pyKeysDistinct (.dict [(.str "a", .scalar (.int 1)), (.str "a", .scalar (.int 2))]) = false ∧
    WellKeyed (fromPy {} {} (.dict [(.str "a", .scalar (.int 1)), (.str "a", .scalar (.int 2))])) = false := by decide

/-! ### deepcopy and pickle of an API-built tree -/

/- "A deep copy … of any node tree is a … tree of the same node kinds with equal content, priorities,
   safety, targets/reference points and metadata": `copy.deepcopy(ConfigNode(data, **kw))` is the tree
   itself (as a value), for all data and keywords.  Corollary of `C19_deepcopy_identity`. -/
theorem C19_api_copy_identity (env : Env) (kw : PyKw) (d : Plain) (hk : pyKeysDistinct d = true) :
    reconstructCopy (reduceNode (fromPy env kw d)) = fromPy env kw d :=
  C19_deepcopy_identity _ (C19_fromPy_consistent env kw d) (C19_fromPy_wellKeyed env kw d hk)

example : reconstructCopy (reduceNode c19PyTree) = c19PyTree := C19_api_copy_identity c19PyEnv c19PyKw c19PyData (by decide)

/- "… or a pickle round-trip …".  Corollary of `C19_pickle_identity`. -/
theorem C19_api_pickle_identity (env : Env) (kw : PyKw) (d : Plain) (hk : pyKeysDistinct d = true) :
    reconstructPickle (reduceNode (fromPy env kw d)) = fromPy env kw d :=
  C19_pickle_identity _ (C19_fromPy_consistent env kw d) (C19_fromPy_wellKeyed env kw d hk)

example : reconstructPickle (reduceNode c19PyTree) = c19PyTree :=
  C19_api_pickle_identity c19PyEnv c19PyKw c19PyData (by decide)

/-! ### … and of everything merged from API-built trees and parsed documents -/

/-- a tree handed to `ayns.merge` / a stage of a Builder: parsed by the loader from a document without
    duplicate sibling keys, or built through the Python API from data whose mappings have distinct keys -/
def LoadedOrApi (s : Node) : Prop :=
  (∃ env raw, KI.rawKeyed raw = true ∧ construct env raw = .ok s) ∨
  (∃ env kw d, pyKeysDistinct d = true ∧ s = fromPy env kw d)

/- both origins establish the two invariants -/
theorem C19_loadedOrApi_invariants (s : Node) (h : LoadedOrApi s) :
    FlagsConsistent s = true ∧ WellKeyed s = true := by
  rcases h with ⟨env, raw, hr, e⟩ | ⟨env, kw, d, hk, rfl⟩
  · exact ⟨C19_construct_consistent env raw s e, C19_construct_wellKeyed env raw s hr e⟩
  · exact ⟨C19_fromPy_consistent env kw d, C19_fromPy_wellKeyed env kw d hk⟩

/-- `{'a': [1], 'b': {'x': 2}}` built through the API … -/
def c19PyOlder : Node :=
  fromPy {} {} (.dict [(.str "a", .list [.scalar (.int 1)]), (.str "b", .dict [(.str "x", .scalar (.int 2))])])
/-- … and the parsed document with `a: !append [3]`, `b:` the mapping `{y: 1}` under the `!unsafe` tag, `c: !force {z: ~}` -/
def c19PyNewerDoc : Raw :=
  .map .none {} [(.str "a", .seq .append {} [.scalar .none {} (.lit (.int 3))]),
    (.str "b", .map .plain { safe := some false } [(.str "y", .scalar .none {} (.lit (.int 1)))]),
    (.str "c", .map .plain { prio := some 1 } [(.str "z", .scalar .none {} (.lit .null))])]
def c19PyNewer : Node := match construct {} c19PyNewerDoc with | .ok n => n | .error _ => .leaf {} .required
/-- a second API-built tree, with keywords: `ConfigNode({'b': {'x': 5}, 'd': [7]}, priority=1, safe=False)` -/
def c19PyThird : Node :=
  fromPy {} { prio := some 1, safe := some false }
    (.dict [(.str "b", .dict [(.str "x", .scalar (.int 5))]), (.str "d", .list [.scalar (.int 7)])])

example : LoadedOrApi c19PyOlder ∧ LoadedOrApi c19PyNewer ∧ LoadedOrApi c19PyThird :=
  ⟨.inr ⟨_, _, _, by decide, rfl⟩, .inl ⟨{}, c19PyNewerDoc, by decide, rfl⟩, .inr ⟨_, _, _, by decide, rfl⟩⟩

/- "… which merges … exactly like the original": one `on_merge` of two trees of either origin gives a tree
   that is again consistent and well-keyed, so its deep copy and its pickle copy are the tree itself.
   (`C19_merge_root_consistent`, `C19_merge_root_wellKeyed`.) -/
theorem C19_api_then_merge_copy_identity (a b m : Node) (ha : LoadedOrApi a) (hb : LoadedOrApi b)
    (h : merge a b = .ok m) :
    FlagsConsistent m = true ∧ WellKeyed m = true ∧
      reconstructCopy (reduceNode m) = m ∧ reconstructPickle (reduceNode m) = m :=
  have ia := C19_loadedOrApi_invariants a ha
  have ib := C19_loadedOrApi_invariants b hb
  have hc := C19_merge_root_consistent a b m ia.1 ib.1 h
  have hw := C19_merge_root_wellKeyed a b m ia.2 ib.2 h
  ⟨hc, hw, C19_deepcopy_identity m hc hw, C19_pickle_identity m hc hw⟩

/- `ConfigNode({'a': [1], 'b': {'x': 2}}).ayns.merge(ConfigNode({'b': {'x': 5}, 'd': [7]}, priority=1, safe=False))`
   succeeds: the newer tree has the higher priority everywhere, `b.x` becomes 5 and is no longer safe -/
example : (match merge c19PyOlder c19PyThird with
    | .ok m => (match getNode m [.str "b", .str "x"] with
      | some (.leaf f (.scalar (.int 5))) => !eSafe f
      | _ => false)
    | .error _ => false) = true := by decide +kernel
example : ∃ m, merge c19PyOlder c19PyThird = .ok m ∧ reconstructCopy (reduceNode m) = m := by
  have h : (merge c19PyOlder c19PyThird).toBool = true := by decide +kernel
  cases hm : merge c19PyOlder c19PyThird with
  | error e => rw [hm] at h; cases h
  | ok m =>
    exact ⟨m, rfl, (C19_api_then_merge_copy_identity _ _ m (.inr ⟨_, _, _, by decide, rfl⟩)
      (.inr ⟨_, _, _, by decide, rfl⟩) hm).2.2.1⟩

/- The same for a whole build: any number of stages of either origin through `Builder.flatten` (pre-merge
   operators of the parsed stages included).  (`C19_flatten_consistent`, `C19_flatten_wellKeyed`.) -/
theorem C19_api_then_flatten_copy_identity (stages : List Node) (r : Node)
    (hs : ∀ s, s ∈ stages → LoadedOrApi s) (h : flatten stages = .ok r) :
    FlagsConsistent r = true ∧ WellKeyed r = true ∧
      reconstructCopy (reduceNode r) = r ∧ reconstructPickle (reduceNode r) = r :=
  have hc := C19_flatten_consistent stages r (fun s hm => (C19_loadedOrApi_invariants s (hs s hm)).1) h
  have hw := C19_flatten_wellKeyed stages r (fun s hm => (C19_loadedOrApi_invariants s (hs s hm)).2) h
  ⟨hc, hw, C19_deepcopy_identity r hc hw, C19_pickle_identity r hc hw⟩

/- API tree ← parsed document (with `!append`, `!unsafe`, `!force`) ← API tree with keywords: the fold succeeds -/
example : (∀ s, s ∈ [c19PyOlder, c19PyNewer, c19PyThird] → LoadedOrApi s) ∧
    (flatten [c19PyOlder, c19PyNewer, c19PyThird]).toBool = true := by
  refine ⟨fun s hm => ?_, by decide +kernel⟩
  rcases List.mem_cons.1 hm with e | hm
  · exact e ▸ .inr ⟨_, _, _, by decide, rfl⟩
  · rcases List.mem_cons.1 hm with e | hm
    · exact e ▸ .inl ⟨{}, c19PyNewerDoc, by decide, rfl⟩
    · rcases List.mem_cons.1 hm with e | hm
      · exact e ▸ .inr ⟨_, _, _, by decide, rfl⟩
      · cases hm

/-
  Scope.  Object identity is outside the value model, and with it the one thing the constructors do that
  `fromPy` does not follow: ONE node per Python object (`nodes_memo`).  On the code

      t = ConfigNode({'a': True, 'b': [True]})        # `True` is one object
      t['a'] is t['b'][0]                              # → True: one node at two places
      dump(copy.deepcopy(t)) != dump(t)                # the copy re-adopts it under `b` last: implicit_delete differs

  (harness/props/c19.py builds its API inputs from leaves that are objects of their own.)
-/

end AY
