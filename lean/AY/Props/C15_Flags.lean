/-
  C15 (continued) — the flag-neutrality clause on WHOLE trees, and key permutation on the model.

  Statement (properties.jsonl, the clauses finished here): "permuting the order of keys inside any
  mapping changes at most the order of keys in the result.  Marking any node of any document !unsafe
  or !new does not change the merged data either".

  AY/Props/C15.lean proved the flag clause only operation by operation (`C15_flag_neutral_ops_partial`)
  and recorded the obstacle: `_propagate_implicit_values` decides whether to descend by comparing
  `implicit_allow_new` / `implicit_safe` too, and a descent also rewrites `implicit_delete`.  The
  invariant asked for there is C19's `FlagsConsistent` (every child carries what `_get_child_kwargs`
  of its parent prescribes; the loader establishes it, `merge` / `flatten` preserve it).  It is restated
  in the namespace `AY.C15W` (AY/Lemmas/C15WholeCons.lean: the C19 modules import AY.Model.Copy, whose
  `keysNodup` clashes with the one every C15 module imports).

  What is proved here
  * on a consistent tree `_propagate_implicit_values` is a no-op, and on a tree whose children are
    consistent it commutes with `eraseSN` — whatever the (new) root flags are;
  * `mergeF` (any fuel), `merge`, `flatten` commute with `eraseSN` on consistent trees without
    `!notnew` (`NN`: no `allow_new = False`, explicit or inherited — the only thing `_require_all_new`
    looks at): the same `Except` value up to `eraseSN`, i.e. the same error, or results that differ only
    in `safe` / `allow_new` (same data, priorities, `delete`, metadata, same "is self" answer);
  * the loader commutes with erasing the marks in the document (`Raw.eraseSN`), for EVERY tag;
  * headline: two sequences of `!notnew`-free documents that agree up to their `!unsafe` / `!new`
    marks (and the file-level safety default) build the same data, or fail with the same error;
  * key permutation for tag-free documents, through `C02_plain_fold`.
  Proofs: AY/Lemmas/C15Whole{Cons,Prop,NN,Merge,Flatten,Construct,Perm}.lean.
-/
import AY.Props.C15
import AY.Lemmas.C15WholeConstruct
import AY.Lemmas.C15WholePerm
namespace AY
open AY.C15W

/-! ### Concrete inputs used by the non-vacuity examples -/

def c15fInt (i : Int) : Raw := .scalar .none {} (.lit (.int i))

/-- `{a: !unsafe {p: 1, q: !new [1, 2]}, b: !unsafe !force 5, c: {d: 1}}` -/
def c15fDoc1 : Raw :=
  .map .none {} [
    (.str "a", .map .plain { safe := some false } [
      (.str "p", c15fInt 1),
      (.str "q", .seq .plain { new := some true } [c15fInt 1, c15fInt 2])]),
    (.str "b", .scalar .plain { prio := some 1, safe := some false } (.lit (.int 5))),
    (.str "c", .map .none {} [(.str "d", c15fInt 1)])]

/-- `{a: !new {q: !del [7], r: !unsafe {s: 1}}, b: 6, c: !unsafe !del {e: 2}}` -/
def c15fDoc2 : Raw :=
  .map .none {} [
    (.str "a", .map .plain { new := some true } [
      (.str "q", .seq .plain { del := some true } [c15fInt 7]),
      (.str "r", .map .plain { safe := some false } [(.str "s", c15fInt 1)])]),
    (.str "b", c15fInt 6),
    (.str "c", .map .plain { safe := some false, del := some true } [(.str "e", c15fInt 2)])]

/-- the same two documents without any `!unsafe` / `!new` mark -/
def c15fDoc1' : Raw :=
  .map .none {} [
    (.str "a", .map .plain {} [(.str "p", c15fInt 1), (.str "q", .seq .plain {} [c15fInt 1, c15fInt 2])]),
    (.str "b", .scalar .plain { prio := some 1 } (.lit (.int 5))),
    (.str "c", .map .none {} [(.str "d", c15fInt 1)])]
def c15fDoc2' : Raw :=
  .map .none {} [
    (.str "a", .map .plain {} [
      (.str "q", .seq .plain { del := some true } [c15fInt 7]),
      (.str "r", .map .plain {} [(.str "s", c15fInt 1)])]),
    (.str "b", c15fInt 6),
    (.str "c", .map .plain { del := some true } [(.str "e", c15fInt 2)])]

def c15fA : Node := match construct {} c15fDoc1 with | .ok n => n | .error _ => default
def c15fB : Node := match construct { dSafe := false } c15fDoc2 with | .ok n => n | .error _ => default

/-! ### `_propagate_implicit_values` on consistent trees -/

/- The invariant the obstacle at `C15_flag_neutral_ops_partial` asked for.  On a `FlagsConsistent`
   tree there is nothing to propagate: `_propagate_implicit_values` returns the tree unchanged, and
   writing into a child the keywords it already carries (`childFlagsOK`) changes nothing, at any depth.
   If only `implicit_delete` of the child agrees with the keywords (`kw.iDel = c.flags.iDel`; the
   `implicit_allow_new` / `implicit_safe` in `kw` are arbitrary, so the code may well descend), the
   descent changes only `safe` / `allow_new` flags: every `implicit_delete` below is rewritten with the
   value it already has — the `implicit_delete` a propagation writes depends only on the
   `delete` / `implicit_delete` chain, not on what triggered the descent. -/
theorem C15_propagate_consistent_noop (n c : Node) (kw : ChildKw) (hn : FlagsConsistent n = true)
    (hc : FlagsConsistent c = true) :
    propagate n = n ∧
    (childFlagsOK kw c.flags = true → applyKw kw c = c) ∧
    (kw.iDel = c.flags.iDel → eraseSN (applyKw kw c) = eraseSN c) :=
  ⟨propagate_id hn, fun h => applyKw_id h, fun h => applyKw_stable c kw hc h⟩

example : FlagsConsistent c15fA = true ∧ FlagsConsistent c15fB = true := by decide
-- a descent triggered by `implicit_safe` alone: the flags below really change (`q` becomes unsafe), no
-- `implicit_delete` does
example : (∃ c, getNode c15fB [.str "a"] = some c ∧
    c.flags.iDel = none ∧
    (getNode (applyKw { iDel := none, iNew := none, iSafe := some false } c) [.str "q"]).map (·.flags.iSafe)
      = some (some false) ∧
    (getNode c [.str "q"]).map (·.flags.iSafe) = some none ∧
    (getNode (applyKw { iDel := none, iNew := none, iSafe := some false } c) [.str "q", .int 0]).map (·.flags.iDel)
      = (getNode c [.str "q", .int 0]).map (·.flags.iDel)) := ⟨_, rfl, by decide⟩

/- The key lemma.  For a node whose children are consistent trees — in particular a consistent tree
   `n` that was just given NEW ROOT FLAGS `f` by `_replace_self` / `_replace_other` or by an adoption —
   `eraseSN` commutes with `_propagate_implicit_values`, and with writing any keywords into a
   consistent child: where the unerased side descends because `implicit_allow_new` / `implicit_safe`
   changed and the erased side does not, the previous theorem applies; where `implicit_delete` really
   changes, `flagsChanged` holds on both sides.  Erasing keeps trees consistent. -/
theorem C15_propagate_erase_commute (n c : Node) (f : Flags) (kw : ChildKw) (hn : FlagsConsistent n = true)
    (hc : FlagsConsistent c = true) :
    eraseSN (propagate (n.setFlags f)) = propagate ((eraseSN n).setFlags (eraseF f)) ∧
    eraseSN (applyKw kw c) = applyKw (eraseKw kw) (eraseSN c) ∧
    eraseSN (adopt f .dict c) = adopt (eraseF f) .dict (eraseSN c) ∧
    FlagsConsistent (eraseSN n) = true := by
  refine ⟨?_, applyKw_eraseSN c kw hc, adopt_eraseSN f .dict hc, eraseSN_cons n hn⟩
  rw [propagate_eraseSN (consistentBelow_setFlags f hn), eraseSN_setFlags]

-- with new root flags (`!notnew`-free or not) the propagation does change the tree, and the two sides
-- descend differently: erased, the keywords of `a` are unchanged
example : flagsChanged { iDel := none, iNew := some true, iSafe := some false }
      ((getNode c15fA [.str "a"]).map (·.flags)).get! = true ∧
    flagsChanged (eraseKw { iDel := none, iNew := some true, iSafe := some false })
      (eraseF ((getNode c15fA [.str "a"]).map (·.flags)).get!) = false := by decide

/-! ### One merge -/

/- "Marking any node of any document !unsafe or !new does not change the merged data" — one merge, on
   WHOLE trees.  For consistent trees `a`, `b` without `!notnew` (`NN`: no node has
   `allow_new = False`, explicitly or inherited; the clause is about `!unsafe` / `!new` marks only) and
   ANY fuel, `on_merge` of the erased trees is the erased outcome of `on_merge` of the marked trees:
   the same error, or the result with `safe` / `allow_new` erased everywhere and the same "is self"
   answer.  Hence they succeed or fail together; on success the results have the same data (and the
   same priorities, `delete` / `implicit_delete`, metadata — everything `eraseF` keeps), and the
   result is again consistent and `!notnew`-free, so the statement iterates. -/
theorem C15_flag_neutral (fuel : Nat) (a b : Node) (ha : FlagsConsistent a = true) (hb : FlagsConsistent b = true)
    (hna : NN a = true) (hnb : NN b = true) :
    mergeF fuel (eraseSN a) (eraseSN b) = eraseRes (mergeF fuel a b) ∧
    (mergeF fuel (eraseSN a) (eraseSN b)).toBool = (mergeF fuel a b).toBool ∧
    (∀ r s, mergeF fuel a b = .ok (r, s) →
      mergeF fuel (eraseSN a) (eraseSN b) = .ok (eraseSN r, s) ∧ native (eraseSN r) = native r ∧
      FlagsConsistent r = true ∧ NN r = true) ∧
    (merge (eraseSN a) (eraseSN b)).map native = (merge a b).map native := by
  have h := mergeF_eraseSN fuel a b ha hb hna hnb
  refine ⟨h, ?_, ?_, ?_⟩
  · rw [h]; cases mergeF fuel a b with
    | error e => rfl
    | ok rs => obtain ⟨r, s⟩ := rs; rfl
  · intro r s hr
    rw [h, hr]
    exact ⟨rfl, native_eraseSN r, mergeF_cons fuel a b r s ha hb hr, mergeF_nn fuel a b r s hna hnb hr⟩
  · rw [merge_eraseSN ha hb hna hnb]
    cases merge a b with
    | error e => rfl
    | ok r => simp only [Except.map, native_eraseSN]

example : FlagsConsistent c15fA = true ∧ FlagsConsistent c15fB = true ∧ NN c15fA = true ∧ NN c15fB = true := by
  decide
-- the merge succeeds and the marks are really there (erasing changes flags; `!unsafe` is inherited below `a`) …
example : (mergeF 4 c15fA c15fB).toBool = true ∧ (eraseSN c15fB).flags ≠ c15fB.flags ∧
    ((getNode c15fA [.str "a", .str "q"]).map (·.flags.iSafe)) = some (some false) ∧
    ((getNode (eraseSN c15fA) [.str "a", .str "q"]).map (·.flags.iSafe)) = some none := by decide
-- … and an error case: fuel exhausted on both sides
example : (mergeF 1 c15fA c15fB).toBool = false := by decide

/-! ### The builder's fold -/

/- "Marking any node of any document !unsafe or !new does not change the merged data" — the fold:
   for stages that are consistent and `!notnew`-free (what the loader produces from `!notnew`-free
   documents, see `C15_construct_erase`), `Builder.flatten` — the pre-merge operators (`!prev`,
   `!clear`, `!append`, `!extend`, nested streams) and the left fold of merges — of the erased stages
   is the erased outcome of `flatten` of the marked stages: the same error, or the result with
   `safe` / `allow_new` erased; in particular the same data.  (`C19_flatten_consistent` is what keeps
   the invariant along the fold.) -/
theorem C15_flag_neutral_flatten (stages : List Node)
    (hs : ∀ s, s ∈ stages → FlagsConsistent s = true ∧ NN s = true) :
    flatten (stages.map eraseSN) = (flatten stages).map eraseSN ∧
    (flatten (stages.map eraseSN)).map native = (flatten stages).map native ∧
    (∀ r, flatten stages = .ok r → FlagsConsistent r = true ∧ NN r = true) := by
  have h := flatten_eraseSN stages hs
  refine ⟨h, ?_, fun r hr => ⟨flatten_cons stages r (fun s hm => (hs s hm).1) hr,
    flatten_nn stages r (fun s hm => (hs s hm).2) hr⟩⟩
  rw [h]
  cases flatten stages with
  | error e => rfl
  | ok r => simp only [Except.map, native_eraseSN]

example : ∀ s, s ∈ [c15fA, c15fB] → FlagsConsistent s = true ∧ NN s = true := by
  intro s hs
  simp only [List.mem_cons, List.not_mem_nil, or_false] at hs
  rcases hs with rfl | rfl <;> decide
example : (flatten [c15fA, c15fB]).toBool = true := by decide

/-- `{x: !notnew {}}`, `{x: {y: 1}}`, `{w: !prev x}` as loaded stages -/
def c15fW : List Node :=
  [.comp {} .dict [(.str "x", .comp { new := some false } .dict [])],
   .comp {} .dict [(.str "x", .comp {} .dict [(.str "y", .leaf {} (.scalar (.int 1)))])],
   .comp {} .dict [(.str "w", .leaf {} (.prev "x"))]]

/- The domain of the two theorems above is "no `allow_new = False`, explicit or inherited" (`NN`), not
   merely "every node is effectively allow-new" (`allNew`: `ayns.allow_new` is true everywhere, the
   condition `_require_all_new` tests): the weaker condition is NOT preserved by the fold.  Witness
   (loader output, consistent, `allNew` on every stage): `{x: !notnew {}}`, `{x: {y: 1}}`,
   `{w: !prev x}` — the first merge adopts `y` below the `!notnew` mapping (`implicit_allow_new =
   False` is written into it; nothing is checked, `_require_all_new` only looks at the NEWER side),
   `!prev` then moves that subtree into the third stage, where it is new under `w`: MergeError
   (not-new at `w.y`), whereas with the flags erased the build succeeds.  `!notnew` is outside the
   clause ("!unsafe or !new"), so this is a limit of the domain, not a violation. -/
theorem C15_flag_neutral_domain_witness :
    (∀ s, s ∈ c15fW → FlagsConsistent s = true ∧ allNew s = true) ∧
    (∃ s, s ∈ c15fW ∧ NN s = false) ∧
    flatten c15fW = .error (.notnew [.str "w", .str "y"]) ∧
    (flatten (c15fW.map eraseSN)).map native =
      .ok (.dict [(.str "w", .dict [(.str "y", .scalar (.int 1))])]) := by
  refine ⟨?_, ⟨_, List.mem_cons_self, by decide⟩, by rfl, by rfl⟩
  intro s hs
  simp only [c15fW, List.mem_cons, List.not_mem_nil, or_false] at hs
  rcases hs with rfl | rfl | rfl <;> decide

-- the three stages are what the loader produces from the three documents
example : (constructDocs [(({} : Env), .map .none {} [(.str "x", .map .plain { new := some false } [])]),
    ({}, .map .none {} [(.str "x", .map .none {} [(.str "y", c15fInt 1)])]),
    ({}, .map .none {} [(.str "w", .scalar .prev {} (.text "x"))])]).map (List.map native) =
    .ok (c15fW.map native) := by rfl

/-! ### The loader -/

/- Erasing the `!unsafe` / `!new` marks in the DOCUMENT (`Raw.eraseSN`: the `safe` keyword and a
   `new = True` keyword of every tag; the source's file-level safety default is erased by
   `Env.eraseSN`) is erasing `safe` / `allow_new` on the loaded TREE — for every tag of the model
   (merge-control tags, `!xref`, `!prev`, `!eval`, `!call`, `!bind`, `!append`, `!path`, …), top-down
   and bottom-up construction, provided no tag is `!notnew` (`Raw.nn`).  The loaded tree is
   consistent (C19) and `!notnew`-free. -/
theorem C15_construct_erase (env : Env) (r : Raw) (h : r.nn = true) :
    construct env.eraseSN r.eraseSN = (construct env r).map eraseSN ∧
    (∀ n, construct env r = .ok n → FlagsConsistent n = true ∧ NN n = true) :=
  ⟨construct_eraseSN env r h, fun n hn => ⟨construct_cons env r n hn, construct_nn env r n h hn⟩⟩

example : c15fDoc1.nn = true ∧ c15fDoc2.nn = true ∧ (construct {} c15fDoc1).toBool = true ∧
    (construct { dSafe := false } c15fDoc2).toBool = true := by decide
-- erasing the marks of the example documents gives the unmarked documents
example : c15fDoc1.eraseSN = c15fDoc1' ∧ c15fDoc2.eraseSN = c15fDoc2' := ⟨rfl, rfl⟩

/-! ### Headline -/

/-- a source with its `!unsafe` / `!new` marks and its file-level safety default erased -/
def eraseDoc (d : Env × Raw) : Env × Raw := (d.1.eraseSN, d.2.eraseSN)

theorem constructDocs_eraseSN : ∀ (docs : List (Env × Raw)), (∀ d, d ∈ docs → d.2.nn = true) →
    constructDocs (docs.map eraseDoc) = (constructDocs docs).map (List.map eraseSN) ∧
    (∀ ns, constructDocs docs = .ok ns → ∀ s, s ∈ ns → FlagsConsistent s = true ∧ NN s = true)
  | [], _ => ⟨rfl, fun ns h s hs => by simp only [constructDocs, Except.ok.injEq] at h; subst h; cases hs⟩
  | (env, r) :: rest, h => by
    have hr := h (env, r) (List.mem_cons_self)
    have ih := constructDocs_eraseSN rest (fun d hd => h d (List.mem_cons_of_mem _ hd))
    have hc := C15_construct_erase env r hr
    simp only [List.map_cons, eraseDoc, constructDocs, hc.1, ih.1]
    cases hn : construct env r with
    | error e => exact ⟨rfl, fun ns h' => by cases h'⟩
    | ok n =>
      cases hns : constructDocs rest with
      | error e => exact ⟨rfl, fun ns h' => by cases h'⟩
      | ok ns =>
        refine ⟨rfl, fun ns' h' s hs => ?_⟩
        simp only [Except.ok.injEq] at h'
        subst h'
        rcases List.mem_cons.1 hs with rfl | hs
        · exact hc.2 _ hn
        · exact ih.2 ns hns s hs

/- "Marking any node of any document !unsafe or !new does not change the merged data" — end to end.
   Parse and merge (`c15Flatten`: `yaml.parse` of every source, then `Builder.flatten`) a sequence of
   `!notnew`-free documents: erasing every `!unsafe` / `!new` mark (and the file-level safety
   defaults) gives the erased result, or the same error.  Consequently two sequences of documents
   that differ only in such marks — position by position the same document once the marks are
   erased — build the same data, or fail with the same error. -/
theorem C15_marks_do_not_change_data (docs docs' : List (Env × Raw))
    (h : ∀ d, d ∈ docs → d.2.nn = true) (h' : ∀ d, d ∈ docs' → d.2.nn = true)
    (he : docs.map eraseDoc = docs'.map eraseDoc) :
    c15Flatten (docs.map eraseDoc) = (c15Flatten docs).map eraseSN ∧
    (c15Flatten docs).map native = (c15Flatten docs').map native := by
  have key : ∀ (ds : List (Env × Raw)), (∀ d, d ∈ ds → d.2.nn = true) →
      c15Flatten (ds.map eraseDoc) = (c15Flatten ds).map eraseSN := by
    intro ds hd
    have hc := constructDocs_eraseSN ds hd
    simp only [c15Flatten, hc.1]
    cases hns : constructDocs ds with
    | error e => rfl
    | ok ns => simp only [Except.map]; exact (C15_flag_neutral_flatten ns (hc.2 ns hns)).1
  have nat : ∀ (x : Except Err Node), (x.map eraseSN).map native = x.map native := by
    intro x
    cases x with
    | error e => rfl
    | ok r => simp only [Except.map, native_eraseSN]
  refine ⟨key docs h, ?_⟩
  rw [← nat (c15Flatten docs), ← nat (c15Flatten docs'), ← key docs h, ← key docs' h', he]

example : (∀ d, d ∈ [(({} : Env), c15fDoc1), ({ dSafe := false }, c15fDoc2)] → d.2.nn = true) ∧
    (∀ d, d ∈ [(({} : Env), c15fDoc1'), ({}, c15fDoc2')] → d.2.nn = true) ∧
    [(({} : Env), c15fDoc1), ({ dSafe := false }, c15fDoc2)].map eraseDoc =
      [(({} : Env), c15fDoc1'), ({}, c15fDoc2')].map eraseDoc := by
  refine ⟨?_, ?_, rfl⟩ <;>
  · intro d hd
    simp only [List.mem_cons, List.not_mem_nil, or_false] at hd
    rcases hd with rfl | rfl <;> decide
-- the marked sequence builds successfully; its data (`a: {p: 1, q: [7], r: {s: 1}}, b: 5, c: {e: 2}`)
example : ((c15Flatten [(({} : Env), c15fDoc1), ({ dSafe := false }, c15fDoc2)]).map native).toBool = true := by
  decide

/-! ### Permuting the keys of mappings, on the model -/

/-- `{b: {y: 2, x: [1, {p: 1, q: 2}]}, a: 1}` / `{b: {y: {q: 3, p: [4]}, z: ~}, c: {k: 1}}` and the same
    two documents with the items of every mapping permuted -/
def c15pDoc1 : Raw := .map .none {} [
  (.str "b", .map .none {} [(.str "y", c15fInt 2),
    (.str "x", .seq .none {} [c15fInt 1, .map .none {} [(.str "p", c15fInt 1), (.str "q", c15fInt 2)]])]),
  (.str "a", c15fInt 1)]
def c15pDoc1' : Raw := .map .none {} [
  (.str "a", c15fInt 1),
  (.str "b", .map .none {} [
    (.str "x", .seq .none {} [c15fInt 1, .map .none {} [(.str "q", c15fInt 2), (.str "p", c15fInt 1)]]),
    (.str "y", c15fInt 2)])]
def c15pDoc2 : Raw := .map .none {} [
  (.str "b", .map .none {} [(.str "y", .map .none {} [(.str "q", c15fInt 3), (.str "p", .seq .none {} [c15fInt 4])]),
    (.str "z", .scalar .none {} .empty)]),
  (.str "c", .map .none {} [(.str "k", c15fInt 1)])]
def c15pDoc2' : Raw := .map .none {} [
  (.str "c", .map .none {} [(.str "k", c15fInt 1)]),
  (.str "b", .map .none {} [(.str "z", .scalar .none {} .empty),
    (.str "y", .map .none {} [(.str "p", .seq .none {} [c15fInt 4]), (.str "q", c15fInt 3)])])]

/- "permuting the order of keys inside any mapping changes at most the order of keys in the result" —
   on the model, PARTIAL: for tag-free mapping documents (through `C02_plain_fold`) and, as in
   `C15_key_permutation_spec_partial`, no integer keys in any document after the first (with integer
   keys aliasing a list position the order of the keys decides the value, also on the real code:
   `C15_key_permutation_spec_counterexample`).  Two sequences of documents that are position by
   position the same data up to the order of the items inside every mapping, at any depth
   (`Plain.PermEq` of the loaded data): both are parsed; if the first builds data `r`, the second builds
   some `r'` with `r ~ r'` (equal up to the order of keys inside mappings); with the integer-key
   hypothesis on both sequences they succeed or fail together. -/
theorem C15_key_permutation_plain (docs docs' : List (Env × Raw)) (hne : docs ≠ [])
    (h : ∀ d, d ∈ docs → rawPlain d.2 = true) (h' : ∀ d, d ∈ docs' → rawPlain d.2 = true)
    (hp : listRel Plain.PermEq (docs.map (fun d => plainOfRaw d.2)) (docs'.map (fun d => plainOfRaw d.2)))
    (hq : allNoIntKeys (docs.map (fun d => plainOfRaw d.2)).tail = true) :
    ∃ ns ns', constructDocs docs = .ok ns ∧ constructDocs docs' = .ok ns' ∧
      (∀ r, (flatten ns).map native = .ok r → ∃ r', (flatten ns').map native = .ok r' ∧ r.PermEq r') ∧
      (allNoIntKeys (docs'.map (fun d => plainOfRaw d.2)).tail = true →
        ((flatten ns).map native).toBool = ((flatten ns').map native).toBool) := by
  have hne' : docs' ≠ [] := by
    intro e; subst e
    cases docs with
    | nil => exact hne rfl
    | cons d ds => exact hp.elim
  obtain ⟨ns, e1, f1⟩ := C02_plain_fold docs hne h
  obtain ⟨ns', e2, f2⟩ := C02_plain_fold docs' hne' h'
  refine ⟨ns, ns', e1, e2, ?_, ?_⟩
  · intro r hr
    rw [f1] at hr
    rw [f2]
    exact foldUpd_perm hp hq hr
  · intro hq'
    rw [f1, f2]
    exact foldUpd_perm_toBool hp hq hq'

example : [(({} : Env), c15pDoc1), ({}, c15pDoc2)] ≠ [] ∧
    (∀ d, d ∈ [(({} : Env), c15pDoc1), ({}, c15pDoc2)] → rawPlain d.2 = true) ∧
    (∀ d, d ∈ [(({} : Env), c15pDoc1'), ({}, c15pDoc2')] → rawPlain d.2 = true) ∧
    allNoIntKeys ([(({} : Env), c15pDoc1), ({}, c15pDoc2)].map (fun d => plainOfRaw d.2)).tail = true ∧
    allNoIntKeys ([(({} : Env), c15pDoc1'), ({}, c15pDoc2')].map (fun d => plainOfRaw d.2)).tail = true := by
  refine ⟨by simp, ?_, ?_, by decide, by decide⟩ <;>
  · intro d hd
    simp only [List.mem_cons, List.not_mem_nil, or_false] at hd
    rcases hd with rfl | rfl <;> decide
example : listRel Plain.PermEq ([(({} : Env), c15pDoc1), ({}, c15pDoc2)].map (fun d => plainOfRaw d.2))
    ([(({} : Env), c15pDoc1'), ({}, c15pDoc2')].map (fun d => plainOfRaw d.2)) :=
  ⟨PermEq_of_B 6 (by decide), PermEq_of_B 6 (by decide), trivial⟩
-- the two sequences build successfully, and the key ORDER of the results really differs (`b` first / `a` first)
example : (c15Build [c15pDoc1, c15pDoc2]).toBool = true ∧ (c15Build [c15pDoc1', c15pDoc2']).toBool = true ∧
    (match c15Build [c15pDoc1, c15pDoc2], c15Build [c15pDoc1', c15pDoc2'] with
      | .ok (.dict ((k, _) :: _)), .ok (.dict ((k', _) :: _)) => k != k'
      | _, _ => false) = true := by
  decide

end AY
