import AY.Spec.Plain
namespace AY
theorem C04_placeholder : foldUpd [] = .error .value := rfl
end AY
