/-
  C04 — "!del / list replacement is exact; !merge makes it element-wise; !clear empties".

  Statement (properties.jsonl): When the newer document's node at a path is deleting (tagged !del,
  or a list, which deletes by default) and is not outranked, the merged content at that path is
  exactly the newer node's content: every older entry is gone except those explicitly protected by
  a strictly higher priority, at any depth. Tagging it !merge instead makes mappings and lists
  combine key-wise / index-wise, a value-less !del removes the key, and !clear leaves an empty
  container of the original kind.

  The theorems are about `compMerge` / `mergeStep` / `mergeLoop` / `mergeF` / `merge`
  (AY.Model.Merge), `premergeF` (AY.Model.Build) and, for the end-to-end examples and the known
  finding D18, `construct` + `flatten`.  Auxiliary definitions (AY/Lemmas/C04Filter.lean,
  C04Merge.lean): `wfKeys` (list children numbered 0..n-1, hereditarily), `noneKeptList` (the
  `maybe_keep` condition fails for every node strictly below), `prioLe b` / `prioGe b` (every
  effective priority of a tree is ≤ b / ≥ b), `keptChildren` (what `filter_nodes` leaves in a
  mapping), `stepRemoves` (the loop body ends in `remove_child`), `noExplicitDel`, `newKeys`.
-/
import AY.Lemmas.C04Protect
import AY.Lemmas.C04List
import AY.Lemmas.C02Fold
namespace AY

/-! ### Concrete inputs used by the non-vacuity examples -/

/-- children of `{p: 1, q: {z: 2}}` -/
def c04Scs : List (Key × Node) :=
  [(.str "p", .leaf {} (.scalar (.int 1))),
   (.str "q", .comp {} .dict [(.str "z", .leaf {} (.scalar (.int 2)))])]

/-- children of `{p: !force 1, q: {z: 2, y: !force 3}, r: [4]}` -/
def c04Pcs : List (Key × Node) :=
  [(.str "p", .leaf { prio := some 1 } (.scalar (.int 1))),
   (.str "q", .comp {} .dict [(.str "z", .leaf {} (.scalar (.int 2))),
                              (.str "y", .leaf { prio := some 1 } (.scalar (.int 3)))]),
   (.str "r", .comp {} .list [(.int 0, .leaf { iDel := some true } (.scalar (.int 4)))])]

/-- `!del {q: {w: 3}, n: [5]}` as the loader builds it -/
def c04O : Node :=
  .comp { del := some true } .dict
    [(.str "q", .comp { iDel := some true } .dict [(.str "w", .leaf { iDel := some true } (.scalar (.int 3)))]),
     (.str "n", .comp { iDel := some true } .list [(.int 0, .leaf { iDel := some true } (.scalar (.int 5)))])]

/-- `!merge {q: {w: 1}, n: 2}` -/
def c04M : Node :=
  .comp { del := some false } .dict
    [(.str "q", .comp { iDel := some false } .dict [(.str "w", .leaf { iDel := some false } (.scalar (.int 1)))]),
     (.str "n", .leaf { iDel := some false } (.scalar (.int 2)))]

def c04Int (i : Int) : Raw := .scalar .none {} (.lit (.int i))

/-- parse each document and fold them with `Builder.flatten` -/
def c04Build (docs : List Raw) : Except Err Plain :=
  match constructDocs (docs.map (fun r => (({} : Env), r))) with
  | .error e => .error e
  | .ok ns => (flatten ns).map native

/-! ### !clear -/

/- "!clear leaves an empty container of the original kind": the pre-merge pass of a `!clear` leaf
   found at `path` of the stage, with the accumulated tree `root` holding a container there,
   returns that container with the same flags, the same class and no children (not the same
   object as the leaf), and empties it in place in the accumulated tree. -/
theorem C04_clear_empties_same_kind (fuel : Nat) (f : Flags) (path : Path) (root : Node)
    (cf : Flags) (ck : CompKind) (cs : List (Key × Node))
    (h : getNode root path = some (.comp cf ck cs)) :
    premergeF (fuel + 1) (.leaf f .clear) path (some root) =
        .ok (.comp cf ck [], false, some (setNodeAt root path (.comp cf ck []))) ∧
      getNode (setNodeAt root path (.comp cf ck [])) path = some (.comp cf ck []) ∧
      native (.comp cf ck []) = (if ck.isDictFam then .dict [] else .list []) := by
  refine ⟨by simp only [premergeF, h], c04_getNode_setNodeAt _ path root _ h, ?_⟩
  cases hk : ck.isDictFam <;> simp [native, hk, nativeList, nativeVals]

example : getNode (.comp {} .dict [(.str "a", .comp {} .dict c04Pcs)]) [.str "a", .str "r"] =
    some (.comp {} .list [(.int 0, .leaf { iDel := some true } (.scalar (.int 4)))]) := rfl
-- end to end: `{a: {p: 1, q: {z: 2}}}` ← `{a: {q: !clear}}` gives `{a: {p: 1, q: {}}}`
example : c04Build [.map .none {} [(.str "a", .map .none {} [(.str "p", c04Int 1),
      (.str "q", .map .none {} [(.str "z", c04Int 2)])])],
    .map .none {} [(.str "a", .map .none {} [(.str "q", .scalar .clear {} .empty)])]] =
    .ok (.dict [(.str "a", .dict [(.str "p", .scalar (.int 1)), (.str "q", .dict [])])]) := rfl

/- "!clear …": there is nothing to empty — the path is missing in the accumulated tree, addresses
   a leaf, or there is no accumulated tree yet (first stage): PremergeError. -/
theorem C04_clear_error (fuel : Nat) (f : Flags) (path : Path) :
    (∀ root, getNode root path = none →
      premergeF (fuel + 1) (.leaf f .clear) path (some root) = .error .premerge) ∧
    (∀ root lf lk, getNode root path = some (.leaf lf lk) →
      premergeF (fuel + 1) (.leaf f .clear) path (some root) = .error .premerge) ∧
    premergeF (fuel + 1) (.leaf f .clear) path none = .error .premerge := by
  refine ⟨?_, ?_, rfl⟩
  · intro root h; simp only [premergeF, h]
  · intro root lf lk h; simp only [premergeF, h]

example : getNode (.comp {} .dict c04Pcs) [.str "zz"] = none := rfl
example : getNode (.comp {} .dict c04Pcs) [.str "p"] = some (.leaf { prio := some 1 } (.scalar (.int 1))) := rfl

/-! ### a deleting node replaces exactly -/

/- "When the newer document's node at a path is deleting … and is not outranked, the merged content
   at that path is exactly the newer node's content: every older entry is gone": for ANY composed
   `self` (well-numbered lists below it) and ANY deleting composed `other` that has priority over
   `self`, if no node strictly below `self` outranks its deepest existing counterpart in `other`
   (`maybe_keep` fails everywhere) and nothing below `other` is `!notnew`, the merge takes the
   early exit: `other` (flags: `_replace_other` with `self`'s) is promoted against the EMPTIED
   `self`, its inherited flags are handed down to its children again (`propagate`), and the result
   is not the `self` object.  `rec` (the recursive merge) is never called. -/
theorem C04_del_exact (rec : Node → Node → Except Err (Node × Bool)) (sf of : Flags)
    (sk ok : CompKind) (scs ocs : List (Key × Node))
    (hwf : wfKeys (.comp sf sk scs) = true)
    (hdel : eDel (.comp of ok ocs) = true)
    (hprio : hasPrio of sf true = true)
    (hnone : noneKeptList (maybeKeep (.comp of ok ocs)) [] scs = true)
    (hnew : reqNewList [] [] ocs = none) :
    compMerge rec sf sk scs (.comp of ok ocs) =
      match maybePromote (replaceOtherFlags of sf) ok ocs (.comp sf sk []) with
      | .error e => .error e
      | .ok (res, same) => .ok (propagate res, !same) := by
  rw [c04_compMerge_del_emptied rec hdel hprio (c04_filterNode_noneKept_comp _ [] hwf hnone),
    c04_reqNew_root_excepted _ hnew]
  rfl

example : wfKeys (.comp {} .dict c04Scs) = true ∧ eDel c04O = true ∧
    hasPrio c04O.flags ({} : Flags) true = true ∧
    noneKeptList (maybeKeep c04O) [] c04Scs = true ∧ reqNewList [] [] c04O.children = none := by decide

/- "… the merged content at that path is exactly the newer node's content" for a plain mapping or
   list `self` (and in general whenever the two classes coincide): the result IS `other` with the
   flags `_replace_other` and its inherited flags re-propagated into its children — same class,
   same children up to those inherited flags, hence the same data. -/
theorem C04_del_exact_plain (rec : Node → Node → Except Err (Node × Bool)) (sf of : Flags)
    (sk ok : CompKind) (scs ocs : List (Key × Node))
    (hsk : sk = .dict ∨ sk = .list ∨ ok.sameClass sk = true)
    (hwf : wfKeys (.comp sf sk scs) = true)
    (hdel : eDel (.comp of ok ocs) = true)
    (hprio : hasPrio of sf true = true)
    (hnone : noneKeptList (maybeKeep (.comp of ok ocs)) [] scs = true)
    (hnew : reqNewList [] [] ocs = none) :
    compMerge rec sf sk scs (.comp of ok ocs) =
        .ok (propagate (.comp (replaceOtherFlags of sf) ok ocs), false) ∧
      native (propagate (.comp (replaceOtherFlags of sf) ok ocs)) = native (.comp of ok ocs) := by
  refine ⟨?_, by rw [nativeOf_propagate]; exact native_comp_flags _ _ _ _⟩
  rw [C04_del_exact rec sf of sk ok scs ocs hwf hdel hprio hnone hnew]
  rcases hsk with h | h | h
  · rw [c04_maybePromote_emptied_plain _ _ _ _ _ (.inl h)]; rfl
  · rw [c04_maybePromote_emptied_plain _ _ _ _ _ (.inr h)]; rfl
  · rw [c04_maybePromote_emptied_same _ _ _ _ _ h]; rfl

example := C04_del_exact_plain (mergeF 0) {} c04O.flags .dict .dict c04Scs c04O.children
  (.inl rfl) (by decide) (by decide) (by decide) (by decide) (by decide)

/- "… and is not outranked": a decidable sufficient condition — a bound `b` with every effective
   priority of `self` ≤ b ≤ every effective priority of `other` (e.g. no priority tag anywhere) —
   discharges both priority hypotheses.  With it the full dispatching merge `mergeF` of a plain
   mapping or list `self` with a deleting `other` is `other` with the flags `_replace_other`
   (for a list `self` the pre-filter `keep_if_exists` of ConfigList keeps all of `other`). -/
theorem C04_del_exact_prio (fuel : Nat) (b : Int) (sf of : Flags) (sk ok : CompKind)
    (scs ocs : List (Key × Node))
    (hsk : sk = .dict ∨ sk = .list)
    (hwf : wfKeys (.comp sf sk scs) = true)
    (hdel : eDel (.comp of ok ocs) = true)
    (hle : prioLe b (.comp sf sk scs) = true) (hge : prioGe b (.comp of ok ocs) = true)
    (hnew : reqNewList [] [] ocs = none) :
    mergeF (fuel + 1) (.comp sf sk scs) (.comp of ok ocs) =
        .ok (propagate (.comp (replaceOtherFlags of sf) ok ocs), false) ∧
      merge (.comp sf sk scs) (.comp of ok ocs) =
        .ok (propagate (.comp (replaceOtherFlags of sf) ok ocs)) := by
  have hle' : ePrio sf ≤ b ∧ prioLeList b scs = true := by simpa [prioLe] using hle
  have hge' : b ≤ ePrio of ∧ prioGeList b ocs = true := by simpa [prioGe] using hge
  have hprio : hasPrio of sf true = true := c04_hasPrio_true_of_ge (by omega)
  have hnone := c04_noneKeptList_of_prio hge [] scs hle'.2
  have main : ∀ rec, compMerge rec sf sk scs (.comp of ok ocs) =
      .ok (propagate (.comp (replaceOtherFlags of sf) ok ocs), false) := fun rec =>
    (C04_del_exact_plain rec sf of sk ok scs ocs
      (hsk.elim .inl (fun h => .inr (.inl h))) hwf hdel hprio hnone hnew).1
  have hm : ∀ n, mergeF (n + 1) (.comp sf sk scs) (.comp of ok ocs) =
      .ok (propagate (.comp (replaceOtherFlags of sf) ok ocs), false) := by
    intro n
    rcases hsk with h | h
    · subst h; exact main _
    · subst h
      have hall : allKept (keepIfExists (.comp sf .list scs)) [] (.comp of ok ocs) = true :=
        c04_allKept_of_prio hle [] _ hge
      simp only [mergeF, listMerge, hdel, Bool.not_true, Bool.and_false, Bool.false_and,
        Bool.false_eq_true, if_false, c04_filterNode_allKept _ [] _ hall]
      exact main _
  refine ⟨hm fuel, ?_⟩
  simp only [merge, hm]

-- `{p: 1, q: {z: 2}}` ← `!del {q: {w: 3}, n: [5]}`: no priority tag anywhere, bound 0
example := C04_del_exact_prio 0 0 {} c04O.flags .dict .dict c04Scs c04O.children
  (.inl rfl) (by decide) (by decide) (by decide) (by decide) (by decide)
-- end to end: `{a: {p: 1, q: {z: 2}}}` ← `{a: !del {q: 3}}` gives `{a: {q: 3}}`;
-- a list replaces a mapping wholesale: ← `{a: [7]}` gives `{a: [7]}`
example : c04Build [.map .none {} [(.str "a", .map .none {} [(.str "p", c04Int 1),
      (.str "q", .map .none {} [(.str "z", c04Int 2)])])],
    .map .none {} [(.str "a", .map .plain { del := some true } [(.str "q", c04Int 3)])]] =
    .ok (.dict [(.str "a", .dict [(.str "q", .scalar (.int 3))])]) := rfl
example : c04Build [.map .none {} [(.str "a", .map .none {} [(.str "p", c04Int 1)])],
    .map .none {} [(.str "a", .seq .none {} [c04Int 7])]] =
    .ok (.dict [(.str "a", .list [.scalar (.int 7)])]) := rfl

/- "… (a nested !new re-allows creation)": the only way the early exit fails is `allow_new`: when
   some node below `other` is `!notnew` and its path is not among the removed ones, the merge is a
   MergeError naming the first such path. -/
theorem C04_del_exact_notnew (rec : Node → Node → Except Err (Node × Bool)) (sf of : Flags)
    (sk ok : CompKind) (scs ocs : List (Key × Node)) (p : Path)
    (hwf : wfKeys (.comp sf sk scs) = true)
    (hdel : eDel (.comp of ok ocs) = true)
    (hprio : hasPrio of sf true = true)
    (hnone : noneKeptList (maybeKeep (.comp of ok ocs)) [] scs = true)
    (hnew : reqNew ([] :: (filterNode (maybeKeep (.comp of ok ocs)) [] (.comp sf sk scs)).2) []
      (.comp of ok ocs) = some p) :
    compMerge rec sf sk scs (.comp of ok ocs) = .error (.notnew p) := by
  rw [c04_compMerge_del_emptied rec hdel hprio (c04_filterNode_noneKept_comp _ [] hwf hnone), hnew]

-- `{p: 1}` ← `!del {n: !notnew 2}`: the new key `n` is refused
example : reqNew ([] :: (filterNode (maybeKeep (.comp { del := some true } .dict
      [(.str "n", .leaf { iNew := some false } (.scalar (.int 2)))])) []
      (.comp {} .dict [(.str "p", .leaf {} (.scalar (.int 1)))])).2) []
    (.comp { del := some true } .dict [(.str "n", .leaf { iNew := some false } (.scalar (.int 2)))]) =
    some [.str "n"] := by decide

/-! ### protected entries survive -/

/- "every older entry is gone except those explicitly protected by a strictly higher priority, at
   any depth": for a mapping `self` with distinct keys and a deleting `other`, `filter_nodes`
   leaves exactly `keptChildren (maybe_keep)`; when something survives (or `other` does not have
   priority) the merge continues with the ordinary key loop over the survivors only (the removed
   paths are the `exceptions` of `_require_all_new` for the keys that have to be created). -/
theorem C04_del_protected_dict (rec : Node → Node → Except Err (Node × Bool)) (sf of : Flags)
    (sk ok : CompKind) (scs ocs : List (Key × Node))
    (hdel : eDel (.comp of ok ocs) = true) (hsk : sk.isDictFam = true) (hn : keysNodup scs = true)
    (hkept : keptChildren (maybeKeep (.comp of ok ocs)) [] scs ≠ [] ∨ hasPrio of sf true = false) :
    (filterNode (maybeKeep (.comp of ok ocs)) [] (.comp sf sk scs)).1 =
        .comp sf sk (keptChildren (maybeKeep (.comp of ok ocs)) [] scs) ∧
    compMerge rec sf sk scs (.comp of ok ocs) =
      match mergeLoop rec sf sk (filterNode (maybeKeep (.comp of ok ocs)) [] (.comp sf sk scs)).2
          (keptChildren (maybeKeep (.comp of ok ocs)) [] scs) ocs with
      | .error e => .error e
      | .ok scs' => finishMerge sf sk scs' (.comp of ok ocs) := by
  refine ⟨c04_filterNode_dict_kept _ _ sf sk scs hsk hn, ?_⟩
  rw [c04_compMerge_del_dict rec hdel hsk hn]
  have : ((keptChildren (maybeKeep (.comp of ok ocs)) [] scs).isEmpty && hasPrio of sf true) = false := by
    rcases hkept with h | h
    · cases hc : keptChildren (maybeKeep (.comp of ok ocs)) [] scs with
      | nil => exact absurd hc h
      | cons a r => rfl
    · simp [h]
  rw [this]
  rfl

example : keysNodup c04Pcs = true ∧ keptChildren (maybeKeep c04O) [] c04Pcs ≠ [] := by decide
-- `{p: !force 1, q: {z: 2, y: !force 3}, r: [4]}` ← `!del {q: {w: 3}, n: [5]}`: `p` survives, `q.y`
-- protects `q` (which loses `z`), `r` goes
example : akeys (keptChildren (maybeKeep c04O) [] c04Pcs) = [.str "p", .str "q"] := by decide
example : ((mergeF 3 (.comp {} .dict c04Pcs) c04O).map (fun r => native r.1)) =
    .ok (.dict [(.str "p", .scalar (.int 1)),
      (.str "q", .dict [(.str "y", .scalar (.int 3)), (.str "w", .scalar (.int 3))]),
      (.str "n", .list [.scalar (.int 5)])]) := rfl

/- "… except those explicitly protected by a strictly higher priority, at any depth" — the kept
   key set of one level: a key of `self` survives iff its child itself outranks its deepest
   existing counterpart in `other` (`maybe_keep`), or the child is a container in which something
   survives (recursively the same criterion). -/
theorem C04_del_protected_keys (o : Node) (scs : List (Key × Node)) (hn : keysNodup scs = true) (k : Key) :
    k ∈ akeys (keptChildren (maybeKeep o) [] scs) ↔
      ∃ c, alookup k scs = some c ∧
        (maybeKeep o [k] c = true ∨
          (c.isComp = true ∧ (filterNode (maybeKeep o) [k] c).1.children ≠ [])) := by
  simpa using c04_mem_akeys_keptChildren (maybeKeep o) [] k scs hn

example : maybeKeep c04O [.str "p"] (.leaf { prio := some 1 } (.scalar (.int 1))) = true := by decide
example : maybeKeep c04O [.str "q"] (.comp {} .dict []) = false := by decide

/- "… protected by a strictly higher priority, at any depth": for a child `c` made of mappings with
   distinct keys, something of `c` survives the filter iff some node strictly below `c` (at an
   existing path `k :: q` of `self`) has an effective priority STRICTLY above that of its deepest
   existing counterpart in `other` (`get_first_not_missing_node`). -/
theorem C04_del_protected_any_depth (o : Node) (k : Key) (c : Node) (hd : dictTree c = true) :
    (filterNode (maybeKeep o) [k] c).1.children ≠ [] ↔
      ∃ q m, q ≠ [] ∧ getNode c q = some m ∧
        ePrio (firstNotMissing o (k :: q)).flags < ePrio m.flags := by
  rw [c04_filter_nonempty_iff (maybeKeep o) [k] c hd]
  have hk : ∀ (p : Path) (m : Node), maybeKeep o p m = true ↔
      ePrio (firstNotMissing o p).flags < ePrio m.flags := by
    intro p m
    simp only [maybeKeep, hasPrio]
    split
    · rename_i he; simp [he]
    · simp
  constructor
  · rintro ⟨q, m, hq, hg, hc⟩
    exact ⟨q, m, hq, hg, (hk _ m).1 (by simpa using hc)⟩
  · rintro ⟨q, m, hq, hg, hc⟩
    exact ⟨q, m, hq, hg, by simpa using (hk _ m).2 hc⟩

example : dictTree (.comp {} .dict [(.str "z", .leaf {} (.scalar (.int 2))),
    (.str "y", .leaf { prio := some 1 } (.scalar (.int 3)))]) = true := by decide
example : getNode (.comp {} .dict [(.str "z", .leaf {} (.scalar (.int 2))),
    (.str "y", .leaf { prio := some 1 } (.scalar (.int 3)))]) [.str "y"] =
    some (.leaf { prio := some 1 } (.scalar (.int 3))) := rfl
example : ePrio (firstNotMissing c04O [.str "q", .str "y"]).flags < ePrio ({ prio := some 1 } : Flags) := by
  decide

/- "… at any depth": conversely nothing survives in a subtree none of whose nodes outranks its
   counterpart — the filtered container is empty (any classes, well-numbered lists). -/
theorem C04_del_unprotected_emptied (o : Node) (pre : Path) (f : Flags) (k : CompKind)
    (cs : List (Key × Node)) (hwf : wfKeys (.comp f k cs) = true)
    (hnone : noneKeptList (maybeKeep o) pre cs = true) :
    (filterNode (maybeKeep o) pre (.comp f k cs)).1 = .comp f k [] :=
  c04_filterNode_noneKept_comp _ pre hwf hnone

example : noneKeptList (maybeKeep c04O) [.str "r"] [(.int 0, .leaf { iDel := some true } (.scalar (.int 4)))] = true := by
  decide

/-! ### !merge: key-wise -/

/- "Tagging it !merge instead makes mappings and lists combine key-wise / index-wise": a
   non-deleting composed `other` never filters `self`; the merge is the key loop over ALL children
   of `self` followed by the flag/class bookkeeping of `finishMerge`. -/
theorem C04_merge_keywise (rec : Node → Node → Except Err (Node × Bool)) (sf of : Flags)
    (sk ok : CompKind) (scs ocs : List (Key × Node)) (hlive : eDel (.comp of ok ocs) = false) :
    compMerge rec sf sk scs (.comp of ok ocs) =
      match mergeLoop rec sf sk [] scs ocs with
      | .error e => .error e
      | .ok scs' => finishMerge sf sk scs' (.comp of ok ocs) := by
  simp only [compMerge, hlive, Bool.false_eq_true, if_false]
  rfl

example : eDel c04M = false := by decide

/- "… combine key-wise" — the precise effect of one loop iteration on the key list of a mapping:
   the key is removed exactly when the iteration ends in `remove_child` (`stepRemoves`: an
   explicitly deleted container that came out empty and is not outranked, or an explicit `!del`
   falsy leaf replacing a leaf), a missing key is appended at the end, anything else leaves the
   key list (and the position of the key) unchanged. -/
theorem C04_merge_step_keys (rec : Node → Node → Except Err (Node × Bool)) (sf : Flags) (sk : CompKind)
    (exc : List Path) (hsk : sk.isDictFam = true) (acc acc' : List (Key × Node)) (kv : Key × Node)
    (h : mergeStep rec sf sk exc acc kv = .ok acc') :
    akeys acc' =
      if stepRemoves rec sk acc kv then (akeys acc).erase kv.1
      else if kv.1 ∈ akeys acc then akeys acc else akeys acc ++ [kv.1] :=
  c04_mergeStep_keys rec hsk h

example : ∃ acc', mergeStep (mergeF 2) {} .dict [] c04Scs (.str "n", .leaf {} (.scalar (.int 2))) = .ok acc' :=
  ⟨_, rfl⟩

/- "… combine key-wise": mapping ⊕ non-deleting mapping whose values carry no explicit `!del` (so
   no iteration removes a key): on success the result is the `self` object and its keys are the
   keys of `self` in their order followed by the new keys of `other` in their order (`newKeys`:
   those not yet present, once each). -/
theorem C04_merge_keys (fuel : Nat) (sf of : Flags) (scs ocs : List (Key × Node)) (r : Node) (s : Bool)
    (hlive : eDel (.comp of .dict ocs) = false) (hnd : noExplicitDel ocs = true)
    (h : mergeF (fuel + 1) (.comp sf .dict scs) (.comp of .dict ocs) = .ok (r, s)) :
    akeys r.children = akeys scs ++ newKeys (akeys scs) (akeys ocs) ∧ s = true := by
  simp only [mergeF] at h
  rw [C04_merge_keywise _ sf of .dict .dict scs ocs hlive] at h
  cases hl : mergeLoop (mergeF fuel) sf .dict [] scs ocs with
  | error e => simp [hl] at h
  | ok scs' =>
    simp only [hl] at h
    obtain ⟨h1, h2⟩ := c04_finishMerge_dict_keys sf of scs' ocs r s h
    rw [h1, c04_mergeLoop_keys (mergeF fuel) (c04_mergeF_delFaithful fuel) rfl ocs scs scs' hnd hl]
    exact ⟨rfl, h2⟩

example : noExplicitDel c04M.children = true := by decide
example : ((mergeF 3 (.comp {} .dict c04Scs) c04M).map (fun r => akeys r.1.children)) =
    .ok [.str "p", .str "q", .str "n"] := rfl
example : newKeys [.str "p", .str "q"] [.str "q", .str "n", .str "n"] = [.str "n"] := by decide

/- "… common keys merged" (recursively, by the same merge): in the loop of a mapping with a newer
   mapping with distinct keys and no explicit `!del` values, a key present on both sides ends up
   holding the result of merging the two old values (re-adopted when it is a new object). -/
theorem C04_merge_common (fuel : Nat) (sf : Flags) (sk : CompKind) (exc : List Path) (hsk : sk.isDictFam = true)
    (scs ocs scs' : List (Key × Node)) (hnd : noExplicitDel ocs = true) (hn : keysNodup ocs = true)
    (h : mergeLoop (mergeF fuel) sf sk exc scs ocs = .ok scs')
    (k : Key) (c v : Node) (hc : alookup k scs = some c) (hv : alookup k ocs = some v) :
    ∃ nw same, mergeF fuel c v = .ok (nw, same) ∧
      alookup k scs' = some (if same then nw else adopt sf sk nw) ∧
      (alookup k scs').map native = some (native nw) := by
  obtain ⟨nw, same, h1, h2⟩ :=
    c04_mergeLoop_common (mergeF fuel) (c04_mergeF_delFaithful fuel) hsk ocs scs scs' hnd hn h k c v hc hv
  refine ⟨nw, same, h1, h2, ?_⟩
  rw [h2]
  cases same <;> simp [native_adopt]

example : keysNodup c04M.children = true ∧ (alookup (.str "q") c04Scs).isSome = true ∧
    (alookup (.str "q") c04M.children).isSome = true := by decide
-- end to end, mapping: `{a: {p: 1, q: {z: 2}}}` ← `{a: !merge {q: {w: 1}, n: 2}}`
example : c04Build [.map .none {} [(.str "a", .map .none {} [(.str "p", c04Int 1),
      (.str "q", .map .none {} [(.str "z", c04Int 2)])])],
    .map .none {} [(.str "a", .map .plain { del := some false } [
      (.str "q", .map .none {} [(.str "w", c04Int 1)]), (.str "n", c04Int 2)])]] =
    .ok (.dict [(.str "a", .dict [(.str "p", .scalar (.int 1)),
      (.str "q", .dict [(.str "z", .scalar (.int 2)), (.str "w", .scalar (.int 1))]),
      (.str "n", .scalar (.int 2))])]) := rfl
/- "… and lists combine … index-wise": the key loop of a list-family `self` whose children are
   numbered 0..n-1 with the children of a newer list numbered 0..m-1 (no explicit `!del` element):
   on success the result is again numbered, has length max n m, position i < min n m holds the
   recursive merge of the two old elements, positions n ≤ i < m hold the (adopted) newer elements,
   positions m ≤ i < n keep the old elements. -/
theorem C04_merge_indexwise (fuel : Nat) (sf : Flags) (sk : CompKind) (exc : List Path) (hsk : sk.isDictFam = false)
    (scs ocs scs' : List (Key × Node)) (hks : listKeys 0 scs = true) (hko : listKeys 0 ocs = true)
    (hnd : noExplicitDel ocs = true)
    (h : mergeLoop (mergeF fuel) sf sk exc scs ocs = .ok scs') :
    listKeys 0 scs' = true ∧ scs'.length = max scs.length ocs.length ∧
    (∀ (i : Nat) (v : Node), alookup (.int (i : Int)) ocs = some v →
      if i < scs.length then
        ∃ c nw same, alookup (.int (i : Int)) scs = some c ∧ mergeF fuel c v = .ok (nw, same) ∧
          alookup (.int (i : Int)) scs' = some (if same then nw else adopt sf sk nw)
      else alookup (.int (i : Int)) scs' = some (adopt sf sk v)) ∧
    (∀ i : Nat, ocs.length ≤ i → alookup (.int (i : Int)) scs' = alookup (.int (i : Int)) scs) := by
  obtain ⟨r1, r2, r3, r4⟩ := c04_mergeLoop_list (mergeF fuel) (c04_mergeF_delFaithful fuel) hsk ocs 0 scs scs'
    hks hko (Nat.zero_le _) hnd h
  refine ⟨r1, by simpa using r2, r4, ?_⟩
  intro i hi
  exact r3 i (c04_listKeys_lookup_none 0 ocs i hko (.inr (by omega)))

example : ∃ scs', mergeLoop (mergeF 1) {} .list []
    [(.int 0, .leaf { iDel := some true } (.scalar (.int 1))), (.int 1, .leaf { iDel := some true } (.scalar (.int 2)))]
    [(.int 0, .leaf { iDel := some false } (.scalar (.int 7))), (.int 1, .leaf { iDel := some false } (.scalar (.int 8))),
     (.int 2, .leaf { iDel := some false } (.scalar (.int 9)))] = .ok scs' := ⟨_, rfl⟩
-- end to end, list ("index-wise"): `{a: [1, 2, 3]}` ← `{a: !merge [9]}` gives `[9, 2, 3]`;
-- ← `{a: !merge [7, 8, 9, 10]}` gives `[7, 8, 9, 10]`
example : c04Build [.map .none {} [(.str "a", .seq .none {} [c04Int 1, c04Int 2, c04Int 3])],
    .map .none {} [(.str "a", .seq .plain { del := some false } [c04Int 9])]] =
    .ok (.dict [(.str "a", .list [.scalar (.int 9), .scalar (.int 2), .scalar (.int 3)])]) := rfl
example : c04Build [.map .none {} [(.str "a", .seq .none {} [c04Int 1, c04Int 2, c04Int 3])],
    .map .none {} [(.str "a", .seq .plain { del := some false } [c04Int 7, c04Int 8, c04Int 9, c04Int 10])]] =
    .ok (.dict [(.str "a", .list [.scalar (.int 7), .scalar (.int 8), .scalar (.int 9), .scalar (.int 10)])]) := rfl

/-! ### a value-less !del removes the key -/

/- "a value-less !del removes the key": in the key loop (any parent class), when the existing child
   is a leaf and the newer value is a leaf tagged `!del` that is falsy (an empty / null scalar) and
   is not outranked by the child, the iteration is `remove_child(key)`; in a mapping with distinct
   keys the key is gone afterwards. -/
theorem C04_del_null_removes_key (fuel : Nat) (sf : Flags) (sk : CompKind) (exc : List Path) (acc : List (Key × Node))
    (k : Key) (cf vf : Flags) (ck vk : LeafKind)
    (hget : getChild sk k acc = some (.leaf cf ck))
    (hdel : vf.del = some true) (hfalsy : vk.truthy = false) (hwins : hasPrio cf vf false = false) :
    mergeStep (mergeF (fuel + 1)) sf sk exc acc (k, .leaf vf vk) = removeChildE sf sk k acc ∧
      (sk.isDictFam = true → keysNodup acc = true →
        removeChildE sf sk k acc = .ok (aerase k acc) ∧ alookup k (aerase k acc) = none) := by
  constructor
  · apply c04_mergeStep_leaf_removed (mergeF (fuel + 1)) sf sk acc k (.leaf vf vk) (.leaf cf ck)
      (.leaf (replaceOtherFlags vf cf) vk) hget rfl
    · simp [mergeF, leafRule, Node.flags, hwins, Node.setFlags, propagate]
    · rfl
    · simpa [Node.truthy] using hfalsy
    · simpa [Node.flags, replaceOtherFlags, mergeSafe] using hdel
  · intro hsk hn
    have hsome : (alookup k acc).isSome = true := by
      rw [c04_getChild_dict hsk] at hget; simp [hget]
    exact ⟨c04_removeChildE_dictFam hsk k acc hsome, c04_alookup_aerase_self k acc hn⟩

example : getChild .dict (.str "p") c04Scs = some (.leaf {} (.scalar (.int 1))) := rfl
example : (LeafKind.scalar .null).truthy = false ∧
    hasPrio ({} : Flags) { del := some true } false = false := by decide
-- end to end: `{a: {p: 1, q: {z: 2}}}` ← `{a: {p: !del}}` gives `{a: {q: {z: 2}}}`
example : c04Build [.map .none {} [(.str "a", .map .none {} [(.str "p", c04Int 1),
      (.str "q", .map .none {} [(.str "z", c04Int 2)])])],
    .map .none {} [(.str "a", .map .none {} [(.str "p", .scalar .plain { del := some true } .empty)])]] =
    .ok (.dict [(.str "a", .dict [(.str "q", .dict [(.str "z", .scalar (.int 2))])])]) := rfl

/- "a value-less !del removes the key" — composed child: when the existing child is a plain mapping
   or list none of whose priorities exceeds that of the newer value, and the newer value is an
   explicitly `!del` EMPTY container (not a function node), the child is emptied by the early exit
   and the iteration is `remove_child(key)`. -/
theorem C04_del_empty_container_removes_key (fuel : Nat) (sf : Flags) (sk : CompKind) (exc : List Path)
    (acc : List (Key × Node)) (k : Key) (cf vf : Flags) (ck vk : CompKind) (ccs : List (Key × Node))
    (hget : getChild sk k acc = some (.comp cf ck ccs))
    (hck : ck = .dict ∨ ck = .list) (hwf : wfKeys (.comp cf ck ccs) = true)
    (hdel : vf.del = some true) (hvk : vk.isFunc = false)
    (hle : prioLe (ePrio vf) (.comp cf ck ccs) = true) :
    mergeStep (mergeF (fuel + 2)) sf sk exc acc (k, .comp vf vk []) = removeChildE sf sk k acc := by
  have hd : eDel (.comp vf vk []) = true := c04_eDel_of_explicit hdel
  have hm := (C04_del_exact_prio fuel (ePrio vf) cf vf ck vk ccs [] hck hwf hd hle
    (c04_prioGe_empty vf vk) rfl).1
  apply c04_mergeStep_comp_removed (mergeF (fuel + 2)) sf sk acc k (.comp vf vk []) (.comp cf ck ccs)
    (.comp (replaceOtherFlags vf cf) vk []) false hget rfl
  · have := (C04_del_exact_prio (fuel + 1) (ePrio vf) cf vf ck vk ccs [] hck hwf hd hle
      (c04_prioGe_empty vf vk) rfl).1
    rw [c04_propagate_empty] at this
    exact this
  · cases vk <;> simp_all [Node.truthy, CompKind.isFunc, CompKind.func?]
  · exact c04_hasPrio_false_of_le (by simp [Node.flags, ePrio, replaceOtherFlags, mergeSafe])
  · exact hdel

example : getChild .dict (.str "q") c04Scs = some (.comp {} .dict [(.str "z", .leaf {} (.scalar (.int 2)))]) := rfl
example : prioLe (ePrio { del := some true }) (.comp {} .dict [(.str "z", .leaf {} (.scalar (.int 2)))]) = true := by
  decide
-- end to end: `{a: {p: 1, q: {z: 2}}}` ← `{a: {q: !del {}}}` gives `{a: {p: 1}}`
example : c04Build [.map .none {} [(.str "a", .map .none {} [(.str "p", c04Int 1),
      (.str "q", .map .none {} [(.str "z", c04Int 2)])])],
    .map .none {} [(.str "a", .map .none {} [(.str "q", .map .plain { del := some true } [])])]] =
    .ok (.dict [(.str "a", .dict [(.str "p", .scalar (.int 1))])]) := rfl

/-! ### known finding D18: lists whose elements carry different priorities -/

/- Known finding D18 — the exactness claim FAILS for a list with a protected element: on the model
   (as on the real code) `a: [!force 1, 2]` ← `a: [8, 9]` gives `{a: [1]}`, not `{a: [1, 9]}`:
   the outranked newer element `8` is removed by the pre-filter of ConfigList before the
   index-wise merge, `9` shifts to index 0 and loses against `!force 1`. -/
theorem C04_list_shift_counterexample :
    c04Build [.map .none {} [(.str "a", .seq .none {} [.scalar .plain { prio := some 1 } (.lit (.int 1)), c04Int 2])],
              .map .none {} [(.str "a", .seq .none {} [c04Int 8, c04Int 9])]] =
        .ok (.dict [(.str "a", .list [.scalar (.int 1)])]) ∧
    c04Build [.map .none {} [(.str "a", .seq .none {} [.scalar .plain { prio := some 1 } (.lit (.int 1)), c04Int 2])],
              .map .none {} [(.str "a", .seq .none {} [c04Int 8, c04Int 9])]] ≠
        .ok (.dict [(.str "a", .list [.scalar (.int 1), .scalar (.int 9)])]) := by
  have h : c04Build [.map .none {} [(.str "a", .seq .none {} [.scalar .plain { prio := some 1 } (.lit (.int 1)), c04Int 2])],
      .map .none {} [(.str "a", .seq .none {} [c04Int 8, c04Int 9])]] =
      .ok (.dict [(.str "a", .list [.scalar (.int 1)])]) := rfl
  refine ⟨h, ?_⟩
  rw [h]
  simp

-- the hypotheses of the exactness theorems exclude it: the older list outranks the newer one
example : noneKeptList (maybeKeep (.comp {} .list [(.int 0, .leaf { iDel := some true } (.scalar (.int 8))),
      (.int 1, .leaf { iDel := some true } (.scalar (.int 9)))])) []
    [(.int 0, .leaf { prio := some 1, iDel := some true } (.scalar (.int 1))),
     (.int 1, .leaf { iDel := some true } (.scalar (.int 2)))] = false := by decide

end AY
