/-
  AY.Props.C10_Outcome — "the evaluated config does not depend on the order in which keys are
  written in the documents", the outcome clause: one order of the keys builds iff the other does
  (`C10_key_order_outcome`), hence both orders fail, or both succeed with the same items up to
  order, the same executed nodes and the same taint marks (`C10_key_order_full`).

  The statements are about `evaluate` of AY.Model.Eval. The proof goes through the *strict denotation*
  `sden root w fuel rs n path : Option Val` (AY.Lemmas.OutcomeDefs): the value of the node computed
  from the tree alone — no memo table, no in-progress set, no taint marks, no log — including the
  checks of `require_all_safe` (`rs`). The evaluator is sound (AY.Lemmas.OutcomeSound) and complete
  (AY.Lemmas.OutcomeComplete) w.r.t. it, and it does not depend on the order of the root's children.
  Which *error* a failing build reports is order dependent (`C10_key_order_error_kind_not_stable`);
  only success/failure is claimed.
-/
import AY.Props.C10_Order
import AY.Lemmas.OutcomeComplete
namespace AY

/-! ### inputs of the examples -/

/-- a reference, a `!call` with an `!import` argument, an unsafe scalar, a plain reference to the
    unsafe scalar -/
def c10OutCs : List (Key × Node) := [
  (.str "r", .leaf {} (.xref "f")),
  (.str "f", .comp {} (.call "f") [(.str "a", .leaf {} (.imp "os"))]),
  (.str "u", .leaf { safe := some false } (.scalar (.str "s"))),
  (.str "d", .leaf {} (.xref "u"))]

/-- one more entry: a `!call` whose argument refers to the unsafe scalar (refused in every order) -/
def c10OutBad : Key × Node :=
  (.str "g", .comp {} (.call "f") [(.str "a", .leaf {} (.xref "u"))])

def c10OutTree : Node := .comp {} .dict c10OutCs
def c10OutTreeP : Node := .comp {} .dict c10OutCs.reverse

/-! ### A build succeeds iff the tree has a strict denotation -/

/- "the evaluated config does not depend on the order …", the characterisation behind it: whether a
   build succeeds, and with which value, is a function of the tree alone. A tree with pairwise
   distinct keys builds to `v` iff `v` is the strict denotation of its root — the fuel `2·size+10`
   `evaluate` supplies, the memo table, the in-progress set and the taint marks never turn a tree
   that has a denotation into a failing build (no spurious `recursion` / `unsafeE` / out-of-fuel
   error), and never make a tree without one build. -/
theorem C10_builds_iff_denotation (w : World) (root : Node) (huk : uniqueKeys root = true) (v : Val) :
    (∃ st, evaluate w root = .ok (v, st)) ↔ (∃ f, sden root w f false root [] = some v) :=
  ⟨fun ⟨_, h⟩ => evaluate_sden huk h, fun ⟨_, h⟩ => evaluate_complete huk h⟩

example : uniqueKeys c10OutTree = true ∧ (∃ v st, evaluate c10ExWorld c10OutTree = .ok (v, st)) ∧
    (∃ v, sden c10OutTree c10ExWorld 4 false c10OutTree [] = some v) := ⟨rfl, ⟨_, _, rfl⟩, ⟨_, rfl⟩⟩

/- a tree without a strict denotation (a `!call` consuming the unsafe scalar): no build -/
example : sden (.comp {} .dict (c10OutBad :: c10OutCs)) c10ExWorld 20 false
      (.comp {} .dict (c10OutBad :: c10OutCs)) [] = none ∧
    evaluate c10ExWorld (.comp {} .dict (c10OutBad :: c10OutCs)) = .error .unsafeE := ⟨rfl, rfl⟩

/- Fuel and state independence of success ("(a) fuel sufficiency", "(c) no cyclic dependency"): in a
   tree that builds, every entry of the root mapping evaluates successfully *on its own* from the
   state in which the root's children are evaluated — nothing memoised before it —, with any fuel
   that covers the nodes of the tree. -/
theorem C10_entries_build_alone (w : World) (fl : Flags) (cs : List (Key × Node)) (v : Val) (st : EvSt)
    (huk : uniqueKeys (.comp fl .dict cs) = true) (h : evaluate w (.comp fl .dict cs) = .ok (v, st))
    (key : Key) (c : Node) (hm : (key, c) ∈ cs) (F : Nat) (hF : (Node.comp fl .dict cs).size ≤ F) :
    ∃ a s, evalNodeF (.comp fl .dict cs) w F false c [key]
      (enter [] (bump (.comp fl .dict cs) {})) = .ok (a, s) := by
  obtain ⟨f, hf⟩ := evaluate_sden huk h
  obtain ⟨g0, _, hnone0, _, hvi⟩ := sden_enter_rank huk (p := []) rfl hf
  simp only [sdenImpl, CompKind.isFunc, Bool.false_and, Bool.false_eq_true, if_false,
    Bool.or_false] at hvi
  split at hvi
  · cases hvi
  · rename_i items hi
    obtain ⟨a, ha⟩ := sdenItems_mem hi key c hm
    have hgc : getNode (.comp fl .dict cs) [key] = some c := by
      have := ((Placed.child (Placed.root (root := .comp fl .dict cs)) hm).getNode_uniq huk).1
      simpa using this
    obtain ⟨s, hs, _⟩ := evalNodeF_complete _ w huk g0 F false c [key]
      (enter [] (bump (.comp fl .dict cs) {})) a hgc (SInv.start _ w)
      (by simp)
      (by intro q hq; simp at hq; subst hq; exact ⟨_, rfl⟩)
      (by
        intro q hq m hgm
        simp at hq; subst hq
        simp only [getNode, Option.some.injEq] at hgm
        subst hgm
        exact hnone0)
      (by simp; omega)
      (by simpa using ha)
    exact ⟨a, s, hs⟩

/- the reference `d` to the unsafe scalar evaluated first, with fuel `size` -/
example : c10OutTree.size = 6 ∧ ∃ a s, evalNodeF c10OutTree c10ExWorld 6 false (.leaf {} (.xref "u"))
    [.str "d"] (enter [] (bump c10OutTree {})) = .ok (a, s) := ⟨rfl, _, _, rfl⟩

/-! ### One order builds iff the other does -/

/- "the evaluated config does not depend on the order in which keys are written in the documents",
   outcome: let `cs'` be any permutation of the children `cs` of the root mapping (both trees with
   pairwise distinct keys). The build of one order succeeds iff the build of the other does. -/
theorem C10_key_order_outcome (w : World) (fl : Flags) (cs cs' : List (Key × Node)) (hperm : cs'.Perm cs)
    (huk : uniqueKeys (.comp fl .dict cs) = true) (huk' : uniqueKeys (.comp fl .dict cs') = true) :
    (∃ v st, evaluate w (.comp fl .dict cs) = .ok (v, st)) ↔
    (∃ v' st', evaluate w (.comp fl .dict cs') = .ok (v', st')) :=
  ⟨evaluate_permRoot_ok hperm huk huk', evaluate_permRoot_ok hperm.symm huk' huk⟩

/- both sides hold: the four entries written forwards and backwards (backwards the reference `d`
   meets the unsafe scalar `u` before it is memoised, and `r` pulls the call `f` in) -/
example : c10OutCs.reverse.Perm c10OutCs ∧ uniqueKeys c10OutTree = true ∧ uniqueKeys c10OutTreeP = true ∧
    (∃ v st, evaluate c10ExWorld c10OutTree = .ok (v, st)) ∧
    (∃ v' st', evaluate c10ExWorld c10OutTreeP = .ok (v', st')) :=
  ⟨List.reverse_perm _, rfl, rfl, ⟨_, _, rfl⟩, ⟨_, _, rfl⟩⟩

/- both sides fail: with the `!call` consuming the unsafe scalar written first (the scalar is not
   memoised yet: refused as an unsafe node) and last (memoised and tainted: refused as tainted) -/
example : (c10OutCs ++ [c10OutBad]).Perm (c10OutBad :: c10OutCs) ∧
    evaluate c10ExWorld (.comp {} .dict (c10OutBad :: c10OutCs)) = .error .unsafeE ∧
    evaluate c10ExWorld (.comp {} .dict (c10OutCs ++ [c10OutBad])) = .error .unsafeE :=
  ⟨List.perm_append_comm (l₁ := c10OutCs) (l₂ := [c10OutBad]), rfl, rfl⟩

/- "the evaluated config does not depend on the order in which keys are written in the documents",
   in full: for a permutation `cs'` of the children `cs` of the root mapping (both trees with
   pairwise distinct keys) either both builds fail, or both succeed and return mappings whose items
   are permutations of each other — as (key, value) pairs, values equal including their object ids
   —, the execution logs are permutations of each other (the same dynamic nodes ran, each exactly
   once) and the same paths are tainted. -/
theorem C10_key_order_full (w : World) (fl : Flags) (cs cs' : List (Key × Node)) (hperm : cs'.Perm cs)
    (huk : uniqueKeys (.comp fl .dict cs) = true) (huk' : uniqueKeys (.comp fl .dict cs') = true) :
    ((∃ e, evaluate w (.comp fl .dict cs) = .error e) ∧ (∃ e', evaluate w (.comp fl .dict cs') = .error e')) ∨
    (∃ items items' st st',
      evaluate w (.comp fl .dict cs) = .ok (.dict [] items, st) ∧
      evaluate w (.comp fl .dict cs') = .ok (.dict [] items', st') ∧
      items'.Perm items ∧ st'.log.Perm st.log ∧ ∀ p, p ∈ st'.tainted ↔ p ∈ st.tainted) := by
  have hiff := C10_key_order_outcome w fl cs cs' hperm huk huk'
  cases h : evaluate w (.comp fl .dict cs) with
  | error e =>
    cases h' : evaluate w (.comp fl .dict cs') with
    | error e' => exact .inl ⟨⟨e, rfl⟩, ⟨e', rfl⟩⟩
    | ok r' =>
      obtain ⟨v, st, hv⟩ := hiff.2 ⟨r'.1, r'.2, h'⟩
      rw [h] at hv; cases hv
  | ok r =>
    obtain ⟨v, st⟩ := r
    obtain ⟨v', st', h'⟩ := hiff.1 ⟨v, st, h⟩
    obtain ⟨⟨items, items', rfl, rfl, hp⟩, hlog⟩ := C10_key_order w fl cs cs' v v' st st' hperm huk huk' h h'
    exact .inr ⟨items, items', st, st', rfl, h', hp, hlog,
      C10_key_order_taint w fl cs cs' _ _ st st' hperm huk huk' h h'⟩

/- the second alternative for the example (two executions: the `!import` and the `!call`; tainted: the
   root, `u` and the reference `d` to it) -/
example : ∃ items items' st st',
    evaluate c10ExWorld c10OutTree = .ok (.dict [] items, st) ∧
    evaluate c10ExWorld c10OutTreeP = .ok (.dict [] items', st') ∧
    st.log.map (·.path) = [[.str "f", .str "a"], [.str "f"]] ∧
    st'.log.map (·.path) = [[.str "f", .str "a"], [.str "f"]] ∧
    st.tainted = [[], [.str "d"], [.str "u"]] ∧ st'.tainted = [[], [.str "d"], [.str "u"]] :=
  ⟨_, _, _, _, rfl, rfl, rfl, rfl, rfl, rfl⟩

/- the first alternative -/
example : (∃ e, evaluate c10ExWorld (.comp {} .dict (c10OutBad :: c10OutCs)) = .error e) ∧
    (∃ e', evaluate c10ExWorld (.comp {} .dict (c10OutCs ++ [c10OutBad])) = .error e') :=
  ⟨⟨_, rfl⟩, ⟨_, rfl⟩⟩

end AY
