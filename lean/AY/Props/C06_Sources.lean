/-
  AY.Props.C06_Sources — C06, the entry points: what `Builder.add_source`, `Builder.add_multiple_sources`,
  `Config.build` and `Config.build_from_cmdline` make of what the USER passes, up to the calls of `yaml.parse`.

  Statement (properties.jsonl, C06): "Giving n documents as separate sources, as one multi-document source, …
  all build the same config …".  AY/Props/C06.lean starts from sources that are already classified
  (`Source.file name` / `Source.raw docs filename`).  This module covers the step before: the file-or-YAML guess
  of `add_source` for every combination of (str / pathlib.Path / file object) × (raw_yaml None / False / True) ×
  (filename given or not), the broadcasting of `add_multiple_sources`, the `_current_file` bookkeeping, and the
  forwarding of `Config.build` / `Config.build_from_cmdline` (option classification: AY.Model.Cmdline).

  Model: AY/Model/Sources.lean.  Parameters: the outcome of `open`+`read` per name (`FileSys`, `openRead`),
  `os.path.expanduser`, `str(pathlib.Path)`, the parser.  Helper lemmas: AY/Lemmas/Sources.lean.
  Tie: driver op "sources" (AY/Driver/OpsSources.lean), case family `sources` of harness/props/c06.py (real files in
  a temporary directory, the real API, `awesomeyaml.yaml.parse` intercepted).

  Two clauses were FALSE of the code before repo fixes D47 and D48 (found while writing this module).  They are now
  proved at full strength (`C06_other_oserror_propagates`, `C06_current_file_reset`); the old code is kept below as a
  mutant (`openStrOld` …) together with the proofs that IT violates them (`…_old_code_counterexample`):
    * D48: an OS error other than "no such file" / plain errno 22 / 36 propagated only when its type was EXACTLY
      OSError; IsADirectoryError, NotADirectoryError, PermissionError were swallowed by the guess and the NAME was
      parsed as YAML;
    * D47: `_current_file` was set before `read()`: a file that opens but cannot be decoded left its name behind, and
      the next unnamed source inherited it.
-/
import AY.Lemmas.Sources
namespace AY
open Sources

/-! ### Concrete inputs of the non-vacuity examples -/

/-- a working directory with `main.yaml`, a file whose NAME looks like YAML (`a: b`), a home directory, a directory
    `conf`, a symlink loop `loop` (ELOOP = 40), a name that is too long (ENAMETOOLONG = 36; the key of a block
    scalar text), a binary file -/
def c06sKeep : String := "k: |+\n  kept\n\n\n"
def c06sFS : FileSys where
  fs := fun p => if p = "main.yaml" then some "a: 1\n---\nb: 2\n" else if p = "a: b" then some "z: 1\n"
                 else if p = "/home/u/h.yaml" then some "h: 1\n" else none
  openErr := fun p => if p = "loop" then some 40 else if p = c06sKeep then some 36 else none
  openSub := fun p => if p = "conf" then some "IsADirectoryError" else none
  undecodable := fun p => p = "bin.yaml"
  expanduser := fun s => if s = "~/h.yaml" then "/home/u/h.yaml" else s

/-- a parser that splits at "---\n" lines is not needed: one document per call, never raising -/
def c06sP : Parser String := fun c => ([c.text], false)

/-! ### (a) a string that names a file -/

/- "with raw_yaml=None a string that names an existing readable file yields that file's content and records its
   name" — the name AS GIVEN (before `expanduser`); the same for a `pathlib.Path` (through `str`) and for
   `raw_yaml=False`; a `filename` takes precedence (see `C06_filename_override`). -/
theorem C06_guess_existing_file_is_read (S : FileSys) (s t : String) (raw : Option Bool) (filename : Option String)
    (hfile : openRead S s = .content t) (hraw : raw = none ∨ raw = some false) :
    guessSource S raw none (.str s) = .ok (t, some s) ∧
    guessSource S raw none (.path s) = .ok (t, some s) ∧
    guessSource S raw filename (.str s) = .ok (t, some (filename.getD s)) := by
  have h := openStr_content (S := S) none raw hfile
  rcases hraw with rfl | rfl <;> cases filename <;>
    simp [guessSource, guessSourceFrom, openStep, rawTrue, h, recordedName]

example : guessSource c06sFS none none (.str "main.yaml") = .ok ("a: 1\n---\nb: 2\n", some "main.yaml") := by decide
-- a file whose name looks like YAML is a file; `~` is expanded for `open`, the recorded name is the one given
example : guessSource c06sFS none none (.str "a: b") = .ok ("z: 1\n", some "a: b") := by decide
example : guessSource c06sFS none none (.path "~/h.yaml") = .ok ("h: 1\n", some "~/h.yaml") := by decide

/-! ### (b) a string that names no file -/

/- "with raw_yaml=None a string that names no file (FileNotFoundError, or errno 22/36) is parsed as YAML EXACTLY as
   given - the text handed to the parser is the argument itself, character for character - and no file name is
   recorded unless `filename` is given" -/
theorem C06_guess_yaml_text_unchanged (S : FileSys) (s : String) (filename : Option String)
    (hnofile : openRead S s = .notFound ∨ openRead S s = .osError 22 ∨ openRead S s = .osError 36) :
    guessSource S none filename (.str s) = .ok (s, filename) := by
  rcases hnofile with h | h | h
  · cases filename <;>
      simp [guessSource, guessSourceFrom, openStep, rawTrue, openStr_notFound none none h, fallback, recordedName]
  · cases filename <;>
      simp [guessSource, guessSourceFrom, openStep, rawTrue, openStr_osError none none h, fallback, recordedName]
  · cases filename <;>
      simp [guessSource, guessSourceFrom, openStep, rawTrue, openStr_osError none none h, fallback, recordedName]

-- a block scalar with kept trailing line breaks (too long for a file name) reaches the parser with all of them
example : guessSource c06sFS none none (.str c06sKeep) = .ok ("k: |+\n  kept\n\n\n", none) := by decide
example : guessSource c06sFS none (some "<cmd>") (.str "main.yaml \n") = .ok ("main.yaml \n", some "<cmd>") := by decide

/- … the same at the level of the builder: the call of `yaml.parse` carries the argument itself as text (on a builder
   whose current file is None the name is `filename`) -/
theorem C06_guess_yaml_text_parser_call {δ : Type} (S : FileSys) (P : Parser δ) (env : Env) (st : BState δ) (s : String)
    (filename : Option String) (safe : Option Bool)
    (hnofile : openRead S s = .notFound ∨ openRead S s = .osError 22 ∨ openRead S s = .osError 36) :
    (addSource S P env st ⟨.str s, none, filename, safe⟩).1.calls =
      st.calls ++ [⟨s, recordedName filename st.currentFile, effSafe env safe⟩] := by
  have h : openStep S st.currentFile (.str s) none = (.ok s, st.currentFile) := by
    rcases hnofile with h | h | h
    · simp [openStep, rawTrue, openStr_notFound _ none h, fallback]
    · simp [openStep, rawTrue, openStr_osError _ none h, fallback]
    · simp [openStep, rawTrue, openStr_osError _ none h, fallback]
  rw [addSource_of_ok P env st _ h]

example : (addSource c06sFS c06sP {} {} ⟨.str c06sKeep, none, none, none⟩).1.calls = [⟨"k: |+\n  kept\n\n\n", none, true⟩] := by
  decide

/-! ### (c) raw_yaml=True / raw_yaml=False -/

/- "raw_yaml=True never touches the file system": whatever the file system, the text is the argument and the name is
   `filename` -/
theorem C06_raw_true_never_touches_fs (S S' : FileSys) (s : String) (filename : Option String) :
    guessSource S (some true) filename (.str s) = .ok (s, filename) ∧
    guessSource S' (some true) filename (.str s) = guessSource S (some true) filename (.str s) := by
  cases filename <;> simp [guessSource, guessSourceFrom, openStep, rawTrue, recordedName]

-- the name of an existing file given with raw_yaml=True is YAML text
example : guessSource c06sFS (some true) none (.str "main.yaml") = .ok ("main.yaml", none) := by decide

/- "raw_yaml=True with a non-string → ValueError" (before anything else: nothing is read, nothing is parsed) -/
theorem C06_raw_true_non_string_errors {δ : Type} (S : FileSys) (P : Parser δ) (env : Env) (st : BState δ)
    (src : SourceArg) (filename : Option String) (safe : Option Bool) (hsrc : ∀ s, src ≠ .str s) :
    guessSource S (some true) filename src = .error .rawNotStr ∧
    addSource S P env st ⟨src, some true, filename, safe⟩ = (st, some .rawNotStr) := by
  cases src with
  | str s => exact absurd rfl (hsrc s)
  | path s => simp [guessSource, guessSourceFrom, addSource, openStep, rawTrue]
  | fileObj c => simp [guessSource, guessSourceFrom, addSource, openStep, rawTrue]

example : guessSource c06sFS (some true) none (.path "main.yaml") = .error .rawNotStr := by decide

/- "raw_yaml=False → the error propagates (the error names the file; nothing is parsed)": the builder is unchanged -/
theorem C06_raw_false_missing_file_errors {δ : Type} (S : FileSys) (P : Parser δ) (env : Env) (st : BState δ) (s : String)
    (filename : Option String) (safe : Option Bool) (hnofile : openRead S s = .notFound) :
    guessSource S (some false) filename (.str s) = .error (.fileNotFound (S.expanduser s)) ∧
    addSource S P env st ⟨.str s, some false, filename, safe⟩ = (st, some (.fileNotFound (S.expanduser s))) := by
  constructor
  · simp [guessSource, guessSourceFrom, openStep, rawTrue, openStr_notFound none _ hnofile, fallback]
  · simp [addSource, openStep, rawTrue, openStr_notFound _ _ hnofile, fallback]

example : addSource c06sFS c06sP {} ({} : BState String) ⟨.str "~/nope.yaml", some false, some "x", none⟩ =
    ({}, some (.fileNotFound "~/nope.yaml")) := by decide
example : guessSource c06sFS (some false) none (.str "a: 1\n") = .error (.fileNotFound "a: 1\n") := by decide

/-! ### the code before repo fixes D47 / D48, as a mutant -/

/-- `openStr` of the old code: `self._current_file = source` before `f.read()` (D47), re-raise only for
    `type(e) is OSError and e.errno not in [22, 36]` (D48) -/
def openStrOld (S : FileSys) (cur : Option String) (s : String) (raw : Option Bool) : Except SrcErr String × Option String :=
  match openRead S s with
  | .content t => (.ok t, some s)
  | .readError => (.error (.decode (S.expanduser s)), some s)
  | .valueError => (.error (.openValue (S.expanduser s)), cur)
  | .notFound => (fallback raw s (.fileNotFound (S.expanduser s)) false, cur)
  | .osError n => (fallback raw s (.osError n (S.expanduser s)) (n != 22 && n != 36), cur)
  | .osSub c => (fallback raw s (.osSub c (S.expanduser s)) false, cur)

def openStepOld (S : FileSys) (cur : Option String) (src : SourceArg) (raw : Option Bool) :
    Except SrcErr String × Option String :=
  match src with
  | .fileObj c => if rawTrue raw then (.error .rawNotStr, cur) else (.ok c, cur)
  | .path s => if rawTrue raw then (.error .rawNotStr, cur) else openStrOld S cur s raw
  | .str s => if rawTrue raw then (.ok s, cur) else openStrOld S cur s raw

/-- `add_source` of the old code (the second half is unchanged) -/
def addSourceOld {δ : Type} (S : FileSys) (P : Parser δ) (env : Env) (st : BState δ) (a : Args) :
    BState δ × Option SrcErr :=
  match openStepOld S st.currentFile a.src a.raw with
  | (.error e, cur) => ({ st with currentFile := cur }, some e)
  | (.ok text, cur) =>
    ({ currentFile := none,
       stages := st.stages ++ (P ⟨text, recordedName a.filename cur, effSafe env a.safe⟩).1,
       calls := st.calls ++ [⟨text, recordedName a.filename cur, effSafe env a.safe⟩] },
     if (P ⟨text, recordedName a.filename cur, effSafe env a.safe⟩).2 then some .parsing else none)

/-! ### (d) other OS errors -/

/- "other OSErrors propagate in every mode": every OS error other than FileNotFoundError and a plain OSError with
   errno 22 / 36 — a plain OSError with another errno (ELOOP, EMFILE, …) AND every proper subclass (IsADirectoryError,
   NotADirectoryError, PermissionError, …) — propagates in every mode that opens the file (raw_yaml None or False;
   raw_yaml=True opens nothing: `C06_raw_true_never_touches_fs`); the builder is unchanged and nothing is parsed -/
theorem C06_other_oserror_propagates {δ : Type} (S : FileSys) (P : Parser δ) (env : Env) (st : BState δ)
    (s : String) (raw : Option Bool) (filename : Option String) (safe : Option Bool)
    (hraw : raw = none ∨ raw = some false) :
    (∀ n, openRead S s = .osError n → n ≠ 22 → n ≠ 36 →
      guessSource S raw filename (.str s) = .error (.osError n (S.expanduser s)) ∧
      addSource S P env st ⟨.str s, raw, filename, safe⟩ = (st, some (.osError n (S.expanduser s)))) ∧
    (∀ c, openRead S s = .osSub c →
      guessSource S raw filename (.str s) = .error (.osSub c (S.expanduser s)) ∧
      addSource S P env st ⟨.str s, raw, filename, safe⟩ = (st, some (.osSub c (S.expanduser s)))) := by
  constructor
  · intro n herr h22 h36
    have hp : (n != 22 && n != 36) = true := by simp [h22, h36]
    rcases hraw with rfl | rfl
    · constructor
      · simp [guessSource, guessSourceFrom, openStep, rawTrue, openStr_osError none _ herr, fallback, hp]
      · simp [addSource, openStep, rawTrue, openStr_osError _ _ herr, fallback, hp]
    · constructor
      · simp [guessSource, guessSourceFrom, openStep, rawTrue, openStr_osError none _ herr, fallback, hp]
      · simp [addSource, openStep, rawTrue, openStr_osError _ _ herr, fallback, hp]
  · intro c herr
    rcases hraw with rfl | rfl
    · constructor
      · simp [guessSource, guessSourceFrom, openStep, rawTrue, openStr_osSub none _ herr]
      · simp [addSource, openStep, rawTrue, openStr_osSub _ _ herr]
    · constructor
      · simp [guessSource, guessSourceFrom, openStep, rawTrue, openStr_osSub none _ herr]
      · simp [addSource, openStep, rawTrue, openStr_osSub _ _ herr]

example : guessSource c06sFS none none (.str "loop") = .error (.osError 40 "loop") := by decide
example : guessSource c06sFS none none (.str "conf") = .error (.osSub "IsADirectoryError" "conf") := by decide
example : addSource c06sFS c06sP {} ({} : BState String) ⟨.str "conf", none, some "n", none⟩ =
    ({}, some (.osSub "IsADirectoryError" "conf")) := by decide

/- … the old code (before D48) violated the clause: for a proper subclass `type(e) is OSError` is false, so with
   raw_yaml=None the error did NOT propagate — the name of the directory / unreadable file was parsed as YAML text -/
theorem C06_other_oserror_propagates_old_code_counterexample (S : FileSys) (s c : String)
    (herr : openRead S s = .osSub c) :
    openStepOld S none (.str s) none = (.ok s, none) ∧
    (addSourceOld c06sFS c06sP {} ({} : BState String) ⟨.str "conf", none, none, none⟩).1.calls = [⟨"conf", none, true⟩] := by
  constructor
  · simp [openStepOld, rawTrue, openStrOld, herr, fallback]
  · decide

example : openRead c06sFS "conf" = .osSub "IsADirectoryError" := by decide

/-! ### (e) `filename` -/

/- "`filename` overrides the recorded name": for every source kind, mode and builder state the text (or the error)
   is the one obtained without `filename`, and the name is `filename` -/
theorem C06_filename_override (cur : Option String) (S : FileSys) (raw : Option Bool) (f : String) (src : SourceArg) :
    guessSourceFrom cur S raw (some f) src = (guessSourceFrom cur S raw none src).map (fun tn => (tn.1, some f)) := by
  unfold guessSourceFrom
  cases (openStep S cur src raw).1 <;> rfl

example : guessSource c06sFS none (some "shown.yaml") (.str "main.yaml") = .ok ("a: 1\n---\nb: 2\n", some "shown.yaml") := by
  decide

/-! ### (f) `add_multiple_sources` -/

/- "add_multiple_sources with scalar or per-source arguments is add_source applied source by source in order"
   (`addLoop`: stops at the first exception, what was added before stays) -/
theorem C06_multiple_sources_is_map {δ : Type} (S : FileSys) (P : Parser δ) (env : Env) (st : BState δ)
    (args : List Args) (ss : List SourceArg) (r : Option Bool) (f : Option String) (x : Option Bool) :
    addMultiple S P env st (args.map (·.src)) (.seq (args.map (·.raw))) (.seq (args.map (·.filename)))
        (.seq (args.map (·.safe))) = addLoop S P env st args ∧
    addMultiple S P env st ss (.scalar r) (.scalar f) (.scalar x) = addLoop S P env st (ss.map (fun s => ⟨s, r, f, x⟩)) := by
  constructor
  · simp [addMultiple, broadcast, zipArgs_map]
  · simp [addMultiple, broadcast, zipArgs_replicate]

example : (addMultiple c06sFS c06sP {} {} [.str "main.yaml", .str "x: 1"] (.seq [none, some true]) (.scalar none)
    (.seq [none, some false])).1.calls = [⟨"a: 1\n---\nb: 2\n", some "main.yaml", true⟩, ⟨"x: 1", none, false⟩] := by decide

/- "a length mismatch is a ValueError before anything is added": the three `sanitize` calls precede the loop, so the
   builder is unchanged and no file is opened; the argument named is the first mismatching one in the order
   raw_yaml, filename, safe -/
theorem C06_multiple_sources_length_mismatch {δ : Type} (S : FileSys) (P : Parser δ) (env : Env) (st : BState δ)
    (ss : List SourceArg) (raw : BArg (Option Bool)) (filename : BArg (Option String)) (safe : BArg (Option Bool)) :
    (∀ l, raw = .seq l → l.length ≠ ss.length →
      addMultiple S P env st ss raw filename safe = (st, some (.lengthMismatch "raw_yaml"))) ∧
    (∀ rs l, broadcast ss.length "raw_yaml" raw = .ok rs → filename = .seq l → l.length ≠ ss.length →
      addMultiple S P env st ss raw filename safe = (st, some (.lengthMismatch "filename"))) ∧
    (∀ rs fs l, broadcast ss.length "raw_yaml" raw = .ok rs → broadcast ss.length "filename" filename = .ok fs →
      safe = .seq l → l.length ≠ ss.length →
      addMultiple S P env st ss raw filename safe = (st, some (.lengthMismatch "safe"))) := by
  refine ⟨?_, ?_, ?_⟩
  · intro l hl hne; subst hl; simp [addMultiple, broadcast_seq_bad _ hne]
  · intro rs l hr hl hne; subst hl; simp [addMultiple, hr, broadcast_seq_bad _ hne]
  · intro rs fs l hr hf hl hne; subst hl; simp [addMultiple, hr, hf, broadcast_seq_bad _ hne]

-- a string `filename` is a scalar (broadcast), a one-element list for two sources is an error and adds nothing
example : (addMultiple c06sFS c06sP {} {} [.str "x: 1", .str "y: 2"] (.scalar (some true)) (.scalar (some "ab")) (.scalar none)).1.calls
    = [⟨"x: 1", some "ab", true⟩, ⟨"y: 2", some "ab", true⟩] := by decide
example : addMultiple c06sFS c06sP {} ({} : BState String) [.str "x: 1", .str "y: 2"] (.scalar (some true)) (.seq [some "ab"]) (.scalar none)
    = ({}, some (.lengthMismatch "filename")) := by decide

/-! ### (g) `_current_file` -/

/- "after add_source returns or raises, the builder's current file is None (the `finally`)" — at ANY point: the early
   ValueError, every error of `open`, a failing `read()` (the name is stored only after the read), a parser error -/
theorem C06_current_file_reset {δ : Type} (S : FileSys) (P : Parser δ) (env : Env) (st : BState δ) (a : Args)
    (hclean : st.currentFile = none) :
    (addSource S P env st a).1.currentFile = none := by
  unfold addSource
  rcases ho : openStep S st.currentFile a.src a.raw with ⟨r, cur⟩
  cases r with
  | ok t => rfl
  | error e =>
    show cur = none
    have h := openStep_error_snd (S := S) (cur := st.currentFile) (src := a.src) (raw := a.raw) (e := e) (by rw [ho])
    rw [ho] at h
    exact h.trans hclean

example : (addSource c06sFS c06sP {} ({} : BState String) ⟨.str "main.yaml", none, none, none⟩).1.currentFile = none := by decide
example : (addSource c06sFS c06sP {} ({} : BState String) ⟨.str "loop", none, none, none⟩).1.currentFile = none := by decide
example : addSource c06sFS c06sP {} ({} : BState String) ⟨.str "bin.yaml", none, none, none⟩ = ({}, some (.decode "bin.yaml")) := by decide

/- … hence an invariant: on a builder that starts fresh the current file is None after ANY sequence of `add_source` /
   `add_multiple_sources` calls, whatever they raise (the hypothesis of `C06_current_file_reset` is always met) -/
theorem C06_current_file_always_none {δ : Type} (S : FileSys) (P : Parser δ) (env : Env) (args : List Args)
    (st : BState δ) (hclean : st.currentFile = none) :
    (addLoop S P env st args).1.currentFile = none := by
  induction args generalizing st with
  | nil => exact hclean
  | cons a rest ih =>
    have h1 := C06_current_file_reset S P env st a hclean
    simp only [addLoop]
    rcases hr : addSource S P env st a with ⟨st', _ | e⟩
    · rw [hr] at h1; exact ih st' h1
    · rw [hr] at h1; exact h1

example : (addLoop c06sFS c06sP {} ({} : BState String)
    [⟨.str "bin.yaml", none, none, none⟩]).1.currentFile = none := by decide

/- … the `finally` itself: whenever `add_source` reaches the parser (also when the parser raises, also on a builder
   that carries a stale name), the current file is None afterwards -/
theorem C06_current_file_reset_after_parse {δ : Type} (S : FileSys) (P : Parser δ) (env : Env) (st : BState δ) (a : Args)
    (hcall : (addSource S P env st a).1.calls ≠ st.calls) :
    (addSource S P env st a).1.currentFile = none := by
  rcases addSource_calls S P env st a with h | ⟨_, _, h⟩
  · exact absurd h hcall
  · exact h

example : (addSource c06sFS (fun c => ([c.text], true)) {} ⟨some "stale", [], []⟩ ⟨.str "x: 1", some true, none, none⟩)
    = (⟨none, ["x: 1"], [⟨"x: 1", some "stale", true⟩]⟩, some .parsing) := by decide

/- "so a later source does not inherit a name": after ANY `add_source` on a clean builder — a failed read included —
   a YAML text added next without `filename` is parsed with no file name -/
theorem C06_later_source_inherits_no_name {δ : Type} (S : FileSys) (P : Parser δ) (env : Env) (st : BState δ) (a : Args)
    (t : String) (safe : Option Bool) (hclean : st.currentFile = none) :
    (addSource S P env (addSource S P env st a).1 ⟨.str t, some true, none, safe⟩).1.calls =
      (addSource S P env st a).1.calls ++ [⟨t, none, effSafe env safe⟩] := by
  rw [addSource_rawTrue, C06_current_file_reset S P env st a hclean]
  rfl

example : (addLoop c06sFS c06sP {} {} [⟨.str "main.yaml", none, none, none⟩, ⟨.str "x: 1", some true, none, none⟩]).1.calls =
    [⟨"a: 1\n---\nb: 2\n", some "main.yaml", true⟩, ⟨"x: 1", none, true⟩] := by decide
example : (addSource c06sFS c06sP {} (addSource c06sFS c06sP {} ({} : BState String) ⟨.str "bin.yaml", none, none, none⟩).1
    ⟨.str "x: 1", some true, none, none⟩).1.calls = [⟨"x: 1", none, true⟩] := by decide

/- … the old code (before D47) violated the clause: a file that opens but cannot be decoded (`read()` raises
   UnicodeDecodeError after `self._current_file = source`, outside the `try/finally`) left its name in the builder, and
   the next unnamed YAML text was parsed under that name -/
theorem C06_current_file_reset_old_code_counterexample :
    (addSourceOld c06sFS c06sP {} ({} : BState String) ⟨.str "bin.yaml", none, none, none⟩) =
      (⟨some "bin.yaml", [], []⟩, some (.decode "bin.yaml")) ∧
    (addSourceOld c06sFS c06sP {} (addSourceOld c06sFS c06sP {} ({} : BState String) ⟨.str "bin.yaml", none, none, none⟩).1
        ⟨.str "x: 1", some true, none, none⟩).1.calls = [⟨"x: 1", some "bin.yaml", true⟩] := by
  decide

example : openRead c06sFS "bin.yaml" = .readError := by decide

/-! ### (h) the ways to give n sources agree -/

/- "Giving n documents as separate sources …" — n `add_source` calls on a fresh builder, one
   `add_multiple_sources` call (scalar keywords, or per-source sequences that repeat them) and `Config.build(*sources)`
   hand the same sequence of (text, name, safe) triples to the parser, add the same stages and end with the same
   exception (the whole builder state agrees) -/
theorem C06_source_ways_agree {δ : Type} (S : FileSys) (P : Parser δ) (env : Env) (ss : List SourceArg)
    (r : Option Bool) (f : Option String) :
    addMultiple S P env {} ss (.scalar r) (.scalar f) (.scalar none) = addLoop S P env {} (ss.map (fun s => ⟨s, r, f, none⟩)) ∧
    addMultiple S P env {} ss (.seq (List.replicate ss.length r)) (.seq (List.replicate ss.length f))
        (.seq (List.replicate ss.length none)) = addLoop S P env {} (ss.map (fun s => ⟨s, r, f, none⟩)) ∧
    configBuild S P env ss (.scalar r) (.scalar f) = addLoop S P env {} (ss.map (fun s => ⟨s, r, f, none⟩)) := by
  refine ⟨?_, ?_, ?_⟩
  · simp [addMultiple, broadcast, zipArgs_replicate]
  · simp [addMultiple, broadcast, zipArgs_replicate]
  · simp [configBuild, addMultiple, broadcast, zipArgs_replicate]

example : (configBuild c06sFS c06sP {} [.str "main.yaml", .str "~/h.yaml", .str "x: 1"] (.scalar none) (.scalar none)).1.calls =
    [⟨"a: 1\n---\nb: 2\n", some "main.yaml", true⟩, ⟨"h: 1\n", some "~/h.yaml", true⟩, ⟨"x: 1", none, true⟩] := by decide

/- "… as one multi-document source": a file holding all the documents is handed to the parser in ONE call, as it is
   and under its name; where the parser splits that text into the documents of `parts` (PyYAML — a parameter), the
   stages are those of the parts given one by one as YAML texts carrying the file name (the arrangement `rawsep` of
   AY/Props/C06.lean, clause (b) of `C06_arrangements_agree`) -/
theorem C06_multidoc_source_is_one_call {δ : Type} (S : FileSys) (P : Parser δ) (env : Env) (file all : String)
    (parts : List String) (safe : Option Bool)
    (hfile : openRead S file = .content all)
    (hsplit : P ⟨all, some file, effSafe env safe⟩ =
      ((parts.map (fun t => (P ⟨t, some file, effSafe env safe⟩).1)).flatten, false))
    (hok : ∀ t ∈ parts, (P ⟨t, some file, effSafe env safe⟩).2 = false) :
    (addSource S P env {} ⟨.str file, none, none, safe⟩).1.calls = [⟨all, some file, effSafe env safe⟩] ∧
    (addSource S P env {} ⟨.str file, none, none, safe⟩).1.stages =
      (addLoop S P env {} (parts.map (fun t => ⟨.str t, some true, some file, safe⟩))).1.stages ∧
    (addSource S P env {} ⟨.str file, none, none, safe⟩).2 = none ∧
    (addLoop S P env {} (parts.map (fun t => ⟨.str t, some true, some file, safe⟩))).2 = none := by
  have h : openStep S none (.str file) none = (.ok all, some file) := by
    simp [openStep, rawTrue, openStr_content none none hfile]
  have h1 := addSource_of_ok P env ({} : BState δ) ⟨.str file, none, none, safe⟩ h
  simp only [recordedName, hsplit] at h1
  rw [h1, addLoop_rawTexts S P env (some file) safe parts hok (by simp)]
  simp

/-- a parser that splits at the separator line, for the example -/
def c06sSplit : Parser String := fun c => if c.text = "a: 1\n---\nb: 2\n" then (["a: 1\n", "b: 2\n"], false) else ([c.text], false)
example : (addSource c06sFS c06sSplit {} {} ⟨.str "main.yaml", none, none, none⟩).1.stages =
    (addLoop c06sFS c06sSplit {} {} [⟨.str "a: 1\n", some true, some "main.yaml", none⟩, ⟨.str "b: 2\n", some true, some "main.yaml", none⟩]).1.stages := by
  decide

/-! ### the safe flag in force -/

/- "`safe` and the builder's default safe flag": the parser runs with
   `(safe if safe is not None else builder default) and builder default and the flag already in force`; in particular
   a source cannot be made safe (`safe=True`) under a builder or an enclosing context that is unsafe -/
theorem C06_safe_flag_in_force (env : Env) (safe : Option Bool) :
    effSafe env safe = ((safe.getD true) && env.bdef && env.outer) ∧
    (env.bdef = false ∨ env.outer = false → effSafe env safe = false) := by
  cases safe with
  | none => cases env with | mk b o => cases b <;> cases o <;> simp [effSafe]
  | some x => cases env with | mk b o => cases x <;> cases b <;> cases o <;> simp [effSafe]

example : effSafe { bdef := false } (some true) = false ∧ effSafe {} (some false) = false ∧ effSafe {} none = true := by decide

/-! ### `Config.build_from_cmdline`: options classified as file / raw (AY.Model.Cmdline) -/

/- `process_cmdline`: an option classified as a FILE is forwarded with raw_yaml=False under its stripped text, which
   is also the recorded name; an option classified as RAW YAML is forwarded unchanged — not stripped — with
   raw_yaml=True under the name `<Commandline argument #i>` -/
theorem C06_cmdline_option_forwarding (idx : Nat) (opt : String) :
    (optionType opt = .file → cmdlineOne idx opt = .ok (strip opt, strip opt, false)) ∧
    (optionType opt = .raw → cmdlineOne idx opt = .ok (opt, cmdlineName idx, true)) := by
  constructor
  · intro h
    have h' : optionTypeC opt.toList = .file := h
    simp [cmdlineOne, processOption, processOptionC, h', strip]
  · intro h
    have h' : optionTypeC opt.toList = .raw := h
    simp [cmdlineOne, processOption, processOptionC, h', String.ofList_toList]

example : cmdlineOne 2 " main.yaml " = .ok ("main.yaml", "main.yaml", false) := by decide
example : cmdlineOne 2 "{a: 1} " = .ok ("{a: 1} ", "<Commandline argument #2>", true) := by decide

/- … hence: a file option that names no file is an error naming the file — it is never parsed as YAML (no guess on the
   command line) — and an existing file is read and recorded under the stripped option -/
theorem C06_cmdline_file_option {δ : Type} (S : FileSys) (P : Parser δ) (env : Env) (opt : String)
    (hfile : optionType opt = .file) :
    (openRead S (strip opt) = .notFound →
      buildFromCmdline S P env [opt] = ({}, some (.fileNotFound (S.expanduser (strip opt))))) ∧
    (∀ t, openRead S (strip opt) = .content t →
      (buildFromCmdline S P env [opt]).1.calls = [⟨t, some (strip opt), effSafe env none⟩]) := by
  have h1 := (C06_cmdline_option_forwarding 1 opt).1 hfile
  have hb : buildFromCmdline S P env [opt] =
      addSource S P env {} ⟨.str (strip opt), some false, some (strip opt), none⟩ := by
    simp [buildFromCmdline, processCmdline, h1, configBuild, addMultiple, broadcast, zipArgs, addLoop_singleton]
  rw [hb]
  constructor
  · intro hn
    simp [addSource, openStep, rawTrue, openStr_notFound _ _ hn, fallback]
  · intro t ht
    have ho : openStep S ({} : BState δ).currentFile (.str (strip opt)) (some false) = (.ok t, some (strip opt)) := by
      simp [openStep, rawTrue, openStr_content _ _ ht]
    rw [addSource_of_ok P env _ _ ho]
    rfl

example : buildFromCmdline c06sFS c06sP {} [" main.yaml"] =
    (⟨none, ["a: 1\n---\nb: 2\n"], [⟨"a: 1\n---\nb: 2\n", some "main.yaml", true⟩]⟩, none) := by decide
example : buildFromCmdline c06sFS c06sP {} ["nope.yaml"] = (({} : BState String), some (.fileNotFound "nope.yaml")) := by decide
-- raw and inline options never touch the file system: a file named `{x: 1}` is not read
example : (buildFromCmdline c06sFS c06sP {} ["{a: 1}", "a.b=2"]).1.calls =
    [⟨"{a: 1}", some "<Commandline argument #1>", true⟩, ⟨"!notnew { a:  { b: 2 }}", some "<Commandline argument #2>", true⟩] := by
  decide

end AY
