/-
  AY.Props.C02_FromPy — property C02 for trees built through the PYTHON API (`ConfigNode(data)`,
  `Config(dict)` → `ConfigDict(dict)`; model `fromPy`, Model/FromPy.lean).

  Property text: "When several tag-free mapping documents are merged in order, the result equals folding
  them left to right with a recursive update …".  AY.Props.C02 proves it for documents that went through
  the YAML loader.  Plain Python data handed to the constructors is the same kind of input — no tag
  anywhere — and the statements carry over: the API-built tree holds exactly the data
  (`C02_fromPy_native`), it satisfies the invariant of a freshly constructed tag-free document
  (`C02_fromPy_plain`), hence one merge is the recursive update of the data (`C02_fromPy_merge_is_upd`) and a
  Builder fold over API-built mappings is `foldUpd` of the data (`C02_fromPy_fold`).
  Lemmas: AY/Lemmas/FromPyData.lean, AY/Lemmas/FromPyPlain.lean.
-/
import AY.Props.C02
import AY.Lemmas.FromPyPlain
namespace AY

/-- `{'a': 1, 'b': {'c': [1, {'x': 'y'}], 'd': 'x'}, 3: [], 'e': {}}` (the data of `c02Doc1`) -/
def c02PyData1 : Plain :=
  .dict [(.str "a", .scalar (.int 1)),
    (.str "b", .dict [(.str "c", .list [.scalar (.int 1), .dict [(.str "x", .scalar (.str "y"))]]),
      (.str "d", .scalar (.str "x"))]),
    (.int 3, .list []), (.str "e", .dict [])]

/-- `{'b': {'c': {-1: {'z': 2}, 0: 9}, 'f': None}, 'a': {'k': [0]}, 3: 'x'}` (the data of `c02Doc2`) -/
def c02PyData2 : Plain :=
  .dict [(.str "b", .dict [(.str "c", .dict [(.int (-1), .dict [(.str "z", .scalar (.int 2))]), (.int 0, .scalar (.int 9))]),
      (.str "f", .scalar .null)]),
    (.str "a", .dict [(.str "k", .list [.scalar (.int 0)])]), (.int 3, .scalar (.str "x"))]

/-- `{'b': {'c': {5: 1}}}`: an index out of range once `b.c` is a list -/
def c02PyData3 : Plain := .dict [(.str "b", .dict [(.str "c", .dict [(.int 5, .scalar (.int 1))])])]

/- The API-built tree holds exactly the data — the keys of `_children` and the native values of the scalar
   leaves, read off the tree (`native`, the walk the harness's `dump_node` does) — for EVERY input, every
   combination of keyword arguments and any thread-local defaults (flags never touch the data).
   (Not `ayns.native_value`: on the code `ConfigDict._get_native_value` asks every KEY for `.ayns`, which only
   the loader's node keys have — `ConfigNode({'a': 1}).ayns.native_value` raises AttributeError. The model's
   keys are plain `Key` values on both paths.) -/
theorem C02_fromPy_native (env : Env) (kw : PyKw) (d : Plain) : native (fromPy env kw d) = d :=
  FP.native_fromPy env kw d

example : native (fromPy {} {} c02PyData1) = c02PyData1 := C02_fromPy_native {} {} c02PyData1
example : plainOfRaw c02Doc1 = c02PyData1 ∧ plainOfRaw c02Doc2 = c02PyData2 := ⟨rfl, rfl⟩

/- Without keyword arguments the tree satisfies the invariants of a freshly parsed tag-free document
   (`plainO`: nothing explicit, nothing inherited except `implicit_delete=True` below lists, list children
   numbered, every mapping not below a list non-deleting) — so every C02 theorem about such trees applies. -/
theorem C02_fromPy_plain (env : Env) (d : Plain) :
    plainO (fromPy env {} d) = true ∧ plainT (fromPy env {} d) = true :=
  ⟨FP.fromPy_plainO env d, FP.fromPy_plainT env {} d FP.kwBare_empty⟩

/- The two construction paths agree on tag-free input: `yaml.parse` of the tag-free document that denotes
   the data (`rawOfPlain`) and `ConfigNode(data)` — called under the same thread-local defaults — are the SAME
   tree, flags included (the loader adopts top-down through `set_child`, the constructors hand
   `_get_child_kwargs()` to the child constructors: both give a child exactly what its parent prescribes).
   For all data whose mappings have distinct keys. -/
theorem C02_fromPy_eq_construct (env : Env) (d : Plain) (hk : pyKeysDistinct d = true) :
    construct env (rawOfPlain d) = .ok (fromPy env {} d) :=
  FP.construct_rawOfPlain env d hk

example : pyKeysDistinct c02PyData1 = true ∧ rawOfPlain c02PyData1 = c02Doc1 := ⟨by decide, rfl⟩
example : construct {} c02Doc1 = .ok (fromPy {} {} c02PyData1) := C02_fromPy_eq_construct {} c02PyData1 (by decide)

/- "keys present in only one side are kept, mappings under a common key are merged recursively, and any
   other value (scalar or list) is replaced wholesale by the newer document's value. A mapping merged onto a
   list addresses existing indices only (anything else is a MergeError)":
   `ConfigNode(a).ayns.merge(ConfigNode(b))` and `upd a b` are the same `Except` value up to `native`. -/
theorem C02_fromPy_merge_is_upd (env env' : Env) (a b : Plain) :
    (merge (fromPy env {} a) (fromPy env' {} b)).map native = upd a b := by
  have h := (C02_merge_is_upd_top (fromPy env {} a) (fromPy env' {} b) (C02_fromPy_plain env a).2
    (C02_fromPy_plain env' b).1).1
  rwa [C02_fromPy_native, C02_fromPy_native] at h

example : ((merge (fromPy {} {} c02PyData1) (fromPy {} {} c02PyData2)).map native).toBool = true := by decide
example : (upd c02PyData1 c02PyData2).toBool = true := by decide

/- "When several tag-free mapping documents are merged in order, the result equals folding them left to
   right with a recursive update": a Builder whose stages are API-built mappings. -/
theorem C02_fromPy_fold (env : Env) (ds : List Plain) (hne : ds ≠ [])
    (hd : ∀ d, d ∈ ds → ∃ items, d = .dict items) :
    (flatten (ds.map (fromPy env {}))).map native = foldUpd ds := by
  have h := flatten_plain (ds.map (fromPy env {})) (by simpa using hne) (by
    intro st hst
    obtain ⟨d, hm, rfl⟩ := List.mem_map.1 hst
    obtain ⟨items, rfl⟩ := hd d hm
    exact ⟨FP.fromPy_plainO env _, rfl⟩)
  rw [List.map_map] at h
  have e : ds.map (native ∘ fromPy env {}) = ds := by
    conv => rhs; rw [← List.map_id ds]
    exact List.map_congr_left (fun d _ => C02_fromPy_native env {} d)
  rwa [e] at h

example : [c02PyData1, c02PyData2, c02PyData3] ≠ [] ∧
    (∀ d, d ∈ [c02PyData1, c02PyData2, c02PyData3] → ∃ items, d = .dict items) := by
  refine ⟨by simp, fun d hm => ?_⟩
  simp only [List.mem_cons, List.mem_nil_iff, or_false] at hm
  rcases hm with rfl | rfl | rfl <;> exact ⟨_, rfl⟩
-- the first two merge, the third addresses index 5 of a two-element list: MergeError on both sides
example : (foldUpd [c02PyData1, c02PyData2]).toBool = true ∧ (foldUpd [c02PyData1, c02PyData2, c02PyData3]).toBool = false := by
  decide

end AY
