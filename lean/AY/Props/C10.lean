/-
  AY.Props.C10 — every dynamic node is evaluated exactly once, independent of layout.

  Property text: "During one build each !call / !eval node runs exactly once no matter how many
  references, arguments or evaluated expressions consume it, all consumers see the same resulting
  object, and the evaluated config does not depend on the order in which keys are written in the
  documents. Nodes that no longer exist after merging (overwritten or deleted) are never evaluated."

  The statements are about `evalNodeF` / `evalImpl` / `evaluate` of AY.Model.Eval. An execution is
  a `LogEntry`; node identity is the path (the merged tree has no aliasing). Only property theorems
  live here; lemmas are in AY.Lemmas.EvalLemmas and AY.Lemmas.OnceLemmas (`Cov`, `evalNodeF_cov`).
  `WF` is the invariant of the evaluator state
    prog   : a path under evaluation is not memoised yet
    taint  : tainted paths are memoised
    logged : every logged path is memoised
    nodup  : the logged paths are pairwise distinct
  and `Ext s s'` the extension order (memoised values are kept, the log grows at the end, …).
  Key-order independence of the evaluated config is not treated here.
-/
import AY.Lemmas.OnceLemmas
namespace AY

/-- `f: !call f {a: !import os}`, consumed by two references, a bind argument and the mapping itself -/
def c10ExTree : Node :=
  .comp {} .dict [
    (.str "r1", .leaf {} (.xref "f")),
    (.str "f", .comp {} (.call "f") [(.str "a", .leaf {} (.imp "os"))]),
    (.str "r2", .leaf {} (.xref "r1")),
    (.str "g", .comp {} (.bind "f") [(.str "a", .leaf {} (.xref "f"))])]

def c10ExWorld : World := { sigs := [("f", [{ name := "a", kind := .posOrKw }])], modules := ["os"] }

/-! ### A memo hit executes nothing -/

/- "each !call / !eval node runs exactly once no matter how many references, arguments or evaluated
   expressions consume it": once a path is memoised, `evaluate_node` on it — from any consumer, with
   any node, in any mode — returns the memoised value and leaves log and memo table unchanged -/
theorem C10_cache_hit_no_log (root : Node) (w : World) (fuel : Nat) (rs : Bool) (n : Node) (path : Path)
    (st st' : EvSt) (v0 v : Val) (hc : plookup path st.cache = some v0)
    (h : evalNodeF root w fuel rs n path st = .ok (v, st')) :
    v = v0 ∧ st'.log = st.log ∧ st'.cache = st.cache := by
  cases fuel with
  | zero => simp [evalNodeF] at h
  | succ fuel =>
    obtain ⟨_, hcase⟩ := evalNodeF_ok_inv h
    rcases hcase with ⟨hv, _, rfl⟩ | ⟨hnone, _⟩
    · rw [hc] at hv; cases hv
      exact ⟨rfl, by simp, by simp⟩
    · rw [hc] at hnone; cases hnone

example : ∃ v st', evalNodeF c10ExTree c10ExWorld 5 false (.comp {} (.call "f") []) [.str "f"]
    { cache := [([.str "f"], .sym "memo")], log := [⟨[.str "f"], "call:f"⟩] } = .ok (v, st') ∧
    v = .sym "memo" ∧ st'.log = [⟨[.str "f"], "call:f"⟩] := by
  refine ⟨_, _, rfl, ?_, ?_⟩ <;> rfl

/- the same for the two other ways a consumer reaches a memoised value: `ctx.get_node` (references)
   and `ecfg[name]` (names in `!eval` code) return it without executing or memoising anything
   (`ctx.get_node` returns the state too since the repair of the laundering defect: a tainted hit
   in non-strict mode bumps the counter of unsafe content seen; log and memo table are untouched) -/
theorem C10_lookup_hit_no_log (rec : Rec) (root : Node) (rs : Bool) (p : Path) (nm : String)
    (st st' : EvSt) (v0 v : Val) :
    (plookup p st.cache = some v0 → ∀ g s1, ctxGetNode root rs p st = .ok (g, s1) →
      g = .value v0 ∧ s1.log = st.log ∧ s1.cache = st.cache) ∧
    (plookup [Key.str nm] st.cache = some v0 → ecfgLookup rec root nm st = .ok (v, st') →
      v = v0 ∧ st' = st) := by
  refine ⟨?_, ?_⟩
  · intro hc g s1 hg
    rcases ctxGetNode_ok_inv hg with ⟨v1, rfl, hv, ⟨_, rfl⟩ | ⟨_, _, rfl⟩⟩ | ⟨_, _, hn, _⟩
    · rw [hc] at hv; cases hv; exact ⟨rfl, rfl, rfl⟩
    · rw [hc] at hv; cases hv; exact ⟨rfl, rfl, rfl⟩
    · rw [hc] at hn; cases hn
  · intro hc h
    simp only [ecfgLookup, hc] at h
    split at h <;> cases h
    exact ⟨rfl, rfl⟩

example : ∃ g, ctxGetNode c10ExTree false [.str "f"] { cache := [([.str "f"], .sym "memo")] } = .ok g :=
  ⟨_, rfl⟩

/-! ### Exactly once -/

/- "runs exactly once" (at most once): the invariant `WF` — the logged paths are pairwise distinct
   and every logged path is memoised — is preserved by every successful `evalNodeF`; the state only
   grows (`Ext`). This is the full invariant, not a conditional step lemma. -/
theorem C10_log_once (root : Node) (w : World) (fuel : Nat) (rs : Bool) (n : Node) (path : Path)
    (st st' : EvSt) (v : Val) (hwf : WF st)
    (h : evalNodeF root w fuel rs n path st = .ok (v, st')) : WF st' ∧ Ext st st' :=
  evalNodeF_wf root w fuel rs n path st v st' hwf h

/- for a whole build: no path occurs twice in the execution log -/
theorem C10_evaluate_log_nodup (w : World) (root : Node) (v : Val) (st : EvSt)
    (h : evaluate w root = .ok (v, st)) :
    (st.log.map (·.path)).Nodup ∧ ∀ e, e ∈ st.log → plookup e.path st.cache ≠ none := by
  have := (C10_log_once root w _ false root [] {} st v WF.init h).1
  exact ⟨this.nodup, this.logged⟩

example : ∃ v st, evaluate c10ExWorld c10ExTree = .ok (v, st) ∧
    st.log.map (·.what) = ["import:os", "call:f", "bind:f"] := by
  refine ⟨_, _, rfl, ?_⟩; rfl

/- (at least once, for a node that is evaluated) a `!call` / `!bind` / `!eval` / `!import` node
   (`dynWhat n = some what`) whose fresh evaluation succeeds has its execution in the log, and by
   `WF.nodup` exactly one entry of the log carries its path -/
theorem C10_dynamic_node_logged_once (root : Node) (w : World) (fuel : Nat) (rs : Bool) (n : Node)
    (path : Path) (st st' : EvSt) (v : Val) (what : String) (hwf : WF st)
    (hd : dynWhat n = some what) (hfresh : plookup path st.cache = none)
    (h : evalNodeF root w fuel rs n path st = .ok (v, st')) :
    (⟨path, what⟩ : LogEntry) ∈ st'.log ∧ (st'.log.map (·.path)).count path = 1 := by
  have hwf' := (evalNodeF_wf root w fuel rs n path st v st' hwf h).1
  have hmem : (⟨path, what⟩ : LogEntry) ∈ st'.log := by
    cases fuel with
    | zero => simp [evalNodeF] at h
    | succ fuel =>
      obtain ⟨_, hcase⟩ := evalNodeF_ok_inv h
      rcases hcase with ⟨hv, _, _⟩ | ⟨_, _, st2, himpl, rfl⟩
      · rw [hfresh] at hv; cases hv
      · obtain ⟨st1, rfl⟩ := evalImpl_dyn_logs hd himpl
        simp
  refine ⟨hmem, ?_⟩
  rw [hwf'.nodup.count, if_pos (List.mem_map.2 ⟨_, hmem, rfl⟩)]

example : dynWhat (.comp {} (.call "f") [(.str "a", .leaf {} (.imp "os"))]) = some "call:f" := rfl

/- "each !call / !eval node runs exactly once": for a tree whose containers have pairwise distinct
   keys (`uniqueKeys`: every tree the library builds — `_children` is a Python dict), a successful
   build has, for *every* dynamic node `m` of the tree (at any path `p`, whoever consumes it, wherever
   it is written), exactly one log entry with that path, and it carries the node's label.
   (`Cov` of AY.Lemmas.OnceLemmas: a memoised node has all its descendants memoised, a memoised
   dynamic node is logged.) -/
theorem C10_exactly_once (w : World) (root : Node) (v : Val) (st : EvSt)
    (huk : uniqueKeys root = true) (h : evaluate w root = .ok (v, st))
    (p : Path) (m : Node) (what : String) (hm : getNode root p = some m) (hd : dynWhat m = some what) :
    (⟨p, what⟩ : LogEntry) ∈ st.log ∧ (st.log.map (·.path)).count p = 1 :=
  evaluate_dyn_logged huk h hm hd

example : uniqueKeys c10ExTree = true ∧
    getNode c10ExTree [.str "f", .str "a"] = some (.leaf {} (.imp "os")) ∧
    dynWhat (.leaf {} (.imp "os")) = some "import:os" := ⟨rfl, rfl, rfl⟩

/- without the hypothesis on keys the statement fails in the model for the shadowed entry: the
   second `a` is never evaluated (its path is memoised by the first) -/
example : ∃ v st, evaluate c10ExWorld (.comp {} .dict [(.str "a", .leaf {} (.scalar .null)), (.str "a", .leaf {} (.imp "os"))])
    = .ok (v, st) ∧ st.log = [] := by
  refine ⟨_, _, rfl, ?_⟩; rfl

/-! ### All consumers see the same object -/

/- "all consumers see the same resulting object": two successful evaluations of the same path in
   the course of one build — whatever happens in between (`Ext st1 st2`: any number of successful
   evaluations, see `C10_log_once` and `Ext.trans`), whichever node, mode and fuel the second
   consumer uses — return the same `Val` (same `oid`), and the second one executes nothing -/
theorem C10_shared_result (root : Node) (w : World) (fuel1 fuel2 : Nat) (rs1 rs2 : Bool) (n1 n2 : Node)
    (path : Path) (st0 st1 st2 st3 : EvSt) (v1 v2 : Val)
    (h1 : evalNodeF root w fuel1 rs1 n1 path st0 = .ok (v1, st1))
    (hext : Ext st1 st2)
    (h2 : evalNodeF root w fuel2 rs2 n2 path st2 = .ok (v2, st3)) :
    v2 = v1 ∧ st3.log = st2.log := by
  have hc := hext.cache path v1 (evalNodeF_cached h1)
  have := C10_cache_hit_no_log root w fuel2 rs2 n2 path st2 st3 v1 v2 hc h2
  exact ⟨this.1, this.2.1⟩

/- the same with an explicit evaluation of another node in between -/
theorem C10_shared_result_interleaved (root : Node) (w : World) (fuel1 fuel2 fuel3 : Nat)
    (rs1 rs2 rs3 : Bool) (n1 n2 n3 : Node) (path other : Path) (st0 st1 st2 st3 : EvSt) (v1 v2 v3 : Val)
    (hwf : WF st0)
    (h1 : evalNodeF root w fuel1 rs1 n1 path st0 = .ok (v1, st1))
    (h2 : evalNodeF root w fuel2 rs2 n2 other st1 = .ok (v2, st2))
    (h3 : evalNodeF root w fuel3 rs3 n3 path st2 = .ok (v3, st3)) :
    v3 = v1 ∧ st3.log = st2.log := by
  have hwf1 := (evalNodeF_wf root w fuel1 rs1 n1 path st0 v1 st1 hwf h1).1
  have hext := (evalNodeF_wf root w fuel2 rs2 n2 other st1 v2 st2 hwf1 h2).2
  exact C10_shared_result root w fuel1 fuel3 rs1 rs3 n1 n3 path st0 st1 st2 st3 v1 v3 h1 hext h3

/- the call result is one object (`oid = [f]`) under `r1`, `f`, `r2` and inside the partial `g` -/
example : ∃ st, evaluate c10ExWorld c10ExTree = .ok
    (.dict [] [
      (.str "r1", .app [.str "f"] "f" [("a", .sym "os")] [] []),
      (.str "f", .app [.str "f"] "f" [("a", .sym "os")] [] []),
      (.str "r2", .app [.str "f"] "f" [("a", .sym "os")] [] []),
      (.str "g", .part [.str "g"] "f" [] [("a", .app [.str "f"] "f" [("a", .sym "os")] [] [])])], st) :=
  ⟨_, rfl⟩

/-! ### Only nodes of the merged tree run -/

/- "Nodes that no longer exist after merging (overwritten or deleted) are never evaluated":
   `evaluate` receives the merged tree only, and every execution it logs belongs to a dynamic node
   sitting at the logged path *of that tree* (`Placed root m e.path`: reached from `root` through
   children lists) -/
theorem C10_only_existing_nodes_run (w : World) (root : Node) (v : Val) (st : EvSt)
    (h : evaluate w root = .ok (v, st)) :
    ∀ e, e ∈ st.log → ∃ m, Placed root m e.path ∧ dynWhat m = some e.what := by
  obtain ⟨new, h1, h2⟩ := evalNodeF_logExt root w _ false root [] {} v st Placed.root h
  intro e he
  rw [h1] at he
  obtain ⟨m, hm, _, hd⟩ := h2 e (by simpa using he)
  exact ⟨m, hm, hd⟩

example : Placed c10ExTree (.comp {} (.call "f") [(.str "a", .leaf {} (.imp "os"))]) [.str "f"] :=
  Placed.of_getNode (root := c10ExTree) rfl

end AY
