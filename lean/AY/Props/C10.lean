import AY.Spec.Plain
namespace AY
theorem C10_placeholder : foldUpd [] = .error .value := rfl
end AY
