/-
  C03 (continued) — "Priorities: the highest-priority writer wins, the latest among equals",
  stated purely about DOCUMENTS: the arg-max theorem composed with the loader.

  Statement (properties.jsonl): For every leaf path, the merged value is the one written by the
  stage whose value there has the highest priority (!force > untagged > !weak), and among equal
  priorities the latest stage; a priority tag on a container applies to everything below it. This
  holds for any number of stages and any order in which differently-prioritised writers appear, and
  user metadata attached to the competing values is combined under the same rule without losing
  keys.

  `C03_fold_argmax_partial` (AY/Props/C03.lean) is stated for stages given as dict-shaped NODE
  trees.  Here the stages are YAML documents (`Raw`): mappings of mappings with scalar leaves,
  untagged or tagged with a merge-control tag that carries `priority` and/or metadata
  (`rawDictShaped`: `!force`, `!weak`, `!metadata{{…}}`, the `{{…}}` syntax), no duplicate sibling
  keys.  What a stage writes at a path is read off the document (`rawLeafAt`): the scalar, its
  metadata, and the EFFECTIVE priority = the `priority` keyword of the outermost tagged
  ancestor-or-self that has one ("a priority tag on a container applies to everything below it").
  Definitions and proofs: AY/Lemmas/C03Loader.lean (`dsBuild` closed form of the loader's result,
  `rawLeafAt`, `rawShapeAt`, `rawCompatP`, `pickInfo`, `argmaxInfo`).
  Scope (as for the node-level theorem): lists and type changes at a path belong to C04.
-/
import AY.Lemmas.C03Loader
namespace AY

/-! ### Concrete documents used by the non-vacuity examples (those of AY/Props/C03.lean) -/

/-- `!weak {a: !force {c: 7}, d: !force {{m: 1}} 8}`: inner `!force` tags below an outer `!weak` -/
def c03RawNested : Raw :=
  .map .plain { prio := some (-1) } [
    (.str "a", .map .plain { prio := some 1 } [(.str "c", .scalar .none {} (.lit (.int 7)))]),
    (.str "d", .scalar .plain { prio := some 1, md := [("m", .int 1)] } (.lit (.int 8)))]

/-! ### The loader on dict-shaped documents -/

/- "a priority tag on a container applies to everything below it" — the loader, exactly: for a
   dict-shaped document (in either construction mode, below any dict-shaped parent) parsing
   succeeds with the tree `dsBuild env none r`, which is dict-shaped, and for every path `p`
   * the leaf stored at `p` carries the scalar and the metadata written in the document and the
     EFFECTIVE priority `rawLeafAt r p` computes: the `priority` keyword of the outermost tagged
     ancestor-or-self that has one (an inner `!force` below an outer `!weak` is weak), the default
     priority when no enclosing tag has one;
   * the shape at `p` (mapping / scalar / absent) is that of the document. -/
theorem C03_construct_dictShaped (env : Env) (r : Raw) (h : rawDictShaped r = true) :
    ∃ n, construct env r = .ok n ∧ dictShaped n = true ∧
      (rawDictDoc r = true → n.isDict = true) ∧
      (∀ p, (leafAt n p).bind leafInfo = rawLeafAt r p) ∧
      (∀ p, shapeAt n p = rawShapeAt r p) ∧
      (∀ parent, ParentDS parent → constructTD env parent r = .ok n) ∧
      constructDeep env r = .ok n := by
  refine ⟨dsBuild env none r, construct_ds env r h, dsBuild_DS env none r h, ?_,
    fun p => leafAt_dsBuild env p none r h, fun p => shapeAt_dsBuild env p none r h,
    fun parent hp => constructTD_ds env r parent h hp, constructDeep_ds env r h⟩
  intro hd
  cases r with
  | scalar t kw v => simp [rawDictDoc] at hd
  | seq t kw items => simp [rawDictDoc] at hd
  | map t kw items => rfl

example : rawDictShaped c03Raw1 = true ∧ rawDictShaped c03Raw3 = true ∧ rawDictShaped c03RawNested = true := by
  decide
-- the outermost priority wins: `a.c` and `d` are weak although tagged `!force` further in
example : rawLeafAt c03RawNested [.str "a", .str "c"] = some (-1, .int 7, []) ∧
    rawLeafAt c03RawNested [.str "d"] = some (-1, .int 8, [("m", .int 1)]) ∧
    rawLeafAt c03Raw1 [.str "a", .str "b"] = some (1, .int 1, []) ∧
    rawLeafAt c03Raw1 [.str "d"] = some (-1, .int 3, [("x", .int 1)]) ∧
    rawLeafAt c03Raw2 [.str "d"] = some (0, .int 4, [("y", .int 2)]) := by
  refine ⟨by decide, by decide, by decide, by decide, by decide⟩
example : ((construct {} c03RawNested).map (fun n => (leafAt n [.str "d"]).bind leafInfo)).toOption =
    some (rawLeafAt c03RawNested [.str "d"]) := by decide

/- Shape compatibility of the parsed documents follows from shape compatibility of the documents
   (`rawCompatP`: a path existing in both is a scalar in both or a mapping in both), whatever the
   parse contexts. -/
theorem C03_construct_compat (env env' : Env) (a b : Raw) (ha : rawDictShaped a = true)
    (hb : rawDictShaped b = true) (h : rawCompatP a b) :
    ∃ na nb, construct env a = .ok na ∧ construct env' b = .ok nb ∧ compatP na nb :=
  ⟨_, _, construct_ds env a ha, construct_ds env' b hb, compatP_dsBuild env env' ha hb h⟩

example : rawCompatP c03Raw1 c03Raw2 := rawCompatP_of_B _ _ (by decide)

/-! ### Any number of stages, as documents -/

/- "For every leaf path, the merged value is the one written by the stage whose value there has the
   highest priority (!force > untagged > !weak), and among equal priorities the latest stage … This
   holds for any number of stages and any order in which differently-prioritised writers appear":
   for every non-empty sequence of pairwise shape-compatible dict-shaped mapping documents (each
   with its own parse context) every document parses, `Builder.flatten` of the parsed stages
   succeeds, and at every path `p` the value and the priority of the merged leaf are those of
   `argmaxInfo` over what the DOCUMENTS write at `p` (`rawLeafAt`): the stage maximising
   (effective priority at `p`, stage index) among the stages that have `p`
   (`C03_argmaxInfo_is_lex_max`); the leaf is absent exactly when no stage writes it. -/
theorem C03_highest_priority_writer_wins (d0 : Env × Raw) (ds : List (Env × Raw))
    (hds : ∀ d, d ∈ d0 :: ds → rawDictDoc d.2 = true)
    (hpw : rawPairwiseCompat ((d0 :: ds).map (·.2))) :
    ∃ ns r, constructAll (d0 :: ds) = .ok ns ∧ flatten ns = .ok r ∧ dictShaped r = true ∧
      ∀ p, ((leafAt r p).bind leafInfo).map pv =
        (argmaxInfo ((d0 :: ds).map (fun d => rawLeafAt d.2 p))).map pv := by
  have hsh : ∀ d, d ∈ d0 :: ds → rawDictShaped d.2 = true := by
    intro d hd
    have := hds d hd
    cases hr : d.2 with
    | scalar t kw v => rw [hr] at this; simp [rawDictDoc] at this
    | seq t kw items => rw [hr] at this; simp [rawDictDoc] at this
    | map t kw items => rw [hr] at this; simpa [rawDictDoc] using this
  have hst : ∀ st, st ∈ (d0 :: ds).map (fun d => dsBuild d.1 none d.2) →
      dictShaped st = true ∧ st.isDict = true := by
    intro st hm
    obtain ⟨d, hd, rfl⟩ := List.mem_map.1 hm
    refine ⟨dsBuild_DS d.1 none d.2 (hsh d hd), ?_⟩
    have := hds d hd
    cases hr : d.2 with
    | scalar t kw v => rw [hr] at this; simp [rawDictDoc] at this
    | seq t kw items => rw [hr] at this; simp [rawDictDoc] at this
    | map t kw items => rfl
  have hcomp := pairwiseCompat_dsBuild (d0 :: ds) hsh hpw
  simp only [List.map_cons] at hst hcomp
  obtain ⟨r, h1, h2, h3⟩ := flatten_DS _ _ hst hcomp
  refine ⟨_, r, constructAll_ds (d0 :: ds) hsh, by simpa using h1, h2, ?_⟩
  intro p
  have hleafs : ∀ x, x ∈ (ds.map (fun d => dsBuild d.1 none d.2)).map (fun st => leafAt st p) → ScalarLeafO x := by
    intro x hx
    obtain ⟨st, hst', rfl⟩ := List.mem_map.1 hx
    exact leafAt_scalar p st (hst st (List.mem_cons_of_mem _ hst')).1
  rw [h3 p, foldl_pick_info _ _ (leafAt_scalar p _ (hst _ List.mem_cons_self).1) hleafs,
    leafAt_dsBuild d0.1 p none d0.2 (hsh d0 List.mem_cons_self), foldl_pickInfo_argmax]
  congr 2
  simp only [List.map_cons, List.map_map, rawLeafAt]
  congr 1
  apply List.map_congr_left
  intro d hd
  exact leafAt_dsBuild d.1 p none d.2 (hsh d (List.mem_cons_of_mem _ hd))

example : (∀ d, d ∈ [(({}, c03Raw1) : Env × Raw), ({}, c03Raw2), ({ dSafe := false }, c03Raw3)] →
      rawDictDoc d.2 = true) ∧
    rawPairwiseCompat ([(({}, c03Raw1) : Env × Raw), ({}, c03Raw2), ({ dSafe := false }, c03Raw3)].map (·.2)) := by
  refine ⟨?_, rawPairwiseCompat_of_B _ (by decide)⟩
  intro d hd
  simp only [List.mem_cons, List.not_mem_nil, or_false] at hd
  rcases hd with rfl | rfl | rfl <;> decide
-- three documents: `a.c` is written force (2) then weak (7): 2 wins; `d` weak 3, untagged 4, weak 8: 4 wins
example : (argmaxInfo ([c03Raw1, c03Raw2, c03Raw3].map (fun d => rawLeafAt d [.str "a", .str "c"]))).map pv =
      some (1, .int 2) ∧
    (argmaxInfo ([c03Raw1, c03Raw2, c03Raw3].map (fun d => rawLeafAt d [.str "d"]))).map pv =
      some (0, .int 4) := by decide

/- `argmaxInfo` is the lexicographic maximum: when it returns the writer `w`, `w` is what some stage
   `i` writes, and every other stage `j` that writes the leaf has a strictly lower priority, or the
   same priority and is not later than `i` ("the highest priority, the latest among equals"); it
   returns nothing only when no stage writes the leaf. -/
theorem C03_argmaxInfo_is_lex_max (l : List (Option LeafInfo)) :
    (∀ w, argmaxInfo l = some w →
      ∃ i : Nat, l[i]? = some (some w) ∧
        ∀ (j : Nat) (m : LeafInfo), l[j]? = some (some m) → m.1 < w.1 ∨ (m.1 = w.1 ∧ j ≤ i)) ∧
    (argmaxInfo l = none → ∀ x, x ∈ l → x = none) :=
  ⟨argmaxInfo_spec l, argmaxInfo_none l⟩

example : (argmaxInfo [some (1, .int 2, []), none, some (0, .int 3, []), some (1, .int 5, []), some (-1, .int 1, [])]).map pv =
    some (1, .int 5) := by decide

/- "user metadata attached to the competing values is combined under the same rule without losing
   keys": under the same hypotheses the COMPLETE information of the merged leaf (priority, value,
   metadata) is the left fold of the leaf rule `pickInfo` over what the documents write at `p`
   (winner's value and priority, metadata `{**loser, **winner}` at every step), and the merged
   metadata has a key exactly when some stage's metadata at `p` has it. -/
theorem C03_loader_fold_metadata (d0 : Env × Raw) (ds : List (Env × Raw))
    (hds : ∀ d, d ∈ d0 :: ds → rawDictDoc d.2 = true)
    (hpw : rawPairwiseCompat ((d0 :: ds).map (·.2))) :
    ∃ ns r, constructAll (d0 :: ds) = .ok ns ∧ flatten ns = .ok r ∧
      (∀ p, (leafAt r p).bind leafInfo =
        (ds.map (fun d => rawLeafAt d.2 p)).foldl pickInfo (rawLeafAt d0.2 p)) ∧
      (∀ p k, mdHas k ((leafAt r p).bind leafInfo) =
        ((d0 :: ds).map (fun d => rawLeafAt d.2 p)).any (mdHas k)) := by
  have hsh : ∀ d, d ∈ d0 :: ds → rawDictShaped d.2 = true := by
    intro d hd
    have := hds d hd
    cases hr : d.2 with
    | scalar t kw v => rw [hr] at this; simp [rawDictDoc] at this
    | seq t kw items => rw [hr] at this; simp [rawDictDoc] at this
    | map t kw items => rw [hr] at this; simpa [rawDictDoc] using this
  have hst : ∀ st, st ∈ (d0 :: ds).map (fun d => dsBuild d.1 none d.2) →
      dictShaped st = true ∧ st.isDict = true := by
    intro st hm
    obtain ⟨d, hd, rfl⟩ := List.mem_map.1 hm
    refine ⟨dsBuild_DS d.1 none d.2 (hsh d hd), ?_⟩
    have := hds d hd
    cases hr : d.2 with
    | scalar t kw v => rw [hr] at this; simp [rawDictDoc] at this
    | seq t kw items => rw [hr] at this; simp [rawDictDoc] at this
    | map t kw items => rfl
  have hcomp := pairwiseCompat_dsBuild (d0 :: ds) hsh hpw
  simp only [List.map_cons] at hst hcomp
  obtain ⟨r, h1, h2, h3⟩ := flatten_DS _ _ hst hcomp
  have hfold : ∀ p, (leafAt r p).bind leafInfo =
      (ds.map (fun d => rawLeafAt d.2 p)).foldl pickInfo (rawLeafAt d0.2 p) := by
    intro p
    have hleafs : ∀ x, x ∈ (ds.map (fun d => dsBuild d.1 none d.2)).map (fun st => leafAt st p) → ScalarLeafO x := by
      intro x hx
      obtain ⟨st, hst', rfl⟩ := List.mem_map.1 hx
      exact leafAt_scalar p st (hst st (List.mem_cons_of_mem _ hst')).1
    rw [h3 p, foldl_pick_info _ _ (leafAt_scalar p _ (hst _ List.mem_cons_self).1) hleafs,
      leafAt_dsBuild d0.1 p none d0.2 (hsh d0 List.mem_cons_self)]
    congr 1
    simp only [List.map_map, rawLeafAt]
    apply List.map_congr_left
    intro d hd
    exact leafAt_dsBuild d.1 p none d.2 (hsh d (List.mem_cons_of_mem _ hd))
  refine ⟨_, r, constructAll_ds (d0 :: ds) hsh, by simpa using h1, hfold, ?_⟩
  intro p k
  rw [hfold p, mdHas_foldl]
  simp [List.any_cons]

-- `d`: `!weak {{x: 1}} 3`, `{{y: 2}} 4`, `!force 8` below a weak root: value 4, priority 0, keys x and y
example : ([c03Raw2, c03Raw3].map (fun d => rawLeafAt d [.str "d"])).foldl pickInfo (rawLeafAt c03Raw1 [.str "d"]) =
    some (0, .int 4, [("x", .int 1), ("y", .int 2)]) := by decide

end AY
