/-
  C05 (continued) — the sibling-independence clause for mapping nodes.

  Statement (properties.jsonl, the clause finished here): "… the merged value at any path is
  unaffected by what sibling paths contain …".

  AY/Props/C05.lean proved the wrap law (single-key wrappers with bare flags) and the frame law
  (keys the newer mapping does not mention, non-deleting newer mapping).  Here the clause is stated
  for ONE merge of two mappings with ARBITRARY flags and content (every node kind, every tag below;
  any fuel, `rec = mergeF fuel`), distinct keys on both sides, deleting or not:

      whole    = mergeF (fuel+1) {…scs…}flags sf   {…ocs…}flags of
      at k     = mergeF (fuel+1) {k: scs[k]}sf     {k: ocs[k]}of        (`single k (alookup k …)`)

  * OUTCOME   whole fails iff some `at k` fails, k a key of the newer mapping, and then with the
              error of the first such key in the order of the newer mapping (`C05_sibling_outcome`);
  * DATA      on success the data under every key `k` of the result is the data under `k` of
              `at k` — a function of the two entries under `k` and the two flag sets, whatever the
              other keys hold, whether or not a sibling survives the pruning of a deleting newer
              mapping (early exit versus key loop: this is what D35 broke) (`C05_sibling_data`);
  * EXACT     for a non-deleting newer mapping the whole entry under `k` (all raw flags below it),
              the flags of the merged mapping and the "is self" answer are those of `at k`
              (`C05_sibling_exact_live`); `at k` itself is the wrap law of C05 with arbitrary flags
              (`C05_restricted_merge_live`, `C05_restricted_new_key_live`);
  * DEPTH     at any depth below NON-deleting mappings: cutting both trees down to the entries along
              a path `p` (`restrictTo p`: every mapping on the way keeps only the entry the path goes
              through) keeps the merge successful and leaves the same data at `p`
              (`C05_deep_sibling_independent_partial`, `C05_deep_sibling_irrelevant_partial`); the
              hypothesis "no deleting mapping along `p`" cannot be dropped (D39 below);
  * what IS sibling dependent under a deleting newer mapping: the "is self" answer and raw
              inherited flags of the entry (`C05_sibling_identity_flag_counterexample`) — not data;
  * what is FALSE (defect D39, replayed on the implementation): under a deleting ANCESTOR the
              nested merges do not inherit the removed paths, so two levels down the outcome at a
              path does depend on a sibling (`C05_nested_del_sibling_counterexample`); the theorems
              above are the one-merge part that holds (`C05_sibling_data` applies to every nested
              call, but the nested call only happens when something survived the outer pruning).
  Proofs: AY/Lemmas/C05Siblings.lean (`stepAt`, `keptAt`, `mergeLoop_dict_pointwise`,
  `compMerge_live_spec`, `compMerge_del_spec`, `restrict_del`), AY/Lemmas/C05Deep.lean (`restrictTo`,
  `Plain.at?`, `liveAlong`, `dictAlong`, `mergeF_restrictTo`), AY/Lemmas/ExcBelow.lean.
-/
import AY.Lemmas.C05Siblings
import AY.Lemmas.C05Deep
import AY.Lemmas.C02Fold
namespace AY

/-! ### Concrete inputs used by the non-vacuity examples -/

/-- children of `{x: 1, y: {z: 2}, p: !force 1}` -/
def c05sScs : List (Key × Node) :=
  [(.str "x", .leaf {} (.scalar (.int 1))),
   (.str "y", .comp {} .dict [(.str "z", .leaf {} (.scalar (.int 2)))]),
   (.str "p", .leaf { prio := some 1 } (.scalar (.int 1)))]

/-- children of `{y: {w: 3}, n: 5}` (non-deleting parent) -/
def c05sOcs : List (Key × Node) :=
  [(.str "y", .comp {} .dict [(.str "w", .leaf {} (.scalar (.int 3)))]),
   (.str "n", .leaf {} (.scalar (.int 5)))]

/-- children of `!del {y: !notnew {z: 7}, n: 5}` as the loader builds them -/
def c05sDcs : List (Key × Node) :=
  [(.str "y", .comp { new := some false, iDel := some true } .dict
      [(.str "z", .leaf { iDel := some true, iNew := some false } (.scalar (.int 7)))]),
   (.str "n", .leaf { iDel := some true } (.scalar (.int 5)))]

def c05sDel : Flags := { del := some true }

def c05sInt (i : Int) : Raw := .scalar .none {} (.lit (.int i))

/-- parse each document and fold them with `Builder.flatten` -/
def c05sBuild (docs : List Raw) : Except Err Plain :=
  match constructDocs (docs.map (fun r => (({} : Env), r))) with
  | .error e => .error e
  | .ok ns => (flatten ns).map native

/-! ### Outcome -/

/- "the merged value at any path is unaffected by what sibling paths contain" — success/failure:
   for ALL mappings with distinct keys (any flags, any content, deleting or not) the merge fails
   exactly when the merge of the two mappings RESTRICTED to some key of the newer mapping fails,
   and it reports the error of the first such key in the order of the newer mapping.  Whether the
   restricted merge of `k` fails depends on the two entries under `k` and the two flag sets only. -/
theorem C05_sibling_outcome (fuel : Nat) (sf of : Flags) (scs ocs : List (Key × Node))
    (hns : keysNodup scs = true) (hno : keysNodup ocs = true) :
    errOf (mergeF (fuel + 1) (.comp sf .dict scs) (.comp of .dict ocs)) =
      ocs.findSome? (fun kv => errOf (mergeF (fuel + 1)
        (.comp sf .dict (single kv.1 (alookup kv.1 scs)))
        (.comp of .dict (single kv.1 (alookup kv.1 ocs))))) := by
  simp only [mergeF]
  exact compMerge_sibling_outcome (mergeF fuel) sf of scs ocs hns hno

example : keysNodup c05sScs = true ∧ keysNodup c05sOcs = true ∧ keysNodup c05sDcs = true := by decide
-- a failing instance: `{x: 1} ← !notnew-free {…, q: !notnew 1}` fails at the second key
example : errOf (mergeF 3 (.comp {} .dict c05sScs) (.comp {} .dict
    (c05sOcs ++ [(.str "q", .leaf { iNew := some false } (.scalar (.int 1)))]))) =
    some (.notnew [.str "q"]) := by decide

/-! ### Data -/

/- "the merged value at any path is unaffected by what sibling paths contain" — data: for ALL
   mappings with distinct keys (any flags, any content; a deleting newer mapping included, whether
   a protected sibling survives its pruning or not), after a successful merge the restricted merge
   of every key `k` succeeds too and the data stored under `k` is the same (or `k` is absent in
   both).  Hence two older mappings that agree under `k` give the same data under `k`. -/
theorem C05_sibling_data (fuel : Nat) (sf of : Flags) (scs ocs : List (Key × Node))
    (hns : keysNodup scs = true) (hno : keysNodup ocs = true) (r : Node) (s : Bool)
    (h : mergeF (fuel + 1) (.comp sf .dict scs) (.comp of .dict ocs) = .ok (r, s)) (k : Key) :
    ∃ rk sk, mergeF (fuel + 1) (.comp sf .dict (single k (alookup k scs)))
        (.comp of .dict (single k (alookup k ocs))) = .ok (rk, sk) ∧
      (alookup k r.children).map native = (alookup k rk.children).map native := by
  simp only [mergeF] at h ⊢
  exact compMerge_sibling_data (mergeF fuel) sf of scs ocs hns hno r s h k

-- a deleting newer mapping over `{x: 1, y: {z: 2}, p: !force 1}`: `p` survives the pruning, the
-- `!notnew` entry `y` re-creates the removed `y.z`; the merge succeeds …
example : ((mergeF 3 (.comp {} .dict c05sScs) (.comp c05sDel .dict c05sDcs)).map (fun r => native r.1)) =
    .ok (.dict [(.str "p", .scalar (.int 1)), (.str "y", .dict [(.str "z", .scalar (.int 7))]),
      (.str "n", .scalar (.int 5))]) := rfl
-- … and so does the same merge without the protected sibling (early exit), with the same data at `y`
example : ((mergeF 3 (.comp {} .dict (c05sScs.take 2)) (.comp c05sDel .dict c05sDcs)).map (fun r => native r.1)) =
    .ok (.dict [(.str "y", .dict [(.str "z", .scalar (.int 7))]), (.str "n", .scalar (.int 5))]) := rfl

/- The corollary in the words of the property: two older mappings (same flags) that hold the same
   entry under `k` — and anything under their other keys — merged with the same newer mapping: if
   both merges succeed, the data under `k` is the same. -/
theorem C05_sibling_irrelevant (fuel : Nat) (sf of : Flags) (scs scs' ocs : List (Key × Node))
    (hns : keysNodup scs = true) (hns' : keysNodup scs' = true) (hno : keysNodup ocs = true)
    (k : Key) (hk : alookup k scs = alookup k scs') (r r' : Node) (s s' : Bool)
    (h : mergeF (fuel + 1) (.comp sf .dict scs) (.comp of .dict ocs) = .ok (r, s))
    (h' : mergeF (fuel + 1) (.comp sf .dict scs') (.comp of .dict ocs) = .ok (r', s')) :
    (alookup k r.children).map native = (alookup k r'.children).map native := by
  obtain ⟨rk, sk, e1, d1⟩ := C05_sibling_data fuel sf of scs ocs hns hno r s h k
  obtain ⟨rk', sk', e2, d2⟩ := C05_sibling_data fuel sf of scs' ocs hns' hno r' s' h' k
  rw [hk, e2] at e1
  injection e1 with e1
  injection e1 with e1 _
  rw [d1, d2, e1]

example : alookup (.str "y") c05sScs = alookup (.str "y") (c05sScs.take 2) := rfl

/- … and success itself is sibling independent in the same sense: when the two older mappings
   differ only in entries whose keys the newer mapping does not mention, one merge fails iff the
   other does, with the same error. -/
theorem C05_sibling_outcome_irrelevant (fuel : Nat) (sf of : Flags) (scs scs' ocs : List (Key × Node))
    (hns : keysNodup scs = true) (hns' : keysNodup scs' = true) (hno : keysNodup ocs = true)
    (hk : ∀ kv ∈ ocs, alookup kv.1 scs = alookup kv.1 scs') :
    errOf (mergeF (fuel + 1) (.comp sf .dict scs) (.comp of .dict ocs)) =
      errOf (mergeF (fuel + 1) (.comp sf .dict scs') (.comp of .dict ocs)) := by
  rw [C05_sibling_outcome fuel sf of scs ocs hns hno, C05_sibling_outcome fuel sf of scs' ocs hns' hno]
  exact findSome?_congr' (fun kv hkv => by rw [hk kv hkv])

example : ∀ kv ∈ c05sDcs, alookup kv.1 c05sScs = alookup kv.1 (c05sScs.take 2) := by
  intro kv h; simp [c05sDcs] at h; rcases h with h | h <;> subst h <;> rfl

/-! ### Exact form, non-deleting newer mapping -/

/- For a non-deleting newer mapping nothing at all under `k` depends on the siblings: the entry
   stored under `k` (the node with every raw flag below it), the flags of the merged mapping and
   the "is self" answer are exactly those of the restricted merge. -/
theorem C05_sibling_exact_live (fuel : Nat) (sf of : Flags) (scs ocs : List (Key × Node))
    (hlive : eDel (.comp of .dict ocs) = false)
    (hns : keysNodup scs = true) (hno : keysNodup ocs = true) (r : Node) (s : Bool)
    (h : mergeF (fuel + 1) (.comp sf .dict scs) (.comp of .dict ocs) = .ok (r, s)) (k : Key) :
    ∃ rk, mergeF (fuel + 1) (.comp sf .dict (single k (alookup k scs)))
        (.comp of .dict (single k (alookup k ocs))) = .ok (rk, true) ∧
      s = true ∧ r.flags = rk.flags ∧ alookup k r.children = alookup k rk.children := by
  simp only [mergeF] at h ⊢
  exact compMerge_sibling_exact_live (mergeF fuel) sf of scs ocs hlive hns hno r s h k

example : eDel (.comp {} .dict c05sOcs) = false := by decide
example : ((mergeF 3 (.comp {} .dict c05sScs) (.comp {} .dict c05sOcs)).map (fun r => native r.1)) =
    .ok (.dict [(.str "x", .scalar (.int 1)),
      (.str "y", .dict [(.str "z", .scalar (.int 2)), (.str "w", .scalar (.int 3))]),
      (.str "p", .scalar (.int 1)), (.str "n", .scalar (.int 5))]) := rfl

/- What the restricted merge computes (the wrap law `C05_wrap` for ARBITRARY flags of the two
   mappings, non-deleting newer one): the merge of the two entries, stored by the key loop
   (`wrapChildren`: in place / re-adopted under the flags of `self` / removed / `notnew` error),
   below the merged flags (`finishFlags`: `_replace_self` or `_replace_other`), re-propagated. -/
theorem C05_restricted_merge_live (fuel : Nat) (sf of : Flags) (k : Key) (a b : Node)
    (hlive : eDel (.comp of .dict [(k, b)]) = false) :
    mergeF (fuel + 1) (.comp sf .dict [(k, a)]) (.comp of .dict [(k, b)]) =
      match mergeF fuel a b with
      | .error e => .error (e.prepend k)
      | .ok (nw, same) =>
        match wrapChildren sf k a b nw same with
        | .error e => .error e
        | .ok cs => .ok (propagate (.comp (finishFlags sf of) .dict cs), true) := by
  simp only [mergeF]
  exact compMerge_single_live (mergeF fuel) sf of k a b hlive

example := C05_restricted_merge_live 2 { prio := some 1, md := [("m", .int 1)] } { safe := some false }
  (.str "y") (.comp {} .dict [(.str "z", .leaf {} (.scalar (.int 2)))])
  (.comp {} .dict [(.str "w", .leaf {} (.scalar (.int 3)))]) (by decide)

/- … and for a key the older mapping does not have: the value is created iff `_require_all_new`
   passes on it (no exceptions: nothing was removed), adopted under the flags of `self`. -/
theorem C05_restricted_new_key_live (fuel : Nat) (sf of : Flags) (k : Key) (b : Node)
    (hlive : eDel (.comp of .dict [(k, b)]) = false) :
    mergeF (fuel + 1) (.comp sf .dict []) (.comp of .dict [(k, b)]) =
      match reqNew [] [] b with
      | some p => .error (.notnew (k :: p))
      | none => .ok (propagate (.comp (finishFlags sf of) .dict [(k, adopt sf .dict b)]), true) := by
  simp only [mergeF]
  exact compMerge_single_new_live (mergeF fuel) sf of k b hlive

example : mergeF 2 (.comp {} .dict []) (.comp {} .dict [(.str "q", .leaf { iNew := some false } (.scalar (.int 1)))]) =
    .error (.notnew [.str "q"]) := rfl

/-! ### Any depth, below non-deleting mappings -/

/-- `{a: {k: {x: 0, y: !force 1}, s: [1]}, t: 2}` -/
def c05sDeepS : Node :=
  .comp {} .dict [
    (.str "a", .comp {} .dict [
      (.str "k", .comp {} .dict [(.str "x", .leaf {} (.scalar (.int 0))),
                                 (.str "y", .leaf { prio := some 1 } (.scalar (.int 1)))]),
      (.str "s", .comp {} .list [(.int 0, .leaf { iDel := some true } (.scalar (.int 1)))])]),
    (.str "t", .leaf {} (.scalar (.int 2)))]

/-- `{a: {k: !del {x: 5}, s: !notnew {}}, u: 3}`: non-deleting mappings along `a`, then a deleting one at `a.k` -/
def c05sDeepO : Node :=
  .comp {} .dict [
    (.str "a", .comp {} .dict [
      (.str "k", .comp { del := some true } .dict [(.str "x", .leaf { iDel := some true } (.scalar (.int 5)))]),
      (.str "s", .comp { new := some false } .dict [])]),
    (.str "u", .leaf {} (.scalar (.int 3)))]

/- "the merged value at ANY path is unaffected by what sibling paths contain" — at any depth, as
   long as the newer tree consists of NON-deleting mappings with distinct keys along the path `p`
   (`liveAlong p o`; the node AT `p` is arbitrary: deleting, a list, a scalar, absent) and the older
   tree of mappings with distinct keys as far as it exists along `p` (`dictAlong p s`): for ALL such
   trees (any flags, any content off the path), if the merge succeeds then so does the merge of
   the two trees cut down to the entries along `p`, and the data at `p` is the same.  Everything
   the two trees hold at sibling paths — at every level along `p` — is irrelevant for the data at
   `p`.  (Same fuel on both sides; `p = []` is the trivial case.) -/
theorem C05_deep_sibling_independent_partial (p : Path) (fuel : Nat) (s o r : Node) (b : Bool)
    (hs : dictAlong p s = true) (ho : liveAlong p o = true) (h : mergeF fuel s o = .ok (r, b)) :
    ∃ r' b', mergeF fuel (restrictTo p s) (restrictTo p o) = .ok (r', b') ∧
      (native r').at? p = (native r).at? p :=
  mergeF_restrictTo p fuel s o r b hs ho h

example : dictAlong [.str "a", .str "k"] c05sDeepS = true ∧ liveAlong [.str "a", .str "k"] c05sDeepO = true := by
  decide
-- the merge succeeds; at `a.k` the protected `y` survives the deleting `a.k` of the newer tree
example : ((mergeF 4 c05sDeepS c05sDeepO).map (fun r => (native r.1).at? [.str "a", .str "k"])) =
    .ok (some (.dict [(.str "y", .scalar (.int 1)), (.str "x", .scalar (.int 5))])) := rfl
-- the trees cut down to the path: `{a: {k: {x: 0, y: !force 1}}}` and `{a: {k: !del {x: 5}}}`
example : native (restrictTo [.str "a", .str "k"] c05sDeepS) =
    .dict [(.str "a", .dict [(.str "k", .dict [(.str "x", .scalar (.int 0)), (.str "y", .scalar (.int 1))])])] := rfl

/- The same as a statement about two pairs of trees: older trees that agree along `p`, newer trees
   that agree along `p` (they may differ at every sibling path, on every level), all four within
   the domain above; if both merges succeed the data at `p` is the same. -/
theorem C05_deep_sibling_irrelevant_partial (p : Path) (fuel : Nat) (s s' o o' r r' : Node) (b b' : Bool)
    (hs : dictAlong p s = true) (hs' : dictAlong p s' = true)
    (ho : liveAlong p o = true) (ho' : liveAlong p o' = true)
    (es : restrictTo p s = restrictTo p s') (eo : restrictTo p o = restrictTo p o')
    (h : mergeF fuel s o = .ok (r, b)) (h' : mergeF fuel s' o' = .ok (r', b')) :
    (native r).at? p = (native r').at? p := by
  obtain ⟨r1, b1, e1, d1⟩ := mergeF_restrictTo p fuel s o r b hs ho h
  obtain ⟨r2, b2, e2, d2⟩ := mergeF_restrictTo p fuel s' o' r' b' hs' ho' h'
  rw [es, eo, e2] at e1
  injection e1 with e1
  injection e1 with e1 _
  rw [← d1, ← d2, e1]

-- two older trees that differ at the sibling paths `a.s` and `t` only
example : restrictTo [.str "a", .str "k"] c05sDeepS =
    restrictTo [.str "a", .str "k"] (.comp {} .dict [(.str "a", .comp {} .dict [
      (.str "k", .comp {} .dict [(.str "x", .leaf {} (.scalar (.int 0))),
                                 (.str "y", .leaf { prio := some 1 } (.scalar (.int 1)))]),
      (.str "s", .leaf { prio := some 1 } (.scalar (.int 9)))])]) := rfl

/-! ### What is sibling dependent under a deleting newer mapping -/

/- Not data: with a deleting newer mapping the "is self" answer of the merge and raw inherited
   flags of an entry do depend on whether some sibling survives the pruning (early exit: the newer
   object takes over, its entries keep the flags they inherited from IT; key loop: `self` stays,
   the entries are adopted under the flags of `self`).  Witness: `!new {k: 1}` versus
   `!new {k: 1, p: !force 1}`, each merged with `!del {k: 2}`: same data under `k`, different
   answer, different `implicit_allow_new` on the entry. -/
theorem C05_sibling_identity_flag_counterexample :
    ∃ (sf of : Flags) (scs scs' ocs : List (Key × Node)) (k : Key) (r r' : Node) (s s' : Bool),
      alookup k scs = alookup k scs' ∧
      mergeF 2 (.comp sf .dict scs) (.comp of .dict ocs) = .ok (r, s) ∧
      mergeF 2 (.comp sf .dict scs') (.comp of .dict ocs) = .ok (r', s') ∧
      (alookup k r.children).map native = (alookup k r'.children).map native ∧
      s ≠ s' ∧
      (alookup k r.children).map (fun n => n.flags.iNew) ≠ (alookup k r'.children).map (fun n => n.flags.iNew) := by
  refine ⟨{ new := some true }, { del := some true },
    [(.str "k", .leaf { iNew := some true } (.scalar (.int 1)))],
    [(.str "k", .leaf { iNew := some true } (.scalar (.int 1))),
     (.str "p", .leaf { prio := some 1, iNew := some true } (.scalar (.int 1)))],
    [(.str "k", .leaf { iDel := some true } (.scalar (.int 2)))], .str "k", _, _, _, _, rfl, rfl, rfl, ?_, ?_, ?_⟩
  · rfl
  · decide
  · decide

/-! ### What is false: a deleting ancestor (defect D39) -/

/-- `{r: {a: {k: {x: 0}}}}` and the same with a protected sibling next to `k` -/
def c05sOld : Raw :=
  .map .none {} [(.str "r", .map .none {} [(.str "a", .map .none {} [
    (.str "k", .map .none {} [(.str "x", c05sInt 0)])])])]
def c05sOldP : Raw :=
  .map .none {} [(.str "r", .map .none {} [(.str "a", .map .none {} [
    (.str "k", .map .none {} [(.str "x", c05sInt 0)]),
    (.str "p", .scalar .plain { prio := some 1 } (.lit (.int 1)))])])]
/-- `{r: !del {a: {k: !notnew {x: 5}}}}` -/
def c05sNew : Raw :=
  .map .none {} [(.str "r", .map .plain { del := some true } [(.str "a", .map .none {} [
    (.str "k", .map .plain { new := some false } [(.str "x", c05sInt 5)])])])]

/- The clause does NOT hold two levels below a deleting mapping, in the model as in the code: the
   paths removed by the pruning of `r` are exceptions of `_require_all_new` in the merge of `r`
   only; when the protected sibling `r.a.p` keeps `r.a` alive, `r.a` is merged by a nested call
   that starts with an empty `removed` set and refuses the `!notnew` node at `r.a.k`, whose target
   was removed one level up.  Whole pipeline (loader + fold): without the sibling the build
   succeeds, with it it is a MergeError naming `r.a.k.x`.
   Replay: Config.build("r: {a: {k: {x: 0}}}", "r: !del {a: {k: !notnew {x: 5}}}") = {r: {a: {k: {x: 5}}}},
           Config.build("r: {a: {k: {x: 0}, p: !force 1}}", same) raises MergeError (r.a.k.x).
   This is why `C05_deep_sibling_independent_partial` asks for non-deleting mappings along the path:
   here `r` is deleting and the path `r.a.k` goes through it. -/
theorem C05_nested_del_sibling_counterexample :
    c05sBuild [c05sOld, c05sNew] =
      .ok (.dict [(.str "r", .dict [(.str "a", .dict [(.str "k", .dict [(.str "x", .scalar (.int 5))])])])]) ∧
    c05sBuild [c05sOldP, c05sNew] = .error (.notnew [.str "r", .str "a", .str "k", .str "x"]) := by
  constructor <;> rfl

/- One level (the D35 witness) the repaired model is sibling independent, as `C05_sibling_data`
   says: `a: {k: {x: 0}} ← a: !del {k: !notnew {x: 1}}` with and without `p: !force 1`. -/
example : c05sBuild [.map .none {} [(.str "a", .map .none {} [(.str "k", .map .none {} [(.str "x", c05sInt 0)])])],
    .map .none {} [(.str "a", .map .plain { del := some true } [
      (.str "k", .map .plain { new := some false } [(.str "x", c05sInt 1)])])]] =
    .ok (.dict [(.str "a", .dict [(.str "k", .dict [(.str "x", .scalar (.int 1))])])]) := rfl
example : c05sBuild [.map .none {} [(.str "a", .map .none {} [(.str "k", .map .none {} [(.str "x", c05sInt 0)]),
      (.str "p", .scalar .plain { prio := some 1 } (.lit (.int 1)))])],
    .map .none {} [(.str "a", .map .plain { del := some true } [
      (.str "k", .map .plain { new := some false } [(.str "x", c05sInt 1)])])]] =
    .ok (.dict [(.str "a", .dict [(.str "p", .scalar (.int 1)), (.str "k", .dict [(.str "x", .scalar (.int 1))])])]) := rfl

end AY
