/-
  C14, DOCUMENT LEVEL — "… exactly when at least one !required node remains anywhere in the merged tree …
  A placeholder overwritten or deleted by any later stage does not count."

  Props/C14.lean and C14_Built.lean are statements about the MERGED tree.  This file follows a placeholder
  from the STAGES to the merged tree: through `Builder.flatten` of stages `xs ++ [o]` (or `xs ++ ys`) the
  loader built from documents without duplicate sibling keys (`C14P.Built`; the full tag vocabulary).

  Setting (as in Props/C04_AtPath.lean): `s` is what the earlier stages `xs` flatten to (under the pre-merge
  fuel of the whole build), `o` a later stage without pre-merge operators (`C07P.opFree`: no `!append`,
  `!extend`, `!prev`, `!clear`, nested stream), `k :: p` a non-empty path of ANY length;
  * the spine of the LATER stage above the node (`liveAlong (k :: p) o`): plain mappings, any flags, NOT
    deleting, distinct keys; a stage that does not reach the path: `divergesLive (k :: p) y` (it leaves the
    path below such a mapping);
  * the spine of the ACCUMULATED tree (`dictAlong (k :: p) s`): plain mappings;
  * all flags arbitrary; "not outranked" is `has_priority_over` as the merge uses it.
  `native` cannot see a placeholder (it is `null` as data): the proofs go through the SKELETON of a tree
  (AY/Lemmas/C14PipeSkel.lean: classes and keys, flags erased), node-level versions of the C04 path lemmas
  (AY/Lemmas/C14PipePath.lean), "a merge never creates a placeholder" (AY/Lemmas/C14PipeNoNew.lean) and the fold
  (AY/Lemmas/C14PipeFold.lean).  Every statement was fuzzed on the executable model before it was proved
  (notes/fuzz/C14_Pipeline_Fuzz.lean: 2–4 stages built by `construct` from random documents with `!required`
  (also `!force` / `!weak` / `!del`), `!call` / `!bind` nodes, `!del` / `!merge` / `!force` / `!weak`
  containers, later stages derived from earlier ones; 100 000 stage lists, no counterexample).
-/
import AY.Lemmas.C14PipeLoader
namespace AY
open AY.C04P AY.C14P

/-! ### Concrete inputs used by the non-vacuity examples -/

def c14pNode (r : Raw) : Node :=
  match construct {} r with
  | .ok n => n
  | .error _ => .leaf {} (.scalar .null)

def c14pReq (kw : CtorKw := {}) : Raw := .scalar .required kw .empty
def c14pInt (i : Int) : Raw := .scalar .none {} (.lit (.int i))

/-- `{a: !required, b: {x: 1, y: !required}, m: {z: !force !required}, f: !call:rec.f [!required, 2]}` -/
def c14pDoc1 : Raw := .map .none {} [
  (.str "a", c14pReq),
  (.str "b", .map .none {} [(.str "x", c14pInt 1), (.str "y", c14pReq)]),
  (.str "m", .map .none {} [(.str "z", c14pReq { prio := some 1 })]),
  (.str "f", .seq (.call "rec.f") {} [c14pReq, c14pInt 2])]
/-- `{b: {y: 5}, m: {z: 7}}`: overwrites `b.y`; `m.z: 7` is outranked by the `!force` placeholder -/
def c14pDoc2 : Raw := .map .none {} [
  (.str "b", .map .none {} [(.str "y", c14pInt 5)]),
  (.str "m", .map .none {} [(.str "z", c14pInt 7)])]
/-- `{b: !del {x: 2}}`: deletes the parent of the placeholder `b.y` -/
def c14pDoc3 : Raw := .map .none {} [(.str "b", .map .plain { del := some true } [(.str "x", c14pInt 2)])]
/-- `{b: {y: !del}}`: a value-less `!del` on the key of the placeholder itself -/
def c14pDoc4 : Raw := .map .none {} [(.str "b", .map .none {} [(.str "y", .scalar .plain { del := some true } .empty)])]
/-- `{g: {h: !bind:rec.g {p: !required, q: [!required]}}}`: a new function node with placeholder arguments -/
def c14pDoc5 : Raw := .map .none {} [(.str "g", .map .none {} [
  (.str "h", .map (.bind "rec.g") {} [(.str "p", c14pReq), (.str "q", .seq .none {} [c14pReq])])])]
/-- `{b: {y: !required}}`: the only placeholder -/
def c14pDoc6 : Raw := .map .none {} [(.str "b", .map .none {} [(.str "x", c14pInt 1), (.str "y", c14pReq)])]
/-- `{t: 1}`: reaches none of the above -/
def c14pDoc7 : Raw := .map .none {} [(.str "t", c14pInt 1)]

def c14pN1 : Node := c14pNode c14pDoc1
def c14pN2 : Node := c14pNode c14pDoc2
def c14pN3 : Node := c14pNode c14pDoc3
def c14pN4 : Node := c14pNode c14pDoc4
def c14pN5 : Node := c14pNode c14pDoc5
def c14pN6 : Node := c14pNode c14pDoc6
def c14pN7 : Node := c14pNode c14pDoc7

/-- what the earlier stages flatten to under the pre-merge fuel of the whole build -/
def c14pAcc (all xs : List Node) : Node :=
  match flattenWith (premergeF (stagesFuel all)) xs with
  | .ok r => r
  | .error _ => .leaf {} (.scalar .null)
def c14pRoot (all : List Node) : Node :=
  match flatten all with
  | .ok r => r
  | .error _ => .leaf {} (.scalar .null)
def c14pAt (n : Node) (p : Path) : Node := (getNode n p).getD (.leaf {} (.scalar .null))

theorem c14pAt_spec {n : Node} {p : Path} (h : (getNode n p).isSome = true) : getNode n p = some (c14pAt n p) := by
  cases hg : getNode n p with
  | none => simp [hg] at h
  | some x => simp [c14pAt, hg]

theorem c14p_built1 (raw : Raw) (h : KI.rawKeyed raw = true) (hc : (construct {} raw).toBool = true) :
    ∃ env raw', KI.rawKeyed raw' = true ∧ construct env raw' = .ok (c14pNode raw) := by
  refine ⟨{}, raw, h, ?_⟩
  unfold c14pNode
  cases hx : construct {} raw with
  | ok n => rfl
  | error e => simp [hx, Except.toBool] at hc

/-- the example stages are built by the loader -/
theorem c14p_built : ∀ raws : List Raw, (raws.all fun r => KI.rawKeyed r && (construct {} r).toBool) = true →
    Built (raws.map c14pNode) := by
  intro raws h s hm
  obtain ⟨raw, hr, rfl⟩ := List.mem_map.1 hm
  have := List.all_eq_true.1 h raw hr
  simp only [Bool.and_eq_true] at this
  exact c14p_built1 raw this.1 this.2

/-! ### (A1) an overwritten placeholder does not count -/

/- "A placeholder overwritten … by any later stage does not count": stages `xs ++ [o]`; what the earlier
   stages flatten to holds a `!required` leaf at `k :: p` (any flags `ef`), the later stage `o` writes a node
   `d` there (ANY node: scalar, mapping, list, function node) that the placeholder does not outrank
   (`has_priority_over(placeholder, d, if_equal=False)` fails: the priority of `d` is not lower).  Then
   (i)   the placeholders the built tree holds at and below the path are exactly those of `d` (none at all
         when `d` is a value-less `!del`: the key is removed);
   (ii)  if `d` is not / contains no placeholder, NO listed path is at or below `k :: p`;
   (iii) if that was the only placeholder of the earlier stages (every listed path of `s` is `k :: p`) and
         `o` has none, the built tree has none and `Config` construction does not fail with `required`,
         in any world. -/
theorem C14_overwritten_placeholder_does_not_count (xs : List Node) (o r : Node) (k : Key) (p : Path) (d : Node)
    (hb : Built (xs ++ [o])) (hx : xs ≠ []) (hop : C07P.opFree o = true)
    (hbuild : flatten (xs ++ [o]) = .ok r)
    (ho : liveAlong (k :: p) o = true) (hod : getNode o (k :: p) = some d) :
    ∃ s, flattenWith (premergeF (stagesFuel (xs ++ [o]))) xs = .ok s ∧
      ∀ ef, dictAlong (k :: p) s = true → getNode s (k :: p) = some (.leaf ef .required) →
        hasPrio ef d.flags false = false →
        (∀ q, RequiredAt r (k :: p ++ q) ↔ (removedBy d = false ∧ RequiredAt d q)) ∧
        (hasRequired d = false → ∀ x, x ∈ requiredPaths [] r → ¬ (k :: p) <+: x) ∧
        ((∀ x, x ∈ requiredPaths [] s → x = k :: p) → hasRequired o = false →
          hasRequired r = false ∧ ∀ (w : World) ps, config w r ≠ .error (.required ps)) := by
  obtain ⟨s, bb, h1, h2⟩ := flatten_last xs o r hx hop hbuild
  refine ⟨s, h1, ?_⟩
  intro ef hs hse hp
  have hat := overwritten_at p k _ s o r bb ef d hs ho h2 hse hod hp
  have hdk := built_distinctKeys hb hbuild
  have hiff : ∀ q, RequiredAt r (k :: p ++ q) ↔ (removedBy d = false ∧ RequiredAt d q) := by
    intro q
    rw [requiredAt_iff, requiredAt_iff, hat q]
    cases removedBy d <;> simp
  refine ⟨hiff, ?_, ?_⟩
  · intro hd x hx hpre
    obtain ⟨q, _, hq⟩ := listed_below hdk hx hpre
    exact not_requiredAt_of_hasRequired_false hd q ((hiff q).1 hq).2
  · intro honly hno
    have hcl : othersClean (k :: p) s = true :=
      othersClean_of_paths (k :: p) [] s (fun x hx => ⟨[], by rw [honly x hx]; simp⟩)
    have := only_placeholder_gone p k _ s o r bb ef d hs ho h2 hse hod hp hcl hno
    exact ⟨this, fun w => config_not_required this w⟩

-- `{…, b: {x: 1, y: !required}, …}` ← `{b: {y: 5}, m: {z: 7}}`: `b.y` is overwritten and not listed any more
example : Built [c14pN1, c14pN2] ∧ C07P.opFree c14pN2 = true ∧
    flatten [c14pN1, c14pN2] = .ok (c14pRoot [c14pN1, c14pN2]) ∧
    liveAlong [.str "b", .str "y"] c14pN2 = true ∧
    getNode c14pN2 [.str "b", .str "y"] = some (c14pAt c14pN2 [.str "b", .str "y"]) ∧
    flattenWith (premergeF (stagesFuel [c14pN1, c14pN2])) [c14pN1] = .ok (c14pAcc [c14pN1, c14pN2] [c14pN1]) ∧
    dictAlong [.str "b", .str "y"] (c14pAcc [c14pN1, c14pN2] [c14pN1]) = true ∧
    (∃ ef, getNode (c14pAcc [c14pN1, c14pN2] [c14pN1]) [.str "b", .str "y"] = some (.leaf ef .required) ∧
      hasPrio ef (c14pAt c14pN2 [.str "b", .str "y"]).flags false = false) ∧
    hasRequired (c14pAt c14pN2 [.str "b", .str "y"]) = false ∧
    requiredPaths [] (c14pRoot [c14pN1, c14pN2]) = [[.str "a"], [.str "m", .str "z"], [.str "f", .int 0]] :=
  ⟨c14p_built [c14pDoc1, c14pDoc2] (by decide +kernel), by decide +kernel, rfl, by decide +kernel,
   c14pAt_spec (by decide +kernel), rfl, by decide +kernel, ⟨_, rfl, by decide +kernel⟩, by decide +kernel,
   by decide +kernel⟩
-- the only placeholder: `{b: {x: 1, y: !required}}` ← `{b: {y: 5}, m: {z: 7}}` builds (nothing is missing)
example : (∀ x, x ∈ requiredPaths [] (c14pAcc [c14pN6, c14pN2] [c14pN6]) → x = [.str "b", .str "y"]) ∧
    hasRequired c14pN2 = false ∧ hasRequired (c14pRoot [c14pN6, c14pN2]) = false ∧
    (config {} (c14pRoot [c14pN6, c14pN2])).toBool = true := by
  refine ⟨?_, by decide +kernel, by decide +kernel, by decide +kernel⟩
  have : requiredPaths [] (c14pAcc [c14pN6, c14pN2] [c14pN6]) = [[.str "b", .str "y"]] := by decide +kernel
  intro x hx
  rw [this] at hx
  simpa using hx

/-! ### (A2) a deleted placeholder does not count -/

/- "A placeholder … deleted by any later stage does not count": the later stage `o` holds a DELETING node
   `d` at `k :: p` (tagged `!del`, or a list), the accumulated tree a scalar (any leaf — the placeholder
   itself), a plain mapping or a plain list `e` there; `d` is not outranked and nothing of `e` is protected
   (`noneProtected`, as in `C04_del_exact_at_path`).  Then
   (i)   the placeholders at and below the path are exactly those of `d` (none when `d` is value-less);
   (ii)  THE PARENT IS DELETED: a key `j` the deleting node does not have holds no placeholder any more —
         whatever `e` held under `j`, at any depth;
   (iii) THE KEY ITSELF IS DELETED: a value-less `!del` (`removedBy d`: explicitly `!del` and falsy) leaves
         no listed path at or below `k :: p`;
   (iv)  if every placeholder of the earlier stages was at or below `k :: p` and `o` has none, the built
         tree has none and `Config` construction does not fail with `required`. -/
theorem C14_deleted_placeholder_does_not_count (xs : List Node) (o r : Node) (k : Key) (p : Path) (d : Node)
    (hb : Built (xs ++ [o])) (hx : xs ≠ []) (hop : C07P.opFree o = true)
    (hbuild : flatten (xs ++ [o]) = .ok r)
    (ho : liveAlong (k :: p) o = true) (hod : getNode o (k :: p) = some d) (hdel : eDel d = true) :
    ∃ s, flattenWith (premergeF (stagesFuel (xs ++ [o]))) xs = .ok s ∧
      ∀ e, dictAlong (k :: p) s = true → getNode s (k :: p) = some e → plainKind e = true →
        hasPrio d.flags e.flags true = true → noneProtected d e = true →
        (∀ q, RequiredAt r (k :: p ++ q) ↔ (removedBy d = false ∧ RequiredAt d q)) ∧
        (∀ j, getNode d [j] = none → ∀ x, x ∈ requiredPaths [] r → ¬ (k :: p ++ [j]) <+: x) ∧
        (removedBy d = true → ∀ x, x ∈ requiredPaths [] r → ¬ (k :: p) <+: x) ∧
        ((∀ x, x ∈ requiredPaths [] s → (k :: p) <+: x) → hasRequired o = false →
          hasRequired r = false ∧ ∀ (w : World) ps, config w r ≠ .error (.required ps)) := by
  obtain ⟨s, bb, h1, h2⟩ := flatten_last xs o r hx hop hbuild
  refine ⟨s, h1, ?_⟩
  intro e hs hse hk hp hnp
  have hat := del_exact_skel_at p k _ s o r bb e d hs ho h2 hse hod hk hdel hp hnp
  have hdk := built_distinctKeys hb hbuild
  have hiff : ∀ q, RequiredAt r (k :: p ++ q) ↔ (removedBy d = false ∧ RequiredAt d q) := by
    intro q
    rw [requiredAt_iff, requiredAt_iff, hat q]
    cases removedBy d <;> simp
  refine ⟨hiff, ?_, ?_, ?_⟩
  · intro j hj x hx hpre
    obtain ⟨q, _, hq⟩ := listed_below hdk hx hpre
    have e1 : k :: p ++ [j] ++ q = k :: p ++ (j :: q) := by simp
    rw [e1] at hq
    obtain ⟨f, hf⟩ := ((hiff (j :: q)).1 hq).2
    cases d with
    | leaf df dk => simp [getNode] at hf
    | comp df dk dcs =>
      simp only [getNode] at hf hj
      cases hl : alookup j dcs with
      | none => simp [hl] at hf
      | some c => simp [hl] at hj
  · intro hrem x hx hpre
    obtain ⟨q, _, hq⟩ := listed_below hdk hx hpre
    have := ((hiff q).1 hq).1
    rw [hrem] at this
    cases this
  · intro hall hno
    have hcl : othersClean (k :: p) s = true :=
      othersClean_of_paths (k :: p) [] s (fun x hx => by
        obtain ⟨q, hq⟩ := hall x hx
        exact ⟨q, by rw [← hq]; simp⟩)
    have := deleted_placeholders_gone p k _ s o r bb e d hs ho h2 hse hod hk hdel hp hnp hcl hno
    exact ⟨this, fun w => config_not_required this w⟩

-- the parent is deleted: `{…, b: {x: 1, y: !required}, …}` ← `{b: !del {x: 2}}`
example : Built [c14pN1, c14pN3] ∧ C07P.opFree c14pN3 = true ∧
    flatten [c14pN1, c14pN3] = .ok (c14pRoot [c14pN1, c14pN3]) ∧
    liveAlong [.str "b"] c14pN3 = true ∧ getNode c14pN3 [.str "b"] = some (c14pAt c14pN3 [.str "b"]) ∧
    eDel (c14pAt c14pN3 [.str "b"]) = true ∧
    flattenWith (premergeF (stagesFuel [c14pN1, c14pN3])) [c14pN1] = .ok (c14pAcc [c14pN1, c14pN3] [c14pN1]) ∧
    dictAlong [.str "b"] (c14pAcc [c14pN1, c14pN3] [c14pN1]) = true ∧
    getNode (c14pAcc [c14pN1, c14pN3] [c14pN1]) [.str "b"] = some (c14pAt (c14pAcc [c14pN1, c14pN3] [c14pN1]) [.str "b"]) ∧
    plainKind (c14pAt (c14pAcc [c14pN1, c14pN3] [c14pN1]) [.str "b"]) = true ∧
    hasPrio (c14pAt c14pN3 [.str "b"]).flags (c14pAt (c14pAcc [c14pN1, c14pN3] [c14pN1]) [.str "b"]).flags true = true ∧
    noneProtected (c14pAt c14pN3 [.str "b"]) (c14pAt (c14pAcc [c14pN1, c14pN3] [c14pN1]) [.str "b"]) = true ∧
    (getNode (c14pAt c14pN3 [.str "b"]) [.str "y"]).isNone = true ∧
    requiredPaths [] (c14pRoot [c14pN1, c14pN3]) = [[.str "a"], [.str "m", .str "z"], [.str "f", .int 0]] :=
  ⟨c14p_built [c14pDoc1, c14pDoc3] (by decide +kernel), by decide +kernel, rfl, by decide +kernel,
   c14pAt_spec (by decide +kernel), by decide +kernel, rfl, by decide +kernel, c14pAt_spec (by decide +kernel),
   by decide +kernel, by decide +kernel, by decide +kernel, by decide +kernel, by decide +kernel⟩
-- the key itself is deleted: `{…, b: {x: 1, y: !required}, …}` ← `{b: {y: !del}}`
example : liveAlong [.str "b", .str "y"] c14pN4 = true ∧
    eDel (c14pAt c14pN4 [.str "b", .str "y"]) = true ∧ removedBy (c14pAt c14pN4 [.str "b", .str "y"]) = true ∧
    plainKind (c14pAt (c14pAcc [c14pN1, c14pN4] [c14pN1]) [.str "b", .str "y"]) = true ∧
    hasPrio (c14pAt c14pN4 [.str "b", .str "y"]).flags
      (c14pAt (c14pAcc [c14pN1, c14pN4] [c14pN1]) [.str "b", .str "y"]).flags true = true ∧
    noneProtected (c14pAt c14pN4 [.str "b", .str "y"]) (c14pAt (c14pAcc [c14pN1, c14pN4] [c14pN1]) [.str "b", .str "y"]) = true ∧
    requiredPaths [] (c14pRoot [c14pN1, c14pN4]) = [[.str "a"], [.str "m", .str "z"], [.str "f", .int 0]] := by
  decide +kernel
-- every placeholder below the deleted parent: `{b: {x: 1, y: !required}}` ← `{b: !del {x: 2}}` builds
example : (∀ x, x ∈ requiredPaths [] (c14pAcc [c14pN6, c14pN3] [c14pN6]) → [Key.str "b"] <+: x) ∧
    hasRequired c14pN3 = false ∧ hasRequired (c14pRoot [c14pN6, c14pN3]) = false := by
  refine ⟨?_, by decide +kernel, by decide +kernel⟩
  have : requiredPaths [] (c14pAcc [c14pN6, c14pN3] [c14pN6]) = [[.str "b", .str "y"]] := by decide +kernel
  intro x hx
  rw [this] at hx
  simp only [List.mem_singleton] at hx
  rw [hx]; exact ⟨[.str "y"], rfl⟩

/-! ### (A3) an untouched placeholder counts -/

/- "… exactly when at least one !required node remains anywhere in the merged tree … and the error lists the
   path of every such node" — the converse of (A1)/(A2), for ANY number of later stages: the earlier stages
   `xs` flatten to a tree with a mapping spine along `k :: p`; every later stage `y ∈ ys` is free of pre-merge
   operators and does not reach `k :: p` (`divergesLive`: the path leaves `y` below a plain non-deleting
   mapping, at any depth).  Then the WHOLE subtree at `k :: p` is unchanged as far as placeholders go: a
   placeholder at `k :: p ++ q'` — `q'` through mappings, lists, arguments of call/bind nodes — is a
   placeholder of the built tree, it is listed, and `Config` construction fails with the class `required` and
   exactly the list of all placeholders, in every world (before anything is evaluated). -/
theorem C14_untouched_placeholder_counts (xs ys : List Node) (r : Node) (k : Key) (p : Path)
    (hb : Built (xs ++ ys)) (hx : xs ≠ []) (hbuild : flatten (xs ++ ys) = .ok r)
    (hy : ∀ y, y ∈ ys → C07P.opFree y = true ∧ divergesLive (k :: p) y = true) :
    ∃ s, flattenWith (premergeF (stagesFuel (xs ++ ys))) xs = .ok s ∧
      (dictAlong (k :: p) s = true →
        (∀ q', RequiredAt r (k :: p ++ q') ↔ RequiredAt s (k :: p ++ q')) ∧
        (∀ q', RequiredAt s (k :: p ++ q') →
          k :: p ++ q' ∈ requiredPaths [] r ∧
          ∀ w : World, config w r = .error (.required (requiredPaths [] r)))) := by
  obtain ⟨s, h1, h2⟩ := flatten_untouched xs ys r (k :: p) hx hbuild hy
  refine ⟨s, h1, fun hd => ?_⟩
  obtain ⟨_, hat⟩ := h2 hd
  have hiff : ∀ q', RequiredAt r (k :: p ++ q') ↔ RequiredAt s (k :: p ++ q') := by
    intro q'
    rw [requiredAt_iff, requiredAt_iff, hat q']
  exact ⟨hiff, fun q' hq => config_lists (built_distinctKeys hb hbuild) ((hiff q').2 hq)⟩

-- four stages: `a` and the call argument `f[0]` of the first document are reached by none of the three later
-- stages `{b: {y: 5}, m: {z: 7}}`, `{t: 1}`, `{b: {y: !del}}` (`m.z` is reached by the second: that is (A4))
example : Built [c14pN1, c14pN2, c14pN7, c14pN4] ∧
    flatten [c14pN1, c14pN2, c14pN7, c14pN4] = .ok (c14pRoot [c14pN1, c14pN2, c14pN7, c14pN4]) ∧
    ([c14pN2, c14pN7, c14pN4].all fun y => C07P.opFree y && divergesLive [.str "f"] y && divergesLive [.str "a"] y) = true ∧
    dictAlong [.str "f"] c14pN1 = true ∧
    RequiredAt c14pN1 ([.str "f"] ++ [.int 0]) ∧ RequiredAt c14pN1 ([.str "a"] ++ []) ∧
    config {} (c14pRoot [c14pN1, c14pN2, c14pN7, c14pN4]) =
      .error (.required [[.str "a"], [.str "m", .str "z"], [.str "f", .int 0]]) :=
  ⟨c14p_built [c14pDoc1, c14pDoc2, c14pDoc7, c14pDoc4] (by decide +kernel), rfl, by decide +kernel, by decide +kernel,
   ⟨_, rfl⟩, ⟨_, rfl⟩, rfl⟩

/-! ### (A4) an outranked overwrite still counts -/

/- The documented priority rule — "overwritten" means EFFECTIVELY overwritten: a placeholder of strictly
   higher priority than the node the later stage writes at its path (`!force !required`, or a `!weak`
   writer) wins the merge; it is still a placeholder of the built tree, it is listed, and `Config`
   construction fails — whatever the later node `d` is. -/
theorem C14_outranked_overwrite_still_counts (xs : List Node) (o r : Node) (k : Key) (p : Path) (d : Node)
    (hb : Built (xs ++ [o])) (hx : xs ≠ []) (hop : C07P.opFree o = true)
    (hbuild : flatten (xs ++ [o]) = .ok r)
    (ho : liveAlong (k :: p) o = true) (hod : getNode o (k :: p) = some d) :
    ∃ s, flattenWith (premergeF (stagesFuel (xs ++ [o]))) xs = .ok s ∧
      ∀ ef, dictAlong (k :: p) s = true → getNode s (k :: p) = some (.leaf ef .required) →
        hasPrio ef d.flags false = true →
        RequiredAt r (k :: p) ∧ k :: p ∈ requiredPaths [] r ∧
        ∀ w : World, config w r = .error (.required (requiredPaths [] r)) := by
  obtain ⟨s, bb, h1, h2⟩ := flatten_last xs o r hx hop hbuild
  refine ⟨s, h1, ?_⟩
  intro ef hs hse hp
  have hat := placeholder_survives_at p k _ s o r bb ef d hs ho h2 hse hod hp
  have hr : RequiredAt r (k :: p) := (requiredAt_iff r (k :: p)).2 hat
  exact ⟨hr, config_lists (built_distinctKeys hb hbuild) hr⟩

-- `m: {z: !force !required}` ← `m: {z: 7}`: still missing
example : liveAlong [.str "m", .str "z"] c14pN2 = true ∧
    getNode c14pN2 [.str "m", .str "z"] = some (c14pAt c14pN2 [.str "m", .str "z"]) ∧
    dictAlong [.str "m", .str "z"] (c14pAcc [c14pN1, c14pN2] [c14pN1]) = true ∧
    (∃ ef, getNode (c14pAcc [c14pN1, c14pN2] [c14pN1]) [.str "m", .str "z"] = some (.leaf ef .required) ∧
      hasPrio ef (c14pAt c14pN2 [.str "m", .str "z"]).flags false = true) ∧
    [Key.str "m", .str "z"] ∈ requiredPaths [] (c14pRoot [c14pN1, c14pN2]) :=
  ⟨by decide +kernel, c14pAt_spec (by decide +kernel), by decide +kernel, ⟨_, rfl, by decide +kernel⟩, by decide +kernel⟩

/-! ### (A5) placeholders among the arguments of call / bind nodes -/

/- "… anywhere in the merged tree (top level, nested mappings, lists, arguments of call/bind nodes), and the
   error lists the path of every such node", for a real build: in the tree `Builder.flatten` returns for
   stages the loader built, every `!required` argument `j` of every `!call` / `!bind` node (found at any path
   `q`) is listed with its argument path `q ++ [j]` (a positional argument: `j = int i`), and `Config`
   construction fails with the list of all placeholders in every world. -/
theorem C14_required_in_function_arguments_built (stages : List Node) (r : Node) (q : Path)
    (f g : Flags) (ck : CompKind) (cs : List (Key × Node)) (j : Key)
    (hb : Built stages) (hbuild : flatten stages = .ok r)
    (hq : getNode r q = some (.comp f ck cs)) (_hfn : ck.isFunc = true)
    (hj : alookup j cs = some (.leaf g .required)) :
    q ++ [j] ∈ requiredPaths [] r ∧ ∀ w : World, config w r = .error (.required (requiredPaths [] r)) := by
  refine config_lists (built_distinctKeys hb hbuild) ((requiredAt_iff r _).2 ?_)
  rw [Skel.at?_append, at_skel, hq]
  simp [skel, Skel.at?, alookup_skelList, hj]

-- the positional argument of `f: !call:rec.f [!required, 2]` after the second stage
example : Built [c14pN1, c14pN2] ∧ flatten [c14pN1, c14pN2] = .ok (c14pRoot [c14pN1, c14pN2]) ∧
    (∃ f g cs, getNode (c14pRoot [c14pN1, c14pN2]) [.str "f"] = some (.comp f (.call "rec.f") cs) ∧
      alookup (.int 0) cs = some (.leaf g .required)) :=
  ⟨c14p_built [c14pDoc1, c14pDoc2] (by decide +kernel), rfl, ⟨_, _, _, rfl, rfl⟩⟩

/- "… arguments of call/bind nodes", WRITTEN BY A DOCUMENT: the stage `o` (free of pre-merge operators)
   writes a node `d` — e.g. a `!call` / `!bind` node whose arguments contain placeholders, at any depth — at a
   path `k :: p` that is NEW (the earlier stages have a mapping spine along it and no node there), and none
   of the later stages `ys` reaches `k :: p`.  Then the placeholders of the built tree at and below `k :: p`
   are exactly those of `d`, each with its argument path: `k :: p ++ q` for the placeholder at `q` in `d`;
   each is listed and `Config` construction fails. -/
theorem C14_required_in_function_arguments_pipeline (xs ys : List Node) (o r : Node) (k : Key) (p : Path) (d : Node)
    (hb : Built (xs ++ o :: ys)) (hx : xs ≠ []) (hop : C07P.opFree o = true)
    (hbuild : flatten (xs ++ o :: ys) = .ok r)
    (ho : liveAlong (k :: p) o = true) (hod : getNode o (k :: p) = some d)
    (hy : ∀ y, y ∈ ys → C07P.opFree y = true ∧ divergesLive (k :: p) y = true) :
    ∃ s, flattenWith (premergeF (stagesFuel (xs ++ o :: ys))) xs = .ok s ∧
      (dictAlong (k :: p) s = true → getNode s (k :: p) = none →
        (∀ q, RequiredAt r (k :: p ++ q) ↔ RequiredAt d q) ∧
        (∀ q, RequiredAt d q →
          k :: p ++ q ∈ requiredPaths [] r ∧
          ∀ w : World, config w r = .error (.required (requiredPaths [] r)))) := by
  have e1 : xs ++ o :: ys = (xs ++ [o]) ++ ys := by simp
  have hbuild' : flatten ((xs ++ [o]) ++ ys) = .ok r := by rw [← e1]; exact hbuild
  obtain ⟨s1, h1, h2⟩ := flatten_untouched (xs ++ [o]) ys r (k :: p) (by simp) hbuild' hy
  rw [← e1] at h1
  obtain ⟨s, h3, h4⟩ := C07P.flattenWith_append xs [o] hx s1 h1
  refine ⟨s, h3, fun hs hnone => ?_⟩
  have hdp : o.depth < stagesFuel (xs ++ o :: ys) := C07P.depth_lt_stagesFuel (by simp)
  rw [C07P.flattenLoop_cons_opFree hop hdp] at h4
  split at h4
  · cases h4
  · rename_i r1 hm1
    simp only [flattenLoop, Except.ok.injEq] at h4
    subst h4
    obtain ⟨bb, hmf⟩ := C07P.merge_ok_mergeF hm1
    have hnew := skel_new_entry p k _ s o r1 bb d hs ho hmf hnone hod
    -- the merged tree has a mapping spine along the path: the older one extended by the newer one
    have hd1 : dictAlong (k :: p) r1 = true := dictAlong_merge_live (k :: p) _ s o r1 bb hs ho hmf
    obtain ⟨_, hat⟩ := h2 hd1
    have hiff : ∀ q, RequiredAt r (k :: p ++ q) ↔ RequiredAt d q := by
      intro q
      rw [requiredAt_iff, requiredAt_iff, hat q, hnew q]
    have hdk : distinctKeys r = true := built_distinctKeys hb hbuild
    exact ⟨hiff, fun q hq => config_lists hdk ((hiff q).2 hq)⟩

-- `{g: {h: !bind:rec.g {p: !required, q: [!required]}}}` as the second of three stages: `g.h.p` and `g.h.q[0]`
example : Built [c14pN1, c14pN5, c14pN2] ∧ C07P.opFree c14pN5 = true ∧
    flatten ([c14pN1] ++ c14pN5 :: [c14pN2]) = .ok (c14pRoot [c14pN1, c14pN5, c14pN2]) ∧
    liveAlong [.str "g", .str "h"] c14pN5 = true ∧
    (∃ f cs, getNode c14pN5 [.str "g", .str "h"] = some (.comp f (.bind "rec.g") cs) ∧
      RequiredAt (.comp f (.bind "rec.g") cs) [.str "p"] ∧ RequiredAt (.comp f (.bind "rec.g") cs) [.str "q", .int 0]) ∧
    (C07P.opFree c14pN2 && divergesLive [.str "g", .str "h"] c14pN2) = true ∧
    dictAlong [.str "g", .str "h"] (c14pAcc [c14pN1, c14pN5, c14pN2] [c14pN1]) = true ∧
    (getNode (c14pAcc [c14pN1, c14pN5, c14pN2] [c14pN1]) [.str "g", .str "h"]).isNone = true ∧
    config {} (c14pRoot [c14pN1, c14pN5, c14pN2]) = .error (.required
      [[.str "a"], [.str "m", .str "z"], [.str "f", .int 0], [.str "g", .str "h", .str "p"],
       [.str "g", .str "h", .str "q", .int 0]]) :=
  ⟨c14p_built [c14pDoc1, c14pDoc5, c14pDoc2] (by decide +kernel), by decide +kernel, rfl, by decide +kernel,
   ⟨_, _, rfl, ⟨_, rfl⟩, ⟨_, rfl⟩⟩, by decide +kernel, by decide +kernel, by decide +kernel, rfl⟩

/- "… arguments of call/bind nodes", FROM THE DOCUMENT: the document `raw` (no duplicate sibling keys, any
   tags elsewhere) has, at the key path `k :: p` below UNTAGGED mappings (`rawAt`), a node tagged `!call:f` /
   `!bind:f` (`funcKind t = some ck`); one of its arguments is `!required` — the `i`-th item of a sequence node
   (positional argument) or the value under `j` of a mapping node (keyword argument).  Then the stage the loader
   builds has the function node at `k :: p` below plain non-deleting mappings (the hypotheses `liveAlong` /
   `getNode` of the pipeline theorem above) and the placeholder at the argument path `k :: p ++ [int i]`,
   resp. `k :: p ++ [j]`. -/
theorem C14_function_argument_of_document (env : Env) (raw : Raw) (n : Node) (k : Key) (p : Path)
    (t : TagKind) (ck : CompKind) (kw kw' : CtorKw)
    (hk : KI.rawKeyed raw = true) (hc : construct env raw = .ok n) (ht : funcKind t = some ck) :
    (∀ items (i : Nat), rawAt (k :: p) raw = some (.seq t kw items) →
      items[i]? = some (.scalar .required kw' .empty) →
      liveAlong (k :: p) n = true ∧ (∃ f cs, getNode n (k :: p) = some (.comp f ck cs)) ∧
      RequiredAt n (k :: p ++ [.int (i : Int)])) ∧
    (∀ items j, rawAt (k :: p) raw = some (.map t kw items) →
      alookup j items = some (.scalar .required kw' .empty) →
      liveAlong (k :: p) n = true ∧ (∃ f cs, getNode n (k :: p) = some (.comp f ck cs)) ∧
      RequiredAt n (k :: p ++ [j])) := by
  refine ⟨fun items i hat hi => ?_, fun items j hat hj => ?_⟩
  · exact document_function_argument env raw _ n k p ck _ hk hc hat
      (fun par m hm => func_seq_arg env par t ck kw kw' items i m ht hm hi)
  · exact document_function_argument env raw _ n k p ck _ hk hc hat
      (fun par m hm => func_map_arg env par t ck kw kw' items j m ht hm hj)

-- `{…, f: !call:rec.f [!required, 2]}` and `{g: {h: !bind:rec.g {p: !required, …}}}`
example : KI.rawKeyed c14pDoc1 = true ∧ construct {} c14pDoc1 = .ok c14pN1 ∧
    funcKind (.call "rec.f") = some (.call "rec.f") ∧
    rawAt [.str "f"] c14pDoc1 = some (.seq (.call "rec.f") {} [c14pReq, c14pInt 2]) ∧
    [c14pReq, c14pInt 2][0]? = some (.scalar .required {} .empty) ∧
    rawAt [.str "g", .str "h"] c14pDoc5 = some (.map (.bind "rec.g") {} [(.str "p", c14pReq), (.str "q", .seq .none {} [c14pReq])]) ∧
    alookup (.str "p") [(Key.str "p", c14pReq), (.str "q", .seq .none {} [c14pReq])] = some (.scalar .required {} .empty) :=
  ⟨by decide +kernel, rfl, rfl, rfl, rfl, rfl, rfl⟩

/- END TO END, from the document text to the error of `Config`: the document of stage `o` writes a `!call` /
   `!bind` sequence node with a `!required` item `i` at a NEW key path `k :: p` (below untagged mappings; the
   earlier stages have a mapping spine along the path and no node there), no later stage reaches the path:
   the build lists `k :: p ++ [int i]` and `Config` construction fails, in every world. -/
theorem C14_required_in_function_arguments_documents (xs ys : List Node) (env : Env) (raw : Raw) (o r : Node)
    (k : Key) (p : Path) (t : TagKind) (ck : CompKind) (kw kw' : CtorKw) (items : List Raw) (i : Nat)
    (hb : Built (xs ++ o :: ys)) (hx : xs ≠ []) (hop : C07P.opFree o = true)
    (hbuild : flatten (xs ++ o :: ys) = .ok r)
    (hraw : KI.rawKeyed raw = true) (hc : construct env raw = .ok o) (ht : funcKind t = some ck)
    (hat : rawAt (k :: p) raw = some (.seq t kw items)) (hi : items[i]? = some (.scalar .required kw' .empty))
    (hy : ∀ y, y ∈ ys → C07P.opFree y = true ∧ divergesLive (k :: p) y = true) :
    ∃ s, flattenWith (premergeF (stagesFuel (xs ++ o :: ys))) xs = .ok s ∧
      (dictAlong (k :: p) s = true → getNode s (k :: p) = none →
        k :: p ++ [.int (i : Int)] ∈ requiredPaths [] r ∧
        ∀ w : World, config w r = .error (.required (requiredPaths [] r))) := by
  obtain ⟨hl, ⟨f, cs, hg⟩, hreq⟩ :=
    (C14_function_argument_of_document env raw o k p t ck kw kw' hraw hc ht).1 items i hat hi
  obtain ⟨s, h1, h2⟩ := C14_required_in_function_arguments_pipeline xs ys o r k p _ hb hx hop hbuild hl hg hy
  refine ⟨s, h1, fun hs hnone => ?_⟩
  obtain ⟨_, hlist⟩ := h2 hs hnone
  have hd : RequiredAt (.comp f ck cs) [.int (i : Int)] := by
    rw [requiredAt_iff] at hreq ⊢
    rw [Skel.at?_append, at_skel, hg] at hreq
    exact hreq
  exact hlist _ hd

-- `{g: {h: !bind:rec.g [!required]}}` as the second of three documents
def c14pDoc8 : Raw := .map .none {} [(.str "g", .map .none {} [(.str "h", .seq (.bind "rec.g") {} [c14pInt 1, c14pReq])])]
def c14pN8 : Node := c14pNode c14pDoc8
example : Built [c14pN1, c14pN8, c14pN2] ∧ C07P.opFree c14pN8 = true ∧
    flatten ([c14pN1] ++ c14pN8 :: [c14pN2]) = .ok (c14pRoot [c14pN1, c14pN8, c14pN2]) ∧
    KI.rawKeyed c14pDoc8 = true ∧ construct {} c14pDoc8 = .ok c14pN8 ∧
    rawAt [.str "g", .str "h"] c14pDoc8 = some (.seq (.bind "rec.g") {} [c14pInt 1, c14pReq]) ∧
    [c14pInt 1, c14pReq][1]? = some (.scalar .required {} .empty) ∧
    (C07P.opFree c14pN2 && divergesLive [.str "g", .str "h"] c14pN2) = true ∧
    dictAlong [.str "g", .str "h"] (c14pAcc [c14pN1, c14pN8, c14pN2] [c14pN1]) = true ∧
    (getNode (c14pAcc [c14pN1, c14pN8, c14pN2] [c14pN1]) [.str "g", .str "h"]).isNone = true ∧
    config {} (c14pRoot [c14pN1, c14pN8, c14pN2]) = .error (.required
      [[.str "a"], [.str "m", .str "z"], [.str "f", .int 0], [.str "g", .str "h", .int 1]]) :=
  ⟨c14p_built [c14pDoc1, c14pDoc8, c14pDoc2] (by decide +kernel), by decide +kernel, rfl, by decide +kernel, rfl, rfl, rfl,
   by decide +kernel, by decide +kernel, by decide +kernel, rfl⟩

end AY
