/-
  C02 — "Merging plain documents is a right-biased recursive mapping update".

  Statement (properties.jsonl): When several tag-free mapping documents are merged in order, the
  result equals folding them left to right with a recursive update: keys present in only one side
  are kept, mappings under a common key are merged recursively, and any other value (scalar or
  list) is replaced wholesale by the newer document's value. A mapping merged onto a list addresses
  existing indices only (anything else is a MergeError); no key is ever lost and nothing not
  mentioned by the newer document changes.
  Quantifier: every sequence of 1..n tag-free mapping documents (arbitrary nesting, int and str
  keys, empty containers, type changes at a path between stages).

  Model side: `construct` (loader), `mergeF`/`merge` (merge algebra), `flatten` (builder fold with
  the pre-merge pass).  Specification side (data only): `plainOfRaw`, `upd`, `foldUpd`.
  Predicates (AY/Lemmas/PlainInv.lean): `rawPlain` — tag-free mapping document; `plainT` — tree
  built from tag-free documents (accumulated side); `plainO` — freshly constructed document subtree
  (`plainT` plus: every mapping not below a list is non-deleting).
  Proofs: AY/Lemmas/{Assoc,Native,PlainInv,Filter,C02Merge,C02Main,C02Construct,C02Fold,UpdFrame}.lean.
-/
import AY.Lemmas.C02Fold
import AY.Lemmas.UpdFrame
namespace AY

/-! ### Concrete documents used by the non-vacuity examples -/

/-- `{a: 1, b: {c: [1, {x: y}], d: x}, 3: [], e: {}}` -/
def c02Doc1 : Raw :=
  .map .none {} [
    (.str "a", .scalar .none {} (.lit (.int 1))),
    (.str "b", .map .none {} [
      (.str "c", .seq .none {} [.scalar .none {} (.lit (.int 1)),
                                .map .none {} [(.str "x", .scalar .none {} (.lit (.str "y")))]]),
      (.str "d", .scalar .none {} (.lit (.str "x")))]),
    (.int 3, .seq .none {} []),
    (.str "e", .map .none {} [])]

/-- `{b: {c: {-1: {z: 2}, 0: 9}, f: ~}, a: {k: [0]}, 3: x}` — a mapping onto a list (negative
    index), a scalar replaced by a mapping, a list replaced by a scalar, a new key -/
def c02Doc2 : Raw :=
  .map .none {} [
    (.str "b", .map .none {} [
      (.str "c", .map .none {} [(.int (-1), .map .none {} [(.str "z", .scalar .none {} (.lit (.int 2)))]),
                                (.int 0, .scalar .none {} (.lit (.int 9)))]),
      (.str "f", .scalar .none {} .empty)]),
    (.str "a", .map .none {} [(.str "k", .seq .none {} [.scalar .none {} (.lit (.int 0))])]),
    (.int 3, .scalar .none {} (.lit (.str "x")))]

/-- `{b: {c: {5: 1}}}` — index out of range once `b.c` is a list: MergeError -/
def c02Doc3 : Raw :=
  .map .none {} [(.str "b", .map .none {} [(.str "c", .map .none {} [(.int 5, .scalar .none {} (.lit (.int 1)))])])]

/-! ### The loader on a tag-free document -/

/- "every sequence of … tag-free mapping documents (arbitrary nesting, int and str keys, empty
   containers…)": one such document is parsed into a node tree whose data is exactly the document
   and which satisfies the invariant of the newer side of a merge (flags prio/del/new/safe/iNew/
   iSafe `none`, md `[]`, iDel ∈ {none, some true}, list children numbered 0..n-1, kinds
   dict/list/scalar only, every mapping not below a list non-deleting). -/
theorem C02_construct_plain (env : Env) (r : Raw) (h : rawPlain r = true) :
    ∃ n, construct env r = .ok n ∧ native n = plainOfRaw r ∧ plainO n = true ∧ plainT n = true ∧
      n.isDict = true := by
  obtain ⟨n, h1, h2, h3, h4⟩ := construct_plain env r h
  exact ⟨n, h1, h2, h3, ((plainO_iff n).1 h3).1, h4⟩

example : rawPlain c02Doc1 = true ∧ rawPlain c02Doc2 = true ∧ rawPlain c02Doc3 = true := by decide
example : ∃ n, construct {} c02Doc1 = .ok n ∧ native n = plainOfRaw c02Doc1 :=
  (C02_construct_plain {} c02Doc1 (by decide)).imp fun _ h => ⟨h.1, h.2.1⟩

/-! ### One merge -/

/- "keys present in only one side are kept, mappings under a common key are merged recursively,
   and any other value (scalar or list) is replaced wholesale by the newer document's value. A
   mapping merged onto a list addresses existing indices only (anything else is a MergeError)":
   for an accumulated tree `a` and a freshly constructed subtree `b`, with any fuel above the depth
   of `b`, the model's merge and the specification's `upd` are the same `Except` value up to
   `native` (success with equal data, or the same error), the result again satisfies the
   invariant, and the only possible error is MergeError. -/
theorem C02_merge_is_upd (a b : Node) (ha : plainT a = true) (hb : plainO b = true)
    (fuel : Nat) (hfuel : b.depth + 1 ≤ fuel) :
    (match mergeF fuel a b with
      | .error e => .error e
      | .ok (r, _) => .ok (native r)) = upd (native a) (native b)
    ∧ (∀ r same, mergeF fuel a b = .ok (r, same) → plainT r = true)
    ∧ (∀ e, mergeF fuel a b = .error e → e = .merge) := by
  have h := mergeF_plain fuel ((native b).depth + 1) a b ha hb (by omega) (by rw [depth_native]; omega)
  unfold upd
  cases hm : mergeF fuel a b with
  | error e =>
    cases hu : updF ((native b).depth + 1) (native a) (native b) with
    | error e' => simp only [hm, hu, MRel] at h; simp [h.1, h.2]
    | ok p => simp [hm, hu, MRel] at h
  | ok res =>
    obtain ⟨r, s⟩ := res
    cases hu : updF ((native b).depth + 1) (native a) (native b) with
    | error e' => simp [hm, hu, MRel] at h
    | ok p => simp only [hm, hu, MRel] at h; simp [h.1, h.2]

/- The same for `merge` (`self.ayns.on_merge(NodePath(), other)` with the canonical fuel). -/
theorem C02_merge_is_upd_top (a b : Node) (ha : plainT a = true) (hb : plainO b = true) :
    (merge a b).map native = upd (native a) (native b)
    ∧ (∀ r, merge a b = .ok r → plainT r = true)
    ∧ (∀ e, merge a b = .error e → e = .merge) := by
  have h := merge_plain ha hb
  refine ⟨NRel_map h, ?_, ?_⟩
  · intro r hr
    cases hu : upd (native a) (native b) <;> simp_all [NRel]
  · intro e he
    cases hu : upd (native a) (native b) <;> simp_all [NRel]

/-- accumulated tree and newer document of the examples -/
def c02A : Node := match construct {} c02Doc1 with | .ok n => n | .error _ => default
def c02B : Node := match construct {} c02Doc2 with | .ok n => n | .error _ => default
example : plainT c02A = true ∧ plainO c02B = true ∧ c02B.depth + 1 ≤ 5 := by decide
-- the merge of the two concrete documents succeeds, so the statement is exercised on a success …
example : ((merge c02A c02B).map native).toBool = true := by decide
-- … and merging the third document afterwards is a MergeError on both sides
example : (upd (plainOfRaw c02Doc1) (plainOfRaw c02Doc2) >>= fun p => upd p (plainOfRaw c02Doc3)).toBool = false := by
  decide

/-! ### The builder's fold -/

/- "When several tag-free mapping documents are merged in order, the result equals folding them
   left to right with a recursive update" — for every non-empty sequence of tag-free mapping
   documents (each parsed in its own source context), `Builder.flatten` (pre-merge pass, then
   `merge` stage by stage) and `foldUpd` are the same `Except` value up to `native`: equal data on
   success, the same error otherwise. -/
theorem C02_plain_fold (docs : List (Env × Raw)) (hne : docs ≠ [])
    (h : ∀ d, d ∈ docs → rawPlain d.2 = true) :
    ∃ ns, constructDocs docs = .ok ns ∧
      (flatten ns).map native = foldUpd (docs.map (fun d => plainOfRaw d.2)) := by
  obtain ⟨ns, h1, h2, h3, h4⟩ := constructDocs_plain docs h
  refine ⟨ns, h1, ?_⟩
  rw [← h2]
  apply flatten_plain ns _ h4
  intro e; subst e
  cases docs with
  | nil => exact hne rfl
  | cons d ds => simp at h3

example : [(({} : Env), c02Doc1), ({}, c02Doc2), ({}, c02Doc3)] ≠ [] ∧
    ∀ d, d ∈ [(({} : Env), c02Doc1), ({}, c02Doc2), ({}, c02Doc3)] → rawPlain d.2 = true := by
  refine ⟨by simp, ?_⟩
  intro d hd
  simp only [List.mem_cons, List.not_mem_nil, or_false] at hd
  rcases hd with rfl | rfl | rfl <;> decide

/- The pre-merge pass does nothing on tag-free trees (used by `C02_plain_fold`). -/
theorem C02_premerge_id (fuel : Nat) (n : Node) (path : Path) (into : Option Node)
    (hn : plainT n = true) (hd : n.depth < fuel) : premergeF fuel n path into = .ok (n, true, into) :=
  premergeF_plain fuel n path into hn hd

example : plainT c02A = true ∧ c02A.depth < 7 := by decide

/-! ### Frame properties of the specification -/

/- "no key is ever lost": the keys of an updated mapping are exactly the keys of the older mapping
   (in their old order, first) and the new keys of the newer mapping. -/
theorem C02_upd_no_key_lost (fuel : Nat) (as bs : List (Key × Plain)) (r : Plain)
    (h : updF (fuel + 1) (.dict as) (.dict bs) = .ok r) :
    ∃ rs, r = .dict rs ∧
      (∀ k, (alookup k rs).isSome = ((alookup k as).isSome || (alookup k bs).isSome)) ∧
      (∃ extra, akeys rs = akeys as ++ extra) := by
  rw [updF_dict_dict] at h
  cases hu : updF.updDict (updF fuel) as bs with
  | error e => simp [hu, Except.map] at h
  | ok rs =>
    simp only [hu, Except.map] at h
    injection h with h
    exact ⟨rs, h.symm, updDict_keys _ bs as rs hu, updDict_prefix _ bs as rs hu⟩

/- "keys present in only one side are kept, mappings under a common key are merged recursively …
   nothing not mentioned by the newer document changes": pointwise description of a successful
   update by a mapping without duplicate keys. -/
theorem C02_upd_frame (fuel : Nat) (as bs : List (Key × Plain)) (r : Plain)
    (h : updF (fuel + 1) (.dict as) (.dict bs) = .ok r) (hnd : keysNodup bs = true) :
    ∃ rs, r = .dict rs ∧ ∀ k, alookup k rs =
      match alookup k bs with
      | none => alookup k as
      | some vb =>
        match alookup k as with
        | none => some vb
        | some va => (updF fuel va vb).toOption := by
  rw [updF_dict_dict] at h
  cases hu : updF.updDict (updF fuel) as bs with
  | error e => simp [hu, Except.map] at h
  | ok rs =>
    simp only [hu, Except.map] at h
    injection h with h
    exact ⟨rs, h.symm, updDict_pointwise _ bs as rs hu hnd⟩

/- "any other value (scalar or list) is replaced wholesale by the newer document's value". -/
theorem C02_upd_replace (fuel : Nat) (a b : Plain) (hb : ∀ bs, b ≠ .dict bs) :
    updF (fuel + 1) a b = .ok b := by
  cases b with
  | scalar v => exact updF_scalar_right fuel a v
  | list xs => exact updF_list_right fuel a xs
  | dict bs => exact absurd rfl (hb bs)

example : (updF 5 (plainOfRaw c02Doc1) (plainOfRaw c02Doc2)).toBool = true := by decide

end AY
