import AY.Spec.Plain
namespace AY
/-- placeholder so that the pipeline can be exercised; replaced by the real theorems -/
theorem C02_placeholder : foldUpd [] = .error .value := rfl
end AY
