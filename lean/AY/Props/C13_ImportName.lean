/-
  C13 — "A !call node returns target(args) …": WHICH object is the target.  utils.py `import_name` turns the text of the
  tag (`pkg.mod.attr`) into the object; it is used by `!call`, `!bind` and `!import`.  AY.Model.ImportName follows its loop
  literally over an abstract world (what is importable, `__name__`, truthiness, attributes, builtins — the state AFTER the
  imports the call performs).  Theorems, for every world, every name, no bound on the number of elements:

    (a) `C13_import_name_two_phases`, `C13_longest_importable_prefix`   imports while they succeed (the LONGEST prefix whose
        every prefix is importable), then attributes only; `C13_after_failed_import_only_attributes` (the once-off switch);
    (b) `C13_importable_dotted_name_is_that_module`;
    (c) `C13_module_attribute_not_sibling_module`, with the proved witness of what the `if current:` test permits
        (`C13_falsy_module_sibling_confusion`);
    (d) `C13_unimportable_single_name_is_builtin`, `C13_importable_single_name_shadows_builtin`,
        `C13_no_builtin_fallback_for_dotted_names`;
    (e) `C13_invalid_name_is_value_error`, `C13_failure_is_import_error_naming_symbol`;
    (f) `C13_prefix_law`, `C13_empty_element_is_skipped` (a quirk: `a..b` is `a.b`).

  Tie: harness/props/c13.py family `impname` (real package trees in a temp directory, the real `import_name`, driver op
  `importName`).  Helper lemmas: AY/Lemmas/ImportName.lean.
-/
import AY.Lemmas.ImportName
namespace AY
open ImportName

/-! ### Concrete worlds used by the non-vacuity examples.  Entities are numbers. -/

/-- `pkg/__init__.py` (1: defines `f = <object 5>`, `Cls` = <class 6> with attribute `make` = 7, `nothing = None`),
    `pkg/sub.py` (2), a top-level module `f.py` (3), a top-level module `len.py` (4); builtins `len` (8), `dict` (9),
    `None`. -/
def c13World : World Nat where
  imp := fun p =>
    if p = ["pkg"] then .ok 1 else if p = ["pkg", "sub"] then .ok 2 else if p = ["f"] then .ok 3
    else if p = ["len"] then .ok 4 else .importError
  name := fun e =>
    if e = 1 then some ["pkg"] else if e = 2 then some ["pkg", "sub"] else if e = 3 then some ["f"]
    else if e = 4 then some ["len"] else if e = 6 then some ["Cls"] else none
  truthy := fun _ => true
  attr := fun e n =>
    if e = 1 ∧ n = "f" then some (some 5) else if e = 1 ∧ n = "Cls" then some (some 6)
    else if e = 1 ∧ n = "sub" then some (some 2) else if e = 1 ∧ n = "nothing" then some none
    else if e = 6 ∧ n = "make" then some (some 7) else none
  builtin := fun n => if n = "len" then some (some 8) else if n = "dict" then some (some 9)
    else if n = "None" then some none else none

theorem c13World_coherent : Coherent c13World := by
  intro p m h
  refine ⟨rfl, ?_⟩
  simp only [c13World] at h ⊢
  split at h
  · injection h with h; subst h; rename_i hp; simp [hp]
  · split at h
    · injection h with h; subst h; rename_i hp; simp [hp]
    · split at h
      · injection h with h; subst h; rename_i hp; simp [hp]
      · split at h
        · injection h with h; subst h; rename_i hp; simp [hp]
        · cases h

theorem c13World_only_import_errors : ImportsOnlyFailWithImportError c13World := by
  intro p c h
  simp only [c13World] at h
  repeat (split at h; · cases h)
  cases h

/-- the same with a package object that is FALSY (`bool(pkg)` is False) -/
def c13FalsyWorld : World Nat := { c13World with truthy := fun e => e != 1 }

/-! ### (a) imports while they succeed, then attributes only -/

/-- the statement of (a): the import phase over the elements, then — if at least one import succeeded — the attribute
    phase over the elements that are left; if not even the first element is importable, a single element is looked up in
    `builtins` and anything longer is an ImportError -/
def c13TwoPhases {E : Type} (w : World E) (s : String) : Except (ImportErr E) (Option E) :=
  match importPhase w none (elements s) with
  | .crashed c => .error (.crash c)
  | .reached (some m) rest => attrPhase w s (some m) rest
  | .reached none _ =>
    match elements s with
    | [el] =>
      match w.builtin el with
      | some v => .ok v
      | none => .error (.importError s none)
    | _ => .error (.importError s none)

/- "`pkg.mod.attr` → the object": for EVERY world and every valid name, `import_name` is: import element after element
   (relative to the module reached so far) as long as the import succeeds; from the first element whose import fails on,
   follow attributes only (`try_import` is switched off for good); if not even the first element is importable, a single
   element is a builtin and anything longer fails. -/
theorem C13_import_name_two_phases {E : Type} (w : World E) (s : String) (hv : invalid s = false) :
    importName w s = c13TwoPhases w s := by
  unfold importName c13TwoPhases
  rw [hv]
  simp only [Bool.false_eq_true, if_false]
  cases hels : elements s with
  | nil => exact absurd hels (elements_ne_nil s)
  | cons el rs =>
    simp only [loop, step, if_true, importPhase]
    cases hi : importAttempt w none el with
    | raises c => rfl
    | ok m =>
      simp only
      cases rs with
      | nil => rfl
      | cons el2 rs2 =>
        have hs : ((el :: el2 :: rs2).length == 1) = false := by simp
        rw [hs, loop_on_eq_phases]
        rcases importPhase_some w (el2 :: rs2) m with ⟨c, h⟩ | ⟨m', rest, h⟩
        · rw [h]
        · rw [h]
    | importError =>
      cases rs with
      | nil =>
        simp only [List.length_cons, List.length_nil, attrStep]
        cases w.builtin el with
        | none => rfl
        | some v => rfl
      | cons el2 rs2 => simp [attrStep]

example : invalid "pkg.Cls.make" = false ∧ importName c13World "pkg.Cls.make" = .ok (some 7) ∧
    importPhase c13World none (elements "pkg.Cls.make") = .reached (some 1) ["Cls", "make"] := by decide +kernel

/- "the LONGEST importable prefix": in a world of ordinary modules (truthy, `__name__` = the name they are imported under),
   for elements without empty ones, the import phase stops after the longest prefix `pre` all of whose non-empty prefixes are
   importable: it has reached the module imported under `pre` (nothing, if `pre` is empty), and the next element — if there
   is one — is not importable below it.  (Longer prefixes are not tried, whatever is importable further down.) -/
theorem C13_longest_importable_prefix {E : Type} (w : World E) (hc : Coherent w) (hr : ImportsOnlyFailWithImportError w)
    (els : List String) (hne : ∀ el ∈ els, el ≠ "") :
    ∃ pre rest cur, els = pre ++ rest ∧ importPhase w none els = .reached cur rest ∧
      (∀ q, q <+: pre → q ≠ [] → ∃ mq, w.imp q = .ok mq) ∧
      (pre = [] → cur = none) ∧ (pre ≠ [] → ∃ m, cur = some m ∧ w.imp pre = .ok m) ∧
      (∀ el rs, rest = el :: rs → w.imp (pre ++ [el]) = .importError) := by
  obtain ⟨pre, rest, cur, h1, h2, h3, h4, h5⟩ :=
    importPhase_coherent w hc hr els [] none (Or.inl ⟨rfl, rfl⟩) (by simpa using hne) (by
      intro q hq hq0
      exact absurd (List.prefix_nil.mp hq) hq0)
  refine ⟨pre, rest, cur, by simpa using h1, h2, h4, ?_, ?_, h5⟩
  · intro hp
    rcases h3 with ⟨_, h⟩ | ⟨m, _, _, h⟩
    · exact h
    · exact absurd hp h
  · intro hp
    rcases h3 with ⟨h, _⟩ | ⟨m, h, hm, _⟩
    · exact absurd h hp
    · exact ⟨m, h, hm⟩

example : importPhase c13World none ["pkg", "sub", "x", "y"] = .reached (some 2) ["x", "y"] ∧
    c13World.imp ["pkg", "sub", "x"] = .importError := by decide +kernel

/- "once an import fails, `try_import` is switched off for good and only `getattr` is tried": from the first failed import
   on, the result does not depend on what is importable — for every replacement of the import relation. -/
theorem C13_after_failed_import_only_attributes {E : Type} (w : World E) (imp' : List String → ImportRes E) (single : Bool)
    (sym : String) (els : List String) (cur : Option E) :
    loop { w with imp := imp' } single sym cur false els = loop w single sym cur false els :=
  loop_off_imp_irrelevant w imp' single sym els cur

/-- `pkg.Cls` is a class named `Cls`; were imports tried again, a top-level package `Cls` with a module `make` would win -/
example : loop { c13World with imp := fun p => if p = ["Cls", "make"] then .ok 77 else c13World.imp p } false "pkg.Cls.make"
    (some 6) false ["make"] = .ok (some 7) := by decide +kernel

/-! ### (b) a fully importable dotted name is that module -/

/- "a fully importable dotted name resolves to that module": in a world of ordinary modules, if every non-empty prefix of
   the elements is importable, `import_name` returns the module imported under the whole name — for any number of elements. -/
theorem C13_importable_dotted_name_is_that_module {E : Type} (w : World E) (hc : Coherent w) (s : String)
    (hv : invalid s = false) (hne : ∀ el ∈ elements s, el ≠ "")
    (hall : ∀ q, q <+: elements s → q ≠ [] → ∃ mq, w.imp q = .ok mq) :
    ∃ m, w.imp (elements s) = .ok m ∧ importName w s = .ok (some m) := by
  obtain ⟨m, hm, hp⟩ := importPhase_all_importable w hc (elements s) [] none (Or.inl ⟨rfl, rfl⟩) (by simpa using hne)
    (elements_ne_nil s) (by
      intro q hq hl
      apply hall q (by simpa using hq)
      intro h; rw [h] at hl; simp at hl)
  refine ⟨m, by simpa using hm, ?_⟩
  unfold importName
  rw [hv]
  simp only [Bool.false_eq_true, if_false]
  have := loop_append_of_importPhase w ((elements s).length == 1) s (elements s) [] none (some m) hp
  rw [List.append_nil] at this
  rw [this]; rfl

example : importName c13World "pkg.sub" = .ok (some 2) ∧ invalid "pkg.sub" = false ∧ elements "pkg.sub" = ["pkg", "sub"] ∧
    c13World.imp ["pkg"] = .ok 1 ∧ c13World.imp ["pkg", "sub"] = .ok 2 := by decide +kernel

/-! ### (c) `m.f`: the attribute of `m`, not a sibling module `f` -/

/- "`m.f` where `m` is importable and `f` an attribute of it resolves to that attribute, even if a top-level module named
   `f` exists": nothing is assumed about `w.imp [f]`.  `m` is an ordinary module (truthy, `__name__ == m`) without a
   submodule `f`. -/
theorem C13_module_attribute_not_sibling_module {E : Type} (w : World E) (m f : String)
    (hm : ∀ c ∈ m.toList, c ≠ '.') (hf : ∀ c ∈ f.toList, c ≠ '.') (hm0 : m ≠ "") (hf0 : f ≠ "")
    (M : E) (v : Option E) (himp : w.imp [m] = .ok M) (ht : w.truthy M = true) (hn : w.name M = some [m])
    (hsub : w.imp [m, f] = .importError) (hattr : w.attr M f = some v) :
    importName w (m ++ "." ++ f) = .ok v := by
  have hv : invalid (m ++ "." ++ f) = false := by rw [invalid_append_dot]; exact invalid_nodot f hf0 hf
  have hels : elements (m ++ "." ++ f) = [m, f] := by
    rw [elements_append_dot, elements_nodot m hm, elements_nodot f hf]; rfl
  unfold importName
  rw [hv, hels]
  have hm1 : ([m] : List String) ≠ [""] := by
    intro h; injection h with h _; exact hm0 h
  simp [loop, step, importAttempt, absImport, hm0, himp, ht, relImport, hn, hm1, hf0, hsub, attrStep, hattr]

/-- a top-level module `f` exists (entity 3) and is not what `pkg.f` means -/
example : c13World.imp ["f"] = .ok 3 ∧ importName c13World "pkg.f" = .ok (some 5) := by decide +kernel

/- What the hypothesis `truthy` is for: the code tests `if current:`; a package object whose `bool()` is False is treated as
   "nothing imported yet" and the next element is imported as a TOP-LEVEL module: `pkg.f` is then the sibling module `f`.
   Proved on the witness, replayed on the code by the harness corpus. -/
theorem C13_falsy_module_sibling_confusion :
    importName c13FalsyWorld "pkg.f" = .ok (some 3) ∧ importName c13World "pkg.f" = .ok (some 5) := by decide +kernel

/-! ### (d) single names and builtins -/

/- "a single name that is not importable resolves to the builtin of that name". -/
theorem C13_unimportable_single_name_is_builtin {E : Type} (w : World E) (n : String)
    (hn : ∀ c ∈ n.toList, c ≠ '.') (hn0 : n ≠ "") (v : Option E)
    (himp : w.imp [n] = .importError) (hb : w.builtin n = some v) :
    importName w n = .ok v := by
  unfold importName
  rw [invalid_nodot n hn0 hn, elements_nodot n hn]
  simp [loop, step, importAttempt, absImport, hn0, himp, attrStep, hb]

example : importName c13World "dict" = .ok (some 9) ∧ importName c13World "None" = .ok none := by decide +kernel

/- "an importable single name shadows the builtin": whatever `builtins` holds under that name. -/
theorem C13_importable_single_name_shadows_builtin {E : Type} (w : World E) (n : String)
    (hn : ∀ c ∈ n.toList, c ≠ '.') (hn0 : n ≠ "") (M : E) (himp : w.imp [n] = .ok M) :
    importName w n = .ok (some M) := by
  unfold importName
  rw [invalid_nodot n hn0 hn, elements_nodot n hn]
  simp [loop, step, importAttempt, absImport, hn0, himp]

example : c13World.builtin "len" = some (some 8) ∧ importName c13World "len" = .ok (some 4) := by decide +kernel

/- "`if current is None and len(elements) == 1`": the builtins are consulted for single names only — a dotted name whose
   first element is not importable is an ImportError, whether or not that element names a builtin. -/
theorem C13_no_builtin_fallback_for_dotted_names {E : Type} (w : World E) (s : String) (hv : invalid s = false)
    (el el2 : String) (rs : List String) (hels : elements s = el :: el2 :: rs) (hel : el ≠ "")
    (himp : w.imp [el] = .importError) :
    importName w s = .error (.importError s none) := by
  unfold importName
  rw [hv, hels]
  simp [loop, step, importAttempt, absImport, hel, himp, attrStep]

example : c13World.builtin "dict" = some (some 9) ∧ importName c13World "dict.fromkeys" = .error (.importError "dict.fromkeys" none) := by
  decide +kernel

/-! ### (e) failures -/

/- "empty name / trailing dot → ValueError", before anything is imported. -/
theorem C13_invalid_name_is_value_error {E : Type} (w : World E) (s : String) :
    (importName w "" = .error (.valueError "")) ∧ (importName w (s ++ ".") = .error (.valueError (s ++ "."))) ∧
    (invalid s = true → importName w s = .error (.valueError s)) := by
  refine ⟨by simp [importName, invalid], ?_, ?_⟩
  · have : invalid (s ++ ".") = true := by
      unfold invalid
      rw [String.toList_append, toList_dot]
      simp
    simp [importName, this]
  · intro h; simp [importName, h]

example : invalid "pkg." = true ∧ invalid "" = true ∧ invalid "." = true ∧ invalid ".pkg" = false := by decide +kernel

/- "every failure is an ImportError naming the symbol (never a partial result)": in a world of ordinary modules whose
   imports fail with ImportError only, for a name that does not start with a dot, `import_name` either returns an object or
   raises ValueError (exactly for the invalid names) or the ImportError that names the whole symbol. -/
theorem C13_failure_is_import_error_naming_symbol {E : Type} (w : World E) (hc : Coherent w)
    (hr : ImportsOnlyFailWithImportError w) (s : String) (h0 : (elements s).head? ≠ some "") (x : ImportErr E)
    (h : importName w s = .error x) :
    (x = .valueError s ∧ invalid s = true) ∨ (invalid s = false ∧ ∃ last, x = .importError s last) := by
  unfold importName at h
  cases hv : invalid s with
  | true => rw [hv] at h; simp at h; exact Or.inl ⟨h.symm, rfl⟩
  | false =>
    rw [hv] at h
    simp only [Bool.false_eq_true, if_false] at h
    refine Or.inr ⟨rfl, ?_⟩
    cases hels : elements s with
    | nil => exact absurd hels (elements_ne_nil s)
    | cons el rs =>
      rw [hels] at h h0
      have hel : el ≠ "" := by intro he; apply h0; rw [he]; rfl
      simp only [loop, step, if_true, importAttempt, absImport, if_neg hel] at h
      cases hi : w.imp [el] with
      | raises c => exact absurd hi (hr _ c)
      | ok m =>
        rw [hi] at h
        have hs : Safe w (some m) := ⟨m, [el], rfl, hi, by intro hh; injection hh with hh _; exact hel hh, by simp⟩
        exact loop_on_no_crash w hc hr _ s rs m hs (hc _ m hi).1 x h
      | importError =>
        rw [hi] at h
        cases hstep : attrStep w ((el :: rs).length == 1) s none el with
        | fail e =>
          rw [hstep] at h
          simp only [attrStep] at hstep
          injection h with h
          split at hstep
          · split at hstep
            · cases hstep
            · injection hstep with hstep; exact ⟨none, by rw [← h, ← hstep]⟩
          · injection hstep with hstep; exact ⟨none, by rw [← h, ← hstep]⟩
        | next c t =>
          rw [hstep] at h
          simp only [attrStep] at hstep
          split at hstep
          · split at hstep
            · injection hstep with _ ht; rw [← ht] at h
              exact loop_off_no_crash w _ s rs c x h
            · cases hstep
          · cases hstep

example : importName c13World "pkg.nope.x" = .error (.importError "pkg.nope.x" (some 1)) ∧
    importName c13World "pkg.nothing.x" = .error (.importError "pkg.nothing.x" none) ∧
    importName c13World "nope" = .error (.importError "nope" none) := by decide +kernel
example := C13_failure_is_import_error_naming_symbol c13World c13World_coherent c13World_only_import_errors "pkg.nope.x"
  (by decide +kernel)

/-! ### (f) the prefix law -/

/-- resolving elements starting from an already imported module (`len(elements) > 1`, `try_import` still on) -/
def c13ResolveFrom {E : Type} (w : World E) (sym : String) (m : E) (els : List String) : Except (ImportErr E) (Option E) :=
  loop w false sym (some m) true els

/- "`importName w (a ++ "." ++ b)` = resolve `b`'s elements starting from the entity of `a` when `a` is importable as a
   module": if the import phase consumes all elements of `a` and reaches the module `m`, then the dotted name `a.b` is `b`'s
   elements resolved from `m` (imports first, then attributes), whatever `a` and `b` are. -/
theorem C13_prefix_law {E : Type} (w : World E) (a b : String) (hb : invalid b = false) (m : E)
    (ha : importPhase w none (elements a) = .reached (some m) []) :
    importName w (a ++ "." ++ b) = c13ResolveFrom w (a ++ "." ++ b) m (elements b) := by
  unfold importName c13ResolveFrom
  rw [invalid_append_dot, hb, elements_append_dot]
  simp only [Bool.false_eq_true, if_false]
  have hlen : ((elements a ++ elements b).length == 1) = false := by
    have h1 := elements_ne_nil a
    have h2 := elements_ne_nil b
    cases ha' : elements a with
    | nil => exact absurd ha' h1
    | cons x xs =>
      cases hb' : elements b with
      | nil => exact absurd hb' h2
      | cons y ys => simp
  rw [hlen]
  exact loop_append_of_importPhase w false _ (elements a) (elements b) none (some m) ha

example : importPhase c13World none (elements "pkg.sub") = .reached (some 2) [] ∧
    importName c13World "pkg.Cls.make" = c13ResolveFrom c13World "pkg.Cls.make" 1 ["Cls", "make"] ∧
    c13ResolveFrom c13World "pkg.Cls.make" 1 ["Cls", "make"] = .ok (some 7) := by decide +kernel

/- A quirk the loop has (importlib resolves `import_module('.', package=p)` to `p` itself): an EMPTY element after a module
   is skipped — `a..b` means `a.b`.  (An empty FIRST element is `import_module('')`: ValueError 'Empty module name'.) -/
theorem C13_empty_element_is_skipped {E : Type} (w : World E) (single : Bool) (sym : String) (m : E) (p : List String)
    (els : List String) (ht : w.truthy m = true) (hn : w.name m = some p) (hp : p ≠ [""]) (hm : w.imp p = .ok m) :
    loop w single sym (some m) true ("" :: els) = loop w single sym (some m) true els := by
  simp [loop, step, importAttempt, ht, relImport, hn, hp, hm]

example : importName c13World "pkg..sub" = .ok (some 2) ∧ importName c13World ".pkg" = .error (.crash "ValueError") := by
  decide +kernel

end AY
