/-
  C18 (continued) — the round-trip equivalence is a MERGE CONGRUENCE.

  Property text: "Writing any parsed document with the library's dump and parsing the text back
  yields a document that is interchangeable with the original: substituted at any position of a
  merge sequence it produces the same merged config, it evaluates to the same value, and it carries
  the same user metadata. Dumping the re-parsed document produces the same text again."

  AY/Props/C18_Effective.lean proves the round trip up to `simN`/`effEq`.  Those two relations are NOT
  preserved by merging (`C18_effEq_not_merge_congruence`): a merge copies the raw `_delete` of the
  newer node into the accumulated one and re-parents newer nodes, so the effective `delete` /
  `allow_new` of ACCUMULATED nodes may differ afterwards — and nothing reads them there.  The relation
  that the round trip satisfies and that IS preserved has two layers (AY/Lemmas/C18CongrDefs.lean,
  AY/Lemmas/C18CongrFlatten.lean):

    congN s n n'   same kinds, keys, key order, scalar content, user metadata, source-level safe flag,
                   source file, effective priority and explicit `delete = True` at every node; with
                   `s = true` also the same explicit / inherited `safe = False`, compared down to and
                   including the first node that states `safe = False` (below it `s` becomes false:
                   every node there inherits `False` by flag consistency, and merging may leave the
                   explicit flags different — "it does not hold step by step");
    docN n n'      the same effective `delete` and `allow_new` at every node;
    accR a a'      := congN true a a' ∧ both flag-consistent            (merged / accumulated trees)
    docR b b'      := congN true b b' ∧ docN b b' ∧ both flag-consistent (documents = stages).

  Theorems (all node kinds `mergeF` dispatches on: mappings, `!call`/`!bind`, the list family, leaves):
    C18_roundtrip_R                 parse ∘ dump of every merge-control document is `docR`-related to it
    C18_merge_congruence            accR a a' → docR b b' → merging gives the same error, or the same
                                    is-self flag and `accR` results
    C18_substitution_any_position   stage lists xs ++ [d] ++ ys / xs ++ [d'] ++ ys with docR d d':
                                    `flatten` gives the same error or `accR` results; xs arbitrary,
                                    d and ys without pre-merge operators
    C18_substitution_roundtrip      the clause of the property, with what `accR` means for the result
    C18_R_same_data_and_safety      accR ⇒ equal native data and (no nested stream) equal effective
                                    `safe` at every node; C18_R_node: the per-node content
  and the two boundary facts:
    C18_effEq_not_merge_congruence       `simN`/`effEq` are not preserved by a merge
    C18_substitution_prev_counterexample with a later stage that MOVES accumulated nodes (`!prev`)
                                    the substitution is observable — replayed on the code (finding).
-/
import AY.Props.C18_Effective
import AY.Lemmas.C18CongrFlatten
namespace AY

/-! ### Concrete documents used by the examples -/

/-- `{a: !force {x: 1, y: !del [1, 2]}, b: !metadata{{safe: False, m: 1}} {k: !unsafe 2},
      c: !notnew {z: !notnew 3}}` — `!force`, `!del`, metadata; `b.k`'s `!unsafe` and `c.z`'s `!notnew`
    repeat their parents and are not written by the dump -/
def c18cDoc : Raw :=
  .map .none {} [
    (.str "a", .map .plain { prio := some 1 } [
      (.str "x", .scalar .none {} (.lit (.int 1))),
      (.str "y", .seq .plain { del := some true } [.scalar .none {} (.lit (.int 1)), .scalar .none {} (.lit (.int 2))])]),
    (.str "b", .map .plain { safe := some false, md := [("m", .int 1)] } [
      (.str "k", .scalar .plain { safe := some false } (.lit (.int 2)))]),
    (.str "c", .map .plain { new := some false } [(.str "z", .scalar .plain { new := some false } (.lit (.int 3)))])]

/-- `{a: {x: 0, y: [9], w: 7}, b: {k: !force 1}, c: {z: 0}}` — an older stage; `b.k` outranks the
    document's `!unsafe 2` (the case where the relation does not hold step by step) -/
def c18cBase : Raw :=
  .map .none {} [
    (.str "a", .map .none {} [(.str "x", .scalar .none {} (.lit (.int 0))),
      (.str "y", .seq .none {} [.scalar .none {} (.lit (.int 9))]), (.str "w", .scalar .none {} (.lit (.int 7)))]),
    (.str "b", .map .none {} [(.str "k", .scalar .plain { prio := some 1 } (.lit (.int 1)))]),
    (.str "c", .map .none {} [(.str "z", .scalar .none {} (.lit (.int 0)))])]

/-- `{a: {x: 5}, b: {j: 4}}` — a newer stage -/
def c18cLater : Raw :=
  .map .none {} [(.str "a", .map .none {} [(.str "x", .scalar .none {} (.lit (.int 5)))]),
    (.str "b", .map .none {} [(.str "j", .scalar .none {} (.lit (.int 4)))])]

def c18cD : Node := okOr (construct {} c18cDoc)
def c18cD' : Node := reparsed c18cDoc
def c18cB : Node := okOr (construct {} c18cBase)
def c18cL : Node := okOr (construct {} c18cLater)

/-! ### the round trip lands in the congruence -/

/- "Writing any parsed document with the library's dump and parsing the text back yields a document
   that is interchangeable with the original" — for EVERY document over the merge-control vocabulary
   (`rawMC`) the re-parsed tree is `docR`-related to the parsed one (interchangeable as a stage), and
   neither contains a pre-merge operator. -/
theorem C18_roundtrip_R (env : Env) (r : Raw) (n : Node) (hv : rawMC r = true) (hc : construct env r = .ok n) :
    ∃ n', construct env (represent n) = .ok n' ∧ docR n n' ∧ noPM n = true ∧ noPM n' = true := by
  obtain ⟨n', h1, h2, _⟩ := C18_roundtrip_effective env r n hv hc
  have hb : n = build env ctx0 r := by
    rw [construct_build env r hv] at hc; cases hc; rfl
  have hsd : safeDown false n = true := by
    rw [hb]; exact safeDown_build env r ctx0 false (fun e => by simp [ctx0] at e)
  have hcong := congN_of_simN n n' false true h2 hsd (fun _ => rfl)
  have hp : noPM n = true := by rw [hb]; exact noPM_build env r ctx0
  refine ⟨n', h1, ⟨hcong, docN_of_simN n n' h2, (constructTD_cons env none r n hc).1,
    (constructTD_cons env none _ n' h1).1⟩, hp, ?_⟩
  rw [← noPM_cong n n' hcong]; exact hp

example : rawMC c18cDoc = true := by decide +kernel
example := C18_roundtrip_R {} c18cDoc c18cD (by decide +kernel) rfl
-- the statement is genuinely "up to": the re-parsed tree differs (`b.k` lost its explicit `!unsafe`,
-- `c.z` its explicit `!notnew`), and is related
example : (getNode c18cD [.str "b", .str "k"]).map (fun m => m.flags.safe) = some (some false) ∧
    (getNode c18cD' [.str "b", .str "k"]).map (fun m => m.flags.safe) = some none ∧
    (getNode c18cD [.str "c", .str "z"]).map (fun m => m.flags.new) = some (some false) ∧
    (getNode c18cD' [.str "c", .str "z"]).map (fun m => m.flags.new) = some none ∧
    congN true c18cD c18cD' = true ∧ docN c18cD c18cD' = true := by decide +kernel

/-! ### merging is a congruence -/

/- "substituted at any position of a merge sequence it produces the same merged config" — one merge:
   for accumulated trees `a ~ a'` (`accR`) and documents `b ~ b'` (`docR`), `self.on_merge(other)` on
   `(a, b)` and on `(a', b')` raises the same error, or succeeds on both with the same is-self flag and
   `accR`-related results.  Every node kind `mergeF` dispatches on is covered (mapping, `!call`/`!bind`,
   list / `!append` / `!extend` / `!path` / stream class, leaves), every fuel. -/
theorem C18_merge_congruence (fuel : Nat) (a a' b b' : Node) (ha : accR a a') (hb : docR b b') :
    (∃ e, mergeF fuel a b = .error e ∧ mergeF fuel a' b' = .error e) ∨
    (∃ r r' same, mergeF fuel a b = .ok (r, same) ∧ mergeF fuel a' b' = .ok (r', same) ∧ accR r r') := by
  obtain ⟨ha1, ha2, ha3⟩ := ha
  obtain ⟨hb1, hb2, hb3, hb4⟩ := hb
  have h := mergeF_cong fuel true true a a' b b' ha1 hb1 hb2 ha2 ha3 hb3 hb4
  cases e1 : mergeF fuel a b <;> cases e2 : mergeF fuel a' b' <;> simp only [e1, e2, exRel] at h
  · rename_i x y
    exact .inl ⟨x, rfl, by rw [h]⟩
  · rename_i x y
    obtain ⟨r, s⟩ := x
    obtain ⟨r', s'⟩ := y
    simp only at h
    obtain ⟨rfl, h2, _⟩ := h
    exact .inr ⟨r, r', s, rfl, rfl, h2, mergeF_cons fuel a b r s ha2 hb3 e1, mergeF_cons fuel a' b' r' s ha3 hb4 e2⟩

-- the older stage (as `self`) merged with the document / with its dump-and-reparse
example : accR c18cB c18cB ∧ docR c18cD c18cD' :=
  ⟨accR_of_bool (by decide +kernel), docR_of_bool (by decide +kernel)⟩
example := C18_merge_congruence 9 c18cB c18cB c18cD c18cD' (accR_of_bool (by decide +kernel))
  (docR_of_bool (by decide +kernel))
-- both merges succeed; `b.k = !force 1` wins over the document's `!unsafe 2`: with the original it becomes
-- EXPLICITLY unsafe, with the re-parsed document it does not — and both are unsafe (inherited from `b`)
example : bothOk (merge c18cB c18cD) (merge c18cB c18cD') (fun r r' =>
      (getNode r [.str "b", .str "k"]).map (fun m => (m.flags.safe, eSafe m.flags)) == some (some false, false) &&
      (getNode r' [.str "b", .str "k"]).map (fun m => (m.flags.safe, eSafe m.flags)) == some (none, false) &&
      congN true r r') = true := by decide +kernel
-- the document (as `self`, position 0) merged with a newer stage
example := C18_merge_congruence 9 c18cD c18cD' c18cL c18cL (accR_of_bool (by decide +kernel))
  (docR_of_bool (by decide +kernel))

/- The same for the relation with the safe flags switched off on either side (`congN s` / `congN t`,
   result `congN (s && t)`): the statement the induction runs on.  `s = false` is the situation below a
   node that states `safe = False`. -/
theorem C18_merge_congruence_modes (fuel : Nat) (s t : Bool) (a a' b b' : Node) (ha : congN s a a' = true)
    (hb : congN t b b' = true) (hd : docN b b' = true) (hca : FlagsConsistent a = true)
    (hca' : FlagsConsistent a' = true) (hcb : FlagsConsistent b = true) (hcb' : FlagsConsistent b' = true) :
    (∃ e, mergeF fuel a b = .error e ∧ mergeF fuel a' b' = .error e) ∨
    (∃ r r' same, mergeF fuel a b = .ok (r, same) ∧ mergeF fuel a' b' = .ok (r', same) ∧
      congN (s && t) r r' = true) := by
  have h := mergeF_cong fuel s t a a' b b' ha hb hd hca hca' hcb hcb'
  cases e1 : mergeF fuel a b <;> cases e2 : mergeF fuel a' b' <;> simp only [e1, e2, exRel] at h
  · rename_i x y
    exact .inl ⟨x, rfl, by rw [h]⟩
  · rename_i x y
    obtain ⟨r, sm⟩ := x
    obtain ⟨r', sm'⟩ := y
    simp only at h
    obtain ⟨rfl, h2, _⟩ := h
    exact .inr ⟨r, r', sm, rfl, rfl, h2⟩

example := C18_merge_congruence_modes 9 true true c18cB c18cB c18cD c18cD' (by decide +kernel) (by decide +kernel)
  (by decide +kernel) (by decide +kernel) (by decide +kernel) (by decide +kernel) (by decide +kernel)

/-! ### any position of a merge sequence -/

/- "substituted at any position of a merge sequence it produces the same merged config" — the whole
   `Builder.flatten`: for stage lists `xs ++ [d] ++ ys` and `xs ++ [d'] ++ ys` with `docR d d'`, both
   builds raise the same error or both succeed with `accR`-related merged trees.  `xs` (the stages
   before the position) are arbitrary flag-consistent trees, pre-merge operators included; `d` and
   the stages after it contain no pre-merge operator (`noPM`: no `!prev`, `!clear`, `!append`,
   `!extend`, nested stream) — see `C18_substitution_prev_counterexample` for why. -/
theorem C18_substitution_any_position (xs ys : List Node) (d d' : Node) (hd : docR d d') (hpd : noPM d = true)
    (hxs : xs.all FlagsConsistent = true) (hys : ys.all (fun y => FlagsConsistent y && noPM y) = true) :
    (∃ e, flatten (xs ++ [d] ++ ys) = .error e ∧ flatten (xs ++ [d'] ++ ys) = .error e) ∨
    (∃ r r', flatten (xs ++ [d] ++ ys) = .ok r ∧ flatten (xs ++ [d'] ++ ys) = .ok r' ∧ accR r r') := by
  obtain ⟨hd1, hd2, hd3, hd4⟩ := hd
  have hxs' : ∀ x, x ∈ xs → FlagsConsistent x = true := fun x hx => List.all_eq_true.1 hxs x hx
  have hys' : ∀ y, y ∈ ys → FlagsConsistent y = true ∧ noPM y = true := fun y hy => by
    have := List.all_eq_true.1 hys y hy
    simpa using this
  have h := flatten_subst xs ys d d' hd1 hd2 hd3 hd4 hpd hxs' hys'
  have e1 : xs ++ [d] ++ ys = xs ++ d :: ys := by simp
  have e2 : xs ++ [d'] ++ ys = xs ++ d' :: ys := by simp
  rw [e1, e2]
  have hall : ∀ v, FlagsConsistent v = true → ∀ s, s ∈ xs ++ v :: ys → FlagsConsistent s = true := by
    intro v hv s hs
    rcases List.mem_append.1 hs with h1 | h1
    · exact hxs' s h1
    · rcases List.mem_cons.1 h1 with rfl | h1
      · exact hv
      · exact (hys' s h1).1
  cases f1 : flatten (xs ++ d :: ys) <;> cases f2 : flatten (xs ++ d' :: ys) <;> simp only [f1, f2, exRel] at h
  · rename_i x y
    exact .inl ⟨x, rfl, by rw [h]⟩
  · rename_i r r'
    exact .inr ⟨r, r', rfl, rfl, h, flatten_cons _ r (hall d hd3) f1, flatten_cons _ r' (hall d' hd4) f2⟩

-- in the middle, first and last position of a three-stage sequence
example := C18_substitution_any_position [c18cB] [c18cL] c18cD c18cD' (docR_of_bool (by decide +kernel))
  (by decide +kernel) (by decide +kernel) (by decide +kernel)
example := C18_substitution_any_position [] [c18cL] c18cD c18cD' (docR_of_bool (by decide +kernel))
  (by decide +kernel) (by decide +kernel) (by decide +kernel)
example := C18_substitution_any_position [c18cB, c18cL] [] c18cD c18cD' (docR_of_bool (by decide +kernel))
  (by decide +kernel) (by decide +kernel) (by decide +kernel)
-- both outcomes occur: in the middle the builds succeed, as the FIRST stage the document's `!notnew`
-- makes both fail with the same error naming the same path
example : bothOk (flatten [c18cB, c18cD, c18cL]) (flatten [c18cB, c18cD', c18cL]) (fun r r' => congN true r r') = true ∧
    errIs (flatten [c18cD, c18cL]) (.notnew [.str "c", .str "z"]) = true ∧
    errIs (flatten [c18cD', c18cL]) (.notnew [.str "c", .str "z"]) = true := by decide +kernel

/-! ### what the relation says about the merged trees -/

/- "it produces the same merged config, it evaluates to the same value, and it carries the same user
   metadata" — what `accR` gives for two merged trees: the same native data; and, when no stream node
   is nested in the tree (`Builder.flatten` dissolves streams), the same effective `safe` at every node
   (the evaluator reads kinds, content, `safe` and the source file of a node, all related by `congN`). -/
theorem C18_R_same_data_and_safety (r r' : Node) (h : accR r r') :
    native r = native r' ∧ (noStream r = true → sameSafe r r' = true) :=
  ⟨native_cong r r' h.1, fun hn => sameSafe_of_cong true r r' h.1 h.2.1 h.2.2 hn (fun e => by cases e)⟩

example := C18_R_same_data_and_safety c18cD c18cD' (accR_of_bool (by decide +kernel))
-- on the merged trees of the two builds: no stream, equally safe everywhere, and not `simN`-related
example : bothOk (flatten [c18cB, c18cD, c18cL]) (flatten [c18cB, c18cD', c18cL])
    (fun r r' => noStream r && sameSafe r r' && !simN r r') = true := by decide +kernel

/- What `congN true` says at a node: equal kind and scalar content, keys in the same order, equal user
   metadata, source flag and file, effective priority, explicit `delete = True`, explicit and inherited
   `safe = False`, hence effective `safe`; the children are related again (without the safe flags below
   a node that states `safe = False`). -/
theorem C18_R_node (n n' : Node) (h : congN true n n' = true) :
    n.isComp = n'.isComp ∧ ePrio n.flags = ePrio n'.flags ∧ n.flags.md = n'.flags.md ∧
    n.flags.dSafe = n'.flags.dSafe ∧ n.flags.src = n'.flags.src ∧
    ((n.flags.del == some true) = (n'.flags.del == some true)) ∧
    uI n.flags = uI n'.flags ∧ uS n.flags = uS n'.flags ∧ eSafe n.flags = eSafe n'.flags ∧
    n.truthy = n'.truthy ∧ native n = native n' ∧
    (∀ f k, n = .leaf f k → ∃ f', n' = .leaf f' k) ∧
    (∀ f k cs, n = .comp f k cs → ∃ f' cs', n' = .comp f' k cs' ∧ congL (!uS f) cs cs' = true) := by
  have hf := congN_flags h
  obtain ⟨h1, h2, h3, h4, h5, _⟩ := (congF_iff true _ _).1 hf
  refine ⟨congN_isComp h, h1, h2, h3, h4, h5, congF_uI hf, congF_uS hf, congF_eSafe hf, congN_truthy h,
    native_cong n n' h, ?_, ?_⟩
  · intro f k e; subst e
    obtain ⟨f', e', _⟩ := congN_leaf_inv h
    exact ⟨f', e'⟩
  · intro f k cs e; subst e
    obtain ⟨f', cs', e', _, h3⟩ := congN_comp_inv h
    exact ⟨f', cs', e', by simpa using h3⟩

example := C18_R_node c18cD c18cD' (by decide +kernel)

/-! ### the clause of the property -/

/- "Writing any parsed document with the library's dump and parsing the text back yields a document
   that is interchangeable with the original: substituted at any position of a merge sequence it
   produces the same merged config, it evaluates to the same value, and it carries the same user
   metadata." — for every merge-control document `raw`, parsed to `n`: its dump re-parses to some
   `n'`, and for all stage lists `xs`, `ys` (as in `C18_substitution_any_position`) building with `n`
   and building with `n'` at position `xs.length` raise the same error, or yield merged trees with the
   same kinds / keys / content / metadata / priorities (`accR`), the same native data, and the same
   effective `safe` at every node. -/
theorem C18_substitution_roundtrip (env : Env) (raw : Raw) (n : Node) (hv : rawMC raw = true)
    (hc : construct env raw = .ok n) (xs ys : List Node) (hxs : xs.all FlagsConsistent = true)
    (hys : ys.all (fun y => FlagsConsistent y && noPM y) = true) :
    ∃ n', construct env (represent n) = .ok n' ∧
      ((∃ e, flatten (xs ++ [n] ++ ys) = .error e ∧ flatten (xs ++ [n'] ++ ys) = .error e) ∨
       (∃ r r', flatten (xs ++ [n] ++ ys) = .ok r ∧ flatten (xs ++ [n'] ++ ys) = .ok r' ∧ accR r r' ∧
          native r = native r' ∧ (noStream r = true → sameSafe r r' = true))) := by
  obtain ⟨n', h1, h2, h3, _⟩ := C18_roundtrip_R env raw n hv hc
  refine ⟨n', h1, ?_⟩
  rcases C18_substitution_any_position xs ys n n' h2 h3 hxs hys with h | ⟨r, r', e1, e2, hr⟩
  · exact .inl h
  · exact .inr ⟨r, r', e1, e2, hr, (C18_R_same_data_and_safety r r' hr).1, (C18_R_same_data_and_safety r r' hr).2⟩

example := C18_substitution_roundtrip {} c18cDoc c18cD (by decide +kernel) rfl [c18cB] [c18cL] (by decide +kernel)
  (by decide +kernel)

/-! ### the two boundary facts -/

/-- `a: !force !del {}` -/
def c18cE0 : Raw := .map .none {} [(.str "a", .map .plain { prio := some 1, del := some true } [])]
/-- `a: {b: 5}` -/
def c18cE1 : Raw := .map .none {} [(.str "a", .map .none {} [(.str "b", .scalar .none {} (.lit (.int 5)))])]
/-- `a: !merge {b: !merge {x: 1}}` — `b`'s `!merge` repeats `a`'s and is not written -/
def c18cE2 : Raw :=
  .map .none {} [(.str "a", .map .plain { del := some false } [
    (.str "b", .map .plain { del := some false } [(.str "x", .scalar .none {} (.lit (.int 1)))])])]

/- `simN` / `effEq` (AY/Props/C18_Effective.lean) are NOT preserved by a merge: merging the document
   `a: !merge {b: !merge {x: 1}}` and its dump-and-reparse (`simN`- and `effEq`-related) into the same
   accumulated tree (`a` forced and deleting, `a.b` a scalar) gives results that are not `effEq`-related:
   `a.b` is re-parented below the deleting `a`; with the original it keeps its explicit `delete = False`,
   with the re-parsed document it inherits `True`.  Nothing reads the `delete` of an accumulated node:
   the results ARE `congN true`-related. -/
theorem C18_effEq_not_merge_congruence :
    ∃ a b b', simN b b' = true ∧ effEq b b' = true ∧ FlagsConsistent a = true ∧
      bothOk (merge a b) (merge a b') (fun r r' =>
        !effEq r r' && (getNode r [.str "a", .str "b"]).map eDel == some false &&
        (getNode r' [.str "a", .str "b"]).map eDel == some true && congN true r r') = true :=
  ⟨okOr (flatten [okOr (construct {} c18cE0), okOr (construct {} c18cE1)]), okOr (construct {} c18cE2),
    reparsed c18cE2, by decide +kernel, by decide +kernel, by decide +kernel, by decide +kernel⟩

/-- `c: {y: {z: 1}}` -/
def c18cP0 : Raw :=
  .map .none {} [(.str "c", .map .none {} [(.str "y", .map .none {} [(.str "z", .scalar .none {} (.lit (.int 1)))])])]
/-- `c: !notnew {y: !metadata{{allow_new: False, delete: True}} {z: 2}}` — `y`'s `allow_new` repeats `c`'s -/
def c18cP1 : Raw :=
  .map .none {} [(.str "c", .map .plain { new := some false } [
    (.str "y", .map .plain { new := some false, del := some true } [(.str "z", .scalar .none {} (.lit (.int 2)))])])]
/-- `k: !prev c.y` — moves the accumulated node `c.y` into the newer stage -/
def c18cP2 : Raw := .map .none {} [(.str "k", .scalar .prev {} (.text "c.y"))]

/- The restriction on the stages AFTER the position is necessary: a later stage with `!prev` moves an
   accumulated node into the newer stage, where its `allow_new` IS read.  With the document
   `c: !notnew {y: !notnew !del {z: 2}}` after `c: {y: {z: 1}}` and before `k: !prev c.y`, the build
   fails (`k.z` must not be new: `y` carries its own explicit `allow_new = False` wherever it goes);
   with the dump-and-reparse of the document (`y`'s flag is implied by `c` and not written) it
   succeeds.  Replays on the implementation (MergeError vs. `{c: {}, k: {z: 2}}`): a finding about the
   property, outside the domain of `C18_substitution_any_position`. -/
theorem C18_substitution_prev_counterexample :
    rawMC c18cP1 = true ∧ docR (okOr (construct {} c18cP1)) (reparsed c18cP1) ∧
    errIs (flatten [okOr (construct {} c18cP0), okOr (construct {} c18cP1), okOr (construct {} c18cP2)])
      (.notnew [.str "k", .str "z"]) = true ∧
    (flatten [okOr (construct {} c18cP0), reparsed c18cP1, okOr (construct {} c18cP2)]).toOption.isSome = true ∧
    noPM (okOr (construct {} c18cP2)) = false :=
  ⟨by decide +kernel, docR_of_bool (by decide +kernel), by decide +kernel, by decide +kernel, by decide +kernel⟩

/-
  Open: (1) "it evaluates to the same value" is stated as equal native data + equal effective `safe` at
  every node + related kinds/content/source file — the inputs of the evaluator; a theorem that
  `config w r` and `config w r'` agree for `accR r r'` (an induction through `evalNodeF`) is not proved.
  (2) `C18_roundtrip_R` covers the domain of `C18_roundtrip_effective` (mappings, lists, scalars with
  merge-control tags); for function nodes and the other node kinds as the SUBSTITUTED document the round
  trip itself is proved on concrete documents only (the congruence theorems cover all kinds).
  (3) Stages after the position with pre-merge operators: false in general (`!prev`, above).  Whether it
  holds for `!append` / `!extend` / `!clear` alone (they do not carry an accumulated node's own
  `delete` / `allow_new` to a place where it is read) is not proved either way; the model fuzzer found no
  difference in 59 949 substitutions with such stages on both sides of the position.
-/

end AY
