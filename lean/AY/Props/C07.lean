/-
  AY.Props.C07 — unsafe content never reaches executed code, whatever is merged around it.

  Property text: "No function is called, module imported or code evaluated on behalf of a !call,
  !bind, !eval, f-string or !import node that is unsafe - marked !unsafe, below an !unsafe node,
  read from a source added with safe=False, or included by such content - and no value originating
  from unsafe content is ever passed to a call or resolved as a name by evaluated code; the build
  fails with UnsafeError instead. Merging can only spread unsafety, never remove it: no ordering or
  shape of safe stages before or after makes an unsafe dynamic node run."

  The statements are about the executable definitions of AY.Model.Flags (`eSafe`), AY.Model.Merge
  (`mergeSafe`, `replaceSelfFlags`, `replaceOtherFlags`, `leafRule`, `finishMerge`) and
  AY.Model.Eval (`evalImpl`, `evalNodeF`, `evalItems`, `ecfgLookup`, `evaluate`). The only
  observable trace of an execution in the model is `EvSt.log`: one entry per function called,
  module imported, code evaluated. Only property theorems live here; lemmas are in
  AY.Lemmas.EvalLemmas (`Placed`, `Calls`, `DynSafe`, `WF`, `Ext`, `evalImpl_lift`),
  AY.Lemmas.OnceLemmas (`Cov`, `evaluate_dyn_logged`) and AY.Lemmas.SafeFlagLemmas.

  Reading of the execution theorems. `Except` drops the state of a failing run, so the log can
  only be observed for successful runs; for failing runs the guard theorem `C07_exec_guarded`
  (stated for an *arbitrary* recursive evaluator `rec`) says that the four executing node kinds
  return `UnsafeError` before doing anything when the node is unsafe, and `C07_log_monotone` says
  that these four places are the only ones where `evalImpl` extends the log.

  History: an earlier version of the library (and of the model) laundered taint — a value computed
  from an !unsafe node reached a call through two references (`q: !unsafe 7, p: {x: !xref q},
  c: !call f {a: !xref p}`), because reading a tainted memo entry in non-strict mode did not count
  as having seen unsafe content. The library was repaired (reading a tainted entry now bumps the
  counter `unsafeSeen`), the model follows, and the section "No laundering" proves the closure that
  was missing: `C07_no_laundering`, `C07_untainted_closed`, `C07_untainted_subtree`.
-/
import AY.Lemmas.OnceLemmas
import AY.Lemmas.TaintLemmas
import AY.Lemmas.SafeFlagLemmas
import AY.Model.Construct
namespace AY

/-! ### Merging: the flag algebra -/

/- "Merging can only spread unsafety, never remove it" — `mergeSafe w l` is the safety part of
   `_replace_self` / `_replace_other` (w: the node that stays, l: the node merged into it).
   The result is safe exactly when the staying node was safe, the other node carries no explicit
   `safe=False` and the other node's source was safe. The *inherited* flag `iSafe` of the other
   node plays no role at this level (see `C07_merge_iSafe_role`). -/
theorem C07_merge_conj (w l : Flags) :
    eSafe (mergeSafe w l) = (eSafe w && (l.safe != some false) && l.dSafe) := by
  obtain ⟨_, _, _, ws, _, _, wi, wd, _, _⟩ := w
  obtain ⟨_, _, _, ls, _, _, li, ld, _, _⟩ := l
  simp only [eSafe, mergeSafe]
  cases ls with
  | none => cases ws.getD true <;> cases wi.getD true <;> cases wd <;> cases ld <;> rfl
  | some b =>
    cases b <;> cases ws.getD true <;> cases wi.getD true <;> cases wd <;> cases ld <;> rfl

example :
    eSafe (mergeSafe { safe := none, iSafe := some true } { safe := some true }) = true ∧
    eSafe (mergeSafe { safe := some true } { safe := some false }) = false ∧
    eSafe (mergeSafe { safe := some true } { dSafe := false }) = false ∧
    eSafe (mergeSafe { iSafe := some false } { safe := some true }) = false := by decide

/- the same as an implication: "the merged node is safe only if both inputs were safe w.r.t.
   explicit and source-level flags" -/
theorem C07_merge_safe_only_if (w l : Flags) (h : eSafe (mergeSafe w l) = true) :
    eSafe w = true ∧ l.safe ≠ some false ∧ l.dSafe = true := by
  rw [C07_merge_conj] at h
  simp only [Bool.and_eq_true, bne_iff_ne, ne_eq] at h
  exact ⟨h.1.1, h.1.2, h.2⟩

example : eSafe (mergeSafe { safe := some true, iSafe := some true } { safe := some true }) = true := by decide

/- "never remove it": whatever is merged onto an unsafe node, and whatever an unsafe (explicitly
   or by source) node is merged onto, the result is unsafe -/
theorem C07_merge_never_heals (w l : Flags)
    (h : eSafe w = false ∨ l.safe = some false ∨ l.dSafe = false) : eSafe (mergeSafe w l) = false := by
  rw [C07_merge_conj]
  rcases h with h | h | h <;> simp [h]

example : eSafe (mergeSafe { safe := some false } { safe := some true, prio := some 1 }) = false := by decide

/- the role of `iSafe`: the staying node keeps its own inherited flag, the inherited flag of the
   other node is not looked at. (Unsafety inherited by the *other* node comes from an ancestor whose
   explicit flag is merged into the corresponding ancestor of the staying node and pushed down again
   by `propagate`/`adopt`, where an inherited `False` is sticky: `updFlags`.) -/
theorem C07_merge_iSafe_role (w l : Flags) (x : Option Bool) :
    (mergeSafe w l).iSafe = w.iSafe ∧ mergeSafe w { l with iSafe := x } = mergeSafe w l :=
  ⟨rfl, rfl⟩

example : eSafe { iSafe := some false } = false ∧
    eSafe (mergeSafe {} { iSafe := some false }) = true := by decide

/- lifted to `_replace_other` (self wins) and `_replace_self` (other wins): they change priority,
   delete flag and metadata besides, none of which `eSafe` reads -/
theorem C07_replaceOther_conj (w l : Flags) :
    eSafe (replaceOtherFlags w l) = (eSafe w && (l.safe != some false) && l.dSafe) :=
  C07_merge_conj w l

theorem C07_replaceSelf_conj (s o : Flags) :
    eSafe (replaceSelfFlags s o) = (eSafe s && (o.safe != some false) && o.dSafe) :=
  C07_merge_conj s o

example : eSafe (replaceSelfFlags { safe := some false } { prio := some 1, safe := some true }) = false ∧
    eSafe (replaceOtherFlags { prio := some 1 } { safe := some false }) = false := by decide

/- lifted to `ConfigNode.on_merge_impl` (`leafRule`): whichever node wins, the result is safe iff
   the winner was safe (explicit, inherited, source) and the loser had no explicit `safe=False`
   and a safe source -/
theorem C07_leafRule_conj (s o : Node) :
    eSafe (leafRule s o).1.flags =
      if hasPrio s.flags o.flags false then eSafe s.flags && (o.flags.safe != some false) && o.flags.dSafe
      else eSafe o.flags && (s.flags.safe != some false) && s.flags.dSafe := by
  unfold leafRule
  split <;> simp only [propagate_flags, setFlags_flags, C07_replaceOther_conj]

theorem C07_leafRule_safe_only_if (s o : Node) (h : eSafe (leafRule s o).1.flags = true) :
    s.flags.safe ≠ some false ∧ o.flags.safe ≠ some false ∧ s.flags.dSafe = true ∧ o.flags.dSafe = true ∧
    (eSafe s.flags = true ∨ eSafe o.flags = true) := by
  have hsafe : ∀ f : Flags, eSafe f = true → f.safe ≠ some false ∧ f.dSafe = true := by
    intro f hf
    simp only [eSafe, Bool.and_eq_true] at hf
    refine ⟨?_, hf.2⟩
    intro e; rw [e] at hf; simp at hf
  rw [C07_leafRule_conj] at h
  split at h <;>
    simp only [Bool.and_eq_true, bne_iff_ne, ne_eq] at h
  · exact ⟨(hsafe _ h.1.1).1, h.1.2, (hsafe _ h.1.1).2, h.2, .inl h.1.1⟩
  · exact ⟨h.1.2, (hsafe _ h.1.1).1, h.2, (hsafe _ h.1.1).2, .inr h.1.1⟩

/-- an unsafe `!import` leaf and a safe scalar that overrides it with higher priority -/
def c07ExUnsafeLeaf : Node := .leaf { safe := some false } (.imp "os")
def c07ExOverride : Node := .leaf { prio := some 1, safe := some true } (.scalar (.int 1))

example : eSafe (leafRule c07ExUnsafeLeaf c07ExOverride).1.flags = false ∧
    eSafe (leafRule c07ExOverride c07ExUnsafeLeaf).1.flags = false := by decide
example : eSafe (leafRule (.leaf {} (.imp "os")) c07ExOverride).1.flags = true := by decide

/- lifted to the tail of `ComposedNode.on_merge_impl` (`finishMerge`, with promotions): the flags of
   the resulting container; when `other` is promoted (`b = false`: it is returned in place of `self`, with
   `self.__dict__`) it must have been safe itself — by whatever cause, also an inherited one — for the result to be
   safe (repair "a promoted node lost its own unsafety") -/
theorem C07_finishMerge_conj {sf : Flags} {sk : CompKind} {scs : List (Key × Node)} {o r : Node} {b : Bool}
    (h : finishMerge sf sk scs o = .ok (r, b)) :
    eSafe r.flags = (eSafe sf && (o.flags.safe != some false) && o.flags.dSafe && (b || eSafe o.flags)) := by
  unfold finishMerge at h
  split at h
  · split at h
    · cases h
    · rename_i r' same hp
      cases h
      rw [propagate_flags, maybePromote_flags hp]
      cases b
      · simp [eSafe_promotedFlags, C07_replaceSelf_conj]
      · simp [C07_replaceSelf_conj]
  · split at h
    · cases h
    · rename_i r' same hp
      cases h
      rw [propagate_flags, maybePromote_flags hp]
      cases b
      · simp [eSafe_promotedFlags, C07_replaceOther_conj]
      · simp [C07_replaceOther_conj]

example : ∃ r b, finishMerge { safe := some false } (.call "f") [] (.comp { prio := some 1 } .dict []) = .ok (r, b) ∧
    eSafe r.flags = false := ⟨_, _, rfl, by decide⟩

/-! ### Merging: an unsafe mark merged into the surviving node reaches its children -/

/- "Merging can only spread unsafety, never remove it … below an !unsafe node": `_replace_self` and
   (since the repair "flags merged into the surviving node were not handed down to its children")
   `_replace_other` end with `_propagate_implicit_values` on the surviving node. If what that node
   hands down (`_get_child_kwargs`: an inherited `False` wins, else `notnone_or(_safe, _implicit_safe)`) is `False`,
   then after the propagation EVERY direct child carries `_implicit_safe = False` and is therefore
   unsafe — whatever the child's flags were before, whether or not anything else changed. -/
theorem C07_merge_unsafe_reaches_children (f : Flags) (k : CompKind) (cs : List (Key × Node)) (kw : ChildKw)
    (hk : childKw f k = some kw) (hs : kw.iSafe = some false) :
    ∀ key c, (key, c) ∈ (propagate (.comp f k cs)).children →
      c.flags.iSafe = some false ∧ eSafe c.flags = false := by
  intro key c hm
  have := propagate_children_unsafe_kw f k cs kw hk hs key c hm
  exact ⟨this, eSafe_of_iSafe_false this⟩

example : childKw { safe := some false } .dict = some { iDel := none, iNew := none, iSafe := some false } ∧
    (propagate (.comp { safe := some false } .dict [(.str "x", .leaf {} (.scalar (.int 1)))])).children
      = [(.str "x", .leaf { iSafe := some false } (.scalar (.int 1)))] := ⟨rfl, rfl⟩

/- "below an !unsafe node": a node that is unsafe by inheritance hands `False` down even when it carries an
   explicit `safe=True` itself (repair "an explicit safe=True below an unsafe node made its children safe
   again"; before it `_get_child_kwargs` took the explicit flag first and handed down `True`) -/
theorem C07_below_unsafe_stays_unsafe (f : Flags) (k : CompKind) (kw : ChildKw)
    (hk : childKw f k = some kw) (h : f.iSafe = some false ∨ f.safe = some false) : kw.iSafe = some false := by
  rw [childKw_iSafe_eq hk]
  rcases h with h | h
  · simp [h]
  · split
    · rfl
    · simp [h, Option.or]

example : eSafe ({ safe := some true, iSafe := some false } : Flags) = false ∧
    (childKw { safe := some true, iSafe := some false } .dict).map (·.iSafe) = some (some false) := by decide

/- the explicit mark of either node survives in the winner: `_safe = notnone_or(_safe, True) and other._safe` -/
theorem C07_merge_explicit_unsafe_kept (w l : Flags) (h : w.safe = some false ∨ l.safe = some false) :
    (mergeSafe w l).safe = some false ∧ (replaceOtherFlags w l).safe = some false ∧
    (replaceSelfFlags w l).safe = some false :=
  ⟨mergeSafe_safe_false h, mergeSafe_safe_false h, mergeSafe_safe_false h⟩

example : (replaceOtherFlags { prio := some 1 } { safe := some false }).safe = some false := by decide

/- lifted to `ConfigNode.on_merge_impl` (`leafRule`): if either node is explicitly `!unsafe`, every
   child of the surviving node is unsafe (a stream hands nothing down) -/
theorem C07_leafRule_unsafe_reaches_children (s o : Node)
    (hu : s.flags.safe = some false ∨ o.flags.safe = some false) (hst : (leafRule s o).1.isStream = false) :
    ∀ key c, (key, c) ∈ (leafRule s o).1.children → eSafe c.flags = false := by
  intro key c hm
  by_cases hp : hasPrio s.flags o.flags false = true
  · have e : leafRule s o = (propagate (s.setFlags (replaceOtherFlags s.flags o.flags)), true) := by
      simp [leafRule, hp]
    rw [e] at hst hm
    simp only [propagate_isStream] at hst
    exact eSafe_of_iSafe_false (propagate_children_unsafe _ hst
      (by rw [setFlags_flags, (C07_merge_explicit_unsafe_kept _ _ hu).2.1]; rfl) key c hm)
  · have e : leafRule s o = (propagate (o.setFlags (replaceOtherFlags o.flags s.flags)), false) := by
      simp [leafRule, hp]
    rw [e] at hst hm
    simp only [propagate_isStream] at hst
    exact eSafe_of_iSafe_false (propagate_children_unsafe _ hst
      (by rw [setFlags_flags, (C07_merge_explicit_unsafe_kept _ _ hu.symm).2.1]; rfl) key c hm)

example : (leafRule (.comp { prio := some 1 } .dict [(.str "x", .leaf {} (.imp "os"))])
    (.leaf { safe := some false } (.scalar (.int 1)))).1
    = .comp { prio := some 1, safe := some false } .dict [(.str "x", .leaf { iSafe := some false } (.imp "os"))] := rfl

/- lifted to the tail of `ComposedNode.on_merge_impl` (`finishMerge`, both branches, with promotions) -/
theorem C07_finishMerge_unsafe_reaches_children {sf : Flags} {sk : CompKind} {scs : List (Key × Node)}
    {o r : Node} {b : Bool} (h : finishMerge sf sk scs o = .ok (r, b))
    (hu : sf.safe = some false ∨ o.flags.safe = some false) (hst : r.isStream = false) :
    ∀ key c, (key, c) ∈ r.children → eSafe c.flags = false := by
  intro key c hm
  unfold finishMerge at h
  split at h
  · split at h
    · cases h
    · rename_i r' same hp
      cases h
      rw [propagate_isStream] at hst
      exact eSafe_of_iSafe_false (propagate_children_unsafe _ hst
        (by rw [maybePromote_safe_false hp (C07_merge_explicit_unsafe_kept _ _ hu).2.2]; rfl) key c hm)
  · split at h
    · cases h
    · rename_i r' same hp
      cases h
      rw [propagate_isStream] at hst
      exact eSafe_of_iSafe_false (propagate_children_unsafe _ hst
        (by rw [maybePromote_safe_false hp (C07_merge_explicit_unsafe_kept _ _ hu).2.1]; rfl) key c hm)

example : finishMerge { prio := some 1 } .dict [(.str "x", .leaf {} (.imp "os"))] (.comp { safe := some false } .dict [])
    = .ok (.comp { prio := some 1, safe := some false } .dict [(.str "x", .leaf { iSafe := some false } (.imp "os"))], true) := rfl

/- … and to the whole of `ComposedNode.on_merge_impl` (`compMerge`, for ANY recursive merge `rec`):
   the three ways it returns — the leaf rule, the early exit "everything below self was deleted"
   (`other._replace_other(self)`) and the tail — all end with the propagation -/
theorem C07_compMerge_unsafe_reaches_children (rec : Node → Node → Except Err (Node × Bool))
    {sf : Flags} {sk : CompKind} {scs : List (Key × Node)} {o r : Node} {b : Bool}
    (h : compMerge rec sf sk scs o = .ok (r, b))
    (hu : sf.safe = some false ∨ o.flags.safe = some false) (hst : r.isStream = false) :
    ∀ key c, (key, c) ∈ r.children → eSafe c.flags = false := by
  cases o with
  | leaf of lk =>
    simp only [compMerge, Except.ok.injEq] at h
    have e1 : r = (leafRule (.comp sf sk scs) (.leaf of lk)).1 := by rw [h]
    subst e1
    exact C07_leafRule_unsafe_reaches_children _ _ hu hst
  | comp of ok ocs =>
    simp only [compMerge] at h
    split at h
    · split at h
      · split at h
        · cases h
        · split at h
          · cases h
          · rename_i res sameAsOther hp
            cases h
            intro key c hm
            rw [propagate_isStream] at hst
            exact eSafe_of_iSafe_false (propagate_children_unsafe _ hst
              (by rw [maybePromote_safe_false hp (C07_merge_explicit_unsafe_kept of sf hu.symm).2.1]; rfl) key c hm)
      · split at h
        · cases h
        · exact C07_finishMerge_unsafe_reaches_children h hu hst
    · split at h
      · cases h
      · exact C07_finishMerge_unsafe_reaches_children h hu hst

/-- the documents of the defect: `a: !force {x: 1}` and `a: !unsafe {}` -/
def c07ExOlderDoc : Raw :=
  .map .none {} [(.str "a", .map .plain { prio := some 1 } [(.str "x", .scalar .none {} (.lit (.int 1)))])]
def c07ExNewerDoc : Raw :=
  .map .none {} [(.str "a", .map .plain { safe := some false } [])]
/-- `Builder.flatten` of the two documents -/
def c07ExFlattened : Except Err Node :=
  match construct {} c07ExOlderDoc, construct {} c07ExNewerDoc with
  | .ok a, .ok b => flatten [a, b]
  | _, _ => .error .value

/- the older `a` outranks the newer one and survives (`_replace_other`); it takes over the mark and
   — since the repair — `a.x` is unsafe in the merged tree itself, not only in copies of it -/
example : c07ExFlattened = .ok (.comp {} .dict [
    (.str "a", .comp { prio := some 1, safe := some false } .dict [
      (.str "x", .leaf { prio := some 1, iSafe := some false } (.scalar (.int 1)))])]) := by rfl
example : ∃ m, c07ExFlattened = .ok m ∧
    (getNode m [.str "a", .str "x"]).map (fun n => eSafe n.flags) = some false := ⟨_, rfl, by decide⟩

/-! ### Execution is guarded -/

/- "No function is called, module imported or code evaluated on behalf of a !call, !bind, !eval
   … or !import node that is unsafe …; the build fails with UnsafeError instead": for every
   recursive evaluator, every state and both modes, `on_evaluate_impl` of an unsafe executing node
   is `UnsafeError`; nothing is evaluated (not even the arguments) and no state is produced.
   (`dynWhat n = some what` says that `n` is a `!call`, `!bind`, `!eval` or `!import` node; f-strings
   are outside the modelled domain: `evalImpl` returns `unsupported` for them.) -/
theorem C07_exec_guarded (rec : Rec) (root : Node) (w : World) (rs : Bool) (n : Node) (path : Path)
    (st : EvSt) (what : String) (hd : dynWhat n = some what) (hs : eSafe n.flags = false) :
    evalImpl rec root w rs n path st = .error .unsafeE := by
  cases n with
  | leaf f lk =>
    cases lk <;> simp [dynWhat] at hd <;> simp_all [evalImpl, Node.flags]
  | comp f k cs =>
    cases k <;> simp [dynWhat] at hd <;> simp_all [evalImpl, Node.flags]

/-- `c: !unsafe !call f {a: 1}` inside a mapping -/
def c07ExUnsafeCall : Node := .comp { safe := some false } (.call "f") [(.str "a", .leaf {} (.scalar (.int 1)))]
def c07ExWorld : World :=
  { sigs := [("f", [{ name := "a", kind := .posOrKw }])], modules := ["os"], syms := ["T"] }

example : dynWhat c07ExUnsafeCall = some "call:f" ∧ eSafe c07ExUnsafeCall.flags = false := by decide
example : evaluate c07ExWorld (.comp {} .dict [(.str "c", c07ExUnsafeCall)]) = .error .unsafeE := rfl

/- the log is only extended by `on_evaluate_impl` of a *safe* executing node: if every recursive
   call keeps an invariant `I` and a preorder `R` on states, then `evalImpl` keeps them up to at
   most one new log entry, which is written for the node itself and only if it is a safe
   `!call` / `!bind` / `!eval` / `!import` node (`DynSafe n what`). (Besides the recursive calls the
   only other state change inside `evalImpl` is `seeTaint`, the counter bump of a non-strict
   reference that reads a tainted memo entry: `I` and `R` must be compatible with it, hypothesis `hsee`.) -/
theorem C07_log_monotone {I : EvSt → Prop} {R : EvSt → EvSt → Prop}
    (hrefl : ∀ s, R s s) (htrans : ∀ a b c, R a b → R b c → R a c)
    {rec : Rec} {root : Node} {w : World} {rs : Bool} {n : Node} {path : Path} {st st' : EvSt} {v : Val}
    (hsee : rs = false → ∀ s, I s → I (seeTaint s) ∧ R s (seeTaint s))
    (hrec : ∀ rs' m p s v s', Calls root rs n path rs' m p → I s → rec rs' m p s = .ok (v, s') → I s' ∧ R s s')
    (hI : I st) (h : evalImpl rec root w rs n path st = .ok (v, st')) :
    ∃ st1, I st1 ∧ R st st1 ∧
      (st' = st1 ∨ ∃ what, DynSafe n what ∧
        st' = { st1 with log := st1.log ++ [{ path := path, what := what }] }) :=
  evalImpl_lift hrefl htrans hsee hrec hI h

example : ∃ v st', evalImpl (evalNodeF (.leaf {} (.imp "os")) { modules := ["os"] } 3) (.leaf {} (.imp "os"))
    { modules := ["os"] } false (.leaf {} (.imp "os")) [] {} = .ok (v, st') ∧
    st'.log = [⟨[], "import:os"⟩] ∧ DynSafe (.leaf {} (.imp "os")) "import:os" := by
  refine ⟨_, _, rfl, ?_, ?_, ?_⟩ <;> rfl

/-- a tree with a safe call consuming a safe import through a reference, and a safe bind consuming
    the call (`!eval` code is left out of the concrete examples: `parseNames` works on string
    slices, which the kernel does not reduce) -/
def c07ExSafeTree : Node :=
  .comp {} .dict [
    (.str "m", .leaf {} (.imp "os")),
    (.str "c", .comp {} (.call "f") [(.str "a", .leaf {} (.xref "m"))]),
    (.str "b", .comp {} (.bind "f") [(.str "a", .leaf {} (.xref "c"))])]

/- "No function is called …" for a whole successful evaluation: every entry the evaluation of a
   node of the tree adds to the log was written for a node `m` of the tree (`Placed root m e.path`)
   that is safe (`eSafe m.flags`) and is a `!call`/`!bind`/`!eval`/`!import` node whose label is the
   logged one. This covers nodes reached through cross-references and through names in `!eval`
   code (they are looked up in `root` by `getNode`). -/
theorem C07_exec_only_safe (root : Node) (w : World) (fuel : Nat) (rs : Bool) (n : Node) (path : Path)
    (st st' : EvSt) (v : Val) (hp : Placed root n path)
    (h : evalNodeF root w fuel rs n path st = .ok (v, st')) :
    ∃ new, st'.log = st.log ++ new ∧
      ∀ e, e ∈ new → ∃ m, Placed root m e.path ∧ eSafe m.flags = true ∧ dynWhat m = some e.what := by
  obtain ⟨new, h1, h2⟩ := evalNodeF_logExt root w fuel rs n path st v st' hp h
  refine ⟨new, h1, fun e he => ?_⟩
  obtain ⟨m, hm, hs, hd⟩ := h2 e he
  exact ⟨m, hm, hs, hd⟩

theorem C07_evaluate_only_safe (w : World) (root : Node) (v : Val) (st : EvSt)
    (h : evaluate w root = .ok (v, st)) :
    ∀ e, e ∈ st.log → ∃ m, Placed root m e.path ∧ eSafe m.flags = true ∧ dynWhat m = some e.what := by
  obtain ⟨new, h1, h2⟩ := C07_exec_only_safe root w _ false root [] {} st v Placed.root h
  intro e he
  rw [h1] at he
  exact h2 e (by simpa using he)

/- for trees whose containers have pairwise distinct keys (every tree the library builds) the node
   is the one `get_node` returns for the logged path -/
theorem C07_evaluate_only_safe_getNode (w : World) (root : Node) (v : Val) (st : EvSt)
    (huk : uniqueKeys root = true) (h : evaluate w root = .ok (v, st)) :
    ∀ e, e ∈ st.log → ∃ m, getNode root e.path = some m ∧ eSafe m.flags = true ∧ dynWhat m = some e.what := by
  intro e he
  obtain ⟨m, hm, hs, hd⟩ := C07_evaluate_only_safe w root v st h e he
  exact ⟨m, (placed_iff_getNode huk m _).1 hm, hs, hd⟩

example : ∃ v st, evaluate c07ExWorld c07ExSafeTree = .ok (v, st) ∧ uniqueKeys c07ExSafeTree = true ∧
    st.log.map (·.what) = ["import:os", "call:f", "bind:f"] := by
  refine ⟨_, _, rfl, ?_, ?_⟩ <;> rfl

/- "… the build fails with UnsafeError instead": (i) `evaluate_node` on an unsafe executing node
   that is not memoised fails with UnsafeError in both modes, and errors of children are passed up
   unchanged by `evalItems` / `evalImpl`; (ii) for a whole build of a tree with pairwise distinct keys:
   if the tree contains an unsafe `!call` / `!bind` / `!eval` / `!import` node *anywhere*, the build
   does not succeed (every dynamic node of the tree runs in a successful build —
   `evaluate_dyn_logged` — and only safe ones run). The error class of the failing build need not be
   UnsafeError when another error comes first. -/
theorem C07_unsafe_dynamic_node_fails (root : Node) (w : World) (fuel : Nat) (rs : Bool) (n : Node)
    (path : Path) (st : EvSt) (what : String) (hd : dynWhat n = some what) (hs : eSafe n.flags = false)
    (hc : plookup path st.cache = none) (hp : path ∉ st.inProgress) :
    evalNodeF root w (fuel + 1) rs n path st = .error .unsafeE := by
  rw [evalNodeF_succ]
  cases rs with
  | true => simp [hs]
  | false =>
    simp [hc, hp, C07_exec_guarded _ root w false n path _ what hd hs]

theorem C07_unsafe_dynamic_node_never_builds (w : World) (root : Node) (huk : uniqueKeys root = true)
    (p : Path) (m : Node) (what : String) (hm : getNode root p = some m) (hd : dynWhat m = some what)
    (hs : eSafe m.flags = false) : ∀ v st, evaluate w root ≠ .ok (v, st) := by
  intro v st h
  have hlog := (evaluate_dyn_logged huk h hm hd).1
  obtain ⟨m', hm', hs', _⟩ := C07_evaluate_only_safe_getNode w root v st huk h _ hlog
  simp only at hm'
  rw [hm] at hm'; cases hm'
  rw [hs] at hs'; cases hs'

example : uniqueKeys (.comp {} .dict [(.str "d", .comp {} .list [(.int 0, c07ExUnsafeCall)])]) = true ∧
    getNode (.comp {} .dict [(.str "d", .comp {} .list [(.int 0, c07ExUnsafeCall)])]) [.str "d", .int 0]
      = some c07ExUnsafeCall := ⟨rfl, rfl⟩
example : evalNodeF c07ExSafeTree c07ExWorld 3 false c07ExUnsafeCall [.str "c"] {} = .error .unsafeE := rfl

/-! ### Arguments and names are evaluated under `require_all_safe` -/

/- "no value originating from unsafe content is ever passed to a call or resolved as a name": the
   arguments of a call/bind are evaluated by `evalItems rec true`, names of `!eval` code by
   `ecfgLookup` (always strict); under `require_all_safe` (i) an unsafe node is refused, (ii) a
   memoised value that is tainted is refused -/
theorem C07_args_only_safe (root : Node) (w : World) (fuel : Nat) (n : Node) (path : Path) (st : EvSt) :
    (eSafe n.flags = false → evalNodeF root w (fuel + 1) true n path st = .error .unsafeE) ∧
    (∀ v, eSafe n.flags = true → plookup path st.cache = some v → path ∈ st.tainted →
      evalNodeF root w (fuel + 1) true n path st = .error .unsafeE) := by
  refine ⟨?_, ?_⟩
  · intro hs
    rw [evalNodeF_succ]; simp [hs]
  · intro v hs hc ht
    rw [evalNodeF_succ]; simp [hs, bump_safe hs, hc, ht]

example : evalNodeF c07ExSafeTree c07ExWorld 5 true c07ExUnsafeCall [.str "x"] {} = .error .unsafeE ∧
    evalNodeF c07ExSafeTree c07ExWorld 5 true (.leaf {} (.scalar .null)) [.str "x"]
      { cache := [([.str "x"], .scalar .null)], tainted := [[.str "x"]] } = .error .unsafeE := ⟨rfl, rfl⟩

/- (iii) the same for references followed in strict mode and for names: `ctx.get_node` /
   `ecfg[name]` refuse a tainted memoised value -/
theorem C07_lookup_refuses_tainted (rec : Rec) (root : Node) (p : Path) (nm : String) (st : EvSt) (v : Val) :
    (plookup p st.cache = some v → p ∈ st.tainted → ctxGetNode root true p st = .error .unsafeE) ∧
    (plookup [Key.str nm] st.cache = some v → [Key.str nm] ∈ st.tainted →
      ecfgLookup rec root nm st = .error .unsafeE) := by
  refine ⟨?_, ?_⟩
  · intro hc ht; simp [ctxGetNode, hc, ht]
  · intro hc ht; simp [ecfgLookup, hc, ht]

example : ctxGetNode c07ExSafeTree true [.str "m"]
    { cache := [([.str "m"], .sym "os")], tainted := [[.str "m"]] } = .error .unsafeE := rfl

/- a successful strict evaluation (what arguments and names go through) visits no unsafe node at
   all — the counter of visited unsafe nodes does not move —, the evaluated node is safe and the
   value is memoised under an untainted path. `WF` is the state invariant of the evaluator; it holds
   initially (`WF.init`) and is preserved (`C07_state_invariant`). -/
theorem C07_strict_eval_clean (root : Node) (w : World) (fuel : Nat) (n : Node) (path : Path)
    (st st' : EvSt) (v : Val) (hwf : WF st)
    (h : evalNodeF root w fuel true n path st = .ok (v, st')) :
    eSafe n.flags = true ∧ st'.unsafeSeen = st.unsafeSeen ∧
    plookup path st'.cache = some v ∧ path ∉ st'.tainted :=
  ⟨(evalNodeF_rs_untainted hwf h).1, evalNodeF_rs_seen root w fuel n path st v st' h,
   evalNodeF_cached h, (evalNodeF_rs_untainted hwf h).2⟩

theorem C07_state_invariant (root : Node) (w : World) (fuel : Nat) (rs : Bool) (n : Node) (path : Path)
    (st st' : EvSt) (v : Val) (hwf : WF st)
    (h : evalNodeF root w fuel rs n path st = .ok (v, st')) : WF st' ∧ Ext st st' :=
  evalNodeF_wf root w fuel rs n path st v st' hwf h

example : ∃ v st', evalNodeF c07ExSafeTree c07ExWorld 9 true c07ExSafeTree [] {} = .ok (v, st') ∧
    st'.tainted = [] := by
  refine ⟨_, _, rfl, ?_⟩; rfl

/- a function node (`!call` / `!bind`) that evaluates successfully is safe, all its argument nodes
   are safe, no unsafe node was visited while the arguments were evaluated, and every argument
   value is the memoised value of an untainted path -/
theorem C07_call_args_untainted (root : Node) (w : World) (fuel : Nat) (rs : Bool) (f : Flags)
    (k : CompKind) (cs : List (Key × Node)) (path : Path) (st st' : EvSt) (v : Val)
    (hk : k.isFunc = true) (hwf : WF st)
    (h : evalImpl (evalNodeF root w fuel) root w rs (.comp f k cs) path st = .ok (v, st')) :
    eSafe f = true ∧ (∀ key c, (key, c) ∈ cs → eSafe c.flags = true) ∧
    st'.unsafeSeen = st.unsafeSeen ∧
    ∃ items : List (Key × Val), items.map (·.1) = cs.map (·.1) ∧
      ∀ key a, (key, a) ∈ items → plookup (path ++ [key]) st'.cache = some a ∧ path ++ [key] ∉ st'.tainted := by
  have fin : ∀ (items : List (Key × Val)) (st1 : EvSt),
      evalItems (evalNodeF root w fuel) true path cs st = .ok (items, st1) →
      st'.cache = st1.cache → st'.tainted = st1.tainted → st'.unsafeSeen = st1.unsafeSeen →
      (!eSafe f) ≠ true →
      eSafe f = true ∧ (∀ key c, (key, c) ∈ cs → eSafe c.flags = true) ∧
      st'.unsafeSeen = st.unsafeSeen ∧
      ∃ items : List (Key × Val), items.map (·.1) = cs.map (·.1) ∧
        ∀ key a, (key, a) ∈ items → plookup (path ++ [key]) st'.cache = some a ∧ path ++ [key] ∉ st'.tainted := by
    intro items st1 he h1 h2 h3 hs
    have ⟨_, hR, hkeys, hsafe, hvals⟩ := evalItems_rs cs st items st1 hwf he
    refine ⟨by simpa using hs, hsafe, by rw [h3, hR.2], items, hkeys, ?_⟩
    intro key a hm
    rw [h1, h2]
    exact hvals key a hm
  cases k with
  | call fn =>
    simp only [evalImpl] at h
    split at h
    · cases h
    · rename_i hs
      split at h
      · split at h
        · split at h <;> cases h
        · cases h
      · split at h
        · cases h
        · rename_i items st1 he
          split at h
          · cases h
          · split at h
            · cases h
            · cases h; exact fin items st1 he rfl rfl rfl hs
  | bind fn =>
    simp only [evalImpl] at h
    split at h
    · cases h
    · rename_i hs
      split at h
      · split at h
        · split at h <;> cases h
        · cases h
      · split at h
        · cases h
        · rename_i items st1 he
          split at h
          · cases h
          · split at h
            · cases h
            · cases h; exact fin items st1 he rfl rfl rfl hs
  | _ => simp [CompKind.isFunc] at hk

example : ∃ v st', evalImpl (evalNodeF c07ExSafeTree c07ExWorld 9) c07ExSafeTree c07ExWorld false
    (.comp {} (.call "f") [(.str "a", .leaf {} (.xref "m"))]) [.str "c"] {} = .ok (v, st') ∧
    st'.log.map (·.what) = ["import:os", "call:f"] := by
  refine ⟨_, _, rfl, ?_⟩; rfl

/- the same for a name resolved by `!eval` code through the config (`ecfg[name]`) -/
theorem C07_eval_names_untainted (root : Node) (w : World) (fuel : Nat) (nm : String)
    (st st' : EvSt) (v : Val) (hwf : WF st)
    (h : ecfgLookup (evalNodeF root w fuel) root nm st = .ok (v, st')) :
    st'.unsafeSeen = st.unsafeSeen ∧ plookup [Key.str nm] st'.cache = some v ∧
    [Key.str nm] ∉ st'.tainted := by
  unfold ecfgLookup at h
  simp only at h
  split at h
  · rename_i v0 hv0
    split at h
    · cases h
    · rename_i ht
      cases h
      exact ⟨rfl, hv0, by simpa using ht⟩
  · split at h
    · cases h
    · split at h
      · cases h
      · rename_i n hn
        have := C07_strict_eval_clean root w fuel n _ st st' v hwf h
        exact ⟨this.2.1, this.2.2.1, this.2.2.2⟩

example : ∃ v st', ecfgLookup (evalNodeF c07ExSafeTree c07ExWorld 9) c07ExSafeTree "c" {} = .ok (v, st') ∧
    st'.tainted = [] := by
  refine ⟨_, _, rfl, ?_⟩; rfl

/- the taint invariant: an evaluation during which unsafe content was seen — the node itself is not
   safe, or the counter moved: an unsafe node was visited or a tainted memo entry was read on the
   way — has its result memoised as tainted. It holds for a fresh evaluation and (since the repair)
   for a memo hit on a tainted path, where the counter moves and the path stays tainted. -/
theorem C07_taint_sound (root : Node) (w : World) (fuel : Nat) (rs : Bool) (n : Node) (path : Path)
    (st st' : EvSt) (v : Val) (hfresh : plookup path st.cache = none ∨ path ∈ st.tainted)
    (h : evalNodeF root w fuel rs n path st = .ok (v, st'))
    (hu : st'.unsafeSeen ≠ st.unsafeSeen ∨ eSafe n.flags = false) : path ∈ st'.tainted := by
  cases fuel with
  | zero => simp [evalNodeF] at h
  | succ fuel =>
    obtain ⟨_, hcase⟩ := evalNodeF_ok_inv h
    rcases hcase with ⟨hv, _, rfl⟩ | ⟨_, _, st2, _, rfl⟩
    · rcases hfresh with hf | hf
      · rw [hf] at hv; cases hv
      · simpa using hf
    · rw [finish_tainted]
      simp only [finish_unsafeSeen] at hu
      cases hs : eSafe n.flags with
      | false => simp
      | true =>
        have hb : bump n st = st := bump_safe hs st
        rw [hb]
        rcases hu with hu | hu
        · simp [hu]
        · rw [hs] at hu; cases hu

/- (a) reading a tainted memo entry in non-strict mode strictly increases the counter — through a
   reference (`ctx.get_node`) and through `evaluate_node` —, in strict mode it is refused
   (`C07_lookup_refuses_tainted`, `C07_args_only_safe`) -/
theorem C07_tainted_read_counts (root : Node) (w : World) (fuel : Nat) (n : Node) (p : Path)
    (st st' : EvSt) (a v : Val) (hc : plookup p st.cache = some a) (ht : p ∈ st.tainted) :
    ctxGetNode root false p st = .ok (.value a, seeTaint st) ∧
    (seeTaint st).unsafeSeen = st.unsafeSeen + 1 ∧
    (evalNodeF root w fuel false n p st = .ok (v, st') → st.unsafeSeen < st'.unsafeSeen ∧ p ∈ st'.tainted) := by
  refine ⟨by simp [ctxGetNode, hc, ht, seeTaint], rfl, ?_⟩
  intro h
  cases fuel with
  | zero => simp [evalNodeF] at h
  | succ fuel =>
    obtain ⟨_, hcase⟩ := evalNodeF_ok_inv h
    rcases hcase with ⟨_, _, rfl⟩ | ⟨hnone, _⟩
    · have := le_bump_unsafeSeen n st
      rw [hit_unsafeSeen, if_pos ht]
      exact ⟨by omega, by simpa using ht⟩
    · rw [hc] at hnone; cases hnone

example : ∃ st', evalNodeF c07ExSafeTree c07ExWorld 1 false (.leaf {} (.scalar .null)) [.str "x"]
    { cache := [([.str "x"], .scalar .null)], tainted := [[.str "x"]] } = .ok (.scalar .null, st') ∧
    st'.unsafeSeen = 1 := by
  refine ⟨_, rfl, ?_⟩; rfl

/- for a memo hit on an *untainted* path the statement is false in an arbitrary state: in non-strict
   mode a memo hit on an `!unsafe` node bumps the counter and taints nothing … -/
example : ∃ st', evalNodeF c07ExSafeTree c07ExWorld 1 false (.leaf { safe := some false } (.scalar .null)) [.str "x"]
    { cache := [([.str "x"], .scalar .null)] } = .ok (.scalar .null, st') ∧
    st'.unsafeSeen = 1 ∧ st'.tainted = [] := by
  refine ⟨_, rfl, ?_, ?_⟩ <;> rfl

/- … but such a state never arises: in the states of a build of a tree with pairwise distinct keys
   (`Cov root st`: holds initially — `Cov.init` — and is preserved — `evalNodeF_cov`) the memoised
   value of an unsafe node is tainted, so the taint invariant holds for memo hits too -/
theorem C07_taint_sound_reachable (root : Node) (w : World) (huk : uniqueKeys root = true) (fuel : Nat)
    (rs : Bool) (n : Node) (path : Path) (st st' : EvSt) (v : Val) (hp : Placed root n path)
    (hcov : Cov root st) (h : evalNodeF root w fuel rs n path st = .ok (v, st'))
    (hu : st'.unsafeSeen ≠ st.unsafeSeen ∨ eSafe n.flags = false) :
    Cov root st' ∧ path ∈ st'.tainted := by
  have hcov' := evalNodeF_cov root w huk fuel rs n path st v st' hp hcov h
  refine ⟨hcov', ?_⟩
  cases hc : plookup path st.cache with
  | none => exact C07_taint_sound root w fuel rs n path st st' v (.inl hc) h hu
  | some a =>
    by_cases ht : path ∈ st.tainted
    · exact C07_taint_sound root w fuel rs n path st st' v (.inr ht) h hu
    · have hs : eSafe n.flags = false := by
        rcases hu with hu | hu
        · cases fuel with
          | zero => simp [evalNodeF] at h
          | succ fuel =>
            obtain ⟨_, hcase⟩ := evalNodeF_ok_inv h
            rcases hcase with ⟨_, _, rfl⟩ | ⟨hnone, _⟩
            · cases hs : eSafe n.flags with
              | false => rfl
              | true => rw [hit_untainted ht, bump_safe hs] at hu; exact absurd rfl hu
            · rw [hc] at hnone; cases hnone
        · exact hu
      have hc' : plookup path st'.cache ≠ none := by rw [evalNodeF_cached h]; simp
      exact hcov'.utaint path n hc' (hp.getNode_uniq huk).1 hs

/-- `{u: !unsafe 7, d: {x: !xref u}}` -/
def c07ExTaintTree : Node :=
  .comp {} .dict [
    (.str "u", .leaf { safe := some false } (.scalar (.int 7))),
    (.str "d", .comp {} .dict [(.str "x", .leaf {} (.xref "u"))])]

example : uniqueKeys c07ExTaintTree = true ∧ Placed c07ExTaintTree c07ExTaintTree [] ∧
    Cov c07ExTaintTree {} := ⟨rfl, Placed.root, Cov.init _⟩

example : ∃ v st', evalNodeF c07ExTaintTree {} 9 false c07ExTaintTree [] {} = .ok (v, st') ∧
    st'.unsafeSeen ≠ ({} : EvSt).unsafeSeen ∧
    st'.tainted = [[], [.str "d"], [.str "d", .str "x"], [.str "u"]] := by
  refine ⟨_, _, rfl, ?_, ?_⟩
  · decide
  · rfl

/- taint is persistent: later successful evaluations never change a memoised value, never untaint
   a path and never taint a path that was already memoised -/
theorem C07_taint_persistent (root : Node) (w : World) (fuel : Nat) (rs : Bool) (n : Node) (path : Path)
    (st st' : EvSt) (v : Val) (hwf : WF st)
    (h : evalNodeF root w fuel rs n path st = .ok (v, st')) :
    (∀ p a, plookup p st.cache = some a → plookup p st'.cache = some a) ∧
    (∀ p, p ∈ st.tainted → p ∈ st'.tainted) ∧
    (∀ p a, plookup p st.cache = some a → p ∉ st.tainted → p ∉ st'.tainted) := by
  have hext := (evalNodeF_wf root w fuel rs n path st v st' hwf h).2
  refine ⟨hext.cache, hext.taint, ?_⟩
  intro p a hc hnt ht
  rcases hext.taintNew p ht with h1 | h1
  · exact hnt h1
  · rw [hc] at h1; cases h1

example : WF ({} : EvSt) ∧ ∃ v st', evalNodeF c07ExTaintTree {} 9 false c07ExTaintTree [] {} = .ok (v, st') :=
  ⟨WF.init, _, _, rfl⟩

/-! ### No laundering

  The counter `unsafeSeen` moves exactly when unsafe content is consumed: an unsafe node is visited
  (`bump`) or a tainted memo entry is read (`C07_tainted_read_counts`). It never decreases
  (`C07_counter_monotone`). The central fact is `C07_clean_is_strict`: a successful evaluation, in
  any mode, across which the counter did not move *is* the evaluation under `require_all_safe` — the
  strict run from the same state returns the same value and the same state. Strict mode refuses
  every unsafe node and every tainted memo entry (`C07_args_only_safe`,
  `C07_lookup_refuses_tainted`), so such an evaluation visited none and read none. -/

theorem C07_counter_monotone (root : Node) (w : World) (fuel : Nat) (rs : Bool) (n : Node) (path : Path)
    (st st' : EvSt) (v : Val) (h : evalNodeF root w fuel rs n path st = .ok (v, st')) :
    st.unsafeSeen ≤ st'.unsafeSeen :=
  evalNodeF_seen_mono root w fuel rs n path st v st' h

theorem C07_clean_is_strict (root : Node) (w : World) (fuel : Nat) (rs : Bool) (n : Node) (path : Path)
    (st st' : EvSt) (v : Val) (h : evalNodeF root w fuel rs n path st = .ok (v, st'))
    (hs : st'.unsafeSeen = st.unsafeSeen) : evalNodeF root w fuel true n path st = .ok (v, st') :=
  evalNodeF_clean_strict root w fuel rs n path st v st' h hs

example : ∃ v st', evalNodeF c07ExSafeTree c07ExWorld 9 false c07ExSafeTree [] {} = .ok (v, st') ∧
    st'.unsafeSeen = ({} : EvSt).unsafeSeen ∧
    evalNodeF c07ExSafeTree c07ExWorld 9 true c07ExSafeTree [] {} = .ok (v, st') := by
  refine ⟨_, _, rfl, ?_, ?_⟩ <;> rfl

/- a freshly memoised value is untainted exactly when its node is safe and the counter did not move
   while it was computed -/
theorem C07_untainted_iff_clean (root : Node) (w : World) (fuel : Nat) (rs : Bool) (n : Node) (path : Path)
    (st st' : EvSt) (v : Val) (hwf : WF st) (hfresh : plookup path st.cache = none)
    (h : evalNodeF root w fuel rs n path st = .ok (v, st')) :
    path ∉ st'.tainted ↔ (st'.unsafeSeen = st.unsafeSeen ∧ eSafe n.flags = true) := by
  constructor
  · intro hnt
    refine ⟨?_, ?_⟩
    · cases hd : decide (st'.unsafeSeen = st.unsafeSeen) with
      | true => exact of_decide_eq_true hd
      | false =>
        exact absurd (C07_taint_sound root w fuel rs n path st st' v (.inl hfresh) h
          (.inl (of_decide_eq_false hd))) hnt
    · cases hs : eSafe n.flags with
      | true => rfl
      | false => exact absurd (C07_taint_sound root w fuel rs n path st st' v (.inl hfresh) h (.inr hs)) hnt
  · intro ⟨hs, _⟩
    exact (evalNodeF_clean_untainted hwf h hs).2

/- "no value originating from unsafe content is ever passed to a call or resolved as a name": every
   memo entry is created by a fresh successful `evalNodeF`; if the entry is left untainted, that
   evaluation — in whatever mode it ran — was the strict evaluation: it visited no unsafe node and
   read no tainted memo entry, and so (inductively, by the same theorem) did the evaluations that
   created the entries it read. Arguments and names only ever receive untainted entries
   (`C07_call_args_untainted`, `C07_eval_names_untainted`, `C07_strict_eval_clean`). -/
theorem C07_no_laundering (root : Node) (w : World) (fuel : Nat) (rs : Bool) (n : Node) (path : Path)
    (st st' : EvSt) (v : Val) (hwf : WF st) (hfresh : plookup path st.cache = none)
    (h : evalNodeF root w fuel rs n path st = .ok (v, st')) (hnt : path ∉ st'.tainted) :
    eSafe n.flags = true ∧ st'.unsafeSeen = st.unsafeSeen ∧
    evalNodeF root w fuel true n path st = .ok (v, st') := by
  have hc := (C07_untainted_iff_clean root w fuel rs n path st st' v hwf hfresh h).1 hnt
  exact ⟨hc.2, hc.1, C07_clean_is_strict root w fuel rs n path st st' v h hc.1⟩

/-- the former counterexample and its safe variant -/
def c07ExLaundering (q : Flags) : Node :=
  .comp {} .dict [
    (.str "q", .leaf q (.scalar (.int 7))),
    (.str "p", .comp {} .dict [(.str "x", .leaf {} (.xref "q"))]),
    (.str "c", .comp {} (.call "f") [(.str "a", .leaf {} (.xref "p"))])]

/- (c) the former counterexample is refused now; the direct reference was always refused; with a safe
   `q` the same tree builds and the call runs -/
example : evaluate c07ExWorld (c07ExLaundering { safe := some false }) = .error .unsafeE := rfl
example : evaluate c07ExWorld (.comp {} .dict [
    (.str "q", .leaf { safe := some false } (.scalar (.int 7))),
    (.str "c", .comp {} (.call "f") [(.str "a", .leaf {} (.xref "q"))])]) = .error .unsafeE := rfl
example : ∃ v st, evaluate c07ExWorld (c07ExLaundering {}) = .ok (v, st) ∧
    st.log.map (·.what) = ["call:f"] ∧ st.tainted = [] ∧
    plookup [.str "c"] st.cache =
      some (.app [.str "c"] "f" [("a", .dict [.str "p"] [(.str "x", .scalar (.int 7))])] [] []) := by
  refine ⟨_, _, rfl, ?_, ?_, ?_⟩ <;> rfl
/- without the call the unsafe tree builds, and everything computed from `q` is tainted -/
example : ∃ v st, evaluate c07ExWorld (.comp {} .dict [
    (.str "q", .leaf { safe := some false } (.scalar (.int 7))),
    (.str "p", .comp {} .dict [(.str "x", .leaf {} (.xref "q"))])]) = .ok (v, st) ∧
    st.tainted = [[], [.str "p"], [.str "p", .str "x"], [.str "q"]] := by
  refine ⟨_, _, rfl, ?_⟩; rfl

/- (d) "tainted is closed", for a whole build of a tree with pairwise distinct keys: if the value
   memoised for a node `m` of the tree (at any path `p`) is untainted in the final state, then `m` is
   safe, the values of all its children are untainted, and if `m` is a reference the node its chain
   ends in is untainted (and holds the same value). (`Cov.closed`, `Cov.alias`, `Cov.utaint` of
   AY.Lemmas.OnceLemmas are the state invariants behind it; names of `!eval` code are always
   resolved strictly, `C07_eval_names_untainted`.) -/
theorem C07_untainted_closed (w : World) (root : Node) (v : Val) (st : EvSt)
    (huk : uniqueKeys root = true) (h : evaluate w root = .ok (v, st))
    (p : Path) (m : Node) (hm : getNode root p = some m) (hnt : p ∉ st.tainted) :
    eSafe m.flags = true ∧
    (∀ key c, (key, c) ∈ m.children → p ++ [key] ∉ st.tainted) ∧
    (∀ f t, m = .leaf f (.xref t) → ∃ a fuel tp, xrefResolve root fuel t = some tp ∧
      plookup p st.cache = some a ∧ plookup tp st.cache = some a ∧ tp ∉ st.tainted) :=
  evaluate_untainted_closed huk h hm hnt

/- hence an untainted value has no unsafe node and no tainted value anywhere below it -/
theorem C07_untainted_subtree (w : World) (root : Node) (v : Val) (st : EvSt)
    (huk : uniqueKeys root = true) (h : evaluate w root = .ok (v, st)) :
    ∀ (q p : Path) (m m' : Node), getNode root p = some m → p ∉ st.tainted → getNode m q = some m' →
      p ++ q ∉ st.tainted ∧ eSafe m'.flags = true
  | [], p, m, m', hm, hnt, hq => by
    simp only [getNode, Option.some.injEq] at hq; subst hq
    exact ⟨by simpa using hnt, (C07_untainted_closed w root v st huk h p m hm hnt).1⟩
  | key :: q', p, m, m', hm, hnt, hq => by
    cases m with
    | leaf f lk => simp [getNode] at hq
    | comp f k cs =>
      unfold getNode at hq
      split at hq
      · cases hq
      · rename_i c hc
        have hch := (C07_untainted_closed w root v st huk h p _ hm hnt).2.1 key c
          (by simpa [Node.children] using alookup_mem hc)
        have hgc : getNode root (p ++ [key]) = some c := by
          rw [getNode_append, hm]; simp [getNode, hc]
        have := C07_untainted_subtree w root v st huk h q' (p ++ [key]) c m' hgc hch hq
        simpa using this

example : uniqueKeys (c07ExLaundering {}) = true ∧
    getNode (c07ExLaundering {}) [.str "c"] = some (.comp {} (.call "f") [(.str "a", .leaf {} (.xref "p"))]) :=
  ⟨rfl, rfl⟩

end AY
