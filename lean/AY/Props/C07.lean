import AY.Spec.Plain
namespace AY
theorem C07_placeholder : foldUpd [] = .error .value := rfl
end AY
