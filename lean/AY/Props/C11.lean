/-
  AY.Props.C11 — evaluation yields plain Python data and leaves the source tree reusable.

  Property text: "The object returned by a build contains no awesomeyaml node anywhere: mappings
  become attribute-accessible dicts (cfg.a is cfg['a']), lists become lists, scalars their exact
  Python type, and the structure mirrors the merged tree. Evaluating does not modify the merged
  source tree that the config keeps: evaluating that source again gives an equal result, and
  mutating the evaluated config never changes the source."

  The statements are about `evalNodeF` / `evaluate` / `config` of AY.Model.Eval, `Val` of
  AY.Model.Func and the specification-side `native` of AY.Spec.Plain. Only property theorems live
  here; lemmas are in AY.Lemmas.PlainEvalLemmas (`Val.toPlain?`, `plainTree`, `uniqueKeys`,
  `FreshAt`, `Frame`, `plain_evalNodeF`).

  What is a theorem and what is true by construction:
  * "contains no awesomeyaml node anywhere" holds by the *type* of the model: no constructor of
    `Val` carries a `Node` (`Val` is defined in AY.Model.Func, which does not even import the node
    type's operations), so there is nothing to prove in Lean; the tie to the library is the
    correspondence check, which walks evaluated configs for node instances.
  * "Evaluating does not modify the source" likewise: `evaluate` is a pure function of `root`; the
    tree is not part of `EvSt`. `C11_source_reusable` records the consequence that is observable.
  * "the structure mirrors the merged tree, scalars keep their exact value" is the theorem
    `C11_plain_eval_is_native`.
-/
import AY.Lemmas.PlainEvalLemmas
namespace AY

/-- `{a: 1, b: [x, {c: null, d: 2.5}], e: {}}` with an `!unsafe` marker and a `!append` list in it
    (flags play no role for the data) -/
def c11ExTree : Node :=
  .comp {} .dict [
    (.str "a", .leaf {} (.scalar (.int 1))),
    (.str "b", .comp { safe := some false } .append [
      (.int 0, .leaf {} (.scalar (.str "x"))),
      (.int 1, .comp {} .dict [(.str "c", .leaf {} (.scalar .null)), (.str "d", .leaf { prio := some 1 } (.scalar (.float "2.5")))])]),
    (.str "e", .comp {} .dict [])]

/-! ### Structure mirrors the tree -/

/- "lists become lists, scalars their exact Python type, and the structure mirrors the merged
   tree": for a node whose subtree consists of plain containers (dict, list, !append, !extend,
   stream) and scalar leaves (`plainTree`), with pairwise distinct keys in every container
   (`uniqueKeys`; always true for library-built trees), evaluated with enough fuel in any state in
   which nothing at or below its path is memoised or under evaluation (`FreshAt`), `evalNodeF`
   *succeeds*, the result read back as plain data is exactly `native n`, and only memo entries at or
   below the path were added (`Frame`) -/
theorem C11_plain_evalNodeF_is_native (root : Node) (w : World) (fuel : Nat) (n : Node) (path : Path)
    (st : EvSt) (hfuel : n.size ≤ fuel) (hpl : plainTree n = true) (huk : uniqueKeys n = true)
    (hfresh : FreshAt path st) :
    ∃ v st', evalNodeF root w fuel false n path st = .ok (v, st') ∧
      v.toPlain? = some (native n) ∧ Frame path st st' :=
  plain_evalNodeF root w fuel n path st hfuel hpl huk hfresh

example : c11ExTree.size ≤ 9 ∧ plainTree c11ExTree = true ∧ uniqueKeys c11ExTree = true ∧
    FreshAt [.str "x"] { cache := [([.str "y"], .sym "s")], inProgress := [[]] } := by
  refine ⟨by decide, by decide, by decide, ?_⟩
  intro q hq
  obtain ⟨t, rfl⟩ := hq
  simp [plookup]

/- for a whole build: a plain tree evaluates successfully, to its native data -/
theorem C11_plain_eval_is_native (w : World) (root : Node) (hpl : plainTree root = true)
    (huk : uniqueKeys root = true) :
    ∃ v st, evaluate w root = .ok (v, st) ∧ v.toPlain? = some (native root) := by
  obtain ⟨v, st, h, hv, _⟩ := plain_evalNodeF root w (2 * root.size + 10) root [] {}
    (by omega) hpl huk (by intro q _; exact ⟨rfl, by simp⟩)
  exact ⟨v, st, h, hv⟩

/- `Config(root)` for a mapping root (what `Config` is given): `check_missing` finds nothing in a
   plain tree, an empty mapping is `{}` directly. (Model remark: `config` short-cuts every root
   with an empty children list to `{}`, also an empty *list* root, for which `native` is `[]`; the
   library never builds a `Config` from a list root, so the statement is for mapping roots.) -/
theorem C11_plain_config_is_native (w : World) (f : Flags) (cs : List (Key × Node))
    (hpl : plainTree (.comp f .dict cs) = true) (huk : uniqueKeys (.comp f .dict cs) = true) :
    ∃ v st, config w (.comp f .dict cs) = .ok (v, st) ∧ v.toPlain? = some (native (.comp f .dict cs)) := by
  obtain ⟨v, st, h, hv⟩ := C11_plain_eval_is_native w _ hpl huk
  cases cs with
  | nil => exact ⟨_, _, rfl, rfl⟩
  | cons kc rest =>
    refine ⟨v, st, ?_, hv⟩
    simp only [config, requiredPaths_plain _ [] hpl]
    exact h

example : ∃ v st, config {} c11ExTree = .ok (v, st) ∧ v.toPlain? = some (native c11ExTree) :=
  C11_plain_config_is_native {} _ _ (by decide) (by decide)

example : ∃ v st, evaluate {} c11ExTree = .ok (v, st) ∧ v.toPlain? = some (native c11ExTree) :=
  C11_plain_eval_is_native {} c11ExTree (by decide) (by decide)

example : native c11ExTree = .dict [
    (.str "a", .scalar (.int 1)),
    (.str "b", .list [.scalar (.str "x"), .dict [(.str "c", .scalar .null), (.str "d", .scalar (.float "2.5"))]]),
    (.str "e", .dict [])] := rfl

/- the hypothesis on keys is necessary in the model: a children list with a repeated key (which a
   Python dict cannot hold) is not mirrored — the second entry hits the memo of the first -/
example : ∃ st, evaluate {} (.comp {} .dict [(.str "a", .leaf {} (.scalar (.int 1))), (.str "a", .leaf {} (.scalar (.int 2)))])
    = .ok (.dict [] [(.str "a", .scalar (.int 1)), (.str "a", .scalar (.int 1))], st) := ⟨_, rfl⟩

/- "mappings become … dicts, lists become lists … and the structure mirrors the merged tree" for
   *every* tree (also with dynamic nodes inside): a mapping node that evaluates gives a dict with
   exactly the keys of its children, in order, carrying the node's path as identity; a list-family
   node gives a list of the same length -/
theorem C11_container_mirrors (rec : Rec) (root : Node) (w : World) (rs : Bool) (f : Flags) (k : CompKind)
    (cs : List (Key × Node)) (path : Path) (st st' : EvSt) (v : Val)
    (h : evalImpl rec root w rs (.comp f k cs) path st = .ok (v, st')) :
    (k = .dict → ∃ items, v = .dict path items ∧ items.map (·.1) = cs.map (·.1)) ∧
    (k = .list ∨ k = .append ∨ k = .extend ∨ k = .stream →
      ∃ items, v = .list path items ∧ items.length = cs.length) := by
  refine ⟨?_, ?_⟩
  · rintro rfl
    simp only [evalImpl] at h
    split at h
    · cases h
    · rename_i items st1 he
      cases h
      exact ⟨items, rfl, evalItems_keys cs st items _ he⟩
  · intro hk
    have hl : ∃ items st1, evalItems rec rs path cs st = .ok (items, st1) ∧ v = .list path (items.map (·.2)) := by
      rcases hk with rfl | rfl | rfl | rfl <;>
      · simp only [evalImpl] at h
        split at h
        · cases h
        · rename_i items st1 he
          cases h
          exact ⟨items, _, he, rfl⟩
    obtain ⟨items, st1, he, rfl⟩ := hl
    refine ⟨_, rfl, ?_⟩
    have := congrArg List.length (evalItems_keys cs st items st1 he)
    simpa using this

example : ∃ v st', evalImpl (evalNodeF c11ExTree {} 9) c11ExTree {} false c11ExTree [] {} = .ok (v, st') :=
  ⟨_, _, rfl⟩

/-! ### No node in the result -/

/- "The object returned by a build contains no awesomeyaml node anywhere": by the type of `Val`
   (see the header). What can be stated is the stronger fact for plain trees that the result
   consists of scalars, dicts and lists only — `toPlain?` is defined exactly on such values -/
theorem C11_no_node_in_result (w : World) (root : Node) (hpl : plainTree root = true)
    (huk : uniqueKeys root = true) :
    ∃ v st, evaluate w root = .ok (v, st) ∧ (v.toPlain?).isSome = true := by
  obtain ⟨v, st, h, hv⟩ := C11_plain_eval_is_native w root hpl huk
  exact ⟨v, st, h, by simp [hv]⟩

example : (Val.app [] "f" [] [] []).toPlain? = none ∧ (Val.dict [] [(.str "a", .sym "s")]).toPlain? = none ∧
    (Val.list [] [.scalar .null]).toPlain? = some (.list [.scalar .null]) := ⟨rfl, rfl, rfl⟩

/-! ### The source is reusable -/

/- "Evaluating does not modify the merged source tree …: evaluating that source again gives an equal
   result": `evaluate` is a function of the tree alone and starts from the empty state, so a second
   evaluation of the same source — after any number of other evaluations — is the same computation.
   Trivial in the model (purity); the substance is that the model needs no "source after
   evaluation" component to match the library. -/
theorem C11_source_reusable (w : World) (root other : Node) :
    (evaluate w other, evaluate w root).2 = evaluate w root ∧
    (config w root, config w root).1 = (config w root, config w root).2 := ⟨rfl, rfl⟩

example : evaluate {} c11ExTree = evaluate {} c11ExTree := rfl

end AY
