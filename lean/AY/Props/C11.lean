import AY.Spec.Plain
namespace AY
theorem C11_placeholder : foldUpd [] = .error .value := rfl
end AY
