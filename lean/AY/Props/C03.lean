/-
  C03 — "Priorities: the highest-priority writer wins, the latest among equals".

  Statement (properties.jsonl): For every leaf path, the merged value is the one written by the
  stage whose value there has the highest priority (!force > untagged > !weak), and among equal
  priorities the latest stage; a priority tag on a container applies to everything below it. This
  holds for any number of stages and any order in which differently-prioritised writers appear, and
  user metadata attached to the competing values is combined under the same rule without losing
  keys.

  Model side: `leafRule`, `mergeF`, `flatten`, `construct` (AY/Model).  Auxiliary definitions and
  proofs: AY/Lemmas/C03Leaf.lean (metadata dictionaries `mlookup/mkeys/mNodup`, the leaf rule),
  AY/Lemmas/C03Dict.lean (`dictShaped`, `flagsDS`, `leafAt`, `shapeAt`, `compatP`, `pick`, main
  induction), AY/Lemmas/C03Fold.lean (`pairwiseCompat`, `argmaxLeaf`, `vp`, the fold; Boolean
  test `compatB`), AY/Lemmas/C03Tag.lean (`allPrio`, priority tags on containers).
  PARTIAL (suffix `_partial`): the fold theorem is stated for documents given as dict-shaped node
  trees (mappings of mappings with scalar leaves, tags: priority + metadata only), the domain of
  the property's oracle; lists and type changes at a path belong to C04.
-/
import AY.Lemmas.C03Leaf
import AY.Lemmas.C03Fold
import AY.Lemmas.C03Tag
import AY.Lemmas.Native
namespace AY

/-! ### Concrete inputs used by the non-vacuity examples -/

/-- `!weak {{x: 1, n: w}} 1` / `!force {{y: 2, x: 9}} 2` / `{{x: 3}} 3` as stored leaves -/
def c03Weak : Node := .leaf { prio := some (-1), md := [("x", .int 1), ("n", .str "w")] } (.scalar (.int 1))
def c03Force : Node := .leaf { prio := some 1, md := [("y", .int 2), ("x", .int 9)] } (.scalar (.int 2))
def c03Std : Node := .leaf { md := [("x", .int 3)], iDel := some true } (.scalar (.int 3))

/-! ### The order of the priorities -/

/- "!force > untagged > !weak": the three priority constants read from the code
   (`ConfigNode.FORCE/STANDARD/WEAK`, regenerated into AY/Gen/Tables.lean on every run) are
   strictly ordered, an untagged node has the standard priority, and the tags `!force` / `!weak`
   set exactly these constants. -/
theorem C03_priority_order :
    Tables.force > Tables.standard ∧ Tables.standard > Tables.weak ∧
    Tables.defaultPriority = Tables.standard ∧
    Tables.tagForce.1 = some Tables.force ∧ Tables.tagWeak.1 = some Tables.weak ∧
    (∀ f : Flags, f.prio = none → ePrio f = Tables.standard) := by
  refine ⟨by decide, by decide, rfl, rfl, rfl, ?_⟩
  intro f h
  simp [ePrio, h, Tables.defaultPriority, Tables.standard]

example : ePrio c03Force.flags = Tables.force ∧ ePrio c03Std.flags = Tables.standard ∧
    ePrio c03Weak.flags = Tables.weak := by decide

/-! ### Two competing values -/

/- "the merged value is the one written by the stage whose value there has the highest priority …
   and among equal priorities the latest stage … user metadata attached to the competing values is
   combined under the same rule": for ANY two nodes `a` (older) and `b` (newer) meeting in the leaf
   rule (`ConfigNode.on_merge_impl`; any flags, any metadata) the result is `b` unless `a` has the
   STRICTLY higher priority, in which case it is `a` (the Boolean tells whether the result is still
   the `self` object). The surviving node (`_replace_other`: flags combined, then its inherited
   flags handed down to its children again, `propagate`) keeps its own value, the keys / order /
   data of its children, its own priority, `delete` and inherited flags; its metadata is
   `{**loser.md, **winner.md}` (`mmerge`, see `C03_md_union`); a surviving leaf is only re-flagged. -/
theorem C03_leaf_step (a b : Node) :
    (ePrio a.flags > ePrio b.flags →
      leafRule a b = (propagate (a.setFlags (replaceOtherFlags a.flags b.flags)), true)) ∧
    (¬ ePrio a.flags > ePrio b.flags →
      leafRule a b = (propagate (b.setFlags (replaceOtherFlags b.flags a.flags)), false)) ∧
    (∀ w l : Node,
      native (propagate (w.setFlags (replaceOtherFlags w.flags l.flags))) = native w ∧
      (nativeList (propagate (w.setFlags (replaceOtherFlags w.flags l.flags))).children = nativeList w.children ∧
       nativeVals (propagate (w.setFlags (replaceOtherFlags w.flags l.flags))).children = nativeVals w.children) ∧
      (w.isComp = false → propagate (w.setFlags (replaceOtherFlags w.flags l.flags)) =
        w.setFlags (replaceOtherFlags w.flags l.flags)) ∧
      (propagate (w.setFlags (replaceOtherFlags w.flags l.flags))).flags.prio = w.flags.prio ∧
      ePrio (propagate (w.setFlags (replaceOtherFlags w.flags l.flags))).flags = ePrio w.flags ∧
      (propagate (w.setFlags (replaceOtherFlags w.flags l.flags))).flags.del = w.flags.del ∧
      (propagate (w.setFlags (replaceOtherFlags w.flags l.flags))).flags.iDel = w.flags.iDel ∧
      (propagate (w.setFlags (replaceOtherFlags w.flags l.flags))).flags.iNew = w.flags.iNew ∧
      (propagate (w.setFlags (replaceOtherFlags w.flags l.flags))).flags.md = mmerge l.flags.md w.flags.md) ∧
    (∀ fa ka fb kb, a = .leaf fa ka → b = .leaf fb kb → ∀ fuel,
      mergeF (fuel + 1) a b = .ok (leafRule a b)) := by
  refine ⟨leafRule_self_wins, leafRule_other_wins, ?_, ?_⟩
  · intro w l
    rw [flags_propagate, flags_setFlags]
    refine ⟨by rw [nativeOf_propagate]; exact native_setFlags _ _, ?_, ?_, rfl, rfl, rfl, rfl, rfl, rfl⟩
    · have hc : (w.setFlags (replaceOtherFlags w.flags l.flags)).children = w.children := by
        cases w <;> rfl
      rw [← hc]
      exact children_propagate _
    · intro hw
      cases w with
      | leaf f k => rfl
      | comp f k cs => cases hw
  · intro fa ka fb kb ha hb fuel
    subst ha; subst hb; rfl

-- strong before weak, weak before strong, equal priorities: the three cases are all inhabited
example : ePrio c03Force.flags > ePrio c03Std.flags ∧ ¬ ePrio c03Weak.flags > ePrio c03Std.flags ∧
    ¬ ePrio c03Std.flags > ePrio c03Std.flags := by decide
example : (leafRule c03Force c03Weak).2 = true ∧ (leafRule c03Weak c03Force).2 = false ∧
    (leafRule c03Std c03Std).2 = false := by decide

/- "user metadata … is combined … without losing keys": for ANY two metadata dictionaries
   `mmerge x y` (`{**x, **y}`: `x` the loser's, `y` the winner's) has exactly the keys of `x` and
   of `y` (union), the keys of `x` first in their old order; every key of `y` carries `y`'s value
   (its last occurrence, which for a Python dict — no repeated keys, `mNodup` — is its only one),
   every other key keeps `x`'s value; no repeated key is introduced. -/
theorem C03_md_union (x y : List (String × Scalar)) :
    (∀ k, (mlookup k (mmerge x y)).isSome = ((mlookup k x).isSome || (mlookup k y).isSome)) ∧
    (∀ k, mlookup k (mmerge x y) = (match mlookupLast k y with | some v => some v | none => mlookup k x)) ∧
    (mNodup y = true → ∀ k, mlookup k (mmerge x y) = (match mlookup k y with | some v => some v | none => mlookup k x)) ∧
    (∃ extra, mkeys (mmerge x y) = mkeys x ++ extra) ∧
    (mNodup x = true → mNodup (mmerge x y) = true) := by
  refine ⟨fun k => mlookup_mmerge_isSome k x y, fun k => mlookup_mmerge k y x, ?_,
    mkeys_mmerge_prefix y x, mNodup_mmerge y x⟩
  intro h k
  rw [mlookup_mmerge, mlookupLast_of_nodup k y h]
  cases mlookup k y <;> rfl

example : mNodup c03Weak.flags.md = true ∧ mNodup c03Force.flags.md = true ∧
    mmerge c03Weak.flags.md c03Force.flags.md = [("x", .int 9), ("n", .str "w"), ("y", .int 2)] := by decide


/-! ### One merge of two dict-shaped documents -/

/-- `{a: !force {b: 1, c: 2}, d: !weak 3}` / `{a: {b: 5, e: 6}, d: 4}` / `!weak {a: {c: 7}, d: !force 8}` -/
def c03Raw1 : Raw :=
  .map .none {} [
    (.str "a", .map .plain { prio := some 1 } [(.str "b", .scalar .none {} (.lit (.int 1))),
                                                (.str "c", .scalar .none {} (.lit (.int 2)))]),
    (.str "d", .scalar .plain { prio := some (-1), md := [("x", .int 1)] } (.lit (.int 3)))]
def c03Raw2 : Raw :=
  .map .none {} [
    (.str "a", .map .none {} [(.str "b", .scalar .none {} (.lit (.int 5))),
                              (.str "e", .scalar .none {} (.lit (.int 6)))]),
    (.str "d", .scalar .plain { md := [("y", .int 2)] } (.lit (.int 4)))]
def c03Raw3 : Raw :=
  .map .plain { prio := some (-1) } [
    (.str "a", .map .none {} [(.str "c", .scalar .none {} (.lit (.int 7)))]),
    (.str "d", .scalar .plain { prio := some 1 } (.lit (.int 8)))]
def c03D1 : Node := match construct {} c03Raw1 with | .ok n => n | .error _ => default
def c03D2 : Node := match construct {} c03Raw2 with | .ok n => n | .error _ => default
def c03D3 : Node := match construct {} c03Raw3 with | .ok n => n | .error _ => default

/- "For every leaf path, the merged value is the one written by the stage whose value there has the
   highest priority …, and among equal priorities the latest stage" — one merge step: for
   dict-shaped trees `a` (accumulated) and `b` (newer) that are shape-compatible (`compatP`: a path
   existing in both is a leaf in both or a mapping in both) and any fuel above the depth of `b`,
   the merge succeeds and
   * at every path `p` the leaf of the result is `pick (leafAt a p) (leafAt b p)`: the leaf rule of
     `C03_leaf_step` when both sides have the leaf, the only one present otherwise;
   * the result is again dict-shaped, has exactly the paths of `a` and of `b` (`shapeAt`), and is
     shape-compatible with everything `a` and `b` are compatible with (in particular with both);
   * a merged container is the `self` object and its flags follow the tail of `on_merge_impl`:
     `_replace_self` (priority of `b`) when `b` has priority over `a` or the same priority,
     `_replace_other` otherwise. -/
theorem C03_dict_step (fuel : Nat) (a b : Node) (ha : dictShaped a = true) (hb : dictShaped b = true)
    (hc : compatP a b) (hfuel : b.depth < fuel) :
    ∃ r same, mergeF fuel a b = .ok (r, same) ∧
      (∀ p, leafAt r p = pick (leafAt a p) (leafAt b p)) ∧
      dictShaped r = true ∧
      (∀ p, shapeAt r p = (shapeAt a p).or (shapeAt b p)) ∧
      (∀ c, compatP a c → compatP b c → compatP r c) ∧ compatP r a ∧ compatP r b ∧
      (a.isComp = true → same = true ∧
        r.flags = if hasPrio b.flags a.flags true then replaceSelfFlags a.flags b.flags
                  else replaceOtherFlags a.flags b.flags) := by
  obtain ⟨r, same, h, hp, _, _, hfl⟩ := mergeF_DS fuel a b ha hb hc hfuel
  refine ⟨r, same, h, hp.2.2, hp.1, hp.2.1, fun c h1 h2 => compatP_merged hc h1 h2 hp.2.1,
    compatP_merged hc (compatP_refl a) (compatP_symm hc) hp.2.1,
    compatP_merged hc hc (compatP_refl b) hp.2.1, hfl⟩

example : dictShaped c03D1 = true ∧ dictShaped c03D2 = true ∧ compatB c03D1 c03D2 = true ∧ c03D2.depth < 3 := by
  decide
example := C03_dict_step 3 c03D1 c03D2 (by decide) (by decide) (compatP_of_compatB _ _ (by decide)) (by decide)
-- `a.b`: the forced older value 1 survives; `a.e`: only the newer side has it; `d`: weak 3 loses to 4
example : ((mergeF 3 c03D1 c03D2).map (fun r =>
    ((leafAt r.1 [.str "a", .str "b"]).map vps, (leafAt r.1 [.str "a", .str "e"]).map vps,
     (leafAt r.1 [.str "d"]).map vps))).toOption =
    some (some (some (.int 1), 1), some (some (.int 6), 0), some (some (.int 4), 0)) := by decide

/-! ### Any number of stages -/

/- "This holds for any number of stages and any order in which differently-prioritised writers
   appear" — PARTIAL (documents as dict-shaped node trees): for every non-empty sequence of
   pairwise shape-compatible dict-shaped mapping documents `Builder.flatten` succeeds, the result
   is dict-shaped, and at every path `p`
   * its leaf is the left fold of the leaf rule over the per-stage leaves, and
   * value and priority (`vp`) of that leaf are those of `argmaxLeaf` of the per-stage leaves: the
     stage maximising (priority at `p`, stage index) among the stages that have `p`
     (`C03_argmax_is_lex_max`). -/
theorem C03_fold_argmax_partial (d0 : Node) (ds : List Node)
    (hst : ∀ st, st ∈ d0 :: ds → dictShaped st = true ∧ st.isDict = true)
    (hpw : pairwiseCompat (d0 :: ds)) :
    ∃ r, flatten (d0 :: ds) = .ok r ∧ dictShaped r = true ∧
      (∀ p, leafAt r p = (ds.map (fun st => leafAt st p)).foldl pick (leafAt d0 p)) ∧
      (∀ p, (leafAt r p).map vp = (argmaxLeaf ((d0 :: ds).map (fun st => leafAt st p))).map vp) := by
  obtain ⟨r, h1, h2, h3⟩ := flatten_DS d0 ds hst hpw
  refine ⟨r, h1, h2, h3, ?_⟩
  intro p
  rw [h3 p, foldl_pick_argmax]
  rfl

example : (∀ st, st ∈ [c03D1, c03D2, c03D3] → dictShaped st = true ∧ st.isDict = true) ∧
    pairwiseCompat [c03D1, c03D2, c03D3] := by
  refine ⟨?_, pairwiseCompat_of_B _ (by decide)⟩
  intro st hst
  simp only [List.mem_cons, List.not_mem_nil, or_false] at hst
  rcases hst with rfl | rfl | rfl <;> decide
-- three stages: `d` is written weak (3), untagged (4), then force below a weak root (8, weak wins outermost: -1)
example : ((flatten [c03D1, c03D2, c03D3]).map (fun r =>
    ((leafAt r [.str "a", .str "c"]).map vps, (leafAt r [.str "d"]).map vps))).toOption =
    some (some (some (.int 2), 1), some (some (.int 4), 0)) := by decide

/- `argmaxLeaf` is the lexicographic maximum: when it returns the writer `w`, `w` is the leaf of
   some stage `i`, and every other stage `j` that has the leaf has a strictly lower priority, or
   the same priority and is not later than `i` ("the highest priority, the latest among equals");
   it returns nothing only when no stage has the leaf. -/
theorem C03_argmax_is_lex_max (l : List (Option Node)) :
    (∀ w, argmaxLeaf l = some w →
      ∃ i : Nat, l[i]? = some (some w) ∧
        ∀ (j : Nat) (m : Node), l[j]? = some (some m) →
          ePrio m.flags < ePrio w.flags ∨ (ePrio m.flags = ePrio w.flags ∧ j ≤ i)) ∧
    (argmaxLeaf l = none → ∀ x, x ∈ l → x = none) :=
  ⟨argmaxLeaf_spec l, argmaxLeaf_none l⟩

example : (argmaxLeaf [some c03Force, none, some c03Std, some c03Force, some c03Weak]).map vps =
    some (some (.int 2), 1) := by decide


/-! ### A priority tag on a container -/

/-- `!weak {a: !force {c: 7}, d: [!force 8, 9]}`: inner `!force` tags below an outer `!weak` -/
def c03RawTag : Raw :=
  .map .plain { prio := some (-1) } [
    (.str "a", .map .plain { prio := some 1 } [(.str "c", .scalar .none {} (.lit (.int 7)))]),
    (.str "d", .seq .none {} [.scalar .plain { prio := some 1 } (.lit (.int 8)), .scalar .none {} (.lit (.int 9))])]

/- "a priority tag on a container applies to everything below it": for a tag whose keywords carry
   `priority = p` (`!force`, `!weak`, also combined with `!del`/`!merge`/metadata or a class tag)
   * the class constructor the loader calls for the tagged sequence / mapping (`wrapSeq`,
     `wrapMap`: `ComposedNode.__init__` with the already constructed children) returns a tree in
     which EVERY node carries the explicit priority `p` (`allPrio`), whatever priorities the
     children had — so of nested priority tags the OUTERMOST wins;
   * hence the subtree the loader builds for such a tagged container has priority `p` at every
     path, wherever the container sits (any adopting parent, `constructTD`), in particular for a
     tagged document root (`construct`);
   * `allPrio p n` means: every node reachable by a path has `_priority = p`, i.e. `ePrio = p`. -/
theorem C03_container_tag_applies_below (env : Env) (p : Int) (kw : CtorKw) (hp : kw.prio = some p) :
    (∀ t cs n, tagTakesKw t = true → wrapSeq env t kw cs = .ok n → allPrio p n = true) ∧
    (∀ t cs n, t ≠ .none → wrapMap env t kw cs = .ok n → allPrio p n = true) ∧
    (∀ parent t items n, tagTakesKw t = true →
      constructTD env parent (.seq t kw items) = .ok n → allPrio p n = true) ∧
    (∀ parent t items n, t ≠ .none →
      constructTD env parent (.map t kw items) = .ok n → allPrio p n = true) ∧
    (∀ t items n, t ≠ .none → construct env (.map t kw items) = .ok n → allPrio p n = true) ∧
    (∀ n, allPrio p n = true → ∀ q m, getNode n q = some m → m.flags.prio = some p ∧ ePrio m.flags = p) := by
  refine ⟨fun t cs n ht h => wrapSeq_allPrio env t kw cs p n ht hp h,
    fun t cs n ht h => wrapMap_allPrio env t kw cs p n hp ht h,
    fun parent t items n ht h => constructTD_seq_allPrio env parent t kw items n p ht hp h,
    fun parent t items n ht h => constructTD_map_allPrio env parent t kw items n p ht hp h,
    fun t items n ht h => constructTD_map_allPrio env none t kw items n p ht hp h, ?_⟩
  intro n hn q m hg
  have := allPrio_flags p (allPrio_getNode p q n m hn hg)
  exact ⟨this, by simp [ePrio, this]⟩

example : ((construct {} c03RawTag).map (fun n => allPrio (-1) n)).toOption = some true := by decide
example : ((construct {} c03RawTag).map (fun n =>
    (getNode n [.str "a", .str "c"]).map (fun m => ePrio m.flags))).toOption = some (some (-1)) := by decide

end AY
