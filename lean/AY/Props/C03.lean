import AY.Spec.Plain
namespace AY
theorem C03_placeholder : foldUpd [] = .error .value := rfl
end AY
