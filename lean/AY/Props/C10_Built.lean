/-
  AY.Props.C10_Built — property C10 for every tree a Builder produces: the hypothesis `uniqueKeys root`
  of the whole-build theorem `C10_exactly_once` ("every tree the library builds") is discharged for
  `root = Builder.flatten(stages)` with stages parsed from documents without duplicate sibling keys
  (`KI.rawKeyed`, full tag vocabulary).  Lemmas: AY/Lemmas/KeyInv*.lean, AY/Lemmas/KeyInvariants.lean.
-/
import AY.Props.C10
import AY.Lemmas.KeyInvariants
namespace AY

/-- `{r1: !xref f, f: !call:f {a: !import os}, r2: !xref r1, g: !bind:f {a: !xref f}}` and a second
    stage `{h: !xref g, f: {a: !import os}}` -/
def c10BuiltDoc1 : Raw :=
  .map .none {} [
    (.str "r1", .scalar .xref {} (.text "f")),
    (.str "f", .map (.call "f") {} [(.str "a", .scalar .imp {} (.text "os"))]),
    (.str "r2", .scalar .xref {} (.text "r1")),
    (.str "g", .map (.bind "f") {} [(.str "a", .scalar .xref {} (.text "f"))])]
def c10BuiltDoc2 : Raw :=
  .map .none {} [(.str "h", .scalar .xref {} (.text "g")),
    (.str "f", .map .none {} [(.str "a", .scalar .imp {} (.text "os"))])]
def c10BuiltStages : List Node :=
  [match construct {} c10BuiltDoc1 with | .ok n => n | .error _ => .leaf {} .required,
   match construct {} c10BuiltDoc2 with | .ok n => n | .error _ => .leaf {} .required]
def c10BuiltRoot : Node := match flatten c10BuiltStages with | .ok r => r | .error _ => .leaf {} .required

/- "each !call / !eval node runs exactly once no matter how many references, arguments or evaluated
   expressions consume it", for a whole build: `root` is what `Builder.flatten` returns for stages the
   loader built from documents without duplicate sibling keys; a successful evaluation has, for every
   dynamic node of `root` (any path, whoever consumes it), exactly one log entry with that path,
   carrying the node's label.  No hypothesis on the shape of `root` is left. -/
theorem C10_exactly_once_built (w : World) (stages : List Node) (root : Node) (v : Val) (st : EvSt)
    (hs : ∀ s, s ∈ stages → ∃ env raw, KI.rawKeyed raw = true ∧ construct env raw = .ok s)
    (hf : flatten stages = .ok root) (h : evaluate w root = .ok (v, st))
    (p : Path) (m : Node) (what : String) (hm : getNode root p = some m) (hd : dynWhat m = some what) :
    (⟨p, what⟩ : LogEntry) ∈ st.log ∧ (st.log.map (·.path)).count p = 1 :=
  C10_exactly_once w root v st (built_uniqueKeys hs hf) h p m what hm hd

example : flatten c10BuiltStages = .ok c10BuiltRoot := rfl
example : ∃ v st, evaluate c10ExWorld c10BuiltRoot = .ok (v, st) ∧
    st.log.map (·.what) = ["import:os", "call:f", "bind:f"] := by
  refine ⟨_, _, rfl, ?_⟩; rfl
example : ∃ m, getNode c10BuiltRoot [.str "f", .str "a"] = some m ∧ dynWhat m = some "import:os" := ⟨_, rfl, rfl⟩
example : ∀ v st, evaluate c10ExWorld c10BuiltRoot = .ok (v, st) →
    (⟨[.str "f", .str "a"], "import:os"⟩ : LogEntry) ∈ st.log ∧
      (st.log.map (·.path)).count [.str "f", .str "a"] = 1 :=
  fun v st h => C10_exactly_once_built c10ExWorld c10BuiltStages c10BuiltRoot v st
    (fun s hm => by
      rcases List.mem_cons.1 hm with e | hm
      · exact ⟨{}, c10BuiltDoc1, by decide, e ▸ rfl⟩
      · rcases List.mem_cons.1 hm with e | hm
        · exact ⟨{}, c10BuiltDoc2, by decide, e ▸ rfl⟩
        · cases hm)
    rfl h [.str "f", .str "a"] _ "import:os" rfl rfl

end AY
