/-
  C01 (continued) — "Tags are transparent: one source evaluates to its plain-YAML content":
  the end-to-end statement without the exposed first-stage check.

  Statement (properties.jsonl): Building a config from a single YAML source yields exactly the data
  PyYAML would load from that source once awesomeyaml's merge-control tags (!force, !weak, !del,
  !merge, !new, !unsafe, !metadata and the {{...}} metadata syntax; !notnew is by design an error in
  a first document) are erased: same keys, same order of list elements, same scalar values and
  Python types. Adding, removing or moving such tags on any node of a single document never changes
  the evaluated content.

  `C01_build_partial` (AY/Props/C01.lean) left the first-stage `allow_new` check
  (`reqNew [] [] n`, `_require_all_new` of `Builder.flatten`) as an explicit case split.  Here it is
  discharged: for a document in which no tag says `allow_new = False` (`noNotNew`: no `!notnew`, no
  `!metadata{{'allow_new': False}}`) the loader never produces an inherited `allow_new = False`, so the
  check passes (`C01_first_stage_passes`), and loader → builder → evaluator compose to the
  unconditional headline `C01_tag_transparent`.  The excluded case is an error, not a silent change of
  data (`C01_notnew_first_doc_errors`).
  Predicates and proofs: AY/Lemmas/C01NotNew.lean (`noNotNew`, the invariant `newOK`).
-/
import AY.Props.C01
import AY.Lemmas.C01NotNew
namespace AY

/-! ### Concrete documents used by the non-vacuity examples -/

/-- `!notnew {a: 1, b: [2]}` -/
def c01NotNewDoc : Raw :=
  .map .plain { new := some false } [
    (.str "a", .scalar .none {} (.lit (.int 1))),
    (.str "b", .seq .none {} [.scalar .none {} (.lit (.int 2))])]

/-- `c01Doc` with every tag moved or removed: `{a: [!force 1, !del {x: y}], b: {c: ~}, 3: !weak [], d: z}` -/
def c01DocMoved : Raw :=
  .map .none {} [
    (.str "a", .seq .none {} [
      .scalar .plain { prio := some 1 } (.lit (.int 1)),
      .map .plain { del := some true } [(.str "x", .scalar .none {} (.lit (.str "y")))]]),
    (.str "b", .map .none {} [(.str "c", .scalar .none {} (.lit .null))]),
    (.int 3, .seq .plain { prio := some (-1) } []),
    (.str "d", .scalar .none {} (.text "z"))]

/-! ### The first-stage `allow_new` check -/

/- "!notnew is by design an error in a first document" — and nothing else is: for every mapping
   document with merge-control tags in which NO tag carries `allow_new = False` (`noNotNew`; the
   keywords `priority/delete/safe`, `allow_new = True` and metadata are unrestricted, on any node),
   the first-stage check of `Builder.flatten` (`_require_all_new` on the parsed tree) finds
   nothing.  Invariant behind it: no node of the parsed tree has `allow_new = False`, explicit or
   inherited (`newOK`), because a child inherits `f.new.or f.iNew` of its parent. -/
theorem C01_first_stage_passes (env : Env) (r : Raw) (n : Node) (h : rawTaggedDoc r = true)
    (hn : noNotNew r = true) (hc : construct env r = .ok n) : reqNew [] [] n = none := by
  cases r with
  | scalar t kw v => simp [rawTaggedDoc] at h
  | seq t kw items => simp [rawTaggedDoc] at h
  | map t kw items =>
    have h' : rawTagged (.map t kw items) = true := by simpa [rawTaggedDoc] using h
    exact reqNew_newOK [] [] n
      (constructTD_newOK env _ none n h' hn (fun pf pk e => by cases e) hc)

example : rawTaggedDoc c01Doc = true ∧ noNotNew c01Doc = true := by decide
example : ((construct {} c01Doc).map (fun n => reqNew [] [] n)).toOption = some none := by decide
-- the hypothesis `noNotNew` is needed: with `!notnew` on the root the check fires
example : noNotNew c01NotNewDoc = false ∧
    ((construct {} c01NotNewDoc).map (fun n => reqNew [] [] n)).toOption = some (some [.str "a"]) := by decide

/- The invariant itself, for every subtree and both construction modes: a document part without
   `allow_new = False` keywords is parsed (bottom-up inside a tagged node, or top-down below any
   parent that has no `allow_new = False` itself) into a tree in which no node has
   `allow_new = False`, explicit or inherited. -/
theorem C01_no_notnew_invariant (env : Env) (r : Raw) (h : rawTagged r = true) (hn : noNotNew r = true) :
    (∀ n, constructDeep env r = .ok n → newOK n = true) ∧
    (∀ parent n, ParentNewOK parent → constructTD env parent r = .ok n → newOK n = true) ∧
    (∀ n, newOK n = true → ∀ exc p, reqNew exc p n = none) :=
  ⟨fun n hc => constructDeep_newOK env r n h hn hc,
   fun parent n hp hc => constructTD_newOK env r parent n h hn hp hc,
   fun n hok exc p => reqNew_newOK exc p n hok⟩

example : ((constructDeep {} c01Doc).map newOK).toOption = some true := by decide

/-! ### Loader, single-stage builder and evaluator together, unconditionally -/

/- "Building a config from a single YAML source yields exactly the data PyYAML would load from
   that source once awesomeyaml's merge-control tags (!force, !weak, !del, !merge, !new, !unsafe,
   !metadata and the {{...}} metadata syntax …) are erased: same keys, same order of list elements,
   same scalar values and Python types": for every mapping document with merge-control tags on any
   nodes and no `allow_new = False` keyword, in any parse context and any evaluation world,
   parsing succeeds, `Builder.flatten` of the single stage returns the parsed tree, `Config` of it
   (check_missing + evaluation) succeeds, and the evaluated value carries exactly the tag-erased
   document. -/
theorem C01_tag_transparent (env : Env) (w : World) (r : Raw) (h : rawTaggedDoc r = true)
    (hn : noNotNew r = true) :
    ∃ n v st, construct env r = .ok n ∧ flatten [n] = .ok n ∧ config w n = .ok (v, st) ∧
      valData v = plainOfRaw r := by
  obtain ⟨n, h1, h2, v, st, h3, h4⟩ := C01_build_partial env w r h
  refine ⟨n, v, st, h1, ?_, h3, h4⟩
  rw [h2, C01_first_stage_passes env r n h hn h1]

example : ∃ n v st, construct {} c01Doc = .ok n ∧ flatten [n] = .ok n ∧ config {} n = .ok (v, st) ∧
    valData v = plainOfRaw c01Doc := C01_tag_transparent {} {} c01Doc (by decide) (by decide)
example : ((construct {} c01Doc).toOption.map (fun n => (flatten [n]).toBool)) = some true := by decide

/- "Adding, removing or moving such tags on any node of a single document never changes the
   evaluated content": two mapping documents with merge-control tags (no `allow_new = False`)
   whose tag-erased content is the same — i.e. the same document under two placements of tags and
   metadata — both build and evaluate, and to the same data (also across parse contexts and
   evaluation worlds). -/
theorem C01_placement_irrelevant (env env' : Env) (w w' : World) (r r' : Raw)
    (h : rawTaggedDoc r = true) (h' : rawTaggedDoc r' = true)
    (hn : noNotNew r = true) (hn' : noNotNew r' = true) (hsame : plainOfRaw r = plainOfRaw r') :
    ∃ n n' v v' st st', construct env r = .ok n ∧ construct env' r' = .ok n' ∧
      flatten [n] = .ok n ∧ flatten [n'] = .ok n' ∧
      config w n = .ok (v, st) ∧ config w' n' = .ok (v', st') ∧ valData v = valData v' := by
  obtain ⟨n, v, st, a1, a2, a3, a4⟩ := C01_tag_transparent env w r h hn
  obtain ⟨n', v', st', b1, b2, b3, b4⟩ := C01_tag_transparent env' w' r' h' hn'
  exact ⟨n, n', v, v', st, st', a1, b1, a2, b2, a3, b3, by rw [a4, b4, hsame]⟩

example : rawTaggedDoc c01DocMoved = true ∧ noNotNew c01DocMoved = true ∧
    plainOfRaw c01Doc = plainOfRaw c01DocMoved := by
  refine ⟨by decide, by decide, rfl⟩
example := C01_placement_irrelevant {} { dSafe := false } {} {} c01Doc c01DocMoved
  (by decide) (by decide) (by decide) (by decide) rfl

/-! ### The excluded case is an error -/

/- "!notnew is by design an error in a first document": a mapping document whose ROOT tag carries
   `allow_new = False` and which has at least one entry is parsed, and `Builder.flatten` of that
   single stage fails with the MergeError of `_require_all_new`, naming the first entry — the
   excluded case is never a silent change of the data. -/
theorem C01_notnew_first_doc_errors (env : Env) (kw : CtorKw) (k0 : Key) (r0 : Raw)
    (rest : List (Key × Raw)) (h : rawTaggedDoc (.map .plain kw ((k0, r0) :: rest)) = true)
    (hnew : kw.new = some false) :
    ∃ n, construct env (.map .plain kw ((k0, r0) :: rest)) = .ok n ∧
      flatten [n] = .error (.notnew [k0]) := by
  have h' : (tagOK .plain = true ∧ keysNodup ((k0, r0) :: rest) = true) ∧
      rawTaggedMap ((k0, r0) :: rest) = true := by simpa [rawTaggedDoc, rawTagged] using h
  obtain ⟨cs, c1, c2, c3, c4⟩ := constructDeepMap_tag env ((k0, r0) :: rest) h'.2
  obtain ⟨n, g1, g2, g3⟩ := wrapMap_tag env kw cs (t := .plain) rfl c3
    (by rw [keysNodup_congr _ _ c4]; exact h'.1.2)
  have hcon : construct env (.map .plain kw ((k0, r0) :: rest)) = .ok n := by
    simp only [construct, constructTD, constructDeep, c1, g1, adoptBy]
  have hd : n.isDict = true := by
    simp only [wrapMap] at g1; cases g1; rfl
  refine ⟨n, hcon, ?_⟩
  rw [flatten_single_dataT n g3 hd]
  cases cs with
  | nil => simp [akeys] at c4
  | cons kc cs' =>
    obtain ⟨k, c⟩ := kc
    have hk : k = k0 := by simp only [akeys, List.cons.injEq] at c4; exact c4.1
    subst hk
    simp only [wrapMap] at g1
    cases g1
    have hkw : childKw (mkFlags env kw) .dict = some
        { iDel := (mkFlags env kw).del.or ((mkFlags env kw).iDel.or
            (if defaultDelete .dict then some true else none)),
          iNew := some false,
          iSafe := if (mkFlags env kw).iSafe = some false then some false
                   else (mkFlags env kw).safe.or (mkFlags env kw).iSafe } := by
      simp [childKw, mkFlags, hnew]
    have := reqNew_child_notnew (mkFlags env kw) .dict k
      (inheritInto kw.prio (childKw (mkFlags env kw) .dict) c)
      (initChildren (mkFlags env kw) .dict kw.prio cs') rfl
      (by rw [hkw, inheritInto_iNew])
    simp only [initChildren, List.map_cons] at this ⊢
    rw [this]

example : rawTaggedDoc c01NotNewDoc = true := by decide
example : ∃ n, construct {} c01NotNewDoc = .ok n ∧ flatten [n] = .error (.notnew [.str "a"]) :=
  C01_notnew_first_doc_errors {} { new := some false } _ _ _ (by decide) rfl

end AY
