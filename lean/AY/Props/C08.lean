/-
  C08 — "!notnew (and command-line overrides) can change but never create paths".

  Statement (properties.jsonl): Merging content below a !notnew node succeeds only if every path it
  writes already exists in the config built so far, so that afterwards no path exists that did not
  exist before; otherwise MergeError naming a missing path (a nested !new re-allows creation below
  it). A command-line override 'a.b[i].c=value' sets exactly that path to the value and changes
  nothing else; a mistyped path is an error.

  The theorems are about the existing definitions of AY.Model.Merge (`reqNew` = `_require_all_new`,
  `mergeStep`/`mergeLoop` = the key loop of `ComposedNode.on_merge_impl`, `mergeF`/`merge`) and
  AY.Model.Construct (`construct`).  They come in four groups:
    1. `_require_all_new` reports exactly the first node (DFS pre-order) whose `allow_new` is off
       and whose path is not excepted  (ALL nodes, all flags, duplicate keys included);
    2. the key loop creates a missing key only through `_require_all_new` (ALL nodes, any `rec`);
    3. a mapping whose incoming children have `allow_new` off gets no new key, and the first
       missing key is reported (ALL nodes of the dict family, any `rec`);
    4. the command-line override `k1.k2.….kn=value` on a tag-free tree, paths through mappings;
    5. whole trees (PARTIAL: mappings and scalars only, no nested tag below the `!notnew` root):
       success creates no path, failure names a path the document writes and the config lacks.
  Auxiliary definitions and proofs: AY/Lemmas/C08Req.lean (`c08_preorder`, `c08_offender`,
  `c08_nodeAt`, `c08_keysNodupH`, `allNotNew`), AY/Lemmas/C08Cmd.lean (`nestDoc`, `c08_rawDoc`,
  `getPlainAt`, `setPlainAt`, `c08_missingAt`), AY/Lemmas/C08Deep.lean (`c08_noListP`, `c08_nnDocList`,
  `c08_docFlags`), AY/Lemmas/C08List.lean (`c08_getPlainAtL`, `c08_setPlainAtL`; group 5: the whole-tree statement for documents of mappings and scalars).
-/
import AY.Lemmas.C08Req
import AY.Lemmas.C08Cmd
import AY.Lemmas.C08Deep
import AY.Lemmas.C08List
namespace AY

/-! ### Concrete inputs used by the non-vacuity examples -/

/-- inherited flags below a `!notnew` node / below a nested `!new` node -/
def c08Off : Flags := { iNew := some false }
def c08On : Flags := { iNew := some true }

/-- `!notnew {a: {typo: 1}, n: !new {deep: 2}}` as the loader builds it: the root has
    `allow_new=False` explicit, everything below inherits it, except below the nested `!new` -/
def c08Doc : Node :=
  .comp { new := some false } .dict
    [(.str "a", .comp c08Off .dict [(.str "typo", .leaf c08Off (.scalar (.int 1)))]),
     (.str "n", .comp { new := some true, iNew := some false } .dict
        [(.str "deep", .leaf c08On (.scalar (.int 2)))])]

/-- a mapping with a duplicated sibling key (possible for nodes built from Python) -/
def c08Dup : Node :=
  .comp {} .dict [(.str "x", .leaf {} (.scalar (.int 1))), (.str "x", .leaf c08Off (.scalar (.int 2)))]

/-- the tag-free base config `{a: {b: 5, c: [5]}, z: 0}` -/
def c08Base : Node :=
  .comp {} .dict
    [(.str "a", .comp {} .dict
        [(.str "b", .leaf {} (.scalar (.int 5))),
         (.str "c", .comp {} .list [(.int 0, .leaf { iDel := some true } (.scalar (.int 5)))])]),
     (.str "z", .leaf {} (.scalar (.int 0)))]

def c08Env : Env := { src := some "<Commandline argument #1>" }

/-! ### 1. `_require_all_new` -/

/- "succeeds only if every path it writes already exists … otherwise MergeError naming a missing
   path (a nested !new re-allows creation below it)": the check the merge applies to content that
   would be created, `_require_all_new(path, exceptions)`, returns the path of the FIRST node in
   DFS pre-order (`c08_preorder` lists every node with its absolute path, all children of every
   container, duplicated sibling keys included) whose inherited `allow_new` is off and whose path
   is not in `exceptions` — `none` when there is no such node.  For ALL nodes and flags. -/
theorem C08_reqNew_first_offender_eq (exc : List Path) (p : Path) (n : Node) :
    reqNew exc p n = ((c08_preorder p n).find? (c08_offender exc)).map (·.1) :=
  c08_reqNew_eq_find exc p n

example : (c08_preorder [] c08Doc).map (·.1) =
    [[], [.str "a"], [.str "a", .str "typo"], [.str "n"], [.str "n", .str "deep"]] := rfl
-- the root of a `!notnew` document allows new itself (only the inherited flag is read) …
example : reqNew [] [] c08Doc = some [.str "a"] := by decide
-- … the nested `!new` mapping is itself still an offender, its content is not
example : reqNew [[.str "a"], [.str "a", .str "typo"]] [] c08Doc = some [.str "n"] := by decide
example : reqNew [[.str "a"], [.str "a", .str "typo"], [.str "n"]] [] c08Doc = none := by decide

/- Soundness and completeness of the check ("every path it writes …"): `_require_all_new` passes
   iff EVERY node `m` occurring at some relative path `q` of the inserted subtree (`c08_nodeAt`:
   occurrence through any child, also the later of duplicated keys) allows new or has its path
   `p ++ q` excepted. No hypothesis on the tree. -/
theorem C08_reqNew_sound (exc : List Path) (p : Path) (n : Node) :
    reqNew exc p n = none ↔
      ∀ q m, c08_nodeAt n q m → eNew m.flags = true ∨ (p ++ q) ∈ exc :=
  c08_reqNew_none_iff exc p n

example : c08_nodeAt c08Doc [.str "n", .str "deep"] (.leaf c08On (.scalar (.int 2))) := by
  unfold c08Doc
  exact .child (c := .comp { new := some true, iNew := some false } .dict
    [(.str "deep", .leaf c08On (.scalar (.int 2)))]) (by simp) (.child (by simp) (.root _))
example : reqNew [[.str "a"], [.str "a", .str "typo"], [.str "n"]] [] c08Doc = none := by decide

/- The same with `get_node` (`getNode`: the model of `root.ayns.get_node(path)`, which sees only the
   first of duplicated sibling keys) for trees without duplicated sibling keys anywhere
   (`c08_keysNodupH`; every tree the YAML loader builds from a mapping document is such). -/
theorem C08_reqNew_sound_getNode (exc : List Path) (p : Path) (n : Node)
    (hn : c08_keysNodupH n = true) :
    reqNew exc p n = none ↔
      ∀ q m, getNode n q = some m → eNew m.flags = true ∨ (p ++ q) ∈ exc := by
  rw [C08_reqNew_sound]
  constructor
  · intro h q m hg; exact h q m (c08_nodeAt_of_getNode q n m hg)
  · intro h q m hq; exact h q m (c08_getNode_of_nodeAt hq hn)

example : c08_keysNodupH c08Doc = true := by decide
-- why the hypothesis is needed: `get_node` does not see the second `x`, `_require_all_new` does
example : c08_keysNodupH c08Dup = false ∧ reqNew [] [] c08Dup = some [.str "x"] ∧
    (getNode c08Dup [.str "x"]).map (fun m => eNew m.flags) = some true := by decide

/- "otherwise MergeError naming a missing path": when the check fails with path `r`, then `r` is
   the absolute path `p ++ q` of a node `m` of the subtree whose `allow_new` is off and which is
   not excepted, and it is the FIRST such node: the pre-order listing splits as
   `pre ++ (r, m) :: post` with every node of `pre` allowing new or excepted. -/
theorem C08_reqNew_first_offender (exc : List Path) (p : Path) (n : Node) (r : Path)
    (h : reqNew exc p n = some r) :
    ∃ (pre post : List (Path × Node)) (q : Path) (m : Node),
      c08_preorder p n = pre ++ (r, m) :: post ∧ r = p ++ q ∧ c08_nodeAt n q m ∧
      eNew m.flags = false ∧ r ∉ exc ∧
      ∀ x ∈ pre, eNew x.2.flags = true ∨ x.1 ∈ exc :=
  c08_reqNew_some exc p n r h

example : reqNew [[.str "k", .str "a"]] [.str "k"] c08Doc = some [.str "k", .str "a", .str "typo"] := by decide

/-! ### 2. Creating a key -/

/- "Merging content … succeeds only if every path it writes already exists": in the key loop of
   `ComposedNode.on_merge_impl` (`mergeStep`, for ALL containers, flags and any recursive merge
   `rec`), when `self` has no child `k` the value is adopted as a new child only if
   `_require_all_new` passes on it; otherwise the step fails with the MergeError naming the first
   offending path below `k`.  `exc` are the exceptions of the check: none (`[]`) unless `other` is
   a deleting node, in which case they are the paths its pruning has just removed (only the ones
   below `k` matter: `excBelow k exc`). -/
theorem C08_new_key_needs_allow_new (rec : Node → Node → Except Err (Node × Bool)) (sf : Flags)
    (sk : CompKind) (exc : List Path) (acc : List (Key × Node)) (k : Key) (value : Node)
    (h : getChild sk k acc = none) :
    mergeStep rec sf sk exc acc (k, value) =
      match reqNew (excBelow k exc) [] value with
      | some p => .error (.notnew (k :: p))
      | none => setChild sf sk k value acc :=
  c08_mergeStep_absent rec sf sk acc k value h

example : getChild .dict (.str "n") c08Base.children = none := by decide
example : mergeStep (mergeF 3) {} .dict [] c08Base.children (.str "n", .leaf c08Off (.scalar .null)) =
    .error (.notnew [.str "n"]) := rfl

/- Both directions for the dict family: a missing key is created (and then holds the adopted
   value, every other key untouched by `aset`) iff every node of the inserted subtree allows new
   or sits at a path that the pruning by a deleting `other` has just removed (`k :: q ∈ exc`; with
   a non-deleting `other`, `exc = []`: iff every node allows new). -/
theorem C08_new_key_created_iff (rec : Node → Node → Except Err (Node × Bool)) (sf : Flags)
    (sk : CompKind) (exc : List Path) (hsk : sk.isDictFam = true) (acc : List (Key × Node)) (k : Key)
    (value : Node) (h : getChild sk k acc = none) :
    ((∃ acc', mergeStep rec sf sk exc acc (k, value) = .ok acc') ↔
      ∀ q m, c08_nodeAt value q m → eNew m.flags = true ∨ (k :: q) ∈ exc) ∧
    (∀ acc', mergeStep rec sf sk exc acc (k, value) = .ok acc' → acc' = aset k (adopt sf sk value) acc) := by
  rw [C08_new_key_needs_allow_new rec sf sk exc acc k value h]
  have hs := C08_reqNew_sound (excBelow k exc) [] value
  simp only [List.nil_append, mem_excBelow] at hs
  cases hr : reqNew (excBelow k exc) [] value with
  | some p =>
    have : ¬ ∀ q m, c08_nodeAt value q m → eNew m.flags = true ∨ (k :: q) ∈ exc := fun hh => by
      have := hs.2 hh; rw [hr] at this; cases this
    simp [this]
  | none =>
    have := hs.1 hr
    simp only [setChild, hsk, if_true]
    refine ⟨⟨fun _ => this, fun _ => ⟨_, rfl⟩⟩, ?_⟩
    intro acc' e; injection e with e; exact e.symm

example : (∃ acc', mergeStep (mergeF 3) {} .dict [] c08Base.children
    (.str "n", .comp c08On .dict [(.str "deep", .leaf c08On (.scalar (.int 2)))]) = .ok acc') :=
  ⟨_, rfl⟩
-- with exceptions: `n` itself was just removed, so a `!notnew` value may re-create it …
example : (∃ acc', mergeStep (mergeF 3) {} .dict [[.str "n"]] c08Base.children
    (.str "n", .leaf c08Off (.scalar .null)) = .ok acc') := ⟨_, rfl⟩
-- … but not anything below it that was not there
example : mergeStep (mergeF 3) {} .dict [[.str "n"]] c08Base.children
    (.str "n", .comp c08Off .dict [(.str "deep", .leaf c08Off (.scalar (.int 2)))]) =
    .error (.notnew [.str "n", .str "deep"]) := rfl

/-! ### 3. A mapping below `!notnew` gets no new key -/

/- "so that afterwards no path exists that did not exist before": for a container of the dict
   family and incoming children `ocs` in whose subtrees every node has `allow_new` off
   (`allNotNewList`: content below `!notnew` without nested `!new`), a successful key loop leaves
   no key that was not there before — whatever the recursive merge `rec` does, whatever the flags
   of `self` (keys may disappear through `!del`, never appear).  `exc` are the paths removed by
   the pruning of a deleting `other` (`[]` otherwise): a key in `scs'` that is not in the pruned
   `scs` is one of the keys that pruning has just removed, so it did exist before the merge. -/
theorem C08_notnew_dict_no_new_key (rec : Node → Node → Except Err (Node × Bool)) (sf : Flags)
    (sk : CompKind) (exc : List Path) (hsk : sk.isDictFam = true) (scs ocs scs' : List (Key × Node))
    (hn : allNotNewList ocs = true) (h : mergeLoop rec sf sk exc scs ocs = .ok scs') :
    ∀ k, k ∈ akeys scs' → k ∈ akeys scs ∨ [k] ∈ exc :=
  c08_mergeLoop_no_new_key rec hsk ocs scs scs' (c08_allNotNewList_mem ocs hn) h

/-- `{a: {b: 6}, z: !del 1}` below `!notnew` -/
def c08Ocs : List (Key × Node) :=
  [(.str "a", .comp c08Off .dict [(.str "b", .leaf c08Off (.scalar (.int 6)))]),
   (.str "z", .leaf { del := some true, iNew := some false } (.scalar (.int 1)))]

example : allNotNewList c08Ocs = true := by decide
example : ((mergeLoop (mergeF 3) {} .dict [] c08Base.children c08Ocs).map akeys).toOption =
    some [.str "a", .str "z"] := by decide

/- Only the top nodes of the incoming children matter for the keys of this level (their subtrees
   matter one level down, through `rec`). -/
theorem C08_notnew_dict_no_new_key_top (rec : Node → Node → Except Err (Node × Bool)) (sf : Flags)
    (sk : CompKind) (exc : List Path) (hsk : sk.isDictFam = true) (scs ocs scs' : List (Key × Node))
    (hn : ∀ kv ∈ ocs, eNew kv.2.flags = false) (h : mergeLoop rec sf sk exc scs ocs = .ok scs') :
    ∀ k, k ∈ akeys scs' → k ∈ akeys scs ∨ [k] ∈ exc :=
  c08_mergeLoop_no_new_key rec hsk ocs scs scs' hn h

example : ∀ kv ∈ c08Ocs, eNew kv.2.flags = false := by
  intro kv h; simp [c08Ocs] at h; rcases h with h | h <;> subst h <;> rfl

/- "otherwise MergeError naming a missing path": when the loop reaches a key `k` that `self` does
   not have and the incoming value has `allow_new` off, the merge fails naming exactly `[k]`
   (unless `k` is a key the pruning by a deleting `other` has just removed: `[k] ∉ exc`, trivially
   true for the `exc = []` of a non-deleting `other`). -/
theorem C08_notnew_missing_key_error (rec : Node → Node → Except Err (Node × Bool)) (sf : Flags)
    (sk : CompKind) (exc : List Path) (acc : List (Key × Node)) (k : Key) (v : Node)
    (rest : List (Key × Node))
    (hg : getChild sk k acc = none) (hv : eNew v.flags = false) (hx : [k] ∉ exc) :
    mergeLoop rec sf sk exc acc ((k, v) :: rest) = .error (.notnew [k]) :=
  c08_mergeLoop_missing_key rec sf sk acc k v rest hg hv hx

example : mergeLoop (mergeF 3) {} .dict [] c08Base.children
    ((.str "typo", .leaf c08Off (.scalar .null)) :: c08Ocs) = .error (.notnew [.str "typo"]) := rfl

/- General position: after any prefix `pre` of keys whose steps succeeded (leaving `acc1`), the
   first key missing in the accumulated children is reported, whatever follows. -/
theorem C08_notnew_first_missing_key_error (rec : Node → Node → Except Err (Node × Bool)) (sf : Flags)
    (sk : CompKind) (exc : List Path) (scs pre acc1 : List (Key × Node)) (k : Key) (v : Node)
    (rest : List (Key × Node))
    (hpre : mergeLoop rec sf sk exc scs pre = .ok acc1)
    (hg : getChild sk k acc1 = none) (hv : eNew v.flags = false) (hx : [k] ∉ exc) :
    mergeLoop rec sf sk exc scs (pre ++ (k, v) :: rest) = .error (.notnew [k]) := by
  rw [c08_mergeLoop_append rec sf sk pre scs acc1 _ hpre]
  exact c08_mergeLoop_missing_key rec sf sk acc1 k v rest hg hv hx

example : mergeLoop (mergeF 3) {} .dict [] c08Base.children
    (c08Ocs ++ (.str "typo", .leaf c08Off (.scalar .null)) :: c08Ocs) = .error (.notnew [.str "typo"]) := rfl

/-! ### 4. Command-line overrides -/

/- "A command-line override 'a.b.c=value'": `Config.process_cmdline` turns `k1.k2.….kn=value` into
   the YAML text `!notnew { k1: { k2: … value }}`; its representation tree is `c08_rawDoc` and the
   loader (`construct`, in any parse context `env`) builds from it exactly `nestDoc env path value`:
   single-key mappings, the root with `allow_new=False` explicit, every node below with
   `implicit_allow_new=False` inherited and no other flag. -/
theorem C08_cmdline_doc_is_loaded (env : Env) (k : Key) (ks : List Key) (v : Scalar) :
    construct env (c08_rawDoc (k :: ks) v) = .ok (nestDoc env (k :: ks) v) :=
  c08_construct_rawDoc env v k ks

example : construct c08Env (.map .plain { new := some false }
      [(.str "a", .map .none {} [(.str "b", .scalar .none {} (.lit (.int 1)))])]) =
    .ok (.comp { new := some false, src := some "<Commandline argument #1>" } .dict
      [(.str "a", .comp { iNew := some false, src := some "<Commandline argument #1>" } .dict
        [(.str "b", .leaf { iNew := some false, src := some "<Commandline argument #1>" } (.scalar (.int 1)))])]) := rfl
example : nestDoc c08Env [.str "a", .str "b"] (.int 1) =
    .comp { new := some false, src := some "<Commandline argument #1>" } .dict
      [(.str "a", .comp { iNew := some false, src := some "<Commandline argument #1>" } .dict
        [(.str "b", .leaf { iNew := some false, src := some "<Commandline argument #1>" } (.scalar (.int 1)))])] := rfl

/- "sets exactly that path to the value and changes nothing else" (PARTIAL: paths through mappings
   only, no list index; scalar value): for a tag-free tree `a` (`plainT`) in which the path
   `k :: ks` exists through mappings (`getPlainAt (native a) (k :: ks) = some t`; the target `t` may
   be a scalar, a mapping or a list), merging the override succeeds, the data of the result is the
   data of `a` with exactly the value at that path replaced (`setPlainAt`: every mapping on the
   way keeps its keys, their order and all other values), and the result is again a tag-free tree
   (`plainT`), so that overrides can be chained. -/
theorem C08_cmdline_sets_leaf_partial (env : Env) (a : Node) (k : Key) (ks : List Key) (v : Scalar)
    (t : Plain) (ha : plainT a = true) (hg : getPlainAt (native a) (k :: ks) = some t) :
    ∃ r, merge a (nestDoc env (k :: ks) v) = .ok r ∧ plainT r = true ∧
      native r = setPlainAt (native a) (k :: ks) (.scalar v) := by
  obtain ⟨r, h1, h2, h3⟩ := c08_override_ok env v ks k a (ks.length + 1) (c08_topFlags env) t ha
    (c08_docFlags_top env) (by omega) hg
  refine ⟨r, ?_, h2, h3⟩
  have hd : (nestDoc env (k :: ks) v).depth = ks.length + 1 := by
    simp [nestDoc, c08_nest_depth]
  simp only [merge, hd]
  simp only [nestDoc, h1]

example : plainT c08Base = true := by decide
example : getPlainAt (native c08Base) [.str "a", .str "b"] = some (.scalar (.int 5)) := rfl
example : (merge c08Base (nestDoc c08Env [.str "a", .str "b"] (.int 1))).map native =
    .ok (.dict [(.str "a", .dict [(.str "b", .scalar (.int 1)), (.str "c", .list [.scalar (.int 5)])]),
                (.str "z", .scalar (.int 0))]) := rfl
-- a container target is replaced by the scalar as well
example : (merge c08Base (nestDoc c08Env [.str "a"] (.int 1))).map native =
    .ok (.dict [(.str "a", .scalar (.int 1)), (.str "z", .scalar (.int 0))]) := rfl

-- list indices (outside the theorem, which covers paths through mappings): on the model an existing
-- index `a.c[0]=7` / `a.c[-1]=7` sets that element, an out-of-range index or a name applied to a list
-- is a MergeError WITHOUT a path (`Err.merge`, raised by the index validation of ConfigList), and a
-- component below a scalar list element is reported like below any scalar
example : (merge c08Base (nestDoc c08Env [.str "a", .str "c", .int 0] (.int 7))).map native =
    .ok (.dict [(.str "a", .dict [(.str "b", .scalar (.int 5)), (.str "c", .list [.scalar (.int 7)])]),
                (.str "z", .scalar (.int 0))]) := rfl
example : (merge c08Base (nestDoc c08Env [.str "a", .str "c", .int (-1)] (.int 7))).map native =
    (merge c08Base (nestDoc c08Env [.str "a", .str "c", .int 0] (.int 7))).map native := rfl
example : merge c08Base (nestDoc c08Env [.str "a", .str "c", .int 1] (.int 7)) = .error .merge := rfl
example : merge c08Base (nestDoc c08Env [.str "a", .str "c", .str "x"] (.int 7)) = .error .merge := rfl
example : merge c08Base (nestDoc c08Env [.str "a", .str "c", .int 0, .str "y"] (.int 7)) =
    .error (.notnew [.str "a", .str "c", .int 0, .str "y"]) := rfl

/- The same for every fuel above the depth of the override (the form used when the override is one
   stage of a longer build), with the additional fact that the root object is mutated in place. -/
theorem C08_cmdline_sets_leaf_fuel (env : Env) (a : Node) (k : Key) (ks : List Key) (v : Scalar)
    (t : Plain) (n : Nat) (ha : plainT a = true) (hn : ks.length < n)
    (hg : getPlainAt (native a) (k :: ks) = some t) :
    ∃ r, mergeF (n + 1) a (nestDoc env (k :: ks) v) = .ok (r, true) ∧ plainT r = true ∧
      native r = setPlainAt (native a) (k :: ks) (.scalar v) :=
  c08_override_ok env v ks k a n (c08_topFlags env) t ha (c08_docFlags_top env) hn hg

example := C08_cmdline_sets_leaf_fuel c08Env c08Base (.str "a") [.str "b"] (.int 1) _ 7 (by decide) (by decide) rfl

/- "and changes nothing else", read back through paths: after `setPlainAt` the addressed path holds
   the new value, every prefix of it still exists, and every path that branches off it (common part
   `c`, then a different key) holds what it held before (or is still absent). -/
theorem C08_cmdline_frame (t x y : Plain) (p : List Key) (h : getPlainAt t p = some y) :
    getPlainAt (setPlainAt t p x) p = some x ∧
    (∀ q r, p = q ++ r → (getPlainAt (setPlainAt t p x) q).isSome = true) ∧
    (∀ c k1 k2 q' p', p = c ++ k2 :: p' → k2 ≠ k1 →
      getPlainAt (setPlainAt t p x) (c ++ k1 :: q') = getPlainAt t (c ++ k1 :: q')) := by
  refine ⟨c08_getPlainAt_set_same p t x y h, c08_getPlainAt_set_isSome p t x y h, ?_⟩
  intro c k1 k2 q' p' e hne
  subst e
  exact c08_getPlainAt_set_other c k1 k2 q' p' t x hne

example : getPlainAt (setPlainAt (native c08Base) [.str "a", .str "b"] (.scalar (.int 1)))
    [.str "a", .str "c"] = some (.list [.scalar (.int 5)]) := rfl

/- "a mistyped path is an error": if the override path is `pre ++ k :: post`, the part `pre` exists
   in the (mapping-rooted, tag-free) tree through mappings and ends at a node `t` that cannot be
   entered with `k` (`c08_missingAt`: a mapping without key `k`, or a scalar), the merge fails with
   the MergeError naming `pre ++ [k]` — the path up to and including the first missing component —
   and nothing is created. -/
theorem C08_cmdline_mistyped_path_error (env : Env) (a : Node) (pre : List Key) (k : Key)
    (post : List Key) (v : Scalar) (t : Plain) (ha : plainT a = true)
    (hroot : ∃ items, native a = .dict items)
    (hg : getPlainAt (native a) pre = some t) (hm : c08_missingAt t k = true) :
    merge a (nestDoc env (pre ++ k :: post) v) = .error (.notnew (pre ++ [k])) := by
  have h := c08_override_missing env v pre k post a (pre ++ k :: post).length (c08_topFlags env) t ha
    (c08_docFlags_top env) (Nat.le_refl _) hroot hg hm
  have hd : (nestDoc env (pre ++ k :: post) v).depth = (pre ++ k :: post).length := by
    simp [nestDoc, c08_nest_depth]
  simp only [merge, hd]
  simp only [nestDoc, h]

example : getPlainAt (native c08Base) [.str "a"] =
      some (.dict [(.str "b", .scalar (.int 5)), (.str "c", .list [.scalar (.int 5)])]) ∧
    c08_missingAt (.dict [(.str "b", .scalar (.int 5)), (.str "c", .list [.scalar (.int 5)])]) (.str "typo") = true :=
  ⟨rfl, rfl⟩
example : merge c08Base (nestDoc c08Env [.str "a", .str "typo", .str "x"] (.int 1)) =
    .error (.notnew [.str "a", .str "typo"]) := rfl
-- continuing below a scalar: the component after the scalar is the one reported
example : merge c08Base (nestDoc c08Env [.str "z", .str "b"] (.int 1)) =
    .error (.notnew [.str "z", .str "b"]) := rfl

/- The same with the position of the first missing component: the reported path is
   `path.take (i + 1)`. -/
theorem C08_cmdline_mistyped_path_error_take (env : Env) (a : Node) (path : List Key) (i : Nat)
    (hi : i < path.length) (v : Scalar) (t : Plain) (ha : plainT a = true)
    (hroot : ∃ items, native a = .dict items)
    (hg : getPlainAt (native a) (path.take i) = some t) (hm : c08_missingAt t path[i] = true) :
    merge a (nestDoc env path v) = .error (.notnew (path.take (i + 1))) := by
  have e1 : path = path.take i ++ path[i] :: path.drop (i + 1) := by
    rw [List.getElem_cons_drop]; exact (List.take_append_drop i path).symm
  have e2 : path.take (i + 1) = path.take i ++ [path[i]] := by
    rw [List.take_succ_eq_append_getElem hi]
  have := C08_cmdline_mistyped_path_error env a (path.take i) path[i] (path.drop (i + 1)) v t ha hroot hg hm
  rw [← e1] at this
  rw [this, e2]

example := C08_cmdline_mistyped_path_error_take c08Env c08Base [.str "a", .str "typo", .str "x"] 1 (by decide)
  (.int 1) _ (by decide) ⟨_, rfl⟩ rfl rfl

/- "A command-line override 'a.b[i].c=value' sets exactly that path to the value and changes nothing
   else" — with list indices (`process_cmdline` turns `b[i]` into the nested mapping `b: { i: … }`):
   `c08_getPlainAtL` / `c08_setPlainAtL` follow mapping keys and existing list indices (`listIndex`:
   `-len ≤ i < len`, negative ones counted from the end; `setAt` replaces that element and keeps
   the length). For a tag-free tree `a` in which the path exists, merging the override succeeds,
   the data of the result is the data of `a` with exactly the value at that path replaced, and the
   result is again a tag-free tree. (Scalar value; the target may be any node.) -/
theorem C08_cmdline_sets_path_lists_partial (env : Env) (a : Node) (k : Key) (ks : List Key)
    (v : Scalar) (t : Plain) (ha : plainT a = true)
    (hg : c08_getPlainAtL (native a) (k :: ks) = some t) :
    ∃ r, merge a (nestDoc env (k :: ks) v) = .ok r ∧ plainT r = true ∧
      native r = c08_setPlainAtL (native a) (k :: ks) (.scalar v) := by
  obtain ⟨r, h1, h2, h3⟩ := c08_override_ok_L env v ks k a (ks.length + 1) (c08_topFlags env) t ha
    (c08_docFlags_top env) (by omega) hg
  refine ⟨r, ?_, h2, h3⟩
  have hd : (nestDoc env (k :: ks) v).depth = ks.length + 1 := by
    simp [nestDoc, c08_nest_depth]
  simp only [merge, hd]
  simp only [nestDoc, h1]

example : c08_getPlainAtL (native c08Base) [.str "a", .str "c", .int (-1)] = some (.scalar (.int 5)) := rfl
example : c08_setPlainAtL (native c08Base) [.str "a", .str "c", .int (-1)] (.scalar (.int 7)) =
    .dict [(.str "a", .dict [(.str "b", .scalar (.int 5)), (.str "c", .list [.scalar (.int 7)])]),
           (.str "z", .scalar (.int 0))] := rfl
example := C08_cmdline_sets_path_lists_partial c08Env c08Base (.str "a") [.str "c", .int (-1)] (.int 7) _
  (by decide) rfl

/- "a mistyped path is an error" at a list: if the part `pre` of the override path exists (through
   mappings and list indices) and ends at a list for which the next component `k` is not an
   existing index (out of range, or a name), the merge fails — on the model with the plain
   MergeError `Err.merge` of ConfigList's index validation, which carries NO path (unlike a missing
   mapping key, which is named: `C08_cmdline_mistyped_path_error`). Nothing is created. -/
theorem C08_cmdline_bad_list_index_error (env : Env) (a : Node) (pre : List Key) (k : Key)
    (post : List Key) (v : Scalar) (xs : List Plain) (ha : plainT a = true)
    (hg : c08_getPlainAtL (native a) pre = some (.list xs)) (hk : listIndex xs.length k = none) :
    merge a (nestDoc env (pre ++ k :: post) v) = .error .merge := by
  have h := c08_override_bad_index env v pre k post a (pre ++ k :: post).length (c08_topFlags env) xs ha
    (c08_docFlags_top env) (Nat.le_refl _) hg hk
  have hd : (nestDoc env (pre ++ k :: post) v).depth = (pre ++ k :: post).length := by
    simp [nestDoc, c08_nest_depth]
  simp only [merge, hd]
  simp only [nestDoc, h]

example : c08_getPlainAtL (native c08Base) [.str "a", .str "c"] = some (.list [.scalar (.int 5)]) ∧
    listIndex [Plain.scalar (.int 5)].length (.int 1) = none ∧
    listIndex [Plain.scalar (.int 5)].length (.str "x") = none := ⟨rfl, rfl, rfl⟩
example : merge c08Base (nestDoc c08Env [.str "a", .str "c", .int 1, .str "y"] (.int 7)) = .error .merge :=
  C08_cmdline_bad_list_index_error c08Env c08Base [.str "a", .str "c"] (.int 1) [.str "y"] (.int 7) _
    (by decide) rfl rfl

/-! ### 5. Whole trees (mappings and scalars) -/

/-- the tag-free base config `{a: {b: 5, d: {e: 1}}, z: 0}` (no lists) -/
def c08Base2 : Node :=
  .comp {} .dict
    [(.str "a", .comp {} .dict
        [(.str "b", .leaf {} (.scalar (.int 5))),
         (.str "d", .comp {} .dict [(.str "e", .leaf {} (.scalar (.int 1)))])]),
     (.str "z", .leaf {} (.scalar (.int 0)))]

/-- children of `!notnew {a: {b: 6, d: 7}, z: {}}` -/
def c08Ocs2 : List (Key × Node) :=
  [(.str "a", .comp c08Off .dict
      [(.str "b", .leaf c08Off (.scalar (.int 6))), (.str "d", .leaf c08Off (.scalar (.int 7)))]),
   (.str "z", .comp c08Off .dict [])]

/-- children of `!notnew {a: {b: 6, typo: {x: 1}}}` -/
def c08Ocs3 : List (Key × Node) :=
  [(.str "a", .comp c08Off .dict
      [(.str "b", .leaf c08Off (.scalar (.int 6))),
       (.str "typo", .comp c08Off .dict [(.str "x", .leaf c08Off (.scalar (.int 1)))])])]

/- "Merging content below a !notnew node succeeds only if every path it writes already exists in
   the config built so far, so that afterwards no path exists that did not exist before; otherwise
   MergeError naming a missing path" — whole-tree form, PARTIAL: the config `a` is a tag-free tree
   of mappings and scalars (`plainT`, no list in its data), the newer document `b` is a mapping
   whose root carries no priority / delete / safe flag or metadata (`c08_docFlags`, e.g. the
   `!notnew` root) and below which every node is a mapping or scalar with
   `implicit_allow_new=False` and no other flag (`c08_nnDocList`: no nested `!new` or other tag).
   Then `merge a b`
   * either succeeds, the result is again such a tag-free mapping tree (so the statement can be
     chained), and every path of the result is a path of `a`;
   * or fails with the MergeError `notnew p`, where — provided `b` has no duplicated sibling keys —
     `p` is a path that `b` writes (a node of `b` sits at `p`) and that does not exist in `a`.
   No other error is possible. -/
theorem C08_notnew_no_new_path_partial (sf : Flags) (scs : List (Key × Node)) (of : Flags)
    (ocs : List (Key × Node)) (ha : plainT (.comp sf .dict scs) = true)
    (hl : c08_noListP (native (.comp sf .dict scs)) = true) (ho : c08_docFlags of = true)
    (hocs : c08_nnDocList ocs = true) :
    match merge (.comp sf .dict scs) (.comp of .dict ocs) with
    | .ok r => plainT r = true ∧ c08_noListP (native r) = true ∧ (∃ items, native r = .dict items) ∧
        ∀ q, (getPlainAt (native r) q).isSome = true →
          (getPlainAt (native (.comp sf .dict scs)) q).isSome = true
    | .error e => ∃ p, e = .notnew p ∧
        (c08_keysNodupH (.comp of .dict ocs) = true →
          getPlainAt (native (.comp sf .dict scs)) p = none ∧ ∃ m, c08_nodeAt (.comp of .dict ocs) p m) := by
  have h := c08_deep_main ((Node.comp of .dict ocs).depth + 1) sf scs of ocs ha hl ho hocs (Nat.lt_succ_self _)
  simp only [merge]
  cases hm : mergeF ((Node.comp of .dict ocs).depth + 1) (.comp sf .dict scs) (.comp of .dict ocs) with
  | error e => rw [hm] at h; exact h
  | ok res =>
    obtain ⟨r, s⟩ := res
    rw [hm] at h
    exact ⟨h.2.1, h.2.2.1, h.2.2.2.1, h.2.2.2.2⟩

example : plainT c08Base2 = true ∧ c08_noListP (native c08Base2) = true := ⟨by decide, rfl⟩
example : c08_docFlags { new := some false } = true ∧ c08_nnDocList c08Ocs2 = true ∧
    c08_nnDocList c08Ocs3 = true := by decide
-- success: values change (a mapping becomes a scalar, a scalar an empty mapping), no path appears
example : (merge c08Base2 (.comp { new := some false } .dict c08Ocs2)).map native =
    .ok (.dict [(.str "a", .dict [(.str "b", .scalar (.int 6)), (.str "d", .scalar (.int 7))]),
                (.str "z", .dict [])]) := rfl
-- failure: the first written path that is missing is named
example : merge c08Base2 (.comp { new := some false } .dict c08Ocs3) =
    .error (.notnew [.str "a", .str "typo"]) := rfl
example : c08_keysNodupH (.comp { new := some false } .dict c08Ocs3) = true := by decide
-- why "no duplicated sibling keys" is needed for the error clause: `!notnew {a: 5, a: {b: 2}}`
-- (only constructible from Python, never from YAML text) fails naming `a.b`, which exists in the
-- config before the merge — the first `a: 5` has already replaced the mapping
example : merge c08Base2 (.comp { new := some false } .dict
      [(.str "a", .leaf c08Off (.scalar (.int 5))),
       (.str "a", .comp c08Off .dict [(.str "b", .leaf c08Off (.scalar (.int 2)))])]) =
    .error (.notnew [.str "a", .str "b"]) := rfl

end AY
