import AY.Spec.Plain
namespace AY
theorem C08_placeholder : foldUpd [] = .error .value := rfl
end AY
