/-
  C04, AT A PATH OF WHOLE DOCUMENTS — "When the newer document's node AT A PATH is deleting … the
  merged content AT THAT PATH is exactly the newer node's content … at any depth. Tagging it !merge
  instead makes mappings and lists combine key-wise / index-wise, a value-less !del removes the key,
  and !clear leaves an empty container of the original kind."

  Props/C04.lean states the clauses for ONE call of `compMerge` / `mergeStep`.  This file composes them
  along the path from the document roots down to the node, and through `flatten`.

  Setting of every theorem: `s` is the accumulated tree, `o` the newer document, `r` the result of a
  SUCCESSFUL merge `mergeF fuel s o = .ok (r, b)` (any fuel), `k :: p` a non-empty path of ANY length.
  * the spine of the NEWER tree above the node (`liveAlong (k :: p) o`): plain mappings (class `dict`,
    any flags, any priorities) that are NOT deleting and have distinct keys.  Below a deleting ancestor
    the node at the path does not decide alone (the ancestor prunes first), a list on the spine is
    index-wise with the pre-filter of ConfigList (D18): both are outside.
  * the spine of the OLDER tree (`dictAlong (k :: p) s`): plain mappings with distinct keys.
  * the nodes AT the path: `d` in the newer tree — any node; `e` in the older tree — a scalar (any leaf
    class), a plain mapping or a plain list (`plainKind`) unless a theorem says otherwise.
  * all flags are arbitrary (priorities, explicit / inherited delete, allow_new, safe, metadata).
  Data is observed with `native` and `Plain.at?` (the value stored at a path, through mappings).
  Definitions: AY/Lemmas/C04PathDefs.lean (`divergesLive`, `plainKind`, `noneProtected`,
  `prioSeparated`, `removedBy`), C04Path.lean (`stepRemovesB`), C05Deep.lean (`liveAlong`, `dictAlong`),
  C05Siblings.lean (`keptAt`), C04PathClear.lean (`clearSpine`).  Every statement was fuzzed on the executable
  model before it was proved (notes/fuzz/C04_AtPath_Fuzz.lean: 2–4 stages built by `construct` from random
  documents with !del / !merge / !force / !weak tags, later stages derived from earlier ones; ≈ 150 000 stage
  lists, no counterexample inside the stated domains; the `removedBy` exception, the D29 proviso and the
  `!clear` finding are what the fuzzer / the proofs turned up).
-/
import AY.Lemmas.C04PathClear
import AY.Props.C04
namespace AY
open AY.C04P

/-! ### Concrete inputs used by the non-vacuity examples -/

/-- parse one document (the examples below all parse) -/
def c04pNode (r : Raw) : Node :=
  match construct {} r with
  | .ok n => n
  | .error _ => .leaf {} (.scalar .null)

/-- older document:
    `{x: {y: {z: {p: 1, q: {w: 2}}, l: [1, 2, 3], m: {a: 1, b: {c: 2}}, g: 4, n: [1, 2, 3], h: {u: 1}}, f: !force 5}, t: 7}` -/
def c04pRawS : Raw :=
  .map .none {} [
    (.str "x", .map .none {} [
      (.str "y", .map .none {} [
        (.str "z", .map .none {} [(.str "p", c04Int 1), (.str "q", .map .none {} [(.str "w", c04Int 2)])]),
        (.str "l", .seq .none {} [c04Int 1, c04Int 2, c04Int 3]),
        (.str "m", .map .none {} [(.str "a", c04Int 1), (.str "b", .map .none {} [(.str "c", c04Int 2)])]),
        (.str "g", c04Int 4),
        (.str "n", .seq .none {} [c04Int 1, c04Int 2, c04Int 3]),
        (.str "h", .map .none {} [(.str "u", c04Int 1)])]),
      (.str "f", .scalar .plain { prio := some 1 } (.lit (.int 5)))]),
    (.str "t", c04Int 7)]

/-- newer document: the deleting node `!del {q: {v: 3}, n: [5]}` three levels down at `x.y.z`, a list
    replaced wholesale at `x.y.l`, `!merge` on a mapping (`x.y.m`) and on a list (`x.y.n`), a value-less
    `!del` at `x.y.g`, `!del {}` at `x.y.h`, and `x.f: 6` against the `!force` sibling -/
def c04pRawO : Raw :=
  .map .none {} [
    (.str "x", .map .none {} [
      (.str "y", .map .none {} [
        (.str "z", .map .plain { del := some true } [(.str "q", .map .none {} [(.str "v", c04Int 3)]),
                                                     (.str "n", .seq .none {} [c04Int 5])]),
        (.str "l", .seq .none {} [c04Int 9]),
        (.str "m", .map .plain { del := some false } [(.str "b", .map .none {} [(.str "d", c04Int 4)]),
                                                      (.str "e", c04Int 5)]),
        (.str "g", .scalar .plain { del := some true } .empty),
        (.str "n", .seq .plain { del := some false } [c04Int 8, c04Int 9]),
        (.str "h", .map .plain { del := some true } [])]),
      (.str "f", c04Int 6)])]

/-- older document with protected entries below `x.y.z`:
    `{x: {y: {z: {p: !force 1, q: {w: 2, y: !force 3}, u: 8}}, f: !force 5}}` -/
def c04pRawSP : Raw :=
  .map .none {} [
    (.str "x", .map .none {} [
      (.str "y", .map .none {} [
        (.str "z", .map .none {} [(.str "p", .scalar .plain { prio := some 1 } (.lit (.int 1))),
          (.str "q", .map .none {} [(.str "w", c04Int 2), (.str "y", .scalar .plain { prio := some 1 } (.lit (.int 3)))]),
          (.str "u", c04Int 8)])]),
      (.str "f", .scalar .plain { prio := some 1 } (.lit (.int 5)))])]

def c04pS : Node := c04pNode c04pRawS
def c04pO : Node := c04pNode c04pRawO
def c04pSP : Node := c04pNode c04pRawSP

def c04pMerged (s o : Node) : Node :=
  match mergeF 6 s o with
  | .ok (r, _) => r
  | .error _ => .leaf {} (.scalar .null)

/-- `c04pS ⊕ c04pO` -/
def c04pR : Node := c04pMerged c04pS c04pO
/-- `c04pSP ⊕ c04pO` -/
def c04pRP : Node := c04pMerged c04pSP c04pO

def c04pAt (n : Node) (p : Path) : Node := (getNode n p).getD (.leaf {} (.scalar .null))

def c04pZ : Path := [.str "y", .str "z"]

/-- the build succeeded and holds `v` at `p` -/
def c04pOkAt (x : Except Err Node) (p : Path) (v : Option Plain) : Bool :=
  match x with
  | .ok r => optBeq ((native r).at? p) v
  | .error _ => false

theorem c04p_merge : mergeF 6 c04pS c04pO = .ok (c04pR, true) := rfl
theorem c04p_mergeP : mergeF 6 c04pSP c04pO = .ok (c04pRP, true) := rfl
theorem c04pAt_spec {n : Node} {p : Path} (h : (getNode n p).isSome = true) : getNode n p = some (c04pAt n p) := by
  cases hg : getNode n p with
  | none => simp [hg] at h
  | some x => simp [c04pAt, hg]
-- the whole result: `z` and `l` replaced, `m` and `n` combined, `g` and `h` removed, `f` kept by `!force`
example : native c04pR = .dict [(.str "x", .dict [(.str "y", .dict [
      (.str "z", .dict [(.str "q", .dict [(.str "v", .scalar (.int 3))]), (.str "n", .list [.scalar (.int 5)])]),
      (.str "l", .list [.scalar (.int 9)]),
      (.str "m", .dict [(.str "a", .scalar (.int 1)),
        (.str "b", .dict [(.str "c", .scalar (.int 2)), (.str "d", .scalar (.int 4))]), (.str "e", .scalar (.int 5))]),
      (.str "n", .list [.scalar (.int 8), .scalar (.int 9), .scalar (.int 3)])]),
    (.str "f", .scalar (.int 5))]), (.str "t", .scalar (.int 7))] := plainBeq_sound _ _ (by decide +kernel)

/-! ### (1) a deleting node replaces exactly, at any depth -/

/- "When the newer document's node at a path is deleting (tagged !del, or a list, which deletes by
   default) and is not outranked, the merged content at that path is exactly the newer node's content:
   every older entry is gone …, at any depth": the node `d` at `k :: p` of the newer document is
   deleting (`eDel`), has priority over the older node `e` at that path (`hasPrio … true`: not
   outranked), and NO entry of `e` is protected (`noneProtected`: `maybe_keep` fails for every node
   strictly below `e`; for a list `e` the pre-filter of ConfigList keeps all of `d`).  Then after a
   successful merge
   (i)  the data at the path is EXACTLY the data of `d` — with the one exception the property itself
        names: an explicitly `!del` node that is falsy (a value-less `!del`, `!del {}`, `!del []`)
        removes the key (`removedBy d`);
   (ii) the same below the path (every relative path `q`);
   (iii) every path the newer document does not mention (`divergesLive`: it leaves `o` below a plain
        non-deleting mapping) keeps the data it had. -/
theorem C04_del_exact_at_path (fuel : Nat) (s o r : Node) (b : Bool) (k : Key) (p : Path) (e d : Node)
    (hs : dictAlong (k :: p) s = true) (ho : liveAlong (k :: p) o = true)
    (hmerge : mergeF fuel s o = .ok (r, b))
    (hse : getNode s (k :: p) = some e) (hod : getNode o (k :: p) = some d)
    (hkind : plainKind e = true) (hdel : eDel d = true)
    (hprio : hasPrio d.flags e.flags true = true) (hnone : noneProtected d e = true) :
    (native r).at? (k :: p) = (if removedBy d then none else some (native d)) ∧
    (∀ q, (native r).at? (k :: p ++ q) = if removedBy d then none else (native d).at? q) ∧
    (∀ q, dictAlong q s = true → divergesLive q o = true → (native r).at? q = (native s).at? q) := by
  have h2 := del_exact_at p k fuel s o r b e d hs ho hmerge hse hod hkind hdel hprio hnone
  refine ⟨?_, h2, fun q hq1 hq2 => frame_diverges q fuel s o r b hq1 hq2 hmerge⟩
  have := h2 []
  rw [List.append_nil] at this
  rw [this]
  cases removedBy d <;> rfl

-- the deleting node three levels down: `x.y.z` holds exactly `{q: {v: 3}, n: [5]}`; `t` (not mentioned) is kept
example : (native c04pR).at? (.str "x" :: c04pZ) = some (native (c04pAt c04pO (.str "x" :: c04pZ))) ∧
    (native c04pR).at? [.str "t"] = (native c04pS).at? [.str "t"] :=
  have h := C04_del_exact_at_path 6 c04pS c04pO c04pR true (.str "x") c04pZ
    (c04pAt c04pS (.str "x" :: c04pZ)) (c04pAt c04pO (.str "x" :: c04pZ))
    (by decide +kernel) (by decide +kernel) c04p_merge (c04pAt_spec (by decide +kernel)) (c04pAt_spec (by decide +kernel)) (by decide +kernel) (by decide +kernel) (by decide +kernel) (by decide +kernel)
  ⟨h.1, h.2.2 [.str "t"] (by decide +kernel) (by decide +kernel)⟩
-- a list replaces a list wholesale (`x.y.l: [1, 2, 3]` ← `[9]`)
example : (native c04pR).at? [.str "x", .str "y", .str "l"] = some (.list [.scalar (.int 9)]) :=
  (C04_del_exact_at_path 6 c04pS c04pO c04pR true (.str "x") [.str "y", .str "l"]
    (c04pAt c04pS [.str "x", .str "y", .str "l"]) (c04pAt c04pO [.str "x", .str "y", .str "l"])
    (by decide +kernel) (by decide +kernel) c04p_merge (c04pAt_spec (by decide +kernel)) (c04pAt_spec (by decide +kernel)) (by decide +kernel) (by decide +kernel) (by decide +kernel) (by decide +kernel)).1
-- the `!force` sibling elsewhere is not touched by any of this: it outranks the newer `f: 6`
example : hasPrio (c04pAt c04pO [.str "x", .str "f"]).flags (c04pAt c04pS [.str "x", .str "f"]).flags true = false ∧
    (native c04pR).at? [.str "x", .str "f"] = some (.scalar (.int 5)) :=
  ⟨by decide +kernel, optBeq_sound (by decide +kernel)⟩

/- "… and is not outranked … every older entry is gone": the decidable sufficient condition — one bound
   `b` with every effective priority of `e` ≤ b ≤ every effective priority of `d` (e.g. no priority
   tag in either) and numbered lists below `e` — discharges "not outranked" and "nothing protected". -/
theorem C04_del_exact_at_path_prio (fuel : Nat) (bnd : Int) (s o r : Node) (b : Bool) (k : Key) (p : Path) (e d : Node)
    (hs : dictAlong (k :: p) s = true) (ho : liveAlong (k :: p) o = true)
    (hmerge : mergeF fuel s o = .ok (r, b))
    (hse : getNode s (k :: p) = some e) (hod : getNode o (k :: p) = some d)
    (hkind : plainKind e = true) (hdel : eDel d = true) (hsep : prioSeparated bnd d e = true) :
    (native r).at? (k :: p) = (if removedBy d then none else some (native d)) := by
  obtain ⟨h1, h2⟩ := noneProtected_of_prio hkind hsep
  exact (C04_del_exact_at_path fuel s o r b k p e d hs ho hmerge hse hod hkind hdel h2 h1).1

example : prioSeparated 0 (c04pAt c04pO (.str "x" :: c04pZ)) (c04pAt c04pS (.str "x" :: c04pZ)) = true := by decide +kernel

/-! ### (2) protected entries survive, at any depth -/

/- "every older entry is gone except those explicitly protected by a strictly higher priority, at any
   depth": `e` and `d` are plain mappings with distinct keys, `d` deleting.
   (a) PROTECTED SURVIVES: a leaf `m` of the older node, at the relative path `q` through mappings, whose
       priority is STRICTLY above that of its deepest existing counterpart in `d`
       (`get_first_not_missing_node`), is found with its data at `k :: p ++ q` of the result — provided
       `d` consists of mappings along `q` as far as it exists (`dictAlong q d`).  Without that proviso the
       statement is false of model and code (known finding D29: the newer node writes a scalar over the
       container that holds the protected entry): `C04_protected_under_scalar_counterexample`.
       (This part does not use that `d` is deleting: a strictly higher priority survives any merge.)
   (b) a key of `e` that `d` does not have keeps exactly what the pruning leaves of its entry
       (`keptAt (maybe_keep)`: nothing iff neither the entry nor anything below it is protected,
       `C04_unprotected_entry_iff`);
   (c) a key of `d` whose older entry is absent or wholly unprotected holds exactly the newer value;
   (d) a key of both whose older entry (partly) survives holds the merge of the surviving part with the
       newer value (`stepRemovesB`: unless that iteration ends in `remove_child`). -/
theorem C04_del_protected_at_path (fuel : Nat) (s o r : Node) (b : Bool) (k : Key) (p : Path)
    (ef df : Flags) (ecs dcs : List (Key × Node))
    (hs : dictAlong (k :: p) s = true) (ho : liveAlong (k :: p) o = true)
    (hmerge : mergeF fuel s o = .ok (r, b))
    (hse : getNode s (k :: p) = some (.comp ef .dict ecs)) (hod : getNode o (k :: p) = some (.comp df .dict dcs))
    (hne : keysNodup ecs = true) (hnd : keysNodup dcs = true) (hdel : eDel (.comp df .dict dcs) = true) :
    (∀ q m, q ≠ [] → dictAlong q (.comp ef .dict ecs) = true → dictAlong q (.comp df .dict dcs) = true →
      getNode (.comp ef .dict ecs) q = some m → m.isComp = false →
      ePrio (firstNotMissing (.comp df .dict dcs) q).flags < ePrio m.flags →
      (native r).at? (k :: p ++ q) = some (native m)) ∧
    (∀ k2, alookup k2 dcs = none → ∀ q, (native r).at? (k :: p ++ k2 :: q) =
      (((alookup k2 ecs).bind (keptAt (maybeKeep (.comp df .dict dcs)) k2)).map native).bind (Plain.at? q)) ∧
    (∀ k2 v, alookup k2 dcs = some v →
      (alookup k2 ecs).bind (keptAt (maybeKeep (.comp df .dict dcs)) k2) = none →
      ∀ q, (native r).at? (k :: p ++ k2 :: q) = (native v).at? q) ∧
    (∀ k2 v c, alookup k2 dcs = some v →
      (alookup k2 ecs).bind (keptAt (maybeKeep (.comp df .dict dcs)) k2) = some c →
      ∃ fuel' nw same, mergeF fuel' c v = .ok (nw, same) ∧
        ∀ q, (native r).at? (k :: p ++ k2 :: q) = if stepRemovesB c v nw same then none else (native nw).at? q) := by
  obtain ⟨c1, c2, c3⟩ := keywise_cases p k fuel s o r b ef df ecs dcs hs ho hmerge hse hod hne hnd
  have hb := alookup_baseOf_del (scs := ecs) hdel hne
  refine ⟨?_, ?_, ?_, ?_⟩
  · intro q m hq hqe hqd hg hm hlt
    obtain ⟨fuel', sf, kl, x?, hx, hxq⟩ := at_live_path p k fuel s o r b _ _ hs ho hmerge hse hod
    obtain ⟨nw, same, hmr, hdata⟩ := stepAt_some_data hx
    have hprot : protectedAt (.comp df .dict dcs) q m = true := by simpa [protectedAt] using hlt
    have hsv := protected_survives q fuel' _ _ nw same m hq hqe hqd hg hm hprot hmr
    cases fuel' with
    | zero => simp [mergeF] at hmr
    | succ fuel' =>
      simp only [mergeF] at hmr
      obtain ⟨F, cs, rfl⟩ := compMerge_dict_shape _ ef df ecs dcs hne hnd nw same hmr
      cases q with
      | nil => exact absurd rfl hq
      | cons k1 q1 =>
        have hnr : stepRemovesB (.comp ef .dict ecs) (.comp df .dict dcs) (.comp F .dict cs) same = false := by
          simp [stepRemovesB, Node.isComp, truthy_of_at hsv]
        rw [hxq (k1 :: q1), hdata, hnr]
        simpa using hsv
  · intro k2 hv q
    rw [c1 k2 hv q, hb k2]
  · intro k2 v hv hnone q
    exact c2 k2 v hv (by rw [hb k2]; exact hnone) q
  · intro k2 v c hv hsome
    exact c3 k2 v c hv (by rw [hb k2]; exact hsome)

-- `{p: !force 1, q: {w: 2, y: !force 3}, u: 8}` ← `!del {q: {v: 3}, n: [5]}` at `x.y.z`: `p` and `q.y` survive
-- (strictly higher priority), `u` and `q.w` are gone, `q.v` and `n` are the newer content
example : (native c04pRP).at? [.str "x", .str "y", .str "z"] = some (.dict [(.str "p", .scalar (.int 1)),
    (.str "q", .dict [(.str "y", .scalar (.int 3)), (.str "v", .scalar (.int 3))]),
    (.str "n", .list [.scalar (.int 5)])]) := optBeq_sound (by decide +kernel)
example : (native c04pRP).at? (.str "x" :: c04pZ ++ [.str "q", .str "y"]) = some (.scalar (.int 3)) ∧
    (native c04pRP).at? (.str "x" :: c04pZ ++ [.str "u"]) = none ∧
    (native c04pRP).at? (.str "x" :: c04pZ ++ [.str "n"]) = some (.list [.scalar (.int 5)]) :=
  have h := C04_del_protected_at_path 6 c04pSP c04pO c04pRP true (.str "x") c04pZ
    (c04pAt c04pSP (.str "x" :: c04pZ)).flags (c04pAt c04pO (.str "x" :: c04pZ)).flags
    (c04pAt c04pSP (.str "x" :: c04pZ)).children (c04pAt c04pO (.str "x" :: c04pZ)).children
    (by decide +kernel) (by decide +kernel) c04p_mergeP (c04pAt_spec (by decide +kernel)) (c04pAt_spec (by decide +kernel)) (by decide +kernel) (by decide +kernel) (by decide +kernel)
  ⟨h.1 [.str "q", .str "y"] (.leaf { prio := some 1 } (.scalar (.int 3))) (by simp) (by decide +kernel) (by decide +kernel) rfl rfl
      (by decide +kernel),
   h.2.1 (.str "u") (by decide +kernel) [],
   h.2.2.1 (.str "n") _ rfl (by decide +kernel) []⟩

/- "… explicitly protected by a strictly higher priority, at any depth" — when an entry is NOT protected:
   the pruning drops the entry `c` stored under `k2` (mappings with distinct keys below it) exactly when
   no node of `c` — `c` itself (`q = []`) or any node below it — has a priority strictly above that of
   its deepest existing counterpart in `d`. -/
theorem C04_unprotected_entry_iff (d : Node) (k2 : Key) (c : Node) (hd : dictTree c = true) :
    keptAt (maybeKeep d) k2 c = none ↔
      ∀ q m, getNode c q = some m → ¬ ePrio (firstNotMissing d (k2 :: q)).flags < ePrio m.flags :=
  keptAt_none_iff d k2 c hd

example : dictTree (c04pAt c04pSP (.str "x" :: c04pZ ++ [.str "u"])) = true ∧
    keptAt (maybeKeep (c04pAt c04pO (.str "x" :: c04pZ))) (.str "u") (c04pAt c04pSP (.str "x" :: c04pZ ++ [.str "u"])) = none := by
  decide +kernel

/- Known finding D29 — part (a) FAILS without `dictAlong q d`: on the model (as on the real code)
   `a: {p: !force 1, q: {z: 2, y: !force 3}}` ← `a: !del {q: 3}` gives `{a: {p: 1, q: 3}}`: the entry
   `a.q.y` has a strictly higher priority than its deepest existing counterpart (the scalar `3` at `a.q`),
   it survives the pruning, and is then lost when the scalar (equal priority with the container `q`) is
   written over its container. -/
theorem C04_protected_under_scalar_counterexample :
    c04Build [.map .none {} [(.str "a", .map .none {} [(.str "p", .scalar .plain { prio := some 1 } (.lit (.int 1))),
        (.str "q", .map .none {} [(.str "z", c04Int 2), (.str "y", .scalar .plain { prio := some 1 } (.lit (.int 3)))])])],
      .map .none {} [(.str "a", .map .plain { del := some true } [(.str "q", c04Int 3)])]] =
        .ok (.dict [(.str "a", .dict [(.str "p", .scalar (.int 1)), (.str "q", .scalar (.int 3))])]) ∧
    dictAlong [.str "q", .str "y"] (c04pNode (.map .plain { del := some true } [(.str "q", c04Int 3)])) = false ∧
    ePrio (firstNotMissing (c04pNode (.map .plain { del := some true } [(.str "q", c04Int 3)])) [.str "q", .str "y"]).flags <
      ePrio ({ prio := some 1 } : Flags) := by
  refine ⟨resBeq_sound (by decide +kernel), by decide +kernel, by decide +kernel⟩

/-! ### (3) !merge: key-wise / index-wise, at any depth -/

/- "Tagging it !merge instead makes mappings … combine key-wise": `e` and `d` plain mappings with distinct
   keys, `d` NOT deleting (tagged `!merge`, or an untagged mapping).  For every key `k2`:
   (a) a key only the older mapping has keeps its data (at and below);
   (b) a key only the newer mapping has holds the newer value;
   (c) a common key holds the recursive merge of the two values (same `mergeF`, some fuel) — unless that
       iteration ends in `remove_child` (`stepRemovesB`: the newer value is an explicitly `!del` node and
       the merged value is falsy). -/
theorem C04_merge_at_path (fuel : Nat) (s o r : Node) (b : Bool) (k : Key) (p : Path)
    (ef df : Flags) (ecs dcs : List (Key × Node))
    (hs : dictAlong (k :: p) s = true) (ho : liveAlong (k :: p) o = true)
    (hmerge : mergeF fuel s o = .ok (r, b))
    (hse : getNode s (k :: p) = some (.comp ef .dict ecs)) (hod : getNode o (k :: p) = some (.comp df .dict dcs))
    (hne : keysNodup ecs = true) (hnd : keysNodup dcs = true) (hlive : eDel (.comp df .dict dcs) = false) :
    (∀ k2, alookup k2 dcs = none → ∀ q, (native r).at? (k :: p ++ k2 :: q) =
      (native (.comp ef .dict ecs)).at? (k2 :: q)) ∧
    (∀ k2 v, alookup k2 dcs = some v → alookup k2 ecs = none →
      ∀ q, (native r).at? (k :: p ++ k2 :: q) = (native v).at? q) ∧
    (∀ k2 v c, alookup k2 dcs = some v → alookup k2 ecs = some c →
      ∃ fuel' nw same, mergeF fuel' c v = .ok (nw, same) ∧
        ∀ q, (native r).at? (k :: p ++ k2 :: q) = if stepRemovesB c v nw same then none else (native nw).at? q) := by
  obtain ⟨c1, c2, c3⟩ := keywise_cases p k fuel s o r b ef df ecs dcs hs ho hmerge hse hod hne hnd
  rw [baseOf_live hlive] at c1 c2 c3
  refine ⟨?_, c2, c3⟩
  intro k2 hv q
  rw [c1 k2 hv q, at_native_dict]

-- `x.y.m: {a: 1, b: {c: 2}}` ← `!merge {b: {d: 4}, e: 5}`: `a` kept, `e` new, `b` merged recursively
example : (native c04pR).at? [.str "x", .str "y", .str "m", .str "a"] = some (.scalar (.int 1)) ∧
    (native c04pR).at? [.str "x", .str "y", .str "m", .str "e"] = some (.scalar (.int 5)) ∧
    (native c04pR).at? [.str "x", .str "y", .str "m", .str "b"] =
      some (.dict [(.str "c", .scalar (.int 2)), (.str "d", .scalar (.int 4))]) :=
  have h := C04_merge_at_path 6 c04pS c04pO c04pR true (.str "x") [.str "y", .str "m"]
    (c04pAt c04pS [.str "x", .str "y", .str "m"]).flags (c04pAt c04pO [.str "x", .str "y", .str "m"]).flags
    (c04pAt c04pS [.str "x", .str "y", .str "m"]).children (c04pAt c04pO [.str "x", .str "y", .str "m"]).children
    (by decide +kernel) (by decide +kernel) c04p_merge (c04pAt_spec (by decide +kernel)) (c04pAt_spec (by decide +kernel)) (by decide +kernel) (by decide +kernel) (by decide +kernel)
  ⟨h.1 (.str "a") (by decide +kernel) [], h.2.1 (.str "e") _ rfl (by decide +kernel) [], optBeq_sound (by decide +kernel)⟩

/- "… and lists combine … index-wise": `e` and `d` plain lists numbered `0 … n-1`, `d` NOT deleting
   (tagged `!merge`) without explicitly `!del` elements, and the pre-filter of ConfigList removes nothing
   of `d` (`keep_if_exists` holds everywhere below `d`: no deleting element of `d` is outranked by its
   deepest existing counterpart in `e` — this excludes known finding D18, lists whose elements carry
   different priorities).  The data at the path is a list of length `max n m`; position `i < min n m`
   holds the recursive merge of the two old elements, positions `n ≤ i < m` the newer elements, positions
   `m ≤ i < n` the old elements. -/
theorem C04_merge_list_at_path (fuel : Nat) (s o r : Node) (b : Bool) (k : Key) (p : Path)
    (ef df : Flags) (ecs dcs : List (Key × Node))
    (hs : dictAlong (k :: p) s = true) (ho : liveAlong (k :: p) o = true)
    (hmerge : mergeF fuel s o = .ok (r, b))
    (hse : getNode s (k :: p) = some (.comp ef .list ecs)) (hod : getNode o (k :: p) = some (.comp df .list dcs))
    (hke : listKeys 0 ecs = true) (hkd : listKeys 0 dcs = true) (hnd : noExplicitDel dcs = true)
    (hlive : eDel (.comp df .list dcs) = false)
    (hall : allKept (keepIfExists (.comp ef .list ecs)) [] (.comp df .list dcs) = true) :
    ∃ fuel' scs', (native r).at? (k :: p) = some (.list (nativeVals scs')) ∧
      listKeys 0 scs' = true ∧ scs'.length = max ecs.length dcs.length ∧
      (∀ (i : Nat) (v : Node), alookup (.int (i : Int)) dcs = some v →
        if i < ecs.length then
          ∃ c nw same, alookup (.int (i : Int)) ecs = some c ∧ mergeF fuel' c v = .ok (nw, same) ∧
            (alookup (.int (i : Int)) scs').map native = some (native nw)
        else (alookup (.int (i : Int)) scs').map native = some (native v)) ∧
      (∀ i : Nat, dcs.length ≤ i → alookup (.int (i : Int)) scs' = alookup (.int (i : Int)) ecs) := by
  obtain ⟨fuel', scs', hl, hat⟩ := indexwise_at p k fuel s o r b ef df ecs dcs hs ho hmerge hse hod hlive hall
  obtain ⟨r1, r2, r3, r4⟩ := C04_merge_indexwise fuel' ef .list [] rfl ecs dcs scs' hke hkd hnd hl
  refine ⟨fuel', scs', hat, r1, r2, ?_, r4⟩
  intro i v hv
  have := r3 i v hv
  split
  · rename_i hi
    rw [if_pos hi] at this
    obtain ⟨c, nw, same, h1, h2, h3⟩ := this
    refine ⟨c, nw, same, h1, h2, ?_⟩
    rw [h3]
    cases same <;> simp [native_adopt]
  · rename_i hi
    rw [if_neg hi] at this
    rw [this]
    simp [native_adopt]

-- `x.y.n: [1, 2, 3]` ← `!merge [8, 9]` gives `[8, 9, 3]`
example : ∃ scs' : List (Key × Node),
    (native c04pR).at? [.str "x", .str "y", .str "n"] = some (.list (nativeVals scs')) ∧
    listKeys 0 scs' = true ∧ scs'.length = 3 :=
  have ⟨_, scs', h1, h2, h3, _⟩ := C04_merge_list_at_path 6 c04pS c04pO c04pR true (.str "x") [.str "y", .str "n"]
    (c04pAt c04pS [.str "x", .str "y", .str "n"]).flags (c04pAt c04pO [.str "x", .str "y", .str "n"]).flags
    (c04pAt c04pS [.str "x", .str "y", .str "n"]).children (c04pAt c04pO [.str "x", .str "y", .str "n"]).children
    (by decide +kernel) (by decide +kernel) c04p_merge (c04pAt_spec (by decide +kernel)) (c04pAt_spec (by decide +kernel)) (by decide +kernel) (by decide +kernel) (by decide +kernel) (by decide +kernel) (by decide +kernel)
  ⟨scs', h1, h2, h3⟩
example : (native c04pR).at? [.str "x", .str "y", .str "n"] =
    some (.list [.scalar (.int 8), .scalar (.int 9), .scalar (.int 3)]) := optBeq_sound (by decide +kernel)

/-! ### (4) a value-less !del removes the key; !clear -/

/- "a value-less !del removes the key": the newer node at the path is a LEAF tagged `!del` that is falsy
   (an empty / null scalar, `0`, `''`) and is not outranked by the older node (a scalar, a plain mapping
   or a plain list — protected entries below it do not matter: the leaf rule never prunes): the key is
   gone from the result, at any depth, and nothing is left below it. -/
theorem C04_del_null_removes_key_at_path (fuel : Nat) (s o r : Node) (b : Bool) (k : Key) (p : Path) (e : Node)
    (vf : Flags) (vk : LeafKind)
    (hs : dictAlong (k :: p) s = true) (ho : liveAlong (k :: p) o = true)
    (hmerge : mergeF fuel s o = .ok (r, b))
    (hse : getNode s (k :: p) = some e) (hod : getNode o (k :: p) = some (.leaf vf vk))
    (hkind : plainKind e = true) (hdel : vf.del = some true) (hfalsy : vk.truthy = false)
    (hprio : hasPrio vf e.flags true = true) :
    ∀ q, (native r).at? (k :: p ++ q) = none := by
  intro q
  have := leaf_exact_at p k fuel s o r b e vf vk hs ho hmerge hse hod hkind hprio q
  rw [this]
  simp [removedBy, Node.truthy, hfalsy, Node.flags, hdel]

-- `x.y.g: 4` ← `x.y.g: !del` : the key is gone
example : (native c04pR).at? [.str "x", .str "y", .str "g"] = none :=
  have h := C04_del_null_removes_key_at_path 6 c04pS c04pO c04pR true (.str "x") [.str "y", .str "g"]
    (c04pAt c04pS [.str "x", .str "y", .str "g"]) { del := some true } (.scalar .null)
    (by decide +kernel) (by decide +kernel) c04p_merge (c04pAt_spec (by decide +kernel)) (c04pAt_spec (by decide +kernel)) (by decide +kernel) rfl rfl (by decide +kernel) []
  h

/- "a value-less !del removes the key" — composed form: the newer node at the path is an explicitly
   `!del` EMPTY container (not a function node), not outranked, nothing of the older node protected:
   the key is gone. -/
theorem C04_del_empty_container_removes_key_at_path (fuel : Nat) (s o r : Node) (b : Bool) (k : Key) (p : Path)
    (e : Node) (vf : Flags) (vk : CompKind)
    (hs : dictAlong (k :: p) s = true) (ho : liveAlong (k :: p) o = true)
    (hmerge : mergeF fuel s o = .ok (r, b))
    (hse : getNode s (k :: p) = some e) (hod : getNode o (k :: p) = some (.comp vf vk []))
    (hkind : plainKind e = true) (hdel : vf.del = some true) (hvk : vk.isFunc = false)
    (hprio : hasPrio vf e.flags true = true) (hnone : noneProtected (.comp vf vk []) e = true) :
    ∀ q, (native r).at? (k :: p ++ q) = none := by
  intro q
  have h2 := del_exact_at p k fuel s o r b e _ hs ho hmerge hse hod hkind (c04_eDel_of_explicit hdel) hprio hnone q
  rw [h2]
  have : removedBy (.comp vf vk []) = true := by
    cases vk <;> simp_all [removedBy, Node.truthy, CompKind.func?, CompKind.isFunc, Node.flags]
  rw [this]
  rfl

-- `x.y.h: {u: 1}` ← `x.y.h: !del {}`: the key is gone
example : (native c04pR).at? [.str "x", .str "y", .str "h"] = none :=
  have h := C04_del_empty_container_removes_key_at_path 6 c04pS c04pO c04pR true (.str "x") [.str "y", .str "h"]
    (c04pAt c04pS [.str "x", .str "y", .str "h"]) { del := some true } .dict
    (by decide +kernel) (by decide +kernel) c04p_merge (c04pAt_spec (by decide +kernel)) (c04pAt_spec (by decide +kernel)) (by decide +kernel) rfl rfl (by decide +kernel) (by decide +kernel) []
  h

/- a newer SCALAR (any leaf) that is not outranked replaces the older scalar, mapping or list wholesale,
   whatever its delete flag and whatever is protected below the older node; a falsy explicitly `!del`
   leaf removes the key (the clause above). -/
theorem C04_scalar_replaces_at_path (fuel : Nat) (s o r : Node) (b : Bool) (k : Key) (p : Path) (e : Node)
    (vf : Flags) (vk : LeafKind)
    (hs : dictAlong (k :: p) s = true) (ho : liveAlong (k :: p) o = true)
    (hmerge : mergeF fuel s o = .ok (r, b))
    (hse : getNode s (k :: p) = some e) (hod : getNode o (k :: p) = some (.leaf vf vk))
    (hkind : plainKind e = true) (hprio : hasPrio vf e.flags true = true)
    (hkeep : removedBy (.leaf vf vk) = false) :
    (native r).at? (k :: p) = some (native (.leaf vf vk)) := by
  have := leaf_exact_at p k fuel s o r b e vf vk hs ho hmerge hse hod hkind hprio []
  rw [List.append_nil] at this
  rw [this, hkeep]
  rfl

example : removedBy (.leaf {} (.scalar (.int 6))) = false := by decide +kernel

/- "!clear leaves an empty container of the original kind" — the merge after the pre-merge pass.  The
   pre-merge pass of a `!clear` leaf (`C04_clear_empties_same_kind`) empties the container found at the
   path of the accumulated tree (`.comp cf ck []`) and puts an empty container of the same class in the
   stage, which the enclosing mapping adopts (`.comp cf' ck []`: same class, same priority, same explicit
   delete flag).  The merge then leaves an EMPTY container of that kind (plain mapping or list) at the
   path — EXCEPT when the container carries an explicit `delete=True` (it was itself written with `!del`):
   then the loop iteration is the "explicitly deleted container that came out empty" case and the KEY IS
   REMOVED (`C04_clear_explicit_del_counterexample`). -/
theorem C04_clear_at_path (fuel : Nat) (s o r : Node) (b : Bool) (k : Key) (p : Path) (cf cf' : Flags) (ck : CompKind)
    (hs : dictAlong (k :: p) s = true) (ho : liveAlong (k :: p) o = true)
    (hmerge : mergeF fuel s o = .ok (r, b))
    (hse : getNode s (k :: p) = some (.comp cf ck [])) (hod : getNode o (k :: p) = some (.comp cf' ck []))
    (hck : ck = .dict ∨ ck = .list) (hpr : ePrio cf' = ePrio cf) :
    (native r).at? (k :: p) =
      if cf'.del == some true then none else some (if ck.isDictFam then .dict [] else .list []) :=
  clear_at p k fuel s o r b cf cf' ck hs ho hmerge hse hod hck hpr

-- end to end, three levels down: `{x: {y: {l: [1, 2], z: {p: 1}}}}` ← `{x: {y: {l: !clear, z: !clear}}}`
example : c04Build [.map .none {} [(.str "x", .map .none {} [(.str "y", .map .none {} [
      (.str "l", .seq .none {} [c04Int 1, c04Int 2]), (.str "z", .map .none {} [(.str "p", c04Int 1)])])])],
    .map .none {} [(.str "x", .map .none {} [(.str "y", .map .none {} [
      (.str "l", .scalar .clear {} .empty), (.str "z", .scalar .clear {} .empty)])])]] =
    .ok (.dict [(.str "x", .dict [(.str "y", .dict [(.str "l", .list []), (.str "z", .dict [])])])]) := rfl
example : dictAlong [.str "a"] (.comp {} .dict [(.str "a", .comp {} .list [])]) = true ∧
    liveAlong [.str "a"] (.comp {} .dict [(.str "a", .comp { iDel := some true } .list [])]) = true := by decide +kernel

/- NEW FINDING (model and code agree) — "!clear leaves an empty container of the original kind" FAILS
   when the container was itself written with an explicit `!del`: `{a: !del {x: 1}, b: 2}` ← `{a: !clear}`
   gives `{b: 2}`, not `{a: {}, b: 2}` (the emptied container keeps its explicit `delete=True`, its copy in
   the stage is an explicitly deleted container that comes out empty, and the key loop removes the key);
   likewise three stages `{r: {a: {x: 1}}}` ← `{r: {a: !del {y: 2}}}` ← `{r: {a: !clear}}` give `{r: {}}`.
   An inherited delete flag (`r: !del {a: {x: 1}}` ← `r: {a: !clear}`) does not have this effect. -/
theorem C04_clear_explicit_del_counterexample :
    c04Build [.map .none {} [(.str "a", .map .plain { del := some true } [(.str "x", c04Int 1)]), (.str "b", c04Int 2)],
              .map .none {} [(.str "a", .scalar .clear {} .empty)]] =
        .ok (.dict [(.str "b", .scalar (.int 2))]) ∧
    c04Build [.map .none {} [(.str "r", .map .none {} [(.str "a", .map .none {} [(.str "x", c04Int 1)])])],
              .map .none {} [(.str "r", .map .none {} [(.str "a", .map .plain { del := some true } [(.str "y", c04Int 2)])])],
              .map .none {} [(.str "r", .map .none {} [(.str "a", .scalar .clear {} .empty)])]] =
        .ok (.dict [(.str "r", .dict [])]) ∧
    c04Build [.map .none {} [(.str "r", .map .plain { del := some true } [(.str "a", .map .none {} [(.str "x", c04Int 1)])])],
              .map .none {} [(.str "r", .map .none {} [(.str "a", .scalar .clear {} .empty)])]] =
        .ok (.dict [(.str "r", .dict [(.str "a", .dict [])])]) := by
  refine ⟨rfl, rfl, rfl⟩

/- "!clear leaves an empty container of the original kind", END TO END for any number of stages: the LAST
   stage `o` holds one `!clear` leaf at `k :: p` below plain non-deleting mappings and no other pre-merge
   operator (`clearSpine`), the earlier stages are arbitrary.  If the build succeeds and what the earlier
   stages flatten to holds a plain mapping or list `.comp cf ck cs0` at the path (below mappings), the
   result holds an EMPTY container of that kind at the path — unless the container carries an explicit
   `delete=True`, in which case the key is removed (the new finding above, characterised exactly). -/
theorem C04_clear_last_stage (xs : List Node) (o r : Node) (k : Key) (p : Path) (hx : xs ≠ [])
    (hbuild : flatten (xs ++ [o]) = .ok r)
    (hsp : clearSpine (k :: p) o = true) (ho : liveAlong (k :: p) o = true) :
    ∃ s, flattenWith (premergeF (stagesFuel (xs ++ [o]))) xs = .ok s ∧
      ∀ cf ck cs0, dictAlong (k :: p) s = true → getNode s (k :: p) = some (.comp cf ck cs0) →
        (ck = .dict ∨ ck = .list) →
        (native r).at? (k :: p) =
          if cf.del == some true then none else some (if ck.isDictFam then .dict [] else .list []) :=
  clear_last_stage xs o r k p hx hbuild hsp ho

-- `{x: {y: {l: !clear}}}` as the last of three stages: `x.y.l` is `[]`
example : clearSpine [.str "x", .str "y", .str "l"]
      (c04pNode (.map .none {} [(.str "x", .map .none {} [(.str "y", .map .none {} [(.str "l", .scalar .clear {} .empty)])])])) = true ∧
    liveAlong [.str "x", .str "y", .str "l"]
      (c04pNode (.map .none {} [(.str "x", .map .none {} [(.str "y", .map .none {} [(.str "l", .scalar .clear {} .empty)])])])) = true ∧
    c04pOkAt (flatten [c04pSP, c04pS,
      c04pNode (.map .none {} [(.str "x", .map .none {} [(.str "y", .map .none {} [(.str "l", .scalar .clear {} .empty)])])])])
      [.str "x", .str "y", .str "l"] (some (.list [])) = true := by
  decide +kernel

/-! ### (5) through `flatten`: the deleting node in the last stage -/

/- "When the newer document's node at a path is deleting … the merged content at that path is exactly the
   newer node's content", for ANY number of stages: `xs ++ [o]` with the deleting node in the LAST stage
   `o`, which contains no pre-merge operator (`!append`, `!extend`, `!prev`, `!clear`, nested stream:
   `opFree`; the earlier stages are arbitrary).  If the build succeeds, the earlier stages flatten to some
   accumulated tree `s` (under the same pre-merge fuel), the last step is ONE merge, and WHATEVER the
   earlier stages were: if `s` has a node `e` at the path (through mappings) that does not outrank `d` and
   has nothing protected, the content at the path is exactly that of `d` (value-less `!del`: removed), and
   every path `o` does not mention keeps what the earlier stages left there. -/
theorem C04_last_stage_del_exact (xs : List Node) (o r : Node) (k : Key) (p : Path) (d : Node)
    (hx : xs ≠ []) (hop : C07P.opFree o = true) (hbuild : flatten (xs ++ [o]) = .ok r)
    (ho : liveAlong (k :: p) o = true) (hod : getNode o (k :: p) = some d) (hdel : eDel d = true) :
    ∃ s, flattenWith (premergeF (stagesFuel (xs ++ [o]))) xs = .ok s ∧ merge s o = .ok r ∧
      (∀ e, dictAlong (k :: p) s = true → getNode s (k :: p) = some e → plainKind e = true →
        hasPrio d.flags e.flags true = true → noneProtected d e = true →
        (native r).at? (k :: p) = (if removedBy d then none else some (native d))) ∧
      (∀ q, dictAlong q s = true → divergesLive q o = true → (native r).at? q = (native s).at? q) := by
  obtain ⟨s, bb, h1, h2⟩ := flatten_last xs o r hx hop hbuild
  refine ⟨s, h1, by simp [merge, h2], ?_, ?_⟩
  · intro e hs hse hk hp hn
    exact (C04_del_exact_at_path _ s o r bb k p e d hs ho h2 hse hod hk hdel hp hn).1
  · intro q hq1 hq2
    exact frame_diverges q _ s o r bb hq1 hq2 h2

-- three stages, the last one deleting at `x.y.z`: whatever the first two wrote there is replaced
-- (nothing protected in `[c04pS, c04pS]`; `p` and `q.y` protected in `[c04pS, c04pSP]`)
example : C07P.opFree c04pO = true ∧
    c04pOkAt (flatten [c04pS, c04pS, c04pO]) (.str "x" :: c04pZ) (some (native (c04pAt c04pO (.str "x" :: c04pZ)))) = true ∧
    c04pOkAt (flatten [c04pS, c04pSP, c04pO]) (.str "x" :: c04pZ)
      (some (.dict [(.str "p", .scalar (.int 1)),
        (.str "q", .dict [(.str "y", .scalar (.int 3)), (.str "v", .scalar (.int 3))]),
        (.str "n", .list [.scalar (.int 5)])])) = true := by
  decide +kernel

end AY
