/-
  C08 — "!notnew can change but never create paths": WHOLE TREES over ANY config.

  Statement (properties.jsonl): "Merging content below a !notnew node succeeds only if every path it
  writes already exists in the config built so far, so that afterwards no path exists that did not
  exist before; otherwise the build fails with a MergeError naming a missing path (a nested !new
  re-allows creation below it). …"

  AY/Props/C08.lean (group 5) proves the whole-tree form for a tag-free config of mappings and scalars
  and a document without any other flag.  This module removes those restrictions:

    config `a`      ANY container (node-level statement: no hypothesis at all), resp. any WELL-KEYED
                    tree (`KI.Keyed` = `WellKeyed`: distinct mapping keys, lists numbered 0..n-1 — every
                    tree the pipeline builds has it: Lemmas/KeyInvariants*.lean) when paths are read on the
                    data: mappings, LISTS (addressed by index, negative spellings included), scalars,
                    function nodes, any flags and priorities;
    document `b`    a mapping whose nodes are mappings and leaves, none of them deleting (`c08w_docL`: no
                    `!del`, nothing below a list), `implicit_allow_new` handed down as the loader does;
                    free: priorities (`!force`/`!weak`), `!merge` marks, nested `!new`/`!notnew`,
                    metadata, safety flags.

    1. `C08_notnew_no_new_path_nodes`     every node below the root has `allow_new` off ⇒ a successful
                                          merge creates no path (ALL configs)
    2. `C08_notnew_no_new_path_prio`      the same on the data of a well-keyed config, with the two
                                          possible failures characterised (priorities / `!merge` allowed)
       `C08_notnew_no_new_path`           … for a document without any other flag (the former `_partial`
                                          statement, now over any well-keyed config with lists)
    3. `C08_nested_new_reallows`          no priorities: the merge succeeds IFF every node written at a
                                          missing path has `allow_new` on and lists are addressed by
                                          existing indices; `…_sufficient`: "if" with any priorities;
       `C08_nested_new_creates_only_below_new`   what a successful merge creates are paths at which the
                                          document has a node with `allow_new` on (any priorities);
       `C08_nested_new_writes_every_path` no priorities: every path the document writes is in the result
                                          (so the created paths are EXACTLY the written paths that were missing)
    4. `C08_notnew_del_restates_only`     a deleting mapping inside the document, one level
    counterexamples (replayed on the implementation): two keys addressing one list element
    (`C08_alias_names_existing_path_counterexample`), priorities against "only if"
    (`C08_prio_success_despite_missing_counterexample`).

  Paths: `c08w_has n p` — `get_child` along `p` (mapping keys, list indices `-len ≤ i < len`);
  on the data `c08_getPlainAtL (native n) p`; the two agree on well-keyed trees (`c08w_has_native`).
  `c08w_noAlias a b`: along every common path no two keys of one mapping of `b` address the same child
  of `a` (`0` and `-len` in a list) — without it a later key meets what an earlier one has written and
  the error may name a path that existed (counterexample below; the finding is D28).
  Definitions and proofs: AY/Lemmas/C08Whole*.lean.
-/
import AY.Lemmas.C08WholeWritten
namespace AY

/-! ### Concrete inputs used by the non-vacuity examples -/

def c08wI (f : Flags) (i : Int) : Node := .leaf f (.scalar (.int i))
/-- inherited flags: below a list of the base / below the `!notnew` root / below a nested `!new` -/
def c08wLst : Flags := { iDel := some true }
def c08wOff : Flags := { iNew := some false }
def c08wOn : Flags := { iNew := some true }

/-- the base config `{m: {layers: [{lr: 1, opt: {x: 1}}, {lr: 2}], z: 0}}` as the loader builds it -/
def c08wBase : Node :=
  .comp {} .dict
    [(.str "m", .comp {} .dict
      [(.str "layers", .comp {} .list
          [(.int 0, .comp c08wLst .dict
              [(.str "lr", c08wI c08wLst 1), (.str "opt", .comp c08wLst .dict [(.str "x", c08wI c08wLst 1)])]),
           (.int 1, .comp c08wLst .dict [(.str "lr", c08wI c08wLst 2)])]),
       (.str "z", c08wI {} 0)])]

def c08wRawI (i : Int) : Raw := .scalar .none {} (.lit (.int i))
def c08wRawM (items : List (Key × Raw)) : Raw := .map .none {} items

example : construct {} (c08wRawM [(.str "m", c08wRawM
      [(.str "layers", .seq .none {} [c08wRawM [(.str "lr", c08wRawI 1), (.str "opt", c08wRawM [(.str "x", c08wRawI 1)])],
                                      c08wRawM [(.str "lr", c08wRawI 2)]]),
       (.str "z", c08wRawI 0)])]) = .ok c08wBase := rfl

/-- children of `!notnew {m: {layers: {-1: {lr: 5}, 0: {opt: {x: 7}}}}}`: reaches into the LAST list
    element by the negative index `-1` and into the first by `0` -/
def c08wOcs1 : List (Key × Node) :=
  [(.str "m", .comp c08wOff .dict
    [(.str "layers", .comp c08wOff .dict
        [(.int (-1), .comp c08wOff .dict [(.str "lr", c08wI c08wOff 5)]),
         (.int 0, .comp c08wOff .dict [(.str "opt", .comp c08wOff .dict [(.str "x", c08wI c08wOff 7)])])])])]

example : construct {} (.map .plain { new := some false } [(.str "m", c08wRawM [(.str "layers", c08wRawM
      [(.int (-1), c08wRawM [(.str "lr", c08wRawI 5)]),
       (.int 0, c08wRawM [(.str "opt", c08wRawM [(.str "x", c08wRawI 7)])])])])]) =
    .ok (.comp { new := some false } .dict c08wOcs1) := rfl

/-- children of `!notnew {m: {layers: {-1: {lrr: 5}}}}` (a mistyped key inside a list element) -/
def c08wOcs2 : List (Key × Node) :=
  [(.str "m", .comp c08wOff .dict
    [(.str "layers", .comp c08wOff .dict [(.int (-1), .comp c08wOff .dict [(.str "lrr", c08wI c08wOff 5)])])])]

/-- children of `!notnew {m: {layers: {2: {lr: 5}}}}` (an index that does not exist) -/
def c08wOcs3 : List (Key × Node) :=
  [(.str "m", .comp c08wOff .dict
    [(.str "layers", .comp c08wOff .dict [(.int 2, .comp c08wOff .dict [(.str "lr", c08wI c08wOff 5)])])])]

/-- children of `!notnew {m: !merge {layers: {-1: !force {lr: 5}, 0: {lr: !weak 9}}}}` -/
def c08wOcs4 : List (Key × Node) :=
  [(.str "m", .comp { del := some false, iNew := some false } .dict
    [(.str "layers", .comp { iDel := some false, iNew := some false } .dict
        [(.int (-1), .comp { prio := some 1, iDel := some false, iNew := some false } .dict
            [(.str "lr", c08wI { prio := some 1, iDel := some false, iNew := some false } 5)]),
         (.int 0, .comp { iDel := some false, iNew := some false } .dict
            [(.str "lr", c08wI { prio := some (-1), iDel := some false, iNew := some false } 9)])])])]

example : construct {} (.map .plain { new := some false } [(.str "m", .map .plain { del := some false }
      [(.str "layers", c08wRawM
        [(.int (-1), .map .plain { prio := some 1 } [(.str "lr", c08wRawI 5)]),
         (.int 0, c08wRawM [(.str "lr", .scalar .plain { prio := some (-1) } (.lit (.int 9)))])])])]) =
    .ok (.comp { new := some false } .dict c08wOcs4) := rfl

/-- children of `!notnew {m: {layers: {-1: !new {extra: {deep: 5}}}}}`: creation re-allowed below
    the last list element -/
def c08wOcs5 : List (Key × Node) :=
  [(.str "m", .comp c08wOff .dict
    [(.str "layers", .comp c08wOff .dict
        [(.int (-1), .comp { new := some true, iNew := some false } .dict
            [(.str "extra", .comp c08wOn .dict [(.str "deep", c08wI c08wOn 5)])])])])]

/-- children of `!notnew {m: {layers: {-1: {extra: !new {deep: 5}}}}}`: the `!new` node itself sits at
    a missing path and is still refused -/
def c08wOcs6 : List (Key × Node) :=
  [(.str "m", .comp c08wOff .dict
    [(.str "layers", .comp c08wOff .dict
        [(.int (-1), .comp c08wOff .dict
            [(.str "extra", .comp { new := some true, iNew := some false } .dict [(.str "deep", c08wI c08wOn 5)])])])])]

def c08wTop : Flags := { new := some false }

/-! ### 1. No path is created — every config -/

/- "Merging content below a !notnew node succeeds only if every path it writes already exists in the
   config built so far, so that afterwards no path exists that did not exist before": for ANY container
   `a` (mapping, list, function node; any flags, priorities, keys — no hypothesis) and any document
   `b = of {ocs}` of mappings and leaves without deleting node (`c08w_nd`, `c08w_docL`; priorities,
   `!merge`, metadata, safety flags free) in which every node below the root has `allow_new` off
   (`allNotNewList`: below `!notnew`, no nested `!new`): if the merge succeeds, the result is a
   container again and every path of it — through `get_child`: mapping keys and list indices, negative
   spellings included — is a path of `a`. -/
theorem C08_notnew_no_new_path_nodes (a : Node) (of : Flags) (ocs : List (Key × Node)) (inh : Option Bool)
    (r : Node) (hac : a.isComp = true) (hnd : c08w_nd of = true) (hocs : c08w_docL inh ocs = true)
    (hn : allNotNewList ocs = true) (h : merge a (.comp of .dict ocs) = .ok r) :
    r.isComp = true ∧ ∀ p, c08w_has r p = true → c08w_has a p = true := by
  unfold merge at h
  split at h
  · cases h
  · rename_i r' s hm
    injection h with h
    subst h
    cases a with
    | leaf f lk => cases hac
    | comp sf sk scs =>
      exact ⟨c08w_mergeF_isComp hnd hm,
        c08w_mergeF_sub _ _ _ inh _ s rfl (c08w_top_root hnd hocs) hn hm⟩

example : c08w_nd c08wTop = true ∧ c08w_docL (some false) c08wOcs1 = true ∧ allNotNewList c08wOcs1 = true ∧
    c08w_docL (some false) c08wOcs4 = true ∧ allNotNewList c08wOcs4 = true := by decide
-- success: the last element (addressed by -1) and the first get new values, no path appears
example : (merge c08wBase (.comp c08wTop .dict c08wOcs1)).map native =
    .ok (.dict [(.str "m", .dict
      [(.str "layers", .list [.dict [(.str "lr", .scalar (.int 1)), (.str "opt", .dict [(.str "x", .scalar (.int 7))])],
                             .dict [(.str "lr", .scalar (.int 5))]]),
       (.str "z", .scalar (.int 0))])]) := rfl
-- with priorities and `!merge`: the `!force` value is written, the `!weak` one loses against the base
example : (merge c08wBase (.comp c08wTop .dict c08wOcs4)).map native =
    .ok (.dict [(.str "m", .dict
      [(.str "layers", .list [.dict [(.str "lr", .scalar (.int 1)), (.str "opt", .dict [(.str "x", .scalar (.int 1))])],
                             .dict [(.str "lr", .scalar (.int 5))]]),
       (.str "z", .scalar (.int 0))])]) := rfl
-- a config that is not tag-free: a function node with a protected argument list
example : (merge (.comp {} .dict [(.str "f", .comp { del := some true } (.call "fn")
      [(.str "args", .comp { prio := some 1, iDel := some true } .list [(.int 0, c08wI { prio := some 1, iDel := some true } 3)])])])
    (.comp c08wTop .dict [(.str "f", .comp c08wOff .dict [(.str "args", .comp c08wOff .dict [(.int (-1), c08wI c08wOff 4)])])])).map native =
    .ok (.dict [(.str "f", .dict [(.str "args", .list [.scalar (.int 3)])])]) := rfl

/-! ### 2. On the data of a well-keyed config, with the failures -/

/- "… so that afterwards no path exists that did not exist before; otherwise the build fails with a
   MergeError naming a missing path" — priorities (`!force`/`!weak` on nodes of the document) and
   non-deleting `!merge` marks allowed.  `a`: any well-keyed container (`KI.Keyed` = `WellKeyed`, what
   the pipeline builds), `b = of {ocs}`: as in 1, without duplicated sibling keys.  Then `merge a b`
   * either succeeds: the result is again a well-keyed container (the statement can be chained) and
     every path of its data (`c08_getPlainAtL`: mapping keys, existing list indices `-len ≤ i < len`)
     is a path of the data of `a`;
   * or fails, and — when no two keys of a mapping address the same child (`c08w_noAlias`) — it fails
     in exactly one of two ways:
       - `notnew p` (the MergeError of `_require_all_new`): `p` is a path that `b` writes, the node `m`
         there has `allow_new` off, and `p` does not exist in the data of `a`;
       - `merge` (ConfigList's index validation, a MergeError WITHOUT path): at a common path `q` the
         config holds a list `xs`, the document a mapping, and one of its keys is no existing index of
         `xs` (`listIndex xs.length key = none`: not an integer, `key ≥ len` or `key < -len`).
   No other error is possible. -/
theorem C08_notnew_no_new_path_prio (a : Node) (of : Flags) (ocs : List (Key × Node)) (inh : Option Bool)
    (ha : KI.Keyed a = true) (hac : a.isComp = true) (hnd : c08w_nd of = true)
    (hocs : c08w_docL inh ocs = true) (hn : allNotNewList ocs = true)
    (hbk : c08_keysNodupH (.comp of .dict ocs) = true) :
    match merge a (.comp of .dict ocs) with
    | .ok r => KI.Keyed r = true ∧ r.isComp = true ∧
        ∀ q, (c08_getPlainAtL (native r) q).isSome = true → (c08_getPlainAtL (native a) q).isSome = true
    | .error e => c08w_noAlias a (.comp of .dict ocs) = true →
        (∃ p m, e = .notnew p ∧ p ≠ [] ∧ c08_nodeAt (.comp of .dict ocs) p m ∧ eNew m.flags = false ∧
          c08_getPlainAtL (native a) p = none) ∨
        (e = .merge ∧ ∃ q xs of' ocs' key o, c08_getPlainAtL (native a) q = some (.list xs) ∧
          c08_nodeAt (.comp of .dict ocs) q (.comp of' .dict ocs') ∧ (key, o) ∈ ocs' ∧
          listIndex xs.length key = none) := by
  have hkb := c08w_keyed_root hocs hbk
  cases hm : merge a (.comp of .dict ocs) with
  | ok r =>
    have hkr := KI.merge_keyed ha hkb hm
    obtain ⟨h1, h2⟩ := C08_notnew_no_new_path_nodes a of ocs inh r hac hnd hocs hn hm
    refine ⟨hkr, h1, fun q hq => ?_⟩
    rw [← c08w_has_native q a ha]
    exact h2 q (by rw [c08w_has_native q r hkr]; exact hq)
  | error e =>
    intro hna
    unfold merge at hm
    split at hm
    · rename_i e' hmf
      injection hm with hm
      subst hm
      exact (c08w_ErrSpec_iff ha _ _).1
        (c08w_mergeF_err _ a _ inh _ (Nat.lt_succ_self _) ha (c08w_top_root hnd hocs) hna hmf)
    · cases hm

example : KI.Keyed c08wBase = true ∧ c08_keysNodupH (.comp c08wTop .dict c08wOcs1) = true ∧
    c08w_noAlias c08wBase (.comp c08wTop .dict c08wOcs1) = true := by decide
example : c08w_docL (some false) c08wOcs2 = true ∧ allNotNewList c08wOcs2 = true ∧
    c08w_docL (some false) c08wOcs3 = true ∧ allNotNewList c08wOcs3 = true ∧
    c08w_noAlias c08wBase (.comp c08wTop .dict c08wOcs2) = true ∧
    c08w_noAlias c08wBase (.comp c08wTop .dict c08wOcs3) = true := by decide
-- the mistyped key inside the last list element is named, with the index as the document spells it
example : merge c08wBase (.comp c08wTop .dict c08wOcs2) =
    .error (.notnew [.str "m", .str "layers", .int (-1), .str "lrr"]) := rfl
example : c08_getPlainAtL (native c08wBase) [.str "m", .str "layers", .int (-1), .str "lrr"] = none ∧
    c08_getPlainAtL (native c08wBase) [.str "m", .str "layers", .int (-1), .str "lr"] = some (.scalar (.int 2)) := ⟨rfl, rfl⟩
-- an index that does not exist: the path-less MergeError
example : merge c08wBase (.comp c08wTop .dict c08wOcs3) = .error .merge := rfl
example : listIndex 2 (.int 2) = none ∧ listIndex 2 (.int (-2)) = some 0 ∧ listIndex 2 (.int (-3)) = none ∧
    listIndex 2 (.str "x") = none := by decide
-- the theorem applied to the override with priorities and `!merge`
example := C08_notnew_no_new_path_prio c08wBase c08wTop c08wOcs4 (some false) (by decide) rfl (by decide)
  (by decide) (by decide) (by decide)

/- The same for a document without any other flag: every node below the root is a mapping or scalar
   carrying only `implicit_allow_new=False` (`c08_nnDocList`, `c08_docFlags`: the hypotheses of
   `C08_notnew_no_new_path_partial`), over ANY well-keyed config — mappings, lists addressed by index
   (negative spellings included), scalars, function nodes, any flags. -/
theorem C08_notnew_no_new_path (a : Node) (of : Flags) (ocs : List (Key × Node))
    (ha : KI.Keyed a = true) (hac : a.isComp = true) (ho : c08_docFlags of = true)
    (hocs : c08_nnDocList ocs = true) (hbk : c08_keysNodupH (.comp of .dict ocs) = true) :
    match merge a (.comp of .dict ocs) with
    | .ok r => KI.Keyed r = true ∧ r.isComp = true ∧
        ∀ q, (c08_getPlainAtL (native r) q).isSome = true → (c08_getPlainAtL (native a) q).isSome = true
    | .error e => c08w_noAlias a (.comp of .dict ocs) = true →
        (∃ p m, e = .notnew p ∧ p ≠ [] ∧ c08_nodeAt (.comp of .dict ocs) p m ∧ eNew m.flags = false ∧
          c08_getPlainAtL (native a) p = none) ∨
        (e = .merge ∧ ∃ q xs of' ocs' key o, c08_getPlainAtL (native a) q = some (.list xs) ∧
          c08_nodeAt (.comp of .dict ocs) q (.comp of' .dict ocs') ∧ (key, o) ∈ ocs' ∧
          listIndex xs.length key = none) := by
  obtain ⟨h1, h2, _⟩ := c08w_docL_of_nnDocList ocs hocs
  exact C08_notnew_no_new_path_prio a of ocs (some false) ha hac (c08w_nd_of_docFlags ho) h1 h2 hbk

example : c08_docFlags c08wTop = true ∧ c08_nnDocList c08wOcs1 = true ∧ c08_nnDocList c08wOcs2 = true ∧
    c08_nnDocList c08wOcs3 = true := by decide
example := C08_notnew_no_new_path c08wBase c08wTop c08wOcs2 (by decide) rfl (by decide) (by decide) (by decide)

/-! ### 3. A nested `!new` re-allows creation: the "iff" -/

/- "(a nested !new re-allows creation below it)": if every node that the document writes at a path
   MISSING in the data of `a` has `allow_new` on (it sits below a nested `!new`), and every mapping that
   meets a list of `a` uses existing indices only, the merge succeeds — for any priorities on both
   sides.  (`a` well-keyed, `b` without deleting node and without duplicated keys, no two keys of a
   mapping addressing the same child.) -/
theorem C08_nested_new_reallows_sufficient (a : Node) (of : Flags) (ocs : List (Key × Node)) (inh : Option Bool)
    (ha : KI.Keyed a = true) (hnd : c08w_nd of = true) (hocs : c08w_docL inh ocs = true)
    (hna : c08w_noAlias a (.comp of .dict ocs) = true)
    (hnew : ∀ p m, c08_nodeAt (.comp of .dict ocs) p m → p ≠ [] →
      (c08_getPlainAtL (native a) p).isSome = true ∨ eNew m.flags = true)
    (hidx : ¬ ∃ q xs of' ocs' key o, c08_getPlainAtL (native a) q = some (.list xs) ∧
      c08_nodeAt (.comp of .dict ocs) q (.comp of' .dict ocs') ∧ (key, o) ∈ ocs' ∧ listIndex xs.length key = none) :
    ∃ r, merge a (.comp of .dict ocs) = .ok r := by
  cases hm : merge a (.comp of .dict ocs) with
  | ok r => exact ⟨r, rfl⟩
  | error e =>
    exfalso
    unfold merge at hm
    split at hm
    · rename_i e' hmf
      have hs := (c08w_ErrSpec_iff ha _ _).1
        (c08w_mergeF_err _ a _ inh _ (Nat.lt_succ_self _) ha (c08w_top_root hnd hocs) hna hmf)
      rcases hs with ⟨p, m, _, hp, hnode, hnw, hmiss⟩ | ⟨_, hbad⟩
      · rcases hnew p m hnode hp with h | h
        · rw [hmiss] at h; cases h
        · rw [hnw] at h; cases h
      · exact hidx hbad
    · cases hm

/- The "iff": when no priorities are involved (`c08w_noPrio`: none on the config, none on the document),
   `merge a b` succeeds IF AND ONLY IF every node of `b` at a path missing in `a` has `allow_new` on and
   no mapping of `b` addresses a list of `a` with a key that is no existing index.  In particular a
   nested `!new` node that itself sits at a missing path is still refused (its own flag is inherited
   from the `!notnew` above it), its content is not. -/
theorem C08_nested_new_reallows (a : Node) (of : Flags) (ocs : List (Key × Node)) (inh : Option Bool)
    (ha : KI.Keyed a = true) (hac : a.isComp = true) (hap : c08w_noPrio a = true)
    (hnd : c08w_nd of = true) (hocs : c08w_docL inh ocs = true)
    (hbp : c08w_noPrio (.comp of .dict ocs) = true)
    (hna : c08w_noAlias a (.comp of .dict ocs) = true) :
    (∃ r, merge a (.comp of .dict ocs) = .ok r) ↔
      ((∀ p m, c08_nodeAt (.comp of .dict ocs) p m → p ≠ [] →
          (c08_getPlainAtL (native a) p).isSome = true ∨ eNew m.flags = true) ∧
       ¬ ∃ q xs of' ocs' key o, c08_getPlainAtL (native a) q = some (.list xs) ∧
          c08_nodeAt (.comp of .dict ocs) q (.comp of' .dict ocs') ∧ (key, o) ∈ ocs' ∧
          listIndex xs.length key = none) := by
  constructor
  · rintro ⟨r, hm⟩
    unfold merge at hm
    split at hm
    · cases hm
    · rename_i r' s hmf
      exact (c08w_Cond_iff ha _).1
        (c08w_mergeF_cond _ a _ inh r' s ha hac hap hbp (c08w_top_root hnd hocs) hna hmf)
  · rintro ⟨h1, h2⟩
    exact C08_nested_new_reallows_sufficient a of ocs inh ha hnd hocs hna h1 h2

example : c08w_noPrio c08wBase = true ∧ c08w_docL (some false) c08wOcs5 = true ∧
    c08w_noPrio (.comp c08wTop .dict c08wOcs5) = true ∧ c08w_noAlias c08wBase (.comp c08wTop .dict c08wOcs5) = true ∧
    c08w_docL (some false) c08wOcs6 = true ∧ c08w_noAlias c08wBase (.comp c08wTop .dict c08wOcs6) = true := by decide
-- creation below the last list element, re-allowed by the `!new` on the element's mapping
example : (merge c08wBase (.comp c08wTop .dict c08wOcs5)).map native =
    .ok (.dict [(.str "m", .dict
      [(.str "layers", .list [.dict [(.str "lr", .scalar (.int 1)), (.str "opt", .dict [(.str "x", .scalar (.int 1))])],
                             .dict [(.str "lr", .scalar (.int 2)), (.str "extra", .dict [(.str "deep", .scalar (.int 5))])]]),
       (.str "z", .scalar (.int 0))])]) := rfl
-- the `!new` node itself at a missing path: refused, and named
example : merge c08wBase (.comp c08wTop .dict c08wOcs6) =
    .error (.notnew [.str "m", .str "layers", .int (-1), .str "extra"]) := rfl
example := C08_nested_new_reallows c08wBase c08wTop c08wOcs5 (some false) (by decide) rfl (by decide) (by decide)
  (by decide) (by decide) (by decide)

/- "(a nested !new re-allows creation below it)" — and nothing else is created: after a successful merge
   (any priorities, nested `!new` / `!notnew` anywhere in the document) every path of the result is a
   path of `a`, or it is a path at which the document has a node whose `allow_new` is on — up to the
   spelling of list indices: `c08w_samePath r p p'` says that `p` and `p'` address the same entries of
   the result component by component (the document may write `layers[-1]` for what the result lists
   as `layers[1]`). -/
theorem C08_nested_new_creates_only_below_new (a : Node) (of : Flags) (ocs : List (Key × Node))
    (inh : Option Bool) (r : Node) (ha : KI.Keyed a = true) (hac : a.isComp = true)
    (hnd : c08w_nd of = true) (hocs : c08w_docL inh ocs = true)
    (hna : c08w_noAlias a (.comp of .dict ocs) = true) (h : merge a (.comp of .dict ocs) = .ok r) :
    ∀ p, c08w_has r p = true → c08w_has a p = true ∨
      ∃ p' m, c08_nodeAt (.comp of .dict ocs) p' m ∧ eNew m.flags = true ∧ c08w_samePath r p p' := by
  unfold merge at h
  split at h
  · cases h
  · rename_i r' s hmf
    injection h with h
    subst h
    exact c08w_mergeF_new _ a _ inh _ s ha hac (c08w_top_root hnd hocs) hna hmf

/-- the result of merging `c08wOcs5` onto the base -/
def c08wRes5 : Node :=
  match merge c08wBase (.comp c08wTop .dict c08wOcs5) with
  | .ok r => r
  | .error _ => c08wBase

example : merge c08wBase (.comp c08wTop .dict c08wOcs5) = .ok c08wRes5 := rfl
-- the created path `m.layers[1].extra.deep` is the document's `m.layers[-1].extra.deep`, a node with `allow_new` on
example : c08w_has c08wRes5 [.str "m", .str "layers", .int 1, .str "extra", .str "deep"] = true ∧
    c08w_has c08wBase [.str "m", .str "layers", .int 1, .str "extra", .str "deep"] = false ∧
    c08w_samePath c08wRes5 [.str "m", .str "layers", .int 1, .str "extra", .str "deep"]
      [.str "m", .str "layers", .int (-1), .str "extra", .str "deep"] ∧
    (getNode (.comp c08wTop .dict c08wOcs5) [.str "m", .str "layers", .int (-1), .str "extra", .str "deep"]).map
      (fun m => eNew m.flags) = some true := by
  refine ⟨rfl, rfl, ?_, rfl⟩
  exact .cons rfl rfl (.cons rfl rfl (.cons rfl rfl (.cons rfl rfl (.cons rfl rfl (.nil _)))))
example := C08_nested_new_creates_only_below_new c08wBase c08wTop c08wOcs5 (some false) c08wRes5 (by decide) rfl
  (by decide) (by decide) (by decide) rfl

/- The other half of "the created paths are exactly those below such nodes": when no priorities are
   involved, after a successful merge every path the document writes exists in the result (a newer node
   always replaces a leaf, mappings are merged key by key) — so the paths created are exactly the paths
   the document writes and the config lacks, all of them at nodes whose `allow_new` is on
   (`C08_nested_new_reallows`), and none else (`C08_nested_new_creates_only_below_new`).  With
   priorities this fails: `C08_prio_success_despite_missing_counterexample` below. -/
theorem C08_nested_new_writes_every_path (a : Node) (of : Flags) (ocs : List (Key × Node))
    (inh : Option Bool) (r : Node) (ha : KI.Keyed a = true) (hac : a.isComp = true)
    (hap : c08w_noPrio a = true) (hnd : c08w_nd of = true) (hocs : c08w_docL inh ocs = true)
    (hbp : c08w_noPrio (.comp of .dict ocs) = true) (hbk : c08_keysNodupH (.comp of .dict ocs) = true)
    (hna : c08w_noAlias a (.comp of .dict ocs) = true) (h : merge a (.comp of .dict ocs) = .ok r) :
    ∀ p m, c08_nodeAt (.comp of .dict ocs) p m → c08w_has r p = true := by
  unfold merge at h
  split at h
  · cases h
  · rename_i r' s hmf
    injection h with h
    subst h
    exact c08w_mergeF_written _ a _ inh _ s ha (c08w_keyed_root hocs hbk) hac hap hbp
      (c08w_top_root hnd hocs) hna hmf

-- the document's own spelling `m.layers[-1].extra.deep` is a path of the result
example : c08w_has c08wRes5 [.str "m", .str "layers", .int (-1), .str "extra", .str "deep"] = true ∧
    c08_keysNodupH (.comp c08wTop .dict c08wOcs5) = true := ⟨rfl, by decide⟩
example := C08_nested_new_writes_every_path c08wBase c08wTop c08wOcs5 (some false) c08wRes5 (by decide) rfl
  (by decide) (by decide) (by decide) (by decide) (by decide) (by decide) rfl

/-! ### 4. A deleting mapping inside the document (one level) -/

/- "succeeds only if every path it writes already exists in the config built so far": for a DELETING
   mapping `o = of {ocs}` of the document (an explicit `!del`; `eDel`) whose children all have
   `allow_new` off, merged onto a mapping `s = sf {scs}` — the pruning of `s` may leave protected
   siblings (`!force`) behind, the others are removed — success implies that every key of `o`, and every
   key of the result, was a key of `s` before the merge: a key is accepted when it survived the pruning
   or has just been removed by it (since repair D35 the key loop excepts the removed paths, as the early
   exit always did: `C08_notnew_dict_no_new_key`), never otherwise.  One level, any recursive merge
   `rec`: below the surviving children the removed paths of THIS level are not excepted (recorded finding
   D39, `C05_nested_del_sibling_counterexample`), so nothing is claimed about deeper levels. -/
theorem C08_notnew_del_restates_only (rec : Node → Node → Except Err (Node × Bool)) (sf of : Flags)
    (scs ocs : List (Key × Node)) (r : Node) (same : Bool)
    (hdel : eDel (.comp of .dict ocs) = true) (hn : allNotNewList ocs = true)
    (h : compMerge rec sf .dict scs (.comp of .dict ocs) = .ok (r, same)) :
    (∀ k ∈ akeys ocs, k ∈ akeys scs) ∧ (∀ k ∈ akeys r.children, k ∈ akeys scs) :=
  c08w_del_restates_only rec sf of scs ocs r same hdel hn h

/-- `{keep: !force 1, opt: {lr: 1}}` -/
def c08wDelScs : List (Key × Node) :=
  [(.str "keep", c08wI { prio := some 1 } 1), (.str "opt", .comp {} .dict [(.str "lr", c08wI {} 1)])]
def c08wDelIn : Flags := { iDel := some true, iNew := some false }
/-- children of `!del {opt: {lr: 2}}` / of `!del {opt: {lr: 2, lrr: 3}}` below `!notnew` -/
def c08wDelOcsGood : List (Key × Node) := [(.str "opt", .comp c08wDelIn .dict [(.str "lr", c08wI c08wDelIn 2)])]
def c08wDelOcsBad : List (Key × Node) :=
  [(.str "opt", .comp c08wDelIn .dict [(.str "lr", c08wI c08wDelIn 2), (.str "lrr", c08wI c08wDelIn 3)])]
def c08wDelF : Flags := { del := some true, iNew := some false }

example : eDel (.comp c08wDelF .dict c08wDelOcsGood) = true ∧ allNotNewList c08wDelOcsGood = true := by decide
-- restating what was there builds (next to the protected sibling `keep`) …
example : (mergeF 3 (.comp {} .dict c08wDelScs) (.comp c08wDelF .dict c08wDelOcsGood)).map (fun x => native x.1) =
    .ok (.dict [(.str "keep", .scalar (.int 1)), (.str "opt", .dict [(.str "lr", .scalar (.int 2))])]) := rfl
-- … a key that was not there is a MergeError naming it
example : mergeF 3 (.comp {} .dict c08wDelScs) (.comp c08wDelF .dict c08wDelOcsBad) =
    .error (.notnew [.str "opt", .str "lrr"]) := rfl
-- a new key at the level of the deleting mapping itself
example : mergeF 3 (.comp {} .dict c08wDelScs) (.comp c08wDelF .dict [(.str "optt", c08wI c08wDelIn 2)]) =
    .error (.notnew [.str "optt"]) := rfl
example := C08_notnew_del_restates_only (mergeF 2) {} c08wDelF c08wDelScs c08wDelOcsGood _ _ (by decide) (by decide) rfl

/-! ### Counterexamples (both replayed on the implementation) -/

/- Why `c08w_noAlias` is needed for "naming a MISSING path": `{l: [{x: 1}]}` ← `!notnew {l: {0: 5, -1: {x: 2}}}`.
   The keys `0` and `-1` address the same element; the first replaces the mapping by `5`, the second then
   finds a scalar and fails naming `l[-1].x` — a path that existed in the config before the merge. -/
theorem C08_alias_names_existing_path_counterexample :
    let a : Node := .comp {} .dict [(.str "l", .comp {} .list [(.int 0, .comp c08wLst .dict [(.str "x", c08wI c08wLst 1)])])]
    let b : Node := .comp c08wTop .dict [(.str "l", .comp c08wOff .dict
      [(.int 0, c08wI c08wOff 5), (.int (-1), .comp c08wOff .dict [(.str "x", c08wI c08wOff 2)])])]
    KI.Keyed a = true ∧ c08_keysNodupH b = true ∧ c08w_noAlias a b = false ∧
    merge a b = .error (.notnew [.str "l", .int (-1), .str "x"]) ∧
    c08_getPlainAtL (native a) [.str "l", .int (-1), .str "x"] = some (.scalar (.int 1)) := by
  refine ⟨by decide, by decide, by decide, rfl, rfl⟩

/- Why "no priorities" is needed for the "only if" of `C08_nested_new_reallows`: `{k: !force 5}` ←
   `!notnew {k: {x: 1}}` builds (the protected scalar wins, the mapping is dropped), although the document
   writes `k.x`, which is missing and has `allow_new` off.  Nothing is created — `C08_notnew_no_new_path_nodes`
   holds — but success does not mean that every written path existed. -/
theorem C08_prio_success_despite_missing_counterexample :
    let a : Node := .comp {} .dict [(.str "k", c08wI { prio := some 1 } 5)]
    let b : Node := .comp c08wTop .dict [(.str "k", .comp c08wOff .dict [(.str "x", c08wI c08wOff 1)])]
    (merge a b).map native = .ok (.dict [(.str "k", .scalar (.int 5))]) ∧
    c08_nodeAt b [.str "k", .str "x"] (c08wI c08wOff 1) ∧ eNew (c08wI c08wOff 1).flags = false ∧
    c08_getPlainAtL (native a) [.str "k", .str "x"] = none ∧ c08w_noAlias a b = true ∧ c08w_noPrio a = false := by
  intro a b
  refine ⟨rfl, ?_, rfl, rfl, by decide, by decide⟩
  exact .child (c := .comp c08wOff .dict [(.str "x", c08wI c08wOff 1)]) (List.mem_singleton.2 rfl)
    (.child (c := c08wI c08wOff 1) (List.mem_singleton.2 rfl) (.root _))

end AY
