/-
  AY.Props.C10_Order — "the evaluated config does not depend on the order in which keys are
  written in the documents" (last open clause of C10).

  The statements are about `evalNodeF` / `evaluate` of AY.Model.Eval. Lemmas and the definitions
  used in the statements live in AY.Lemmas.OrderLemmas:

  * `den root w fuel n path : Option Val`, `Den root w n path v := ∃ fuel, den … = some v` — the
    *denotation* of the node `n` at `path`: the value computed from the tree alone, without memo
    table, in-progress set, taint marks or log (references are followed through the tree, the root
    is never a legal end of a chain of references — it is under evaluation during the whole build).
  * `Reach root w st` — the states in which the evaluator is called in the course of
    `evaluate w root`: the state in which the root's children are evaluated, closed under entering a
    not yet memoised path, reading a tainted memo entry and any successful `evalNodeF` on a node of
    the tree.
  * `DInv root w st` — cache correctness: `WF st`, the root is in progress, every memoised value is
    the denotation of the node of the tree at that path (`COK`).

  Values carry the path of the node that produced them as object id, so equality of values is also
  identity of the objects. `uniqueKeys`: the children of every container have pairwise distinct keys
  (`_children` is a Python dict).
-/
import AY.Props.C10
import AY.Lemmas.OrderLemmas
namespace AY

/-! ### inputs of the examples -/

/-- children of `c10ExTree` and one more import: two references, a call with an import argument,
    a bind whose argument is a reference, an import -/
def c10OrdCs : List (Key × Node) := [
  (.str "r1", .leaf {} (.xref "f")),
  (.str "f", .comp {} (.call "f") [(.str "a", .leaf {} (.imp "os"))]),
  (.str "r2", .leaf {} (.xref "r1")),
  (.str "g", .comp {} (.bind "f") [(.str "a", .leaf {} (.xref "f"))]),
  (.str "h", .leaf {} (.imp "os"))]

/-- the tree as written, and with its keys written in the opposite order -/
def c10OrdTree : Node := .comp {} .dict c10OrdCs
def c10OrdTreeP : Node := .comp {} .dict c10OrdCs.reverse

def c10OrdCall : Node := .comp {} (.call "f") [(.str "a", .leaf {} (.imp "os"))]
def c10OrdBind : Node := .comp {} (.bind "f") [(.str "a", .leaf {} (.xref "f"))]

/-- the state in which the root's children are evaluated -/
def c10OrdStart : EvSt := enter [] (bump c10OrdTree {})

/-- the state after `g` (and with it `f` and `f.a`) was evaluated first -/
def c10OrdLater : EvSt :=
  match evalNodeF c10OrdTree c10ExWorld 9 false c10OrdBind [.str "g"] c10OrdStart with
  | .ok (_, s) => s
  | .error _ => {}

/-! ### The memo table only avoids recomputation -/

/- Cache correctness is an invariant of the evaluator: in a state where every memoised value is the
   denotation of its node (`DInv`), a successful `evaluate_node` on a node of the tree returns the
   denotation of that node — a function of the tree and the path alone — and leads to such a state
   again. -/
theorem C10_cache_correct (root : Node) (w : World) (huk : uniqueKeys root = true) (fuel : Nat)
    (rs : Bool) (n : Node) (path : Path) (st st' : EvSt) (v : Val)
    (hI : DInv root w st) (hp : Placed root n path)
    (h : evalNodeF root w fuel rs n path st = .ok (v, st')) :
    DInv root w st' ∧ Den root w n path v :=
  have := evalNodeF_den root w huk fuel rs n path st v st' hp hI h
  ⟨this.1, this.2.1⟩

example : DInv c10OrdTree c10ExWorld c10OrdStart := DInv.start _ _

/- the denotation is a partial function of (tree, node, path) -/
theorem C10_denotation_unique (root : Node) (w : World) (n : Node) (path : Path) (v v' : Val)
    (h : Den root w n path v) (h' : Den root w n path v') : v = v' :=
  h.unique h'

example : Den c10OrdTree c10ExWorld c10OrdCall [.str "f"] (.app [.str "f"] "f" [("a", .sym "os")] [] []) :=
  ⟨2, rfl⟩

/- "the evaluated config does not depend on the order …", core: state-independence of successful
   results. Two successful evaluations of the same node of the tree, started in *any* two states
   reached in the course of a build (different memo tables, different in-progress sets, different
   taint marks, different fuel, strict or not), return the same value (same object id). -/
theorem C10_cache_irrelevant (root : Node) (w : World) (huk : uniqueKeys root = true)
    (fuel1 fuel2 : Nat) (rs1 rs2 : Bool) (n : Node) (path : Path) (st1 st2 st1' st2' : EvSt)
    (v1 v2 : Val) (hr1 : Reach root w st1) (hr2 : Reach root w st2) (hp : Placed root n path)
    (h1 : evalNodeF root w fuel1 rs1 n path st1 = .ok (v1, st1'))
    (h2 : evalNodeF root w fuel2 rs2 n path st2 = .ok (v2, st2')) : v1 = v2 :=
  (C10_cache_correct root w huk fuel1 rs1 n path st1 st1' v1 (hr1.dinv huk) hp h1).2.unique
    (C10_cache_correct root w huk fuel2 rs2 n path st2 st2' v2 (hr2.dinv huk) hp h2).2

/- the call `f` evaluated from the start state (nothing memoised: it runs) and from the state after
   `g` was built (memoised: a hit), once non-strict and once strict -/
example : Reach c10OrdTree c10ExWorld c10OrdStart ∧ Reach c10OrdTree c10ExWorld c10OrdLater ∧
    c10OrdStart.cache.length = 0 ∧ c10OrdLater.cache.length = 4 ∧
    (∃ s, evalNodeF c10OrdTree c10ExWorld 5 false c10OrdCall [.str "f"] c10OrdStart =
      .ok (.app [.str "f"] "f" [("a", .sym "os")] [] [], s)) ∧
    (∃ s, evalNodeF c10OrdTree c10ExWorld 3 true c10OrdCall [.str "f"] c10OrdLater =
      .ok (.app [.str "f"] "f" [("a", .sym "os")] [] [], s)) :=
  ⟨Reach.start, Reach.eval (fuel := 9) (rs := false) (n := c10OrdBind) (path := [.str "g"])
      (v := .part [.str "g"] "f" [] [("a", .app [.str "f"] "f" [("a", .sym "os")] [] [])])
      Reach.start (Placed.of_getNode (root := c10OrdTree) rfl) rfl,
    rfl, rfl, ⟨_, rfl⟩, ⟨_, rfl⟩⟩

/- every memoised value is the value a fresh evaluation gives: whatever state (reached in a build)
   a consumer evaluates the path from, if it succeeds it obtains the memoised value -/
theorem C10_memo_is_fresh_value (root : Node) (w : World) (huk : uniqueKeys root = true)
    (st : EvSt) (p : Path) (a : Val) (hr : Reach root w st) (hc : plookup p st.cache = some a)
    (fuel : Nat) (rs : Bool) (n : Node) (s0 s0' : EvSt) (v : Val) (hr0 : Reach root w s0)
    (hp : Placed root n p) (h : evalNodeF root w fuel rs n p s0 = .ok (v, s0')) : v = a := by
  obtain ⟨n', hn', hd⟩ := (hr.dinv huk).ok p a hc
  have hgn := (hp.getNode_uniq huk).1
  rw [hgn] at hn'; cases hn'
  exact (C10_cache_correct root w huk fuel rs n p s0 s0' v (hr0.dinv huk) hp h).2.unique hd

example : plookup [.str "f"] c10OrdLater.cache = some (.app [.str "f"] "f" [("a", .sym "os")] [] []) := rfl

/-! ### Key order -/

/- "the evaluated config does not depend on the order in which keys are written in the documents":
   let `cs'` be any permutation of the children `cs` of the root mapping (both trees with pairwise
   distinct keys). If both builds succeed, both return a mapping, the items of the two mappings are
   permutations of each other — as (key, value) pairs, values equal including their object ids — and
   the execution logs are permutations of each other (each dynamic node of the tree runs exactly once
   in both builds, `C10_exactly_once`). -/
theorem C10_key_order (w : World) (fl : Flags) (cs cs' : List (Key × Node)) (v v' : Val) (st st' : EvSt)
    (hperm : cs'.Perm cs)
    (huk : uniqueKeys (.comp fl .dict cs) = true) (huk' : uniqueKeys (.comp fl .dict cs') = true)
    (h : evaluate w (.comp fl .dict cs) = .ok (v, st))
    (h' : evaluate w (.comp fl .dict cs') = .ok (v', st')) :
    (∃ items items', v = .dict [] items ∧ v' = .dict [] items' ∧ items'.Perm items) ∧
    st'.log.Perm st.log :=
  ⟨evaluate_permRoot_items hperm huk huk' h h', evaluate_permRoot_log hperm huk huk' h h'⟩

/- both orders of `c10OrdCs` build; four dynamic nodes (two `!import`, `!call`, `!bind`) and three
   references; written backwards, `h` runs first and `g` pulls `f` in through its argument: the logs
   and the memo tables are filled in different orders -/
example : c10OrdCs.reverse.Perm c10OrdCs ∧ uniqueKeys c10OrdTree = true ∧ uniqueKeys c10OrdTreeP = true ∧
    (∃ v st, evaluate c10ExWorld c10OrdTree = .ok (v, st) ∧
      st.log.map (·.path) = [[.str "f", .str "a"], [.str "f"], [.str "g"], [.str "h"]] ∧
      st.cache.map (·.1) = [[], [.str "h"], [.str "g"], [.str "g", .str "a"], [.str "r2"], [.str "r1"],
        [.str "f"], [.str "f", .str "a"]]) ∧
    (∃ v' st', evaluate c10ExWorld c10OrdTreeP = .ok (v', st') ∧
      st'.log.map (·.path) = [[.str "h"], [.str "f", .str "a"], [.str "f"], [.str "g"]] ∧
      st'.cache.map (·.1) = [[], [.str "r1"], [.str "r2"], [.str "g"], [.str "g", .str "a"], [.str "f"],
        [.str "f", .str "a"], [.str "h"]]) := by
  refine ⟨List.reverse_perm _, rfl, rfl, ⟨_, _, rfl, ?_, ?_⟩, ⟨_, _, rfl, ?_, ?_⟩⟩ <;> rfl

example : ∃ st', evaluate c10ExWorld c10OrdTreeP = .ok
    (.dict [] [
      (.str "h", .sym "os"),
      (.str "g", .part [.str "g"] "f" [] [("a", .app [.str "f"] "f" [("a", .sym "os")] [] [])]),
      (.str "r2", .app [.str "f"] "f" [("a", .sym "os")] [] []),
      (.str "f", .app [.str "f"] "f" [("a", .sym "os")] [] []),
      (.str "r1", .app [.str "f"] "f" [("a", .sym "os")] [] [])], st') :=
  ⟨_, rfl⟩

/- the same for every node below the root, not only the items of the root mapping: a path that
   names a node in one tree names the same node in the other, and both builds memoise the same value
   (same object id) for it -/
theorem C10_key_order_nodes (w : World) (fl : Flags) (cs cs' : List (Key × Node)) (v v' : Val)
    (st st' : EvSt) (hperm : cs'.Perm cs)
    (huk : uniqueKeys (.comp fl .dict cs) = true) (huk' : uniqueKeys (.comp fl .dict cs') = true)
    (h : evaluate w (.comp fl .dict cs) = .ok (v, st))
    (h' : evaluate w (.comp fl .dict cs') = .ok (v', st'))
    (key : Key) (rest : Path) (m : Node) (hm : getNode (.comp fl .dict cs) (key :: rest) = some m) :
    getNode (.comp fl .dict cs') (key :: rest) = some m ∧
    ∃ a, plookup (key :: rest) st.cache = some a ∧ plookup (key :: rest) st'.cache = some a :=
  evaluate_permRoot_nodes hperm huk huk' h h' hm

example : getNode c10OrdTree [.str "g", .str "a"] = some (.leaf {} (.xref "f")) ∧
    getNode c10OrdTreeP [.str "g", .str "a"] = some (.leaf {} (.xref "f")) := ⟨rfl, rfl⟩

/-! ### The error case -/

/-- the former witness of an order-dependent outcome (defect D31, repaired): `a` is an unsafe
    reference to the safe scalar `c`, `g` a `!bind` whose argument refers to `a`, `d` a plain
    reference to `a` -/
def c10OrdLinkA : Key × Node := (.str "a", .leaf { safe := some false } (.xref "c"))
def c10OrdLinkC : Key × Node := (.str "c", .leaf {} (.scalar (.str "s")))
def c10OrdLinkG : Key × Node := (.str "g", .comp {} (.bind "f") [(.str "x", .leaf {} (.xref "a"))])
def c10OrdLinkD : Key × Node := (.str "d", .leaf {} (.xref "a"))
def c10OrdLinkWorld : World := { sigs := [("f", [{ name := "kw", kind := .varKw }])] }

/- A reference chain is followed through `ctx.get_node`: an intermediate `!xref` node that is not
   memoised yet is followed as a node, without `evaluate_node`; once memoised, its value is read
   from the memo table. Before the repair of D31 the flags of a reference followed as a node were
   never looked at, and whether a build succeeded depended on the key order. Now, in strict mode a
   chain passing through an unsafe reference ends with `UnsafeError` in both situations — met as a
   node, or memoised (then tainted: `Cov.utaint`, the invariant of the states of a build) —, so the
   outcome of a strict consumer does not depend on whether the link was evaluated before. -/
theorem C10_unsafe_chain_link_refused (rec : Rec) (root : Node) (self : Path) (fuel : Nat) (cur : String)
    (chain : List String) (st : EvSt) (tp : Path) (f : Flags) (next : String)
    (hcov : Cov root st) (htp : splitPath cur = some tp)
    (hg : getNode root tp = some (.leaf f (.xref next))) (hs : eSafe f = false)
    (hc : cur ∉ chain) (hself : tp ≠ self) :
    xrefLoop rec root true self (fuel + 1) cur chain st = .error .unsafeE :=
  xrefLoop_unsafe_link_strict (fun h => hcov.utaint tp _ h hg hs) htp hg hs hc hself

/- the former witness fails with `UnsafeError` in both orders -/
example : evaluate c10OrdLinkWorld (.comp {} .dict [c10OrdLinkA, c10OrdLinkC, c10OrdLinkG]) = .error .unsafeE ∧
    evaluate c10OrdLinkWorld (.comp {} .dict [c10OrdLinkG, c10OrdLinkA, c10OrdLinkC]) = .error .unsafeE :=
  ⟨rfl, rfl⟩

/- In non-strict mode a successful chain passing through an unsafe reference has counted it — the
   counter of unsafe content seen strictly increases, whether the reference is met as a node or read
   from the memo table —, so the consumer's value is memoised as tainted in both situations
   (`C07_taint_sound`). -/
theorem C10_unsafe_chain_link_counts (root : Node) (w : World) (f : Nat) (self : Path) (fuel : Nat)
    (cur : String) (chain : List String) (st st' : EvSt) (tp : Path) (fl : Flags) (next : String) (v : Val)
    (hcov : Cov root st) (htp : splitPath cur = some tp)
    (hg : getNode root tp = some (.leaf fl (.xref next))) (hs : eSafe fl = false)
    (h : xrefLoop (evalNodeF root w f) root false self (fuel + 1) cur chain st = .ok (v, st')) :
    st.unsafeSeen < st'.unsafeSeen :=
  xrefLoop_unsafe_link_counts (fun hc => hcov.utaint tp _ hc hg hs) htp hg hs h

/- the plain reference `d` to the unsafe reference `a` is tainted whichever of them is evaluated
   first (before the repair it was tainted only when `a` ran first) -/
example : ∃ v v' st st',
    evaluate {} (.comp {} .dict [c10OrdLinkA, c10OrdLinkD, c10OrdLinkC]) = .ok (v, st) ∧
    evaluate {} (.comp {} .dict [c10OrdLinkD, c10OrdLinkA, c10OrdLinkC]) = .ok (v', st') ∧
    st.tainted.contains [.str "d"] = true ∧ st'.tainted.contains [.str "d"] = true :=
  ⟨_, _, _, _, rfl, rfl, rfl, rfl⟩

/- Taint is a function of the tree: after a successful build of a tree with pairwise distinct keys
   the tainted paths are exactly the paths of the tree that are `Dirty` — the node is unsafe, or one
   of its children is dirty, or it is a reference whose text names a dirty path (an unsafe reference
   is dirty itself, so a chain is dirty as soon as one of its links is). `Dirty` (AY.Lemmas.OrderLemmas)
   is defined on the tree alone: no memo table, no counter, no order of evaluation. Invariant behind
   it (`evalNodeF_dirty`): every memoised path is tainted iff dirty, and the counter of unsafe content
   moves across a successful `evaluate_node` iff the evaluated path is dirty. -/
theorem C10_tainted_iff_dirty (w : World) (root : Node) (v : Val) (st : EvSt)
    (huk : uniqueKeys root = true) (h : evaluate w root = .ok (v, st)) (p : Path) :
    p ∈ st.tainted ↔ ((∃ m, getNode root p = some m) ∧ Dirty root p) :=
  evaluate_tainted_iff huk h p

example : Dirty (.comp {} .dict [c10OrdLinkD, c10OrdLinkA, c10OrdLinkC]) [.str "d"] :=
  Dirty.link (f := {}) (t := "a") (tp := [.str "a"]) rfl rfl
    (Dirty.flag (n := .leaf { safe := some false } (.xref "c")) rfl rfl)

/- "the evaluated config does not depend on the order …", taint marks: two successful builds of a
   tree and of the tree with the root's children permuted taint exactly the same paths — so a later
   strict consumer is refused the same memoised values in both. (False before the repair of D31.) -/
theorem C10_key_order_taint (w : World) (fl : Flags) (cs cs' : List (Key × Node)) (v v' : Val)
    (st st' : EvSt) (hperm : cs'.Perm cs)
    (huk : uniqueKeys (.comp fl .dict cs) = true) (huk' : uniqueKeys (.comp fl .dict cs') = true)
    (h : evaluate w (.comp fl .dict cs) = .ok (v, st))
    (h' : evaluate w (.comp fl .dict cs') = .ok (v', st')) (p : Path) :
    p ∈ st'.tainted ↔ p ∈ st.tainted :=
  evaluate_permRoot_tainted hperm huk huk' h h' p

/- the two orders of the former witness taint `[]`, `a`, `d` — in different orders of discovery -/
example : ∃ v v' st st',
    evaluate {} (.comp {} .dict [c10OrdLinkA, c10OrdLinkD, c10OrdLinkC]) = .ok (v, st) ∧
    evaluate {} (.comp {} .dict [c10OrdLinkD, c10OrdLinkA, c10OrdLinkC]) = .ok (v', st') ∧
    st.tainted = [[], [.str "d"], [.str "a"]] ∧ st'.tainted = [[], [.str "a"], [.str "d"]] :=
  ⟨_, _, _, _, rfl, rfl, rfl, rfl⟩

/- What is proved about failures. (1) Success of one order fixes what the other order can return:
   if the build of `cs` succeeds with items `items`, then the tree with the permuted children has a
   denotation, it is the mapping of a permutation of `items`, and it is the only value a build of
   the permuted tree can return. MISSING for `C10_key_order_outcome` ("one order builds iff the other
   does"; false before the repair of D31, no counterexample among all root permutations of 600 000
   random trees after it): completeness of the evaluator
   w.r.t. the denotation — that a build of the permuted tree cannot fail with a spurious
   `recursion` / `unsafeE` / out-of-fuel error. Needed: (a) fuel sufficiency of `2·size+10` for the
   nesting depth in every order, (b) exactness of the taint marks in both directions relative to a
   denotational notion of "clean" (done for successful builds: `C10_tainted_iff_dirty`), (c) absence
   of cyclic dependencies from the existence of the denotation (minimal-fuel rank), (d) `xrefLoop`'s own failure modes (repeated text, self) excluded
   by the existence of the denotation. -/
theorem C10_key_order_outcome_partial (w : World) (fl : Flags) (cs cs' : List (Key × Node))
    (items : List (Key × Val)) (st : EvSt) (hperm : cs'.Perm cs)
    (huk : uniqueKeys (.comp fl .dict cs) = true) (huk' : uniqueKeys (.comp fl .dict cs') = true)
    (h : evaluate w (.comp fl .dict cs) = .ok (.dict [] items, st)) :
    ∃ items', items'.Perm items ∧
      Den (.comp fl .dict cs') w (.comp fl .dict cs') [] (.dict [] items') ∧
      ∀ v' st', evaluate w (.comp fl .dict cs') = .ok (v', st') → v' = .dict [] items' := by
  have hu : uniqueKeysList cs = true := by simpa [uniqueKeys] using huk
  have hu' : uniqueKeysList cs' = true := by simpa [uniqueKeys] using huk'
  obtain ⟨f, items0, hv, hi⟩ := evaluate_dict_items huk h
  cases hv
  -- every child has a denotation; hence the permuted list of children has one
  have hall : ∀ kc, kc ∈ cs → ∃ a, den (.comp fl .dict cs) w f kc.2 ([] ++ [kc.1]) = some a := by
    have : ∀ (l : List (Key × Node)) (its : List (Key × Val)),
        denItems (den (.comp fl .dict cs) w f) [] l = some its →
        ∀ kc, kc ∈ l → ∃ a, den (.comp fl .dict cs) w f kc.2 ([] ++ [kc.1]) = some a := by
      intro l
      induction l with
      | nil => intro _ _ kc hm; cases hm
      | cons x rest ih =>
        intro its hd kc hm
        obtain ⟨k0, c0⟩ := x
        unfold denItems at hd
        split at hd
        · cases hd
        · rename_i a ha
          split at hd
          · cases hd
          · rename_i vs hvs
            rcases List.mem_cons.1 hm with rfl | hm
            · exact ⟨a, ha⟩
            · exact ih vs hvs kc hm
    exact this cs items hi
  have hex : ∀ l : List (Key × Node), (∀ kc, kc ∈ l → kc ∈ cs) →
      ∃ its, denItems (den (.comp fl .dict cs) w f) [] l = some its := by
    intro l
    induction l with
    | nil => intro _; exact ⟨[], rfl⟩
    | cons x rest ih =>
      intro hsub
      obtain ⟨k0, c0⟩ := x
      obtain ⟨a, ha⟩ := hall (k0, c0) (hsub _ List.mem_cons_self)
      obtain ⟨its, hits⟩ := ih (fun kc hm => hsub kc (List.mem_cons_of_mem _ hm))
      exact ⟨(k0, a) :: its, by unfold denItems; rw [ha, hits]⟩
  obtain ⟨items', hi'⟩ := hex cs' (fun kc hm => hperm.mem_iff.1 hm)
  have hperm' : items'.Perm items := by
    rw [denItems_eq_map hi, denItems_eq_map hi']
    exact hperm.map _
  have hden : Den (.comp fl .dict cs') w (.comp fl .dict cs') [] (.dict [] items') := by
    refine ⟨f + 1, ?_⟩
    simp only [den, denImpl, den_permRoot hperm hu hu', hi', denFinish]
  refine ⟨items', hperm', hden, ?_⟩
  intro v' st' h'
  obtain ⟨⟨f', hf'⟩, _⟩ := evaluate_den huk' h'
  exact Den.unique ⟨f' + 1, hf'⟩ hden

example : ∃ items st, evaluate c10ExWorld c10OrdTree = .ok (.dict [] items, st) := ⟨_, _, rfl⟩

/- (2) *Which* error a failing build reports does depend on the key order: the first failing entry
   wins. A missing reference (`EvalError`) and an unsafe call (`EvalError` caused by `UnsafeError`)
   written in the two orders: -/
theorem C10_key_order_error_kind_not_stable :
    ∃ (w : World) (cs cs' : List (Key × Node)), cs'.Perm cs ∧
      uniqueKeys (.comp {} .dict cs) = true ∧ uniqueKeys (.comp {} .dict cs') = true ∧
      evaluate w (.comp {} .dict cs) = .error .eval ∧
      evaluate w (.comp {} .dict cs') = .error .unsafeE :=
  ⟨{}, [(.str "a", .leaf {} (.xref "nowhere")), (.str "b", .comp { safe := some false } (.call "f") [])],
    [(.str "b", .comp { safe := some false } (.call "f") []), (.str "a", .leaf {} (.xref "nowhere"))],
    List.Perm.swap _ _ _, rfl, rfl, rfl, rfl⟩

end AY
