/-
  AY.Props.C20 — concurrent builds do not influence each other.

  Property text (C20): "Configs built at the same time in different threads, each through its own
  builder, are identical to the ones built sequentially: every node records the file it really came
  from and the safety of its own source, whatever the interleaving of the threads. An error raised
  in one thread is reported in that thread with its own context and does not alter error reporting
  in the others."

  Model: AY/Model/Slots.lean (threads = event lists over the three `threading.local` slots, a
  schedule = list of thread ids, `run` = the machine with one cell per thread, `runShared` = the
  broken machine with one cell for everybody).  Helper lemmas: AY/Lemmas/C20Lemmas.lean.

  None of the positive theorems needs a bracketing hypothesis: an `exit` without `enter` is a no-op
  in the model, and non-interference holds for arbitrary event lists, in particular for the
  well-bracketed ones (`wellBracketed`, the filter that the harness applies to recorded traces).
-/
import AY.Lemmas.C20Lemmas

namespace AY
open Slots

/-! ### example system used for the non-vacuity checks -/

/-- thread 0: `add_source('a.yaml', safe=True)` creating one node -/
def C20.exA : List Event :=
  [.apiEnter, .enter .safe (.bool true), .enter .file (.str "a.yaml"), .read .file, .read .safe,
   .exit .file, .exit .safe, .apiExit]

/-- thread 1: `add_source('b.yaml', safe=False)` creating one node, then failing -/
def C20.exB : List Event :=
  [.apiEnter, .enter .safe (.bool false), .enter .file (.str "b.yaml"), .read .file, .read .safe,
   .raise "ParsingError", .exit .file, .exit .safe, .apiExit]

/-- an interleaving in which both threads are inside their context managers at the same time -/
def C20.exSched : Schedule := [0, 0, 0, 1, 1, 1, 0, 1, 1, 0, 1, 0, 0, 0, 1, 1, 1, 1]

theorem C20.exSched_complete : Complete C20.exSched [C20.exA, C20.exB] := by
  intro t
  match t with
  | 0 => decide
  | 1 => decide
  | n + 2 => simp [progs]

/--
C20, first sentence, for every schedule whatsoever (also schedules that stop half-way):
"... whatever the interleaving of the threads".
For every schedule `sched`, every finite system of threads `ths` and every thread `t`, the
observations of `t` in the concurrent run (every value returned by a `read` in
`ConfigNode.__init__`, every marker seen by `api_entry` or by a raised exception) are exactly the
observations of `t` executing the same events alone in a fresh thread; `occ t sched` is the number
of turns the schedule gave to `t`.
-/
theorem C20_noninterference (sched : Schedule) (ths : Threads) (t : Nat) :
    proj t (run sched ths) = alone t ((progs ths t).take (occ t sched)) := by
  unfold run runWith alone
  rw [replay_proj localAddr localAddr_inj t, eventsOf_unfold]
  rfl

example : wellBracketed C20.exA = true ∧ wellBracketed C20.exB = true := by decide
example : proj 0 (run C20.exSched [C20.exA, C20.exB])
    = [⟨0, .apiEnter, .bool false⟩, ⟨0, .read .file, .str "a.yaml"⟩, ⟨0, .read .safe, .bool true⟩] := by
  decide
example : proj 1 (run C20.exSched [C20.exA, C20.exB])
    = [⟨1, .apiEnter, .bool false⟩, ⟨1, .read .file, .str "b.yaml"⟩, ⟨1, .read .safe, .bool false⟩,
       ⟨1, .raise "ParsingError", .bool true⟩] := by
  decide

/--
C20 for schedules that let every thread finish: the projection of the concurrent trace on `t`
equals `t`'s sequential trace.
-/
theorem C20_noninterference_complete (sched : Schedule) (ths : Threads) (t : Nat)
    (h : Complete sched ths) : proj t (run sched ths) = alone t (progs ths t) := by
  rw [C20_noninterference, List.take_of_length_le (h t)]

example : proj 0 (run C20.exSched [C20.exA, C20.exB]) = alone 0 C20.exA :=
  C20_noninterference_complete _ _ 0 C20.exSched_complete

/--
The same statement for a *recorded* interleaved execution (what the driver op `c20` replays): for
every list of (thread, event) pairs, the observations of `t` are those of `t`'s own events run alone.
-/
theorem C20_replay_noninterference (tr : Interleaving) (t : Nat) :
    proj t (replay localAddr tr Machine.init) = alone t (eventsOf t tr) := by
  rw [replay_proj localAddr localAddr_inj t]
  rfl

example : proj 1 (replay localAddr [(0, .enter .file (.str "a")), (1, .read .file), (0, .read .file)] Machine.init)
    = [⟨1, .read .file, .pyNone⟩] := by decide

/--
"... every node records the file it really came from and the safety of its own source": in every
schedule, every `read` of a thread made of whole context-manager events returns the value that the
thread's *own* history prescribes (`expectedRead`): for the filename the value of its innermost open
`default_filename(...)`, `None` outside; for the safe flag the `and` of all its open
`default_safe_flag(...)` values, `True` outside once the thread has used the context manager and
`False` in a thread that never did.
-/
theorem C20_reads_own_context (sched : Schedule) (ths : Threads) (t : Nat)
    (h : AtomicOnly (progs ths t)) :
    readsOf t (run sched ths) = specReads t [] ((progs ths t).take (occ t sched)) := by
  rw [← readsOf_proj, C20_noninterference]
  unfold alone
  exact localRun_reads t _ [] {} {} (atomicOnly_take _ _ h) (fun s => SlotInv_init s)

example : readsOf 0 (run C20.exSched [C20.exA, C20.exB])
    = [⟨0, .read .file, .str "a.yaml"⟩, ⟨0, .read .safe, .bool true⟩] := by decide
example : specReads 1 [] C20.exB = [⟨1, .read .file, .str "b.yaml"⟩, ⟨1, .read .safe, .bool false⟩] := by
  decide
/-- nested entries: an include of an unsafe file inside a safe one, read after the inner exit -/
example : specReads 0 []
    [.enter .safe (.bool true), .enter .file (.str "m"), .enter .safe (.bool false), .enter .file (.str "i"),
     .read .file, .read .safe, .exit .file, .exit .safe, .read .file, .read .safe, .exit .file, .exit .safe,
     .read .file, .read .safe]
    = [⟨0, .read .file, .str "i"⟩, ⟨0, .read .safe, .bool false⟩, ⟨0, .read .file, .str "m"⟩,
       ⟨0, .read .safe, .bool true⟩, ⟨0, .read .file, .pyNone⟩, ⟨0, .read .safe, .bool true⟩] := by decide

/--
"Configs built at the same time in different threads ... are identical to the ones built
sequentially": for every schedule that lets every thread finish, the observations of each thread
and the final contents of its slots and frames are those of the sequential execution, in which
the threads run one after the other (`seqSched`).
-/
theorem C20_final_equals_sequential (sched : Schedule) (ths : Threads) (t : Nat)
    (h : Complete sched ths) :
    proj t (run sched ths) = proj t (run (seqSched ths) ths) ∧
    (final sched ths).cells t = (final (seqSched ths) ths).cells t ∧
    (final sched ths).frames t = (final (seqSched ths) ths).frames t := by
  have hs := seqSched_complete ths
  refine ⟨?_, ?_, ?_⟩
  · rw [C20_noninterference_complete _ _ _ h, C20_noninterference_complete _ _ _ hs]
  · have e1 := replayFinal_cells localAddr localAddr_inj t (unfold sched (progs ths)) Machine.init
    have e2 := replayFinal_cells localAddr localAddr_inj t (unfold (seqSched ths) (progs ths)) Machine.init
    rw [eventsOf_unfold_complete t _ _ (h t)] at e1
    rw [eventsOf_unfold_complete t _ _ (hs t)] at e2
    exact e1.trans e2.symm
  · have e1 := replayFinal_frames localAddr localAddr_inj t (unfold sched (progs ths)) Machine.init
    have e2 := replayFinal_frames localAddr localAddr_inj t (unfold (seqSched ths) (progs ths)) Machine.init
    rw [eventsOf_unfold_complete t _ _ (h t)] at e1
    rw [eventsOf_unfold_complete t _ _ (hs t)] at e2
    exact e1.trans e2.symm

example : seqSched [C20.exA, C20.exB] = List.replicate 8 0 ++ List.replicate 9 1 := by decide
example : run C20.exSched [C20.exA, C20.exB] ≠ run (seqSched [C20.exA, C20.exB]) [C20.exA, C20.exB] := by
  decide   -- the global traces differ (the run really is interleaved) …
example : proj 1 (run C20.exSched [C20.exA, C20.exB]) = proj 1 (run (seqSched [C20.exA, C20.exB]) [C20.exA, C20.exB]) :=
  (C20_final_equals_sequential _ _ 1 C20.exSched_complete).1   -- … the per-thread ones do not
example : (final C20.exSched [C20.exA, C20.exB]).cells 1
    = { file := some .pyNone, safe := some (.bool true), api := some (.bool false) } := by decide

/--
"An error raised in one thread is reported in that thread with its own context and does not alter
error reporting in the others": what thread `t` sees of the `_api_entered` marker (on every entry
of an `api_entry` function and whenever it raises) depends only on `t`'s own events — two systems
that agree on thread `t`, under two schedules that give `t` the same number of turns, show `t` the
same markers, whatever the other threads do (raise, enter, leave) and however they are interleaved.
-/
theorem C20_error_context (sched sched' : Schedule) (ths ths' : Threads) (t : Nat)
    (hp : progs ths t = progs ths' t) (ho : occ t sched = occ t sched') :
    apiView t (run sched ths) = apiView t (run sched' ths') := by
  have h1 : apiView t (run sched ths) = apiView t (proj t (run sched ths)) := by
    simp only [apiView, proj, List.filter_filter]
    apply List.filter_congr
    intro x _
    cases hx : (x.tid == t) <;> simp
  have h2 : apiView t (run sched' ths') = apiView t (proj t (run sched' ths')) := by
    simp only [apiView, proj, List.filter_filter]
    apply List.filter_congr
    intro x _
    cases hx : (x.tid == t) <;> simp
  rw [h1, h2, C20_noninterference, C20_noninterference, hp, ho]

/-- thread 0 sees the same markers whether or not thread 1 fails inside its own `api_entry` -/
example : apiView 0 (run C20.exSched [C20.exA, C20.exB])
    = apiView 0 (run (seqSched [C20.exA]) [C20.exA, [.apiEnter, .apiExit]]) :=
  C20_error_context _ _ _ _ 0 rfl (by decide)
example : apiView 1 (run C20.exSched [C20.exA, C20.exB])
    = [⟨1, .apiEnter, .bool false⟩, ⟨1, .raise "ParsingError", .bool true⟩] := by decide
/-- a nested entry sees the marker set and does not clear it on exit -/
example : apiView 0 (run [0, 0, 0, 0, 0] [[.apiEnter, .apiEnter, .apiExit, .raise "x", .apiExit]])
    = [⟨0, .apiEnter, .bool false⟩, ⟨0, .apiEnter, .bool true⟩, ⟨0, .raise "x", .bool true⟩] := by decide

/--
What the property excludes, and why `C20_noninterference` is not vacuous: for the machine whose
slots are plain attributes shared by all threads (`runShared`) the statement of
`C20_noninterference` is false.  Witness: `C20.exSched` on `[C20.exA, C20.exB]` — thread 0 creates
its node while thread 1 is inside its own context managers and records `b.yaml` / unsafe.
-/
theorem C20_shared_cell_counterexample :
    ¬ (∀ (sched : Schedule) (ths : Threads) (t : Nat),
        proj t (runShared sched ths) = alone t ((progs ths t).take (occ t sched))) := by
  intro h
  exact absurd (h C20.exSched [C20.exA, C20.exB] 0) (by decide)

example : proj 0 (runShared C20.exSched [C20.exA, C20.exB])
    = [⟨0, .apiEnter, .bool false⟩, ⟨0, .read .file, .str "b.yaml"⟩, ⟨0, .read .safe, .bool false⟩] := by
  decide
/-- the error context is disturbed as well: thread 1 enters while thread 0's marker is set -/
example : apiView 1 (runShared C20.exSched [C20.exA, C20.exB])
    = [⟨1, .apiEnter, .bool true⟩, ⟨1, .raise "ParsingError", .bool true⟩] := by decide

end AY
