/-
  C01 — tags are transparent; here: the `{{...}}` metadata syntax, on the TEXT.

  Statement (properties.jsonl): "... once awesomeyaml's merge-control tags (!force, !weak, !del, !merge,
  !new, !unsafe, !metadata and the {{...}} metadata syntax ...) are erased ...".

  AY/Props/C01.lean and C01_Full.lean start from the representation tree, where a tag already carries its
  keyword arguments and metadata.  Before PyYAML produces that tree `yaml.parse` rewrites the TEXT:
  `_encode_all_metadata` replaces every `!tag{{ python dict }}` by `!tag:<hex of the pickled dict>`
  (`_get_metadata_content` finds the blocks, an in-place splice loop with a running offset rewrites them),
  and every tag constructor splits the decoded dict into constructor keywords and user metadata
  (`_decode_metadata`).  This module is about that glue (AY.Model.MetaText):

    1. the splice loop against the one-pass specification (`C01_splice_spec`), with the replacement given
       and with the replacement computed from the current text as the code does (`C01_encode_reads_original`);
    2. the search loop delivers ranges that satisfy the precondition of 1, whatever text it runs on
       (`C01_ranges_ascending`, `C01_encodeAll_spec`, `C01_ranges_fuel_irrelevant`);
    3. no `{{` — nothing changes; erasing = the characters outside the blocks (`C01_splice_identity`,
       `C01_splice_erasure`);
    4. the special/user split (`C01_decode_split`).

    5. the end finder itself (`metadataEnd`, the character scanner of repo fix e40192c): `C01_end_is_closer`,
       `C01_end_inside`, `C01_end_simple`, `C01_end_stray_closer`, `C01_end_fuel_irrelevant`, and the parameter-free
       composition `C01_encodeAll_total_spec`.

  Sections 1–4 take `findEnd` = `_get_metadata_end` as a parameter; section 5 discharges every assumption on it.
  Still a parameter (trusted base, compared at run time by harness/props/c01.py, family `meta`): `enc`/`repl` =
  `eval` + `pickle` + `hex`.
  Definitions and proofs: AY/Model/MetaText.lean, AY/Lemmas/MetaText.lean.
-/
import AY.Lemmas.MetaEnd
namespace AY
open MetaText

/-! ### Concrete inputs used by the non-vacuity examples -/

/-- `a: !x{{1}} b !del{{}}` — two blocks, at 5..10 and 17..21 (the second one at the very end) -/
def c01Text : List Char := "a: !x{{1}} b !del{{}}".toList

/-- the end finder of the example: the block at 5 ends at 10, the one at 17 at 21 -/
def c01FindEnd : Nat → Option Nat := fun b => if b = 5 then some 10 else if b = 17 then some 21 else none

/-! ### 1. The splice loop -/

/- "`_encode_all_metadata`: data = data[:beg] + repl + data[end:] with a running offset": for EVERY text and EVERY
   list of ranges that is ascending, non-overlapping and inside the text (`RangesOK`: `beg ≤ end`, each range starts
   at or after the end of the one before, the last end is `≤ len(data)`), each with an arbitrary replacement text,
   the literal loop (Python slice semantics, `Int` offset) equals the one-pass specification: the text before the
   first range, its replacement, the text between the ranges, …, the text after the last range.  Nothing outside
   the ranges changes, the order is kept, every range is replaced exactly once.  No bound on the number or the
   size of ranges or replacements; the element type is arbitrary. -/
theorem C01_splice_spec {α : Type} (data : List α) (ranges : List (Nat × Nat × List α))
    (h : RangesOK data.length 0 ranges) :
    spliceAll data ranges = spliceSpec data 0 ranges :=
  spliceAll_eq_spec data ranges h

example : RangesOK c01Text.length 0 [(5, 10, ":AB".toList), (17, 21, ":C".toList)] := by decide
example : spliceAll c01Text [(5, 10, ":AB".toList), (17, 21, ":C".toList)] = "a: !x:AB b !del:C".toList := by
  decide +kernel
-- a longer and a shorter replacement, adjacent ranges, an empty range, a range at the very start
example : spliceAll "0123456789".toList [(0, 2, "abcde".toList), (2, 5, []), (5, 5, "X".toList), (9, 10, "yz".toList)]
    = "abcdeX5678yz".toList ∧
    RangesOK 10 0 [(0, 2, "abcde".toList), (2, 5, []), (5, 5, "X".toList), (9, 10, "yz".toList)] := by
  decide +kernel
-- why the precondition: with overlapping ranges the loop and the specification differ
example : spliceAll "0123456789".toList [(0, 6, []), (4, 8, [])] ≠ spliceSpec "0123456789".toList 0 [(0, 6, []), (4, 8, [])] := by
  decide +kernel

/- "metadata = eval(data[beg+1:end-1])" is evaluated on the CURRENT text at the SHIFTED positions: for ranges as
   above in which every block has at least its two braces (`beg + 2 ≤ end`; a real block is `{{` … `}}`), the
   literal loop is the splice loop whose replacement for the block `data[beg:end]` is `enc` of `data[beg+1:end-1]`
   of the ORIGINAL text — earlier replacements never leak into a later literal.  `enc` is arbitrary. -/
theorem C01_encode_reads_original {α : Type} (enc : List α → List α) (data : List α) (ranges : List (Nat × Nat))
    (h : RangesOK data.length 0 (ranges.map (fun r => (r.1, r.2, ())))) (h2 : ∀ r ∈ ranges, r.1 + 2 ≤ r.2) :
    encodeLoop enc data 0 ranges =
      spliceAll data (ranges.map (fun r => (r.1, r.2, enc ((data.take (r.2 - 1)).drop (r.1 + 1))))) := by
  have := encodeLoop_inv enc data ranges [] 0 h h2
  simpa [spliceAll] using this

example : encodeLoop (fun l => '<' :: l ++ ['>']) c01Text 0 [(5, 10), (17, 21)] = "a: !x<{1}> b !del<{}>".toList := by
  decide +kernel
-- why `beg + 2 ≤ end`: for an empty block after an erased prefix `data[beg+1:end-1]` wraps around (`end-1 = -1`)
example : encodeLoop (fun l => l) "abcdef".toList 0 [(0, 2), (2, 2)] = "decdef".toList ∧
    spliceAll "abcdef".toList ([(0, 2), (2, 2)].map (fun r => (r.1, r.2, ("abcdef".toList.take (r.2 - 1)).drop (r.1 + 1))))
      = "cdef".toList := by
  decide +kernel

/-! ### 2. The search loop -/

/- "`_get_metadata_content`: search the tag regex, find the end, yield, search again from end+1": for EVERY text and
   EVERY end finder which, asked at a `{{`, reports an end that is not before that position and not beyond the text
   (`EndInside`; the real one returns a position after a `}}` behind the block), the loop terminates (the fuel of
   the model is never exhausted) and the ranges it yields — with any replacement texts — satisfy the precondition
   of `C01_splice_spec`; every range starts at a `{{` of the text and ends where the end finder said. -/
theorem C01_ranges_ascending {β : Type} (findEnd : Nat → Option Nat) (data : List Char) (h : EndInside data findEnd)
    (repl : Nat → Nat → β) :
    metadataRanges findEnd data ≠ .error .fuel ∧
    ∀ rs, metadataRanges findEnd data = .ok rs →
      RangesOK data.length 0 (rs.map (fun r => (r.1, r.2, repl r.1 r.2))) ∧
      ∀ r ∈ rs, (data.drop r.1).take 2 = ['{', '{'] ∧ findEnd r.1 = some r.2 :=
  ⟨rangesLoop_no_fuel findEnd data h.forward _ 0 (by omega),
   fun rs hrs => ⟨rangesLoop_ok findEnd data h repl _ 0 rs hrs 0 (Nat.le_refl _) (Nat.zero_le _),
                  rangesLoop_mem findEnd data _ 0 rs hrs⟩⟩

example : EndInside c01Text c01FindEnd := by
  intro b e _ h
  unfold c01FindEnd at h
  split at h
  · cases h; subst b; decide
  · split at h
    · cases h; subst b; decide
    · cases h
example : metadataRanges c01FindEnd c01Text = .ok [(5, 10), (17, 21)] := by decide +kernel
-- the tag regex: `!` and at least one character of the class, then `{{`; a `{{` without a tag is not a block
example : findTag "k: '{{x}}' !a.b:c(1)_Z{{".toList 0 = some (11, 22) ∧ findTag "!{{ a!{{ !é{{".toList 0 = none := by
  decide +kernel
-- an end that cannot be found is the ValueError naming the start of the tag
example : metadataRanges (fun _ => none) c01Text = .error (.noEnd 3 5) := by decide +kernel
-- why the assumption: an end finder that answers with a position before the block makes the Python loop spin forever
example : rangesLoop (fun _ => some 0) c01Text 5 0 = .error .fuel := by decide +kernel

/- The result does not depend on the fuel of the model: every fuel above `len(data) - pos` gives the same answer
   (an end finder that never answers with a position before its `{{` — `EndForward` — is enough for that). -/
theorem C01_ranges_fuel_irrelevant (findEnd : Nat → Option Nat) (data : List Char) (h : EndForward data findEnd)
    (fuel : Nat) (hf : data.length + 1 ≤ fuel) :
    rangesLoop findEnd data fuel 0 = metadataRanges findEnd data :=
  rangesLoop_fuel_irrelevant findEnd data h fuel (data.length + 1) 0 (by omega) (by omega)

example : rangesLoop c01FindEnd c01Text 1000 0 = .ok [(5, 10), (17, 21)] := by decide +kernel

/- The composition: for EVERY text, `_encode_all_metadata` either raises the error of the search loop or returns the
   one-pass specification applied to the ranges found — under the assumption on the end finder alone. -/
theorem C01_encodeAll_spec (findEnd : Nat → Option Nat) (repl : Nat → Nat → List Char) (data : List Char)
    (h : EndInside data findEnd) :
    (∃ s b, encodeAll findEnd repl data = .error (.noEnd s b)) ∨
    (∃ rs, metadataRanges findEnd data = .ok rs ∧
      encodeAll findEnd repl data = .ok (spliceSpec data 0 (rs.map (fun r => (r.1, r.2, repl r.1 r.2))))) := by
  have hr := C01_ranges_ascending findEnd data h repl
  unfold encodeAll
  cases hm : metadataRanges findEnd data with
  | error e =>
    cases e with
    | noEnd s b => exact .inl ⟨s, b, rfl⟩
    | fuel => exact absurd hm hr.1
  | ok rs =>
    refine .inr ⟨rs, rfl, ?_⟩
    simp only
    rw [C01_splice_spec data _ (hr.2 rs hm).1]

example : encodeAll c01FindEnd (fun b _ => if b = 5 then ":AB".toList else ":C".toList) c01Text
    = .ok "a: !x:AB b !del:C".toList := by decide +kernel

/- … and literally, with the replacement computed by the code: when in addition every reported end leaves room for
   the two braces (`beg + 2 ≤ end`), each block `data[beg:end]` is replaced by `enc` of its own inner text
   `data[beg+1:end-1]`, read from the ORIGINAL text. -/
theorem C01_encodeAllLit_spec (findEnd : Nat → Option Nat) (enc : List Char → List Char) (data : List Char)
    (h : EndInside data findEnd) (h2 : ∀ b e, findEnd b = some e → b + 2 ≤ e) :
    (∃ s b, encodeAllLit findEnd enc data = .error (.noEnd s b)) ∨
    (∃ rs, metadataRanges findEnd data = .ok rs ∧
      encodeAllLit findEnd enc data =
        .ok (spliceSpec data 0 (rs.map (fun r => (r.1, r.2, enc ((data.take (r.2 - 1)).drop (r.1 + 1))))))) := by
  have hr := C01_ranges_ascending findEnd data h (fun _ _ => ())
  unfold encodeAllLit
  cases hm : metadataRanges findEnd data with
  | error e =>
    cases e with
    | noEnd s b => exact .inl ⟨s, b, rfl⟩
    | fuel => exact absurd hm hr.1
  | ok rs =>
    refine .inr ⟨rs, rfl, ?_⟩
    have hmem := (hr.2 rs hm).2
    simp only
    rw [C01_encode_reads_original enc data rs (hr.2 rs hm).1 (fun r hr' => h2 _ _ (hmem r hr').2)]
    rw [C01_splice_spec]
    exact (C01_ranges_ascending findEnd data h
      (fun b e => enc ((data.take (e - 1)).drop (b + 1)))).2 rs hm |>.1

example : encodeAllLit c01FindEnd (fun l => ':' :: l) c01Text = .ok "a: !x:{1} b !del:{}".toList := by decide +kernel

/-! ### 3. Identity and erasure -/

/- "a text without the {{...}} syntax is not touched": for EVERY text in which `{{` does not occur, whatever the
   end finder and the encoder do, `_encode_all_metadata` returns the text unchanged (and the search loop yields no
   range). -/
theorem C01_splice_identity (findEnd : Nat → Option Nat) (repl : Nat → Nat → List Char) (data : List Char)
    (h : ∀ i, (data.drop i).take 2 ≠ ['{', '{']) :
    metadataRanges findEnd data = .ok [] ∧ encodeAll findEnd repl data = .ok data := by
  have hm : metadataRanges findEnd data = .ok [] := by
    unfold metadataRanges rangesLoop
    rw [findTag_none_of_no_braces data h 0]
  refine ⟨hm, ?_⟩
  unfold encodeAll
  rw [hm]
  rfl

example : ∀ i, ("a: {b: 1, c: {d: 2} }".toList.drop i).take 2 ≠ ['{', '{'] := by
  intro i
  by_cases h : i < 21
  · have : ∀ j, j < 21 → ("a: {b: 1, c: {d: 2} }".toList.drop j).take 2 ≠ ['{', '{'] := by decide +kernel
    exact this i h
  · have : "a: {b: 1, c: {d: 2} }".toList.drop i = [] := List.drop_of_length_le (by simp; omega)
    rw [this]; decide
-- it is the tag in front that makes a block: `{{` in a quoted scalar is left alone even with blocks elsewhere
example : metadataRanges (fun _ => none) "k: '{{x}}'".toList = .ok [] := by decide +kernel

/- "... the {{...}} metadata syntax ... erased": replacing each block by the empty text yields the text with the
   blocks removed — precisely the characters whose position lies in none of the ranges, in their order
   (`keepOutside`, defined independently of the loop).  For every text and all ranges as in `C01_splice_spec`. -/
theorem C01_splice_erasure {α : Type} (data : List α) (ranges : List (Nat × Nat))
    (h : RangesOK data.length 0 (erasing (α := α) ranges)) :
    spliceAll data (erasing ranges) = keepOutside data ranges := by
  rw [C01_splice_spec data _ h]
  have := spliceSpec_erasing data ranges ranges 0 h (fun _ _ => rfl)
  simpa [keepOutside] using this

example : spliceAll c01Text (erasing [(5, 10), (17, 21)]) = "a: !x b !del".toList ∧
    keepOutside c01Text [(5, 10), (17, 21)] = "a: !x b !del".toList := by decide +kernel

/-! ### 4. `_decode_metadata`: constructor keywords and user metadata -/

/- "for special in ConfigNode.special_metadata_names: if special in metadata: kwargs[special] = metadata.pop(special);
   kwargs['metadata'] = metadata": for EVERY decoded mapping (an association list with distinct keys, as a dict is) and
   every list of distinct special names,
   (1) the user metadata is the mapping without the special names, order and values kept — a special name never
       reaches it;
   (2) the constructor keywords are the special names that occur, in the order of the special list, each with the
       value the mapping had for it;
   (3) every entry of the mapping lands in exactly one of the two. -/
theorem C01_decode_split {α β : Type} [DecidableEq α] (specials : List α) (md : List (α × β))
    (hs : specials.Nodup) (hm : (md.map Prod.fst).Nodup) :
    (decodeSplit specials md).2 = md.filter (fun kv => !specials.contains kv.1) ∧
    (decodeSplit specials md).1 = specials.filterMap (fun s => (dlookup s md).map (fun v => (s, v))) ∧
    ∀ k v, (k, v) ∈ md →
      (k ∈ specials ∧ (k, v) ∈ (decodeSplit specials md).1 ∧ k ∉ (decodeSplit specials md).2.map Prod.fst) ∨
      (k ∉ specials ∧ (k, v) ∈ (decodeSplit specials md).2 ∧ k ∉ (decodeSplit specials md).1.map Prod.fst) := by
  have h1 : (decodeSplit specials md).2 = md.filter (fun kv => !specials.contains kv.1) := split_user specials [] md
  have h2 : (decodeSplit specials md).1 = specials.filterMap (fun s => (dlookup s md).map (fun v => (s, v))) := by
    have := split_kw specials hs ([] : List (α × β)) md (fun _ _ h => by cases h)
    simpa [decodeSplit] using this
  refine ⟨h1, h2, ?_⟩
  intro k v hkv
  have hl := dlookup_of_mem k v md hm hkv
  by_cases hk : k ∈ specials
  · refine .inl ⟨hk, ?_, ?_⟩
    · rw [h2]
      exact List.mem_filterMap.mpr ⟨k, hk, by simp [hl]⟩
    · rw [h1]
      intro hc
      obtain ⟨kv, hkv', he⟩ := List.mem_map.mp hc
      have := (List.mem_filter.mp hkv').2
      rw [he] at this
      simp [hk] at this
  · refine .inr ⟨hk, ?_, ?_⟩
    · rw [h1]
      exact List.mem_filter.mpr ⟨hkv, by simp [hk]⟩
    · rw [h2]
      intro hc
      obtain ⟨kv, hkv', he⟩ := List.mem_map.mp hc
      obtain ⟨s, hs', hse⟩ := List.mem_filterMap.mp hkv'
      cases hd : dlookup s md with
      | none => simp [hd] at hse
      | some w =>
        simp [hd] at hse
        rw [← hse] at he
        exact hk (he ▸ hs')

example : specialNames.Nodup := by decide
example : decodeSplit specialNames [("note", 1), ("safe", 0), ("priority", 7), ("idx", 3)] =
    ([("idx", 3), ("priority", 7), ("safe", 0)], [("note", 1)]) := by decide +kernel

/-! ### 5. The end finder -/

/- "the block ends at the first '}}' that is neither inside a string nor inside nested brackets": for EVERY text and
   EVERY position `b`, an end `e` that `_get_metadata_end(data, b)` reports is inside the text, the two characters in
   front of it are `}}`, and it leaves room for the opening braces: `b + 4 ≤ e` (so `data[b+1:e-1]`, what is
   evaluated, starts behind the first `{` and ends before the last `}`). -/
theorem C01_end_is_closer (data : List Char) (b e : Nat) (h : metadataEnd data b = some e) :
    b + 4 ≤ e ∧ e ≤ data.length ∧ (data.drop (e - 2)).take 2 = ['}', '}'] := by
  have := scanEnd_some data _ _ _ e h
  exact ⟨by omega, this.2⟩

/-- the three inputs of defects D36–D38 (README-style `a: !metadata{{…}} 5`, the block starts at 12) -/
def c01Nested : List Char := "a: !metadata{{'x': {'y': 1}}} 5\n".toList
def c01StrClose : List Char := "a: !metadata{{'x': 'p}}q'}} 5\n".toList
def c01MultiLine : List Char := "a: !metadata{{\n 'x': 1,\n }} 5\nb: 6\n".toList

-- nested closing braces, '}}' inside a string, a line break: the end is the real end of the block
example : metadataEnd c01Nested 12 = some 29 ∧ (c01Nested.take 29).drop 12 = "{{'x': {'y': 1}}}".toList := by decide +kernel
example : metadataEnd c01StrClose 12 = some 27 ∧ (c01StrClose.take 27).drop 12 = "{{'x': 'p}}q'}}".toList := by decide +kernel
example : metadataEnd c01MultiLine 12 = some 27 ∧ (c01MultiLine.take 27).drop 12 = "{{\n 'x': 1,\n }}".toList := by
  decide +kernel
-- escaped quotes, triple quotes with quotes and '}}' inside, a raw-string prefix, brackets inside strings, a tuple in a list
def c01Strings : List Char := "!a{{'k': 'it\\'s }}', 2: \"\"\"a\"b'''}}\"\"\", 3: r'[(', 4: [(1, {2})]}} z".toList
example : metadataEnd c01Strings 2 = some (c01Strings.length - 2) := by decide +kernel
-- no end: an unterminated block, an unterminated string, a closer that closes nothing
example : metadataEnd "!a{{'k': 1} ".toList 2 = none ∧ metadataEnd "!a{{'k': 'x}}".toList 2 = none ∧
    metadataEnd "!a{{'k': 1)}}".toList 2 = none ∧ metadataEnd "!a{{'k': [1}}".toList 2 = none ∧ metadataEnd "!a{{".toList 2 = none := by
  decide +kernel

/- The assumptions of section 2 hold for the real end finder, for EVERY text: an end is not before its `{{` and not
   beyond the text (`EndInside`, hence `EndForward`), and leaves room for the braces. -/
theorem C01_end_inside (data : List Char) :
    EndInside data (metadataEnd data) ∧ EndForward data (metadataEnd data) ∧
    ∀ b e, metadataEnd data b = some e → b + 2 ≤ e := by
  have h : EndInside data (metadataEnd data) := fun b e _ he => by
    have := C01_end_is_closer data b e he
    exact ⟨by omega, this.2.1⟩
  exact ⟨h, h.forward, fun b e he => by have := C01_end_is_closer data b e he; omega⟩

example : metadataEnd c01Text 5 = some 10 ∧ metadataEnd c01Text 17 = some 21 := by decide +kernel

/- "simple metadata works": when the literal between the opening `{{` and a `}}` consists of characters that are
   neither quotes nor brackets (`'…'`/`"…"` strings and nested `()[]{}` excluded: numbers, names, `:`, `,`, blanks, line
   breaks, any other Unicode), the end is right behind that `}}` — which is then the first one. For EVERY text. -/
theorem C01_end_simple (data : List Char) (b : Nat) (mid post : List Char)
    (hd : data.drop (b + 2) = mid ++ '}' :: '}' :: post) (hm : ∀ c ∈ mid, plainChar c = true) :
    metadataEnd data b = some (b + 2 + mid.length + 2) := by
  have hl : (data.drop (b + 2)).length = data.length - (b + 2) := List.length_drop
  rw [hd, List.length_append] at hl
  simp only [List.length_cons] at hl
  unfold metadataEnd
  rw [scanEnd_plain data mid _ data.length (b + 2) hd hm (by omega)]
  have hd2 : data.drop (b + 2 + mid.length) = '}' :: '}' :: post := by
    have : (data.drop (b + 2)).drop mid.length = data.drop (b + 2 + mid.length) := List.drop_drop
    rw [← this, hd, List.drop_left]
  have hf : data.length + 1 - mid.length = (data.length - mid.length) + 1 := by omega
  rw [hf, scanEnd, hd2]
  rfl

example : metadataEnd "k: !del{{ x: 1, y }} 5".toList 7 = some 20 := by decide +kernel
example := C01_end_simple "k: !del{{ x: 1, y }} 5".toList 7 " x: 1, y ".toList " 5".toList (by decide +kernel) (by decide +kernel)

/- "returns None when … a stray closer at depth 0": when the first character that is not plain is a closing bracket
   and the text does not have `}}` there — `)`, `]`, or a single `}` — no end is found (the search loop then raises the
   ValueError naming the tag). -/
theorem C01_end_stray_closer (data : List Char) (b : Nat) (mid : List Char) (c : Char) (post : List Char)
    (hd : data.drop (b + 2) = mid ++ c :: post) (hm : ∀ x ∈ mid, plainChar x = true) (hc : isClose c = true)
    (hq : (c :: post).take 2 ≠ ['}', '}']) :
    metadataEnd data b = none := by
  have hl : (data.drop (b + 2)).length = data.length - (b + 2) := List.length_drop
  rw [hd, List.length_append] at hl
  simp only [List.length_cons] at hl
  unfold metadataEnd
  rw [scanEnd_plain data mid _ data.length (b + 2) hd hm (by omega)]
  have hd2 : data.drop (b + 2 + mid.length) = c :: post := by
    have : (data.drop (b + 2)).drop mid.length = data.drop (b + 2 + mid.length) := List.drop_drop
    rw [← this, hd, List.drop_left]
  have hf : data.length + 1 - mid.length = (data.length - mid.length) + 1 := by omega
  have hnq : isQuote c = false := by
    unfold isClose at hc; unfold isQuote
    simp only [Bool.or_eq_true, decide_eq_true_eq] at hc
    rcases hc with (h | h) | h <;> subst h <;> rfl
  have hno : isOpen c = false := by
    unfold isClose at hc; unfold isOpen
    simp only [Bool.or_eq_true, decide_eq_true_eq] at hc
    rcases hc with (h | h) | h <;> subst h <;> rfl
  rw [hf, scanEnd, hd2]
  simp only [quoteAt_none c post hnq, hno, hc, Bool.false_eq_true, if_false, if_true, hq]

example := C01_end_stray_closer "!a{{ k: 1 )}}".toList 2 " k: 1 ".toList ')' "}}".toList (by decide +kernel) (by decide +kernel)
  rfl (by decide)

/- The answer does not depend on the fuel of the model: every turn of the loop moves forward, `len(data) + 1` turns
   are always enough. -/
theorem C01_end_fuel_irrelevant (data : List Char) (b fuel : Nat) (hf : data.length + 1 ≤ fuel) :
    scanEnd data fuel (b + 2) 0 = metadataEnd data b :=
  scanEnd_fuel data fuel (data.length + 1) (b + 2) 0 (by omega) (by omega)

example : scanEnd c01Nested 1000 14 0 = some 29 := by decide +kernel

/- The composition without any parameter but the encoder: for EVERY text, `_encode_all_metadata` — tag regex, search
   loop, the character scanner as end finder, the in-place splice loop with `eval(data[beg+1:end-1])` read from the
   current text — either raises the ValueError of a block without end, or terminates with ranges that are ascending,
   non-overlapping and inside the text, each starting at a `{{` and ending behind a `}}`, and returns the one-pass
   specification: every block `data[beg:end]` replaced by `enc` of its own inner text `data[beg+1:end-1]` of the
   ORIGINAL text, everything else unchanged.  No assumption. -/
theorem C01_encodeAll_total_spec (enc : List Char → List Char) (data : List Char) :
    (∃ s b, metadataRangesOwn data = .error (.noEnd s b) ∧ encodeAllOwn enc data = .error (.noEnd s b)) ∨
    (∃ rs, metadataRangesOwn data = .ok rs ∧
      RangesOK data.length 0 (rs.map (fun r => (r.1, r.2, ()))) ∧
      (∀ r ∈ rs, (data.drop r.1).take 2 = ['{', '{'] ∧ (data.drop (r.2 - 2)).take 2 = ['}', '}'] ∧ r.1 + 4 ≤ r.2) ∧
      encodeAllOwn enc data =
        .ok (spliceSpec data 0 (rs.map (fun r => (r.1, r.2, enc ((data.take (r.2 - 1)).drop (r.1 + 1))))))) := by
  have hi := C01_end_inside data
  have hr := C01_ranges_ascending (metadataEnd data) data hi.1 (fun _ _ => ())
  have hl := C01_encodeAllLit_spec (metadataEnd data) enc data hi.1 hi.2.2
  unfold metadataRangesOwn encodeAllOwn
  cases hm : metadataRanges (metadataEnd data) data with
  | error e =>
    cases e with
    | fuel => exact absurd hm hr.1
    | noEnd s b =>
      refine .inl ⟨s, b, rfl, ?_⟩
      unfold encodeAllLit; rw [hm]
  | ok rs =>
    refine .inr ⟨rs, rfl, (hr.2 rs hm).1, ?_, ?_⟩
    · intro r hrm
      have h1 := (hr.2 rs hm).2 r hrm
      have h2 := C01_end_is_closer data r.1 r.2 h1.2
      exact ⟨h1.1, h2.2.2, h2.1⟩
    · rcases hl with ⟨s, b, he⟩ | ⟨rs', hm', he⟩
      · unfold encodeAllLit at he; rw [hm] at he; cases he
      · rw [hm] at hm'; cases hm'; exact he

example : metadataRangesOwn c01Nested = .ok [(12, 29)] ∧
    encodeAllOwn (fun l => ':' :: l) c01Nested = .ok "a: !metadata:{'x': {'y': 1}} 5\n".toList := by decide +kernel
example : encodeAllOwn (fun _ => ":H".toList) "a: !x{{'p': '}}'}} b !del{{\n}},!y{{(1, [2])}}".toList
    = .ok "a: !x:H b !del:H,!y:H".toList := by decide +kernel
example : encodeAllOwn (fun l => l) "a: !x{{'p': 1}} b: !u{{'never': 1} ".toList = .error (.noEnd 19 21) := by decide +kernel

end AY
