/-
  AY.Props.C11_FromPy — property C11 for trees built through the PYTHON API (`ConfigNode(data)`,
  `Config(dict)`; model `fromPy`, Model/FromPy.lean): evaluating an API-built tree of plain data gives back
  the data.  Corollaries of `C11_plain_eval_is_native` / `C11_plain_config_is_native`; the hypotheses of those
  theorems (`plainTree`, `uniqueKeys`) are discharged for every API-built tree (AY/Lemmas/FromPy.lean).
-/
import AY.Props.C11
import AY.Lemmas.FromPy
import AY.Lemmas.FromPyData
namespace AY

/-- `{'a': 1, 'b': ['x', {'c': None, 'd': 2.5}], 'e': {}}` -/
def c11PyData : Plain :=
  .dict [(.str "a", .scalar (.int 1)),
    (.str "b", .list [.scalar (.str "x"), .dict [(.str "c", .scalar .null), (.str "d", .scalar (.float "2.5"))]]),
    (.str "e", .dict [])]

/- "lists become lists, scalars their exact Python type, and the structure mirrors the merged tree": an
   EvalContext evaluates `ConfigNode(data, **kw)` successfully, and the result read back as plain data is
   `data` — for all data whose mappings have distinct keys (a Python dict), all keyword arguments (flags
   play no role for plain data, not even `safe=False`: nothing is executed), any thread-local defaults. -/
theorem C11_fromPy_evaluates_to_data (w : World) (env : Env) (kw : PyKw) (d : Plain)
    (hk : pyKeysDistinct d = true) :
    ∃ v st, evaluate w (fromPy env kw d) = .ok (v, st) ∧ v.toPlain? = some d := by
  obtain ⟨v, st, h, hv⟩ := C11_plain_eval_is_native w (fromPy env kw d) (FP.fromPy_plainTree env kw d)
    (wellKeyed_uniqueKeys (FP.fromPy_wellKeyed env kw d hk))
  exact ⟨v, st, h, by rw [hv, FP.native_fromPy]⟩

example : pyKeysDistinct c11PyData = true := by decide
example : ∃ v st, evaluate {} (fromPy { dSafe := false } { safe := some false, prio := some 1 } c11PyData) = .ok (v, st) ∧
    v.toPlain? = some c11PyData :=
  C11_fromPy_evaluates_to_data {} _ _ c11PyData (by decide)

/- `Config(data)` for a dict: `ConfigDict(data)`, `check_missing` (nothing is required in plain data), then
   the evaluation of a deep copy — which is the tree itself (`C19_api_copy_identity`) -/
theorem C11_fromPy_config_is_data (w : World) (env : Env) (items : List (Key × Plain))
    (hk : pyKeysDistinct (.dict items) = true) :
    ∃ v st, config w (fromPy env {} (.dict items)) = .ok (v, st) ∧ v.toPlain? = some (.dict items) := by
  have hpl := FP.fromPy_plainTree env {} (.dict items)
  have huk := wellKeyed_uniqueKeys (FP.fromPy_wellKeyed env {} (.dict items) hk)
  simp only [fromPy] at hpl huk ⊢
  obtain ⟨v, st, h, hv⟩ := C11_plain_config_is_native w _ _ hpl huk
  refine ⟨v, st, h, ?_⟩
  have hn := FP.native_fromPy env {} (.dict items)
  simp only [fromPy] at hn
  rw [hv, hn]

example : ∃ v st, config {} (fromPy {} {} c11PyData) = .ok (v, st) ∧ v.toPlain? = some c11PyData :=
  C11_fromPy_config_is_data {} {} _ (by decide)

end AY
