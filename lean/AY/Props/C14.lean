/-
  C14 — required placeholders.

  "Constructing the config fails - before anything is evaluated - exactly when at least one
   !required node remains anywhere in the merged tree (top level, nested mappings, lists, arguments
   of call/bind nodes), and the error lists the path of every such node. A placeholder overwritten
   or deleted by any later stage does not count."

  The theorems are about `config w t` (config.py `Config.__init__`: `check_missing`, then
  `evaluate`) for an ARBITRARY merged tree `t` — so a placeholder that a later stage overwrote or
  deleted is simply not a node of `t` and does not count — and an arbitrary world `w`.
  Vocabulary (`hasRequired`, `RequiredAt`, `distinctKeys`, `emptyRoot`): AY/Lemmas/C14Lemmas.lean.
-/
import AY.Lemmas.C14Lemmas
namespace AY

/- "Constructing the config fails ... exactly when at least one !required node remains anywhere in
   the merged tree (top level, nested mappings, lists, arguments of call/bind nodes)".
   `hasRequired` recurses through every container class alike. The error is the class `required`
   with a non-empty path list; in every other case construction is evaluation (or, for an empty
   root container, which `Config.__init__` does not even check, the empty config; such a root has
   no placeholder). -/
theorem C14_iff (w : World) (t : Node) :
    ((∃ ps, ps ≠ [] ∧ config w t = .error (.required ps)) ↔ hasRequired t = true) ∧
    ((∃ ps, config w t = .error (.required ps)) ↔ hasRequired t = true) ∧
    (hasRequired t = false →
      config w t = if emptyRoot t then .ok (.dict [] [], {}) else evaluate w t) ∧
    (emptyRoot t = true → hasRequired t = false) := by
  have key : ∀ ps, config w t = .error (.required ps) →
      hasRequired t = true ∧ ps = requiredPaths [] t ∧ ps ≠ [] := by
    intro ps h
    by_cases he : emptyRoot t = true
    · cases t with
      | leaf f k => simp [emptyRoot] at he
      | comp f k cs =>
        cases cs with
        | nil => simp [config] at h
        | cons a b => simp [emptyRoot] at he
    · have hcfg : config w t = match requiredPaths [] t with
          | [] => evaluate w t
          | ps => .error (.required ps) := by
        cases t with
        | leaf f k => rfl
        | comp f k cs =>
          cases cs with
          | nil => simp [emptyRoot] at he
          | cons a b => rfl
      rw [hcfg] at h
      cases hp : requiredPaths [] t with
      | nil => rw [hp] at h; exact absurd h (evaluate_noReq w t ps)
      | cons a b =>
        rw [hp] at h
        simp only [Except.error.injEq, Err.required.injEq] at h
        refine ⟨(requiredPaths_ne_nil t []).2 (by rw [hp]; simp), h.symm, ?_⟩
        rw [← h]; simp
  have back : hasRequired t = true →
      requiredPaths [] t ≠ [] ∧ config w t = .error (.required (requiredPaths [] t)) := by
    intro h
    have hne := (requiredPaths_ne_nil t []).1 h
    refine ⟨hne, ?_⟩
    cases t with
    | leaf f k =>
      simp only [config]
    | comp f k cs =>
      cases cs with
      | nil => simp [hasRequired, hasRequiredList] at h
      | cons a b =>
        simp only [config]
  refine ⟨⟨?_, ?_⟩, ⟨?_, ?_⟩, ?_, hasRequired_emptyRoot t⟩
  · rintro ⟨ps, _, h⟩; exact (key ps h).1
  · intro h; exact ⟨_, (back h).1, (back h).2⟩
  · rintro ⟨ps, h⟩; exact (key ps h).1
  · intro h; exact ⟨_, (back h).2⟩
  · intro h
    have hnil : requiredPaths [] t = [] := by
      cases hp : requiredPaths [] t with
      | nil => rfl
      | cons a b =>
        have := (requiredPaths_ne_nil t []).2 (by rw [hp]; simp)
        rw [h] at this; cases this
    cases t with
    | leaf f k => simp only [config, emptyRoot, hnil]; rfl
    | comp f k cs =>
      cases cs with
      | nil => simp [config, emptyRoot]
      | cons a b => simp only [config, emptyRoot, hnil]; rfl

/-- a config with placeholders at the top level, in a nested mapping, in a list and among the
    arguments of a call node -/
def c14Tree : Node :=
  .comp {} .dict [
    (.str "a", .leaf {} .required),
    (.str "b", .comp {} .dict [(.str "x", .leaf {} (.scalar (.int 1))), (.str "y", .leaf {} .required)]),
    (.str "c", .comp {} .list [(.int 0, .leaf {} (.scalar (.int 1))), (.int 1, .leaf {} .required)]),
    (.str "d", .comp { del := some true } (.call "rec.f") [(.int 0, .leaf {} .required), (.str "p", .leaf {} (.scalar (.int 2)))])]

example : hasRequired c14Tree = true := by decide
example : config {} c14Tree = .error (.required
    [[.str "a"], [.str "b", .str "y"], [.str "c", .int 1], [.str "d", .int 0]]) := rfl
/- a tree in which a later stage replaced the placeholders: construction is evaluation -/
example : hasRequired (.comp {} .dict [(.str "a", .leaf {} (.scalar (.int 1)))]) = false := by decide

/- "... and the error lists the path of every such node": when construction fails with the class
   `required`, the listed paths are exactly the paths at which `get_node` finds a placeholder —
   none missing, none spurious, none listed twice. Hypothesis: sibling keys are pairwise distinct
   (true of every tree the builder produces, `_children` being a dict; without it `get_node`
   cannot even address the shadowed sibling). -/
theorem C14_lists_all (w : World) (t : Node) (ps : List Path) (hd : distinctKeys t = true)
    (h : config w t = .error (.required ps)) :
    (∀ p, p ∈ ps ↔ RequiredAt t p) ∧ ps.Nodup ∧ ps = requiredPaths [] t := by
  have hps : ps = requiredPaths [] t := by
    by_cases he : emptyRoot t = true
    · cases t with
      | leaf f k => simp [emptyRoot] at he
      | comp f k cs =>
        cases cs with
        | nil => simp [config] at h
        | cons a b => simp [emptyRoot] at he
    · have hcfg : config w t = match requiredPaths [] t with
          | [] => evaluate w t
          | ps => .error (.required ps) := by
        cases t with
        | leaf f k => rfl
        | comp f k cs =>
          cases cs with
          | nil => simp [emptyRoot] at he
          | cons a b => rfl
      rw [hcfg] at h
      cases hp : requiredPaths [] t with
      | nil => rw [hp] at h; exact absurd h (evaluate_noReq w t ps)
      | cons a b =>
        rw [hp] at h
        simp only [Except.error.injEq, Err.required.injEq] at h
        exact h.symm
  subst hps
  refine ⟨?_, requiredPaths_nodup t [] hd, rfl⟩
  intro p
  rw [mem_requiredPaths t [] p hd]
  constructor
  · rintro ⟨q, hq, hr⟩; simpa [hq] using hr
  · intro hr; exact ⟨p, by simp, hr⟩

example : distinctKeys c14Tree = true ∧ config {} c14Tree = .error (.required
    [[.str "a"], [.str "b", .str "y"], [.str "c", .int 1], [.str "d", .int 0]]) := ⟨by decide, rfl⟩

/- the same statement about the path list itself (independent of how `config` uses it) -/
theorem C14_requiredPaths_complete (t : Node) (hd : distinctKeys t = true) :
    (∀ p, p ∈ requiredPaths [] t ↔ RequiredAt t p) ∧ (requiredPaths [] t).Nodup := by
  refine ⟨?_, requiredPaths_nodup t [] hd⟩
  intro p
  rw [mem_requiredPaths t [] p hd]
  constructor
  · rintro ⟨q, hq, hr⟩; simpa [hq] using hr
  · intro hr; exact ⟨p, by simp, hr⟩

example : distinctKeys c14Tree = true := by decide
example : RequiredAt c14Tree [.str "d", .int 0] := ⟨{}, rfl⟩

/- "fails - before anything is evaluated": the failure is decided by the tree alone. Whatever the
   world (the importable callables, modules, eval symbols — everything evaluation could touch), the
   result is the same error; an `Except.error` carries no evaluation state, hence no execution log
   (the only place a log lives is the `EvSt` component of `Except.ok`); and the evaluator itself
   never produces this error class, so it cannot be the outcome of a (partial) evaluation. -/
theorem C14_nothing_evaluated (w1 : World) (t : Node) (ps : List Path)
    (h : config w1 t = .error (.required ps)) :
    (∀ w2 : World, config w2 t = .error (.required ps)) ∧
    (∀ w2 : World, evaluate w2 t ≠ .error (.required ps)) ∧
    (∀ (v : Val) (st : EvSt), config w1 t ≠ .ok (v, st)) := by
  refine ⟨?_, fun w2 => evaluate_noReq w2 t ps, ?_⟩
  · intro w2
    by_cases he : emptyRoot t = true
    · cases t with
      | leaf f k => simp [emptyRoot] at he
      | comp f k cs =>
        cases cs with
        | nil => simp [config] at h
        | cons a b => simp [emptyRoot] at he
    · have hcfg : ∀ w, config w t = match requiredPaths [] t with
          | [] => evaluate w t
          | ps => .error (.required ps) := by
        intro w
        cases t with
        | leaf f k => rfl
        | comp f k cs =>
          cases cs with
          | nil => simp [emptyRoot] at he
          | cons a b => rfl
      rw [hcfg] at h ⊢
      cases hp : requiredPaths [] t with
      | nil => rw [hp] at h; exact absurd h (evaluate_noReq w1 t ps)
      | cons a b => rw [hp] at h; exact h
  · intro v st h2; rw [h] at h2; cases h2

example : config {} c14Tree = config { sigs := [("rec.f", [])], syms := ["T"] } c14Tree := rfl

end AY
