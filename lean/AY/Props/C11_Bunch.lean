/-
  C11 — evaluation yields plain Python data; here: "mappings become attribute-accessible dicts
  (cfg.a is cfg['a'])" and "mutating the evaluated config ..." on the object that carries both views.

  Every evaluated mapping is a `Bunch` (utils.py), a `dict` subclass with `__getattr__`/`__setattr__`/`__delattr__`.
  AY.Model.Bunch models it as two association lists (the dict items, the instance `__dict__`) with the seven
  operations `b[n]`, `b[n] = v`, `del b[n]`, `b.n`, `b.n = v`, `del b.n`, `n in b`, including the underscore rule
  of `__setattr__`, its `Name conflict!` branch, the class attributes that shadow items on read (`keys`, `items`,
  `ayns`, …) and the exception classes.  Theorems, all over ARBITRARY operation sequences (induction over the list):

    1. `C11_bunch_invariant`       the public operations never put a public name into `__dict__` (and both maps
                                   keep distinct keys);
    2. `C11_bunch_attr_is_item`    after any sequence: `b.n` is `b[n]` for every name `n` that does not start with
                                   `_` and is not an attribute of the class (missing: AttributeError ↔ KeyError);
    3. `C11_bunch_set_then_get`, `C11_bunch_delete_then_get`;
    4. `C11_bunch_frame`           an operation on one name leaves every other name alone, in both maps, order included;
    5. `C11_bunch_refines_map`     any mix of item and attribute operations on public names behaves as the same
                                   sequence of get/put/del/has on ONE finite map;
    6. what is outside: `C11_bunch_underscore_attr_not_item`, `C11_bunch_class_attr_shadows`,
       `C11_bunch_name_conflict` (proved witnesses, replayed on the code by the harness corpus).

  Values are opaque: "is" (object identity) is equality of the opaque value; the harness numbers objects by `id`.
  Definitions and proofs: AY/Model/Bunch.lean, AY/Lemmas/Bunch.lean; tie: harness/props/c11.py, family `bunch`.
-/
import AY.Lemmas.Bunch
namespace AY
open Bunch

/-! ### Concrete inputs used by the non-vacuity examples -/

/-- the class attributes of the example (`dict` has many more) -/
def c11Cls : String → Bool := fun n => n = "keys" || n = "items" || n = "ayns"

/-- `{a: 1, _w: 2}` with `_source` in `__dict__`, as the root of an evaluated config -/
def c11Bunch : State Nat := { items := [("a", 1), ("_w", 2)], attrs := [("_source", 0)] }

theorem c11Bunch_pub : Pub c11Bunch := by
  intro n hn
  unfold c11Bunch
  simp only [lookup]
  split
  · rename_i h; rw [← h] at hn; cases hn
  · rfl

/-- a mixed history -/
def c11Ops : List (Op Nat) :=
  [.setattr "lr" 5, .getitem "lr", .setitem "k" 6, .getattr "k", .delattr "a", .getattr "a", .setattr "_t" 7,
   .delitem "_w", .getattr "_t", .contains "lr", .delitem "zz"]

/-- `b.n` seen as an item access: a missing attribute is an AttributeError where `b[n]` raises KeyError -/
def asAttr {α : Type} : Res α → Res α
  | .keyError => .attributeError
  | r => r

/-! ### 1. The invariant -/

/- "`__setattr__`: names starting with `_` go to the instance, everything else into the dict": for EVERY sequence of
   public operations (everything but writing to `b.__dict__` directly), from a state whose `__dict__` holds only
   underscore names (a fresh `Bunch`: empty; an evaluated `Config`: `_source`, `_user_data`) the `__dict__` holds only
   underscore names afterwards, and items and `__dict__` keep distinct keys. -/
theorem C11_bunch_invariant {α : Type} (cls : String → Bool) (b : State α) (ops : List (Op α))
    (hb : Pub b) (hops : ∀ op ∈ ops, op.isPublic = true) :
    Pub (run cls b ops) ∧ (DictLike b → DictLike (run cls b ops)) := by
  refine ⟨run_pub cls ops b hb hops, ?_⟩
  intro hd
  clear hb hops
  induction ops generalizing b with
  | nil => exact hd
  | cons op ops ih => exact ih _ (step_dictLike cls b op hd)

example : Pub c11Bunch ∧ DictLike c11Bunch ∧ (∀ op ∈ c11Ops, op.isPublic = true) :=
  ⟨c11Bunch_pub, ⟨by decide, by decide⟩, by decide⟩
example : (run c11Cls c11Bunch c11Ops).attrs = [("_source", 0), ("_t", 7)] ∧
    (run c11Cls c11Bunch c11Ops).items = [("lr", 5), ("k", 6)] := by decide +kernel

/-! ### 2. Attribute view = item view -/

/- "mappings become attribute-accessible dicts (cfg.a is cfg['a'])": after EVERY sequence of public operations (on any
   names, underscore names and class attributes included) from a state as above, for EVERY name that does not start
   with `_` and is not an attribute of the class: `b.n` returns the very object `b[n]` returns, and `b.n` raises
   AttributeError exactly when `b[n]` raises KeyError. -/
theorem C11_bunch_attr_is_item {α : Type} (cls : String → Bool) (b : State α) (ops : List (Op α))
    (hb : Pub b) (hops : ∀ op ∈ ops, op.isPublic = true) (n : String) (hu : underscore n = false) (hc : cls n = false) :
    getattr cls (run cls b ops) n = asAttr (getitem (run cls b ops) n) := by
  have hp := run_pub cls ops b hb hops
  unfold getattr getitem
  rw [hp n hu, hc]
  cases lookup n (run cls b ops).items <;> rfl

example : getattr c11Cls (run c11Cls c11Bunch c11Ops) "lr" = .val 5 ∧ getitem (run c11Cls c11Bunch c11Ops) "lr" = .val 5 ∧
    getattr c11Cls (run c11Cls c11Bunch c11Ops) "a" = .attributeError ∧ getitem (run c11Cls c11Bunch c11Ops) "a" = .keyError := by
  decide +kernel

/- Outside the statement, and why: (a) an underscore name set as an attribute lives in `__dict__`, not in the dict —
   `b._t = 7` then `b['_t']` is a KeyError while `b._t` is 7; read access still falls back to the items (`b._w`);
   (b) a class attribute shadows an item of the same name on read: after `b.keys = 5`, `b['keys']` is 5 but `b.keys`
   is the method. -/
theorem C11_bunch_underscore_attr_not_item :
    let b := run c11Cls c11Bunch [.setattr "_t" 7]
    getattr c11Cls b "_t" = .val 7 ∧ getitem b "_t" = .keyError ∧ getattr c11Cls b "_w" = .val 2 := by
  decide +kernel

theorem C11_bunch_class_attr_shadows :
    let b := run c11Cls c11Bunch [.setattr "keys" 5]
    getitem b "keys" = .val 5 ∧ getattr c11Cls b "keys" = .cls := by
  decide +kernel

/- (c) The `Name conflict!` branch needs a public name in `__dict__`, which no public operation puts there
   (`C11_bunch_invariant`): for every sequence of public operations from a state as above and every public name,
   `b.n = v` does not raise.  Through the backdoor it does, and then `b.n` is no longer `b[n]`. -/
theorem C11_bunch_no_name_conflict {α : Type} (cls : String → Bool) (b : State α) (ops : List (Op α))
    (hb : Pub b) (hops : ∀ op ∈ ops, op.isPublic = true) (n : String) (v : α) :
    (step cls (run cls b ops) (.setattr n v)).2 = .done := by
  have hp := run_pub cls ops b hb hops
  simp only [step]
  by_cases hu : underscore n = true
  · rw [if_pos hu]
  · rw [if_neg hu, hp n (by simpa using hu)]

example := C11_bunch_no_name_conflict c11Cls c11Bunch c11Ops c11Bunch_pub (by decide) "lr" 1
example : (step c11Cls (run c11Cls c11Bunch c11Ops) (.setattr "lr" 1)).2 = .done := by decide +kernel

theorem C11_bunch_name_conflict :
    let b := run c11Cls c11Bunch [.dictSet "q" 3]
    (step c11Cls b (.setattr "q" 5)).2 = .valueError ∧ getattr c11Cls b "q" = .val 3 ∧ getitem b "q" = .keyError := by
  decide +kernel

/-! ### 3. Set then get, delete then get -/

/- "b.n = v; b.n" / "b[n] = v; b[n]": after EVERY sequence of public operations from a state as above, for every public
   name: writing `v` through either spelling makes `b[n]` return `v`, `n in b` true, and — when the class has no
   attribute of that name — `b.n` return `v`. -/
theorem C11_bunch_set_then_get {α : Type} (cls : String → Bool) (b : State α) (ops : List (Op α))
    (hb : Pub b) (hops : ∀ op ∈ ops, op.isPublic = true) (n : String) (v : α) (hu : underscore n = false)
    (op : Op α) (hop : op = .setattr n v ∨ op = .setitem n v) :
    let b' := (step cls (run cls b ops) op).1
    (step cls (run cls b ops) op).2 = .done ∧ getitem b' n = .val v ∧
      (step cls b' (.contains n)).2 = .bool true ∧ (cls n = false → getattr cls b' n = .val v) := by
  have hp := run_pub cls ops b hb hops
  have hitems : (step cls (run cls b ops) op).1.items = set n v (run cls b ops).items ∧
      (step cls (run cls b ops) op).2 = .done ∧ (step cls (run cls b ops) op).1.attrs = (run cls b ops).attrs := by
    rcases hop with h | h <;> subst h
    · simp only [step, hu, hp n hu]
      exact ⟨rfl, rfl, rfl⟩
    · exact ⟨rfl, rfl, rfl⟩
  have hl : lookup n (step cls (run cls b ops) op).1.items = some v := by rw [hitems.1, lookup_set]; simp
  refine ⟨hitems.2.1, ?_, ?_, ?_⟩
  · unfold getitem; rw [hl]
  · show Res.bool (lookup n (step cls (run cls b ops) op).1.items).isSome = _
    rw [hl]; rfl
  · intro hc
    unfold getattr
    rw [hitems.2.2, hp n hu, hc, hl]
    rfl

example := C11_bunch_set_then_get c11Cls c11Bunch c11Ops c11Bunch_pub (by decide) "lr" 9 rfl (.setattr "lr" 9) (.inl rfl)

/- "del b.n" / "del b[n]": after every sequence as above, for every public name: when the deletion succeeds the name is
   gone from both views (`b[n]` KeyError, `n in b` false, `b.n` AttributeError unless the class has that attribute);
   it fails — with KeyError for BOTH spellings — exactly when the name was not an item, and then nothing changes. -/
theorem C11_bunch_delete_then_get {α : Type} (cls : String → Bool) (b : State α) (ops : List (Op α))
    (hb : Pub b) (hops : ∀ op ∈ ops, op.isPublic = true) (n : String) (hu : underscore n = false)
    (op : Op α) (hop : op = .delattr n ∨ op = .delitem n) :
    let b0 := run cls b ops
    let b' := (step cls b0 op).1
    (lookup n b0.items ≠ none → (step cls b0 op).2 = .done ∧ getitem b' n = .keyError ∧
        (step cls b' (.contains n)).2 = .bool false ∧ (cls n = false → getattr cls b' n = .attributeError)) ∧
    (lookup n b0.items = none → (step cls b0 op).2 = .keyError ∧ b' = b0) := by
  have hp := run_pub cls ops b hb hops
  have hstep : step cls (run cls b ops) op = step cls (run cls b ops) (.delitem n) := by
    rcases hop with h | h <;> subst h
    · simp only [step, hp n hu]
    · rfl
  simp only []
  rw [hstep]
  constructor
  · intro hne
    cases hl : lookup n (run cls b ops).items with
    | none => exact absurd hl hne
    | some w =>
      have he : lookup n (erase n (run cls b ops).items) = none := by rw [lookup_erase]; simp
      have hs : step cls (run cls b ops) (.delitem n) =
          ({ (run cls b ops) with items := erase n (run cls b ops).items }, .done) := by simp only [step, hl]
      rw [hs]
      refine ⟨rfl, ?_, ?_, ?_⟩
      · show getitem { (run cls b ops) with items := erase n (run cls b ops).items } n = _
        unfold getitem; simp only [he]
      · show Res.bool (lookup n (erase n (run cls b ops).items)).isSome = _
        rw [he]; rfl
      · intro hc
        show getattr cls { (run cls b ops) with items := erase n (run cls b ops).items } n = _
        unfold getattr
        simp only [hp n hu, hc, he]
        rfl
  · intro hl
    have hs : step cls (run cls b ops) (.delitem n) = (run cls b ops, .keyError) := by simp only [step, hl]
    rw [hs]
    exact ⟨rfl, rfl⟩

example : lookup "a" (run c11Cls c11Bunch [.setattr "lr" 5]).items ≠ none ∧
    lookup "zz" (run c11Cls c11Bunch [.setattr "lr" 5]).items = none := by decide +kernel

/-! ### 4. Frame -/

/- "operations on one name do not affect other names": for EVERY state and EVERY operation (the backdoor included) on
   the name `n`, the entries under all other names — in the dict and in `__dict__` — are the same before and after,
   in the same order; in particular every other name reads the same. -/
theorem C11_bunch_frame {α : Type} (cls : String → Bool) (b : State α) (op : Op α) :
    ((step cls b op).1.items.filter (fun kv => !decide (kv.1 = op.name)) = b.items.filter (fun kv => !decide (kv.1 = op.name)) ∧
     (step cls b op).1.attrs.filter (fun kv => !decide (kv.1 = op.name)) = b.attrs.filter (fun kv => !decide (kv.1 = op.name))) ∧
    ∀ m, m ≠ op.name →
      getitem (step cls b op).1 m = getitem b m ∧ getattr cls (step cls b op).1 m = getattr cls b m := by
  refine ⟨step_frame cls b op, ?_⟩
  intro m hm
  have h := step_lookup_other cls b op m hm
  unfold getitem getattr
  rw [h.1, h.2]
  exact ⟨rfl, rfl⟩

example : (step c11Cls c11Bunch (.delattr "a")).1.items = [("_w", 2)] ∧
    (step c11Cls c11Bunch (.setitem "a" 9)).1.items = [("a", 9), ("_w", 2)] := by decide +kernel

/-! ### 5. One map -/

/- "attribute-accessible dicts": for EVERY sequence of public operations whose names do not start with `_` and are
   not attributes of the class, in any mix of the two spellings, from a state as above: the results the caller sees
   are those of the same sequence of get / put / del / has on ONE finite map (the dict), reported as KeyError or —
   for `b.n` only — AttributeError when the name is missing; and the dict afterwards is that map. -/
theorem C11_bunch_refines_map {α : Type} (cls : String → Bool) (b : State α) (ops : List (Op α)) (hb : Pub b)
    (hops : ∀ op ∈ ops, op.isPublic = true ∧ underscore op.name = false ∧ cls op.name = false) :
    trace cls b ops = List.zipWith report ops (atrace (itemView b) (ops.map Op.abs)) ∧
    itemView (run cls b ops) = arun (itemView b) (ops.map Op.abs) :=
  run_refines cls ops b hb hops

/-- a history on public names, both spellings mixed -/
def c11PubOps : List (Op Nat) :=
  [.setattr "lr" 5, .getitem "lr", .setitem "k" 6, .getattr "k", .delattr "a", .getattr "a", .delattr "a", .delitem "k",
   .contains "lr", .getitem "zz"]

example : ∀ op ∈ c11PubOps, op.isPublic = true ∧ underscore op.name = false ∧ c11Cls op.name = false := by decide
example : trace c11Cls c11Bunch c11PubOps =
    [.done, .val 5, .done, .val 6, .done, .attributeError, .keyError, .done, .bool true, .keyError] := by decide +kernel

end AY
