/-
  C02, THE WHOLE FOLD — "… keys present in only one side are kept, … any other value (scalar or list) is
  replaced wholesale by the newer document's value. A mapping merged onto a list addresses existing indices
  only (anything else is a MergeError); no key is ever lost and nothing not mentioned by the newer document
  changes."

  Props/C02.lean proves that `Builder.flatten` of tag-free mapping documents IS the left fold `foldUpd` of the
  recursive update (`C02_plain_fold`), and the data laws of ONE update step (`C02_upd_no_key_lost`,
  `C02_upd_frame`, `C02_upd_replace`).  This file states the laws for the WHOLE build of any number of
  documents and for key paths of ANY depth: every theorem is about `flatten` of the parsed documents
  (`constructDocs`), observed with `native` and `Plain.at?` (the value stored at a key path, through
  mappings); `C02_plain_fold` moves to `foldUpd`, where the laws are proved by induction over the stage list
  (AY/Lemmas/C02PipeFold.lean).
  Path predicates on a document's data (`C02P.skips`, `keeps`, `noListAbove`): AY/Lemmas/C02PipeFold.lean.
  Every statement was fuzzed on the executable model before it was proved (notes/fuzz/C02_Pipeline_Fuzz.lean:
  2–4 tag-free documents, int / str / negative-int keys, lists, later documents derived from earlier ones
  with lists addressed by index mappings; 160 000 document lists, no counterexample inside the stated
  domains; `noListAbove` is what the fuzz showed to be needed: without it 78 % of the sampled cases fail).
-/
import AY.Props.C02
import AY.Lemmas.C02PipeFold
namespace AY
open AY.C02P

/-! ### from `flatten` to `foldUpd` and back -/

theorem c02p_ok_of_map {x : Except Err Node} {p : Plain} (h : x.map native = .ok p) : ∃ r, x = .ok r ∧ native r = p := by
  cases x with
  | error e => cases h
  | ok r => exact ⟨r, rfl, by injection h⟩

theorem c02p_map_ok {x : Except Err Node} {r : Node} (h : x = .ok r) : x.map native = .ok (native r) := by
  rw [h]; rfl

theorem c02p_err_of_map {x : Except Err Node} {e : Err} (h : x.map native = .error e) : x = .error e := by
  cases x with
  | error e' => injection h with h; rw [h]
  | ok r => cases h

def c02pData (docs : List (Env × Raw)) : List Plain := docs.map (fun d => plainOfRaw d.2)

theorem c02p_nodup {docs : List (Env × Raw)} (h : ∀ d, d ∈ docs → rawPlain d.2 = true) :
    ∀ y, y ∈ c02pData docs → nodupP y = true := by
  intro y hy
  obtain ⟨d, hd, rfl⟩ := List.mem_map.1 hy
  exact nodupP_doc (h d hd)

/-! ### Concrete documents used by the non-vacuity examples -/

def c02pI (i : Int) : Raw := .scalar .none {} (.lit (.int i))
/-- `{a: {b: {c: 1, d: 2}, l: [1, 2]}, t: 7}` -/
def c02pDoc1 : Raw := .map .none {} [
  (.str "a", .map .none {} [
    (.str "b", .map .none {} [(.str "c", c02pI 1), (.str "d", c02pI 2)]),
    (.str "l", .seq .none {} [c02pI 1, c02pI 2])]),
  (.str "t", c02pI 7)]
/-- `{a: {b: {c: 5, e: [3]}}}` -/
def c02pDoc2 : Raw := .map .none {} [
  (.str "a", .map .none {} [(.str "b", .map .none {} [(.str "c", c02pI 5), (.str "e", .seq .none {} [c02pI 3])])])]
/-- `{a: {l: {-1: 9}}, u: {v: 1}}` -/
def c02pDoc3 : Raw := .map .none {} [
  (.str "a", .map .none {} [(.str "l", .map .none {} [(.int (-1), c02pI 9)])]),
  (.str "u", .map .none {} [(.str "v", c02pI 1)])]
/-- `{a: {l: {2: 9}}}`: index out of range for `a.l = [1, 2]` -/
def c02pDoc4 : Raw := .map .none {} [(.str "a", .map .none {} [(.str "l", .map .none {} [(.int 2, c02pI 9)])])]
/-- `{a: {l: 0}}`: would replace the list wholesale -/
def c02pDoc5 : Raw := .map .none {} [(.str "a", .map .none {} [(.str "l", c02pI 0)])]

def c02pDocs (rs : List Raw) : List (Env × Raw) := rs.map (fun r => (({} : Env), r))
theorem c02pDocs_plain (rs : List Raw) (h : rs.all rawPlain = true) : ∀ d, d ∈ c02pDocs rs → rawPlain d.2 = true := by
  intro d hd
  obtain ⟨r, hr, rfl⟩ := List.mem_map.1 hd
  exact List.all_eq_true.1 h r hr
def c02pBuild (rs : List Raw) : Except Err Plain :=
  match constructDocs (c02pDocs rs) with
  | .error e => .error e
  | .ok ns => (flatten ns).map native
def c02pOkAt (x : Except Err Plain) (q : Path) : Option Plain :=
  match x with
  | .ok r => r.at? q
  | .error _ => none
def c02pIsErr (x : Except Err Plain) (e : Err) : Bool :=
  match x with
  | .ok _ => false
  | .error e' => e' == e

/-! ### nothing not mentioned by the later documents changes -/

/- "nothing not mentioned by the newer document changes", for the whole build: the documents `pre ++ post`
   (`pre` non-empty); no document of `post` mentions the key path `q` (`skips`: the path leaves the document
   below a mapping, at any depth).  If the build of all documents succeeds, so does the build of `pre`
   alone, and the value at `q` is the value the build of `pre` gives it (present or absent alike). -/
theorem C02_fold_frame (pre post : List (Env × Raw)) (q : Path) (hpre : pre ≠ [])
    (h : ∀ d, d ∈ pre ++ post → rawPlain d.2 = true)
    (hskip : ∀ y, y ∈ post → skips q (plainOfRaw y.2) = true) :
    ∃ ns ms, constructDocs (pre ++ post) = .ok ns ∧ constructDocs pre = .ok ms ∧
      ∀ r, flatten ns = .ok r → ∃ a, flatten ms = .ok a ∧ (native r).at? q = (native a).at? q := by
  obtain ⟨ns, hns, hfold⟩ := C02_plain_fold (pre ++ post) (by simp [hpre]) h
  obtain ⟨ms, hms, hfoldp⟩ := C02_plain_fold pre hpre (fun d hd => h d (List.mem_append_left _ hd))
  refine ⟨ns, ms, hns, hms, ?_⟩
  intro r hr
  rw [c02p_map_ok hr, List.map_append, foldUpd_append _ _ (by simpa using hpre)] at hfold
  obtain ⟨a', ha'⟩ := fold_ok_prefix _ _ _ hfold.symm
  rw [ha'] at hfoldp hfold
  obtain ⟨a, ha, hna⟩ := c02p_ok_of_map hfoldp
  refine ⟨a, ha, ?_⟩
  rw [hna]
  refine fold_frame q _ a' (native r) hfold.symm ?_
  intro y hy
  obtain ⟨d, hd, rfl⟩ := List.mem_map.1 hy
  exact ⟨nodupP_doc (h d (List.mem_append_right _ hd)), hskip d hd⟩

-- `a.b.d` and `t` are mentioned by neither `{a: {b: {c: 5, e: [3]}}}` nor `{a: {l: {-1: 9}}, u: {v: 1}}`
example : (c02pDocs [c02pDoc1]) ≠ [] ∧
    (∀ d, d ∈ c02pDocs [c02pDoc1] ++ c02pDocs [c02pDoc2, c02pDoc3] → rawPlain d.2 = true) ∧
    ((c02pDocs [c02pDoc2, c02pDoc3]).all fun y =>
      skips [.str "a", .str "b", .str "d"] (plainOfRaw y.2) && skips [.str "t"] (plainOfRaw y.2)) = true ∧
    optEq (c02pOkAt (c02pBuild [c02pDoc1, c02pDoc2, c02pDoc3]) [.str "a", .str "b", .str "d"])
      (some (.scalar (.int 2))) = true :=
  ⟨by simp [c02pDocs], c02pDocs_plain [c02pDoc1, c02pDoc2, c02pDoc3] (by decide), by decide +kernel, by decide +kernel⟩

/-! ### no key is ever lost -/

/- "no key is ever lost", for the whole build: a key path `q` present in the data of SOME document `d`
   (any position: `pre` may be empty) is a key path of the result, provided
   * no LATER document replaces something strictly above the end of `q` wholesale by a non-mapping value
     (`keeps`: as far as `q` exists in the later document it runs through mappings — the value AT `q` may be
     replaced, by anything: the key path stays), and
   * no EARLIER document has a list strictly above the end of `q` (`noListAbove`: there the mapping of `d` is
     not a set of keys but addresses list indices — the clause "a mapping merged onto a list addresses
     existing indices only"; `C02_fold_list_spine_counterexample`). -/
theorem C02_fold_no_key_lost (pre : List (Env × Raw)) (d : Env × Raw) (post : List (Env × Raw)) (q : Path)
    (h : ∀ x, x ∈ pre ++ d :: post → rawPlain x.2 = true)
    (hq : ((plainOfRaw d.2).at? q).isSome = true)
    (hpre : ∀ x, x ∈ pre → noListAbove q (plainOfRaw x.2) = true)
    (hpost : ∀ y, y ∈ post → keeps q (plainOfRaw y.2) = true) :
    ∃ ns, constructDocs (pre ++ d :: post) = .ok ns ∧
      ∀ r, flatten ns = .ok r → ((native r).at? q).isSome = true := by
  obtain ⟨ns, hns, hfold⟩ := C02_plain_fold (pre ++ d :: post) (by simp) h
  refine ⟨ns, hns, ?_⟩
  intro r hr
  rw [c02p_map_ok hr, List.map_append, List.map_cons] at hfold
  obtain ⟨a1, h1, h2⟩ := foldUpd_split _ _ _ _ hfold.symm
  cases hv : (plainOfRaw d.2).at? q with
  | none => simp [hv] at hq
  | some v =>
    have hd : nodupP (plainOfRaw d.2) = true := nodupP_doc (h d (by simp))
    have hw := (foldUpd_write q _ _ a1 v h1 hd hv (fun x hx => by
      obtain ⟨x0, hx0, rfl⟩ := List.mem_map.1 hx
      exact ⟨nodupP_doc (h x0 (List.mem_append_left _ hx0)), hpre x0 hx0⟩)).1
    refine fold_keep q _ a1 (native r) h2 ?_ hw
    intro y hy
    obtain ⟨y0, hy0, rfl⟩ := List.mem_map.1 hy
    exact ⟨nodupP_doc (h y0 (by simp [hy0])), hpost y0 hy0⟩

-- the key path `a.b.e` of the SECOND document survives the third; `a.b.c` of the first survives both
example : (∀ x, x ∈ c02pDocs [c02pDoc1] ++ (({} : Env), c02pDoc2) :: c02pDocs [c02pDoc3] → rawPlain x.2 = true) ∧
    ((plainOfRaw c02pDoc2).at? [.str "a", .str "b", .str "e"]).isSome = true ∧
    noListAbove [.str "a", .str "b", .str "e"] (plainOfRaw c02pDoc1) = true ∧
    keeps [.str "a", .str "b", .str "e"] (plainOfRaw c02pDoc3) = true ∧
    optEq (c02pOkAt (c02pBuild [c02pDoc1, c02pDoc2, c02pDoc3]) [.str "a", .str "b", .str "e"])
      (some (.list [.scalar (.int 3)])) = true :=
  ⟨c02pDocs_plain [c02pDoc1, c02pDoc2, c02pDoc3] (by decide), by decide +kernel, by decide +kernel,
   by decide +kernel, by decide +kernel⟩

/- The proviso `noListAbove` cannot be dropped, on model and code alike: `{x: [1, 2]}` ← `{x: {0: 5}}` builds
   `{x: [5, 2]}` — the newer document's key path `x.0` is a list POSITION of the result, not a key path (the
   data is not lost: it is element 0). -/
theorem C02_fold_list_spine_counterexample :
    c02pBuild [.map .none {} [(.str "x", .seq .none {} [c02pI 1, c02pI 2])],
               .map .none {} [(.str "x", .map .none {} [(.int 0, c02pI 5)])]] =
      .ok (.dict [(.str "x", .list [.scalar (.int 5), .scalar (.int 2)])]) ∧
    ((plainOfRaw (.map .none {} [(.str "x", .map .none {} [(.int 0, c02pI 5)])])).at? [.str "x", .int 0]).isSome = true ∧
    noListAbove [.str "x", .int 0] (plainOfRaw (.map .none {} [(.str "x", .seq .none {} [c02pI 1, c02pI 2])])) = false ∧
    (Plain.dict [(.str "x", .list [.scalar (.int 5), .scalar (.int 2)])]).at? [.str "x", .int 0] = none := by
  refine ⟨resEq_sound (by decide +kernel), by decide +kernel, by decide +kernel, rfl⟩

/-! ### the last writer wins -/

/- "any other value (scalar or list) is replaced wholesale by the newer document's value", for the whole
   build: the value at a LEAF path `q` is the value of the LAST document that writes at `q` — document `d`
   holds the non-mapping value `v` (a scalar or a list) at `q`, no later document mentions `q` (`skips`; a
   later document with a value at or above `q` would be the last writer itself), no earlier document has a
   list strictly above the end of `q`.  Whatever the earlier documents hold at, above (scalars, mappings) or
   below `q`: the result holds exactly `v` at `q`, and NOTHING below `q` (replaced wholesale: every key path
   the earlier documents had below `q` is gone). -/
theorem C02_fold_last_writer (pre : List (Env × Raw)) (d : Env × Raw) (post : List (Env × Raw)) (q : Path) (v : Plain)
    (h : ∀ x, x ∈ pre ++ d :: post → rawPlain x.2 = true)
    (hv : (plainOfRaw d.2).at? q = some v) (hleaf : isDictP v = false)
    (hpre : ∀ x, x ∈ pre → noListAbove q (plainOfRaw x.2) = true)
    (hpost : ∀ y, y ∈ post → skips q (plainOfRaw y.2) = true) :
    ∃ ns, constructDocs (pre ++ d :: post) = .ok ns ∧
      ∀ r, flatten ns = .ok r →
        (native r).at? q = some v ∧ ∀ q', q' ≠ [] → (native r).at? (q ++ q') = none := by
  obtain ⟨ns, hns, hfold⟩ := C02_plain_fold (pre ++ d :: post) (by simp) h
  refine ⟨ns, hns, ?_⟩
  intro r hr
  suffices hmain : (native r).at? q = some v from
    ⟨hmain, fun q' hq' => by rw [at_append, hmain]; exact at_below_leaf hleaf q' hq'⟩
  rw [c02p_map_ok hr, List.map_append, List.map_cons] at hfold
  obtain ⟨a1, h1, h2⟩ := foldUpd_split _ _ _ _ hfold.symm
  have hd : nodupP (plainOfRaw d.2) = true := nodupP_doc (h d (by simp))
  have hw := (foldUpd_write q _ _ a1 v h1 hd hv (fun x hx => by
    obtain ⟨x0, hx0, rfl⟩ := List.mem_map.1 hx
    exact ⟨nodupP_doc (h x0 (List.mem_append_left _ hx0)), hpre x0 hx0⟩)).2 hleaf
  rw [← hw]
  refine fold_frame q _ a1 (native r) h2 ?_
  intro y hy
  obtain ⟨y0, hy0, rfl⟩ := List.mem_map.1 hy
  exact ⟨nodupP_doc (h y0 (by simp [hy0])), hpost y0 hy0⟩

-- `a.b.c`: written `1` by the first document, `5` by the second, not mentioned by the third: `5`
example : (plainOfRaw c02pDoc2).at? [.str "a", .str "b", .str "c"] = some (.scalar (.int 5)) ∧
    isDictP (.scalar (.int 5)) = false ∧
    noListAbove [.str "a", .str "b", .str "c"] (plainOfRaw c02pDoc1) = true ∧
    skips [.str "a", .str "b", .str "c"] (plainOfRaw c02pDoc3) = true ∧
    optEq (c02pOkAt (c02pBuild [c02pDoc1, c02pDoc2, c02pDoc3]) [.str "a", .str "b", .str "c"])
      (some (.scalar (.int 5))) = true :=
  ⟨optEq_sound (by decide +kernel), rfl, by decide +kernel, by decide +kernel, by decide +kernel⟩

/-! ### a mapping onto a list: existing indices only -/

/- "A mapping merged onto a list addresses existing indices only (anything else is a MergeError)", for the
   whole build: the earlier documents `pre` build a tree that holds a list `xs` at the key path `q`; the next
   document `d` holds a mapping at `q` with a key `kbad` that is not an existing index of `xs` (not an
   integer, or outside `-len … len-1`).  Then the build of ALL documents fails with MergeError — whatever the
   later documents `post` are (even one that would replace the list wholesale). -/
theorem C02_fold_list_index_error (pre : List (Env × Raw)) (d : Env × Raw) (post : List (Env × Raw)) (q : Path)
    (xs : List Plain) (bs : List (Key × Plain)) (kbad : Key) (hpre : pre ≠ [])
    (h : ∀ x, x ∈ pre ++ d :: post → rawPlain x.2 = true)
    (hd : (plainOfRaw d.2).at? q = some (.dict bs)) (hk : (alookup kbad bs).isSome = true)
    (hbad : listIndex xs.length kbad = none) :
    ∃ ms ns, constructDocs pre = .ok ms ∧ constructDocs (pre ++ d :: post) = .ok ns ∧
      ∀ a, flatten ms = .ok a → (native a).at? q = some (.list xs) → flatten ns = .error .merge := by
  obtain ⟨ns, hns, hfold⟩ := C02_plain_fold (pre ++ d :: post) (by simp) h
  obtain ⟨ms, hms, hfoldp⟩ := C02_plain_fold pre hpre (fun x hx => h x (List.mem_append_left _ hx))
  refine ⟨ms, ns, hms, hns, ?_⟩
  intro a ha hax
  rw [c02p_map_ok ha] at hfoldp
  apply c02p_err_of_map
  rw [hfold, List.map_append, List.map_cons]
  exact foldUpd_index_error q _ _ _ (native a) xs bs kbad (by simpa using hpre) hfoldp.symm
    (nodupP_doc (h d (by simp))) hax hd hk hbad

-- `a.l = [1, 2]` ← `a: {l: {2: 9}}` ← `a: {l: 0}`: MergeError, although the last document would replace the list
example : c02pDocs [c02pDoc1, c02pDoc2] ≠ [] ∧
    (∀ x, x ∈ c02pDocs [c02pDoc1, c02pDoc2] ++ (({} : Env), c02pDoc4) :: c02pDocs [c02pDoc5] → rawPlain x.2 = true) ∧
    optEq ((plainOfRaw c02pDoc4).at? [.str "a", .str "l"]) (some (.dict [(.int 2, .scalar (.int 9))])) = true ∧
    (alookup (.int 2) [(Key.int 2, Plain.scalar (.int 9))]).isSome = true ∧
    listIndex [Plain.scalar (.int 1), Plain.scalar (.int 2)].length (.int 2) = none ∧
    optEq (c02pOkAt (c02pBuild [c02pDoc1, c02pDoc2]) [.str "a", .str "l"])
      (some (.list [.scalar (.int 1), .scalar (.int 2)])) = true ∧
    c02pIsErr (c02pBuild [c02pDoc1, c02pDoc2, c02pDoc4, c02pDoc5]) .merge = true ∧
    -- an existing (negative) index is fine
    optEq (c02pOkAt (c02pBuild [c02pDoc1, c02pDoc2, c02pDoc3]) [.str "a", .str "l"])
      (some (.list [.scalar (.int 1), .scalar (.int 9)])) = true :=
  ⟨by simp [c02pDocs], c02pDocs_plain [c02pDoc1, c02pDoc2, c02pDoc4, c02pDoc5] (by decide), by decide +kernel,
   by decide, by decide, by decide +kernel, by decide +kernel, by decide +kernel⟩

end AY
