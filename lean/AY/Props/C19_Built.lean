/-
  AY.Props.C19_Built — property C19 for every tree a Builder produces, WITHOUT a hypothesis on the
  result.

  AY.Props.C19 ends with "Not proved (PARTIAL): that merging / flattening also preserves `WellKeyed`"
  — the hypothesis `hw : WellKeyed r` of `C19_merged_copy_identity` / `C19_built_copy_identity`.  It is
  proved here: the loader establishes `WellKeyed` for every document without duplicate sibling keys
  (`KI.rawKeyed`, the FULL tag vocabulary of `Raw`), `on_merge` and `Builder.flatten` preserve it
  (lemmas: AY/Lemmas/KeyInv.lean, KeyInvMerge.lean, KeyInvFlatten.lean, KeyInvConstruct.lean,
  KeyInvariants.lean).
-/
import AY.Props.C19
import AY.Lemmas.KeyInvariants
namespace AY

/-! ### the loader establishes the key invariant -/

/- Every tree built by `yaml.parse` from a document in which no mapping has two equal sibling keys is
   `WellKeyed` (mappings have pairwise distinct keys, list-family nodes store their elements under
   `0 … n-1`, at every level): any tags (`!call` / `!bind` on a sequence turn numbered children into
   dict entries `0 … n-1`, on a scalar into `{0: value}`), both construction modes, any per-source
   defaults.  A tagged mapping is built from the item list as it stands, hence the hypothesis. -/
theorem C19_construct_wellKeyed (env : Env) (r : Raw) (n : Node) (hr : KI.rawKeyed r = true)
    (h : construct env r = .ok n) : WellKeyed n = true :=
  construct_wellKeyed env r n hr h

example : KI.rawKeyed c19ExRaw = true ∧ KI.rawKeyed c19ExDoc1 = true ∧ KI.rawKeyed c19ExDoc2 = true := by decide
example : WellKeyed c19ExTree = true := C19_construct_wellKeyed {} c19ExRaw _ (by decide) rfl

/-- `!unsafe {a: 1, a: 2}`: a tagged mapping with a duplicate key (PyYAML would hand the loader both items) -/
def c19ExDupRaw : Raw :=
  .map .plain { safe := some false } [(.str "a", .scalar .none {} (.lit (.int 1))), (.str "a", .scalar .none {} (.lit (.int 2)))]

/- the hypothesis is needed for tagged mappings (the model keeps both items), not for untagged ones
   (`constructTDMap` stores through `aset`) -/
example : KI.rawKeyed c19ExDupRaw = false ∧
    (match construct {} c19ExDupRaw with | .ok n => WellKeyed n | .error _ => true) = false := by decide
example : (match construct {} (.map .none {} [(.str "a", .scalar .none {} (.lit (.int 1))),
      (.str "a", .scalar .none {} (.lit (.int 2)))]) with | .ok n => WellKeyed n | .error _ => false) = true := by decide

/-! ### merging preserves it -/

/- `on_merge` (`mergeF`, every dispatch: scalars, mappings, lists and their subclasses, function nodes,
   streams) maps well-keyed trees to well-keyed trees at every depth: `set_child` on a list replaces an
   element or appends at `len`; `remove_child` on a list renumbers (`listDelAt`); the pruning pre-filter
   (`filter_nodes`) removes through `remove_child`; a promotion (`_maybe_promote`) re-fills the promoted
   node through ITS mutators (a list moved under a function node becomes `{0: …, 1: …}`; mapping content
   moved into a list subclass is outside the model: `.unsupported`). -/
theorem C19_merge_wellKeyed (fuel : Nat) (a b r : Node) (same : Bool)
    (ha : WellKeyed a = true) (hb : WellKeyed b = true)
    (h : mergeF fuel a b = .ok (r, same)) : WellKeyed r = true :=
  mergeF_wellKeyed fuel a b r same ha hb h

theorem C19_merge_root_wellKeyed (a b m : Node) (ha : WellKeyed a = true) (hb : WellKeyed b = true)
    (h : merge a b = .ok m) : WellKeyed m = true :=
  merge_wellKeyed a b m ha hb h

/-- `l: [1, 2, 3]` ← `l: {0: !del ~}`-like deletion of the first element through a deleting scalar:
    the remaining elements are renumbered -/
def c19ExListA : Node :=
  .comp {} .dict [(.str "l", .comp {} .list [(.int 0, .leaf {} (.scalar (.int 1))),
    (.int 1, .leaf {} (.scalar (.int 2))), (.int 2, .leaf {} (.scalar (.int 3)))])]
def c19ExListB : Node :=
  .comp {} .dict [(.str "l", .comp {} .dict [(.int 0, .leaf { del := some true } (.scalar .null))])]

example : WellKeyed c19ExListA = true ∧ WellKeyed c19ExListB = true := by decide
example : merge c19ExListA c19ExListB = .ok
    (.comp {} .dict [(.str "l", .comp {} .list [(.int 0, .leaf { iDel := some true } (.scalar (.int 2))),
      (.int 1, .leaf { iDel := some true } (.scalar (.int 3)))])]) := rfl
example : ∃ m, merge c19ExListA c19ExListB = .ok m ∧ WellKeyed m = true :=
  ⟨_, rfl, C19_merge_root_wellKeyed c19ExListA c19ExListB _ (by decide) (by decide) rfl⟩
/- the promoted function node of `c19ExPromoted` holds the list element under the key `0` -/
example : WellKeyed c19ExPromoted = true := by decide

/- hence a deep copy / pickle round trip of a merged tree is the merged tree whenever the inputs were
   consistent and well-keyed — no hypothesis on the result -/
theorem C19_merged_copy_identity_unconditional (a b m : Node)
    (ha : FlagsConsistent a = true) (hb : FlagsConsistent b = true)
    (hwa : WellKeyed a = true) (hwb : WellKeyed b = true) (h : merge a b = .ok m) :
    reconstructCopy (reduceNode m) = m ∧ reconstructPickle (reduceNode m) = m :=
  C19_merged_copy_identity a b m ha hb h (merge_wellKeyed a b m hwa hwb h)

example : ∃ a b, construct {} c19ExOlder = .ok a ∧ construct {} c19ExNewer = .ok b ∧
    FlagsConsistent a = true ∧ FlagsConsistent b = true ∧ WellKeyed a = true ∧ WellKeyed b = true ∧
    merge a b = .ok c19ExMerged :=
  ⟨_, _, rfl, rfl, by decide, by decide, by decide, by decide, rfl⟩

/-! ### … and so does the whole of `Builder.flatten` -/

/- `Builder.flatten` — the pre-merge pass (`!prev` detaches a node: `remove_child`; `!clear` empties
   one; `!append` / `!extend` extend a list at `len, len+1, …` or become plain lists numbered from 0;
   nested streams; replaced children are re-set under their own names) and the fold of merges — maps
   well-keyed stages to a well-keyed tree. -/
theorem C19_flatten_wellKeyed (stages : List Node) (r : Node)
    (hs : ∀ s, s ∈ stages → WellKeyed s = true) (h : flatten stages = .ok r) : WellKeyed r = true :=
  flatten_wellKeyed stages r hs h

example : WellKeyed c19ExBuilt = true := C19_flatten_wellKeyed c19ExStages _ (by decide) rfl

/- "a deep copy or pickle round-trip of any node tree is … equal …": for EVERY tree a Builder produces
   from parsed documents without duplicate sibling keys — the stages come from the loader, the result
   from `flatten` — the tree is consistent and well-keyed, and copy and pickle are the identity.
   (`C19_built_copy_identity` with its hypothesis `WellKeyed r` discharged.) -/
theorem C19_built_copy_identity_unconditional (stages : List Node) (r : Node)
    (hs : ∀ s, s ∈ stages → ∃ env raw, KI.rawKeyed raw = true ∧ construct env raw = .ok s)
    (h : flatten stages = .ok r) :
    FlagsConsistent r = true ∧ WellKeyed r = true ∧
      reconstructCopy (reduceNode r) = r ∧ reconstructPickle (reduceNode r) = r :=
  have hw : WellKeyed r = true := built_wellKeyed hs h
  have hb := C19_built_copy_identity stages r
    (fun s hm => by obtain ⟨env, raw, _, e⟩ := hs s hm; exact ⟨env, raw, e⟩) h hw
  ⟨hb.1, hw, hb.2.1, hb.2.2⟩

example : (∀ s, s ∈ c19ExStages → ∃ env raw, KI.rawKeyed raw = true ∧ construct env raw = .ok s) ∧
    flatten c19ExStages = .ok c19ExBuilt := by
  refine ⟨fun s hm => ?_, rfl⟩
  rcases List.mem_cons.1 hm with e | hm
  · exact ⟨{}, c19ExDoc1, by decide, e ▸ rfl⟩
  · rcases List.mem_cons.1 hm with e | hm
    · exact ⟨{}, c19ExDoc2, by decide, e ▸ rfl⟩
    · cases hm

/-! ### scope: the one merge the model does not follow -/

/-- `a: !force {x: 1}` and `a: !path:cwd [p, q]` -/
def c19ExOutDoc1 : Raw :=
  .map .none {} [(.str "a", .map .plain { prio := some 1 } [(.str "x", .scalar .none {} (.lit (.int 1)))])]
def c19ExOutDoc2 : Raw :=
  .map .none {} [(.str "a", .seq (.path "cwd") {} [.scalar .none {} (.lit (.str "p")), .scalar .none {} (.lit (.str "q"))])]

/- `_maybe_promote` moving MAPPING content into a LIST subclass (`!path`; `!append` / `!extend` never reach
   a merge) is outside the model (`maybePromote` answers `.unsupported`, never a tree), so the theorems
   above say nothing about it.  On the implementation this merge succeeds and yields a `PathNode` whose
   `_children` has the keys `['x', 0, 1]` — a list-family node with a string key, i.e. NOT well-keyed
   (replayed on /repo: `Builder().add_source("a: !force {x: 1}"); add_source("a: !path:cwd [p, q]"); build()`). -/
example : KI.rawKeyed c19ExOutDoc1 = true ∧ KI.rawKeyed c19ExOutDoc2 = true := by decide
example : (match construct {} c19ExOutDoc1, construct {} c19ExOutDoc2 with
    | .ok a, .ok b => (match flatten [a, b] with | .error .unsupported => true | _ => false)
    | _, _ => false) = true := by decide +kernel

end AY
