/-
  AY.Props.C18 — dump then parse gives a tree that merges and evaluates the same.

  Property text: "Writing any parsed document with the library's dump and parsing the text back
  yields a document that is interchangeable with the original: substituted at any position of a
  merge sequence it produces the same merged config, it evaluates to the same value, and it carries
  the same user metadata. Dumping the re-parsed document produces the same text again."

  Model: AY.Model.Dump (`represent` = `_node_representer` with the `dumper.metadata` stack, the
  elision of redundant flags, node-kind tags) composed with AY.Model.Construct (`construct` = the
  loader). The model starts and ends at the representation tree (`Raw`); YAML text emission and
  scanning is PyYAML and is exercised by harness/props/c18.py.

  This file: the EXACT round trips (the re-parsed tree is the original tree, every raw and effective
  attribute of every node):
    * C18_roundtrip_partial / C18_dump_fixpoint_partial — every TAG-FREE document (mappings, lists,
      scalars of every type, null; any nesting, repeated keys, any source flags);
    * the node kinds whose dump was repaired (D17c, D17h, D17j, D17d, D17i): C18_clear_roundtrip,
      C18_fstr_roundtrip, C18_safe_tag_roundtrip, C18_path_noref_reparse (+ C18_path_source_carried),
      C18_kind_with_metadata_roundtrip (`!append`, `!import`, `!fstr` below a `!force` ancestor);
    * the witnesses of the former findings D17a, D17g now round-trip: C18_explicit_default_delete_kept,
      C18_default_under_parent_kept.
  AY/Props/C18_Effective.lean: the round trip for EVERY document over the merge-control vocabulary, up
  to explicit flags that repeat what the node gets anyway.
  PARTIAL with respect to the property text: see the end of AY/Props/C18_Effective.lean.
  Only property theorems live here; lemmas are in AY.Lemmas.C18Lemmas.
-/
import AY.Lemmas.C18Lemmas
import AY.Model.Build
namespace AY

/-! ### Concrete documents used by the examples -/

/-- `{a: {x: 1, y: [true, ~, "s", 1.5]}, 3: [], b: }` (tag-free) -/
def c18ExPlain : Raw :=
  .map .none {} [
    (.str "a", .map .none {} [(.str "x", .scalar .none {} (.lit (.int 1))),
      (.str "y", .seq .none {} [.scalar .none {} (.lit (.bool true)), .scalar .none {} (.lit .null),
        .scalar .none {} (.lit (.str "s")), .scalar .none {} (.lit (.float "1.5"))])]),
    (.int 3, .seq .none {} []),
    (.str "b", .scalar .none {} .empty)]

/-- `a: !del []` -/
def c18ExDel : Raw := .map .none {} [(.str "a", .seq .plain { del := some true } [])]
/-- `a: [1]` -/
def c18ExBase : Raw := .map .none {} [(.str "a", .seq .none {} [.scalar .none {} (.lit (.int 1))])]
/-- `x: !del {a: !merge {p: 1}}` -/
def c18ExUnder : Raw :=
  .map .none {} [(.str "x", .map .plain { del := some true } [
    (.str "a", .map .plain { del := some false } [(.str "p", .scalar .none {} (.lit (.int 1)))])])]

def okOr (x : Except Err Node) : Node :=
  match x with
  | .ok n => n
  | .error _ => .leaf {} .required

/-- parse, dump, parse again -/
def reparsed (r : Raw) : Node := okOr (construct {} (represent (okOr (construct {} r))))

/-! ### the tag-free vocabulary: dump ∘ parse is the identity -/

/- "Writing any parsed document with the library's dump and parsing the text back yields a document
   that is interchangeable with the original" — for every tag-free document the re-parsed tree IS the
   original tree (equal as a value, all raw and effective attributes of all nodes), hence it merges,
   evaluates and carries metadata identically wherever it is substituted. -/
theorem C18_roundtrip_partial (env : Env) (r : Raw) (n : Node) (hu : Untagged r = true)
    (h : construct env r = .ok n) : construct env (represent n) = .ok n :=
  (td_rt env none r n hu h).1 {}

example : Untagged c18ExPlain = true := by decide
example : construct {} (represent (okOr (construct {} c18ExPlain))) = .ok (okOr (construct {} c18ExPlain)) :=
  C18_roundtrip_partial {} c18ExPlain _ (by decide) rfl

/- "Dumping the re-parsed document produces the same text again." -/
theorem C18_dump_fixpoint_partial (env : Env) (r : Raw) (n : Node) (hu : Untagged r = true)
    (h : construct env r = .ok n) :
    ∀ n', construct env (represent n) = .ok n' → represent n' = represent n := by
  intro n' h'
  rw [C18_roundtrip_partial env r n hu h] at h'
  cases h'
  rfl

example : represent (reparsed c18ExPlain) = represent (okOr (construct {} c18ExPlain)) :=
  C18_dump_fixpoint_partial {} c18ExPlain _ (by decide) rfl _ rfl

/-! ### node kinds whose dump was repaired: exact round trips -/

/- D17c (repaired). `!clear` with any keywords that the dumper keeps at the top of a document (none
   repeats a default: `noDefaultKw`; `safe` is always kept) is dumped as `!clear[:metadata]` with
   exactly these keywords, so parsing the dump rebuilds the same node: kind, explicit priority /
   delete / allow_new / safe, user metadata, source-level flag and file are all equal. -/
theorem C18_clear_roundtrip (env : Env) (kw : CtorKw) (n : Node) (hk : noDefaultKw kw = true)
    (h : construct env (.scalar .clear kw .empty) = .ok n) :
    represent n = .scalar .clear kw .empty ∧ construct env (represent n) = .ok n := by
  have hn : n = .leaf (mkFlags env kw) .clear := by
    simp only [construct, constructTD, wrapScalar, adoptBy] at h; cases h; rfl
  have hr : represent n = .scalar .clear kw .empty := by
    subst hn
    simp only [represent, representWith, representLeaf, nodeInfo_leaf_top env kw _ hk]
  exact ⟨hr, by rw [hr]; exact h⟩

example : noDefaultKw { prio := some 1, safe := some true, md := [("m", .int 1)] } = true := by decide
example : represent (okOr (construct {} (.scalar .clear { prio := some 1, md := [("m", .int 1)] } .empty))) =
    .scalar .clear { prio := some 1, md := [("m", .int 1)] } .empty :=
  (C18_clear_roundtrip {} _ _ (by decide) rfl).1

/- D17h (repaired). An f-string node is dumped with its own tag `!fstr` (with its keywords: `!fstr:<hex>`
   has a constructor since the repair of D17i) and parsed back as the same node. -/
theorem C18_fstr_roundtrip (env : Env) (kw : CtorKw) (c : String) (n : Node) (hk : noDefaultKw kw = true)
    (h : construct env (.scalar .fstr kw (.text c)) = .ok n) :
    represent n = .scalar .fstr kw (.text c) ∧ construct env (represent n) = .ok n := by
  have hn : n = .leaf (mkFlags env kw) (.fstr c) := by
    simp only [construct, constructTD, wrapScalar, adoptBy] at h; cases h; rfl
  have hr : represent n = .scalar .fstr kw (.text c) := by
    subst hn
    simp only [represent, representWith, representLeaf, nodeInfo_leaf_top env kw _ hk]
  exact ⟨hr, by rw [hr]; exact h⟩

example : represent (okOr (construct {} (.scalar .fstr {} (.text "f'{b}'")))) = .scalar .fstr {} (.text "f'{b}'") :=
  (C18_fstr_roundtrip {} {} _ _ (by decide) rfl).1

/- D17j / D17f (repaired). An explicit `safe` on a scalar — True or False, whatever flag the source was
   loaded with — is written (as `!safe` / `!unsafe`) and read back as the same keyword: same node. -/
theorem C18_safe_tag_roundtrip (env : Env) (b : Bool) (v : Scalar) (n : Node) (hv : v ≠ .null)
    (h : construct env (.scalar .plain { safe := some b } (.lit v)) = .ok n) :
    represent n = .scalar .plain { safe := some b } (.lit v) ∧ construct env (represent n) = .ok n := by
  have hk : noDefaultKw { safe := some b } = true := by simp [noDefaultKw]
  have hn : n = .leaf (mkFlags env { safe := some b }) (.scalar v) := by
    cases v <;> first
      | exact absurd rfl hv
      | (simp only [construct, constructTD, wrapScalar, adoptBy, RVal.toScalar] at h; cases h; rfl)
  have hr : represent n = .scalar .plain { safe := some b } (.lit v) := by
    subst hn
    cases v <;> first
      | exact absurd rfl hv
      | simp [represent, representWith, representLeaf, nodeInfo_leaf_top env _ _ hk, plainTag, CtorKw.isEmpty,
          CtorKw.flagCount]
  exact ⟨hr, by rw [hr]; exact h⟩

example : represent (okOr (construct { dSafe := false } (.scalar .plain { safe := some true } (.lit (.int 5))))) =
    .scalar .plain { safe := some true } (.lit (.int 5)) :=
  (C18_safe_tag_roundtrip { dSafe := false } true _ _ (by decide) rfl).1
example : represent (okOr (construct { dSafe := false } (.scalar .plain { safe := some false } (.lit (.int 5))))) =
    .scalar .plain { safe := some false } (.lit (.int 5)) :=
  (C18_safe_tag_roundtrip { dSafe := false } false _ _ (by decide) rfl).1

/- D17d (repaired). A `!path` without reference point is written as the mapping
   `{values, ref_point: '', source_file}`; the `!path` constructor takes it as keyword arguments,
   i.e. the re-parse sees the short `!path` over the dumped components. Metadata on such a node
   (only reachable by inheritance, e.g. a priority from a `!force` ancestor: the tag becomes
   `!path:<hex>`) is dropped by the constructor and re-inherited from the ancestor. -/
theorem C18_path_noref_reparse (kw : CtorKw) (items : List Raw) :
    representComp (.path "") kw items [] = .seq (.path "") {} items := by
  simp [representComp]

/-- `a: !path [x, y]` -/
def c18ExPath : Raw :=
  .map .none {} [(.str "a", .seq (.path "") {} [.scalar .none {} (.lit (.str "x")), .scalar .none {} (.lit (.str "y"))])]
/-- `!force {a: !path [x]}` -/
def c18ExPathForce : Raw :=
  .map .plain { prio := some 1 } [(.str "a", .seq (.path "") {} [.scalar .none {} (.lit (.str "x"))])]

-- the whole documents round-trip exactly (every attribute of every node), also below `!force`
example : construct {} (represent (okOr (construct {} c18ExPath))) = construct {} c18ExPath := rfl
example : construct { src := some "/cfg/m.yaml" } (represent (okOr (construct { src := some "/cfg/m.yaml" } c18ExPath)))
    = construct { src := some "/cfg/m.yaml" } c18ExPath := rfl
example : construct {} (represent (okOr (construct {} c18ExPathForce))) = construct {} c18ExPathForce := rfl
example : represent (okOr (construct {} c18ExPath)) = c18ExPath := rfl

/- The dumped mapping of every `!path` node carries the file the node was written in; parsed from
   another file (`env`) the node keeps the original one (the file-relative reference points `file`,
   `parent(n)` keep denoting the same location). The `Raw` tree has no slot for this keyword, so the
   rule is stated on its own; the harness checks it on the implementation (`moved`). -/
theorem C18_path_source_carried (env : Env) (f : Flags) (s : String) (h : f.src = some s) :
    pathSourceOnReparse env f = some s := by
  simp [pathSourceOnReparse, h]

/-- `!force {a: !append [1], b: !import rec, c: !fstr "f'{x}'", d: !clear, e: !xref p}` -/
def c18ExKinds : Raw :=
  .map .plain { prio := some 1 } [
    (.str "a", .seq .append {} [.scalar .none {} (.lit (.int 1))]),
    (.str "b", .scalar .imp {} (.text "rec")),
    (.str "c", .scalar .fstr {} (.text "f'{x}'")),
    (.str "d", .scalar .clear {} .empty),
    (.str "e", .scalar .xref {} (.text "p"))]

/- D17i (repaired). Node kinds that had no `:metadata` tag form (`!append`, `!import`, `!fstr`, …) now
   round-trip also when they carry metadata, e.g. the priority inherited from a `!force` ancestor:
   the whole document re-parses to the same tree, and the second dump equals the first. -/
theorem C18_kind_with_metadata_roundtrip :
    construct {} (represent (okOr (construct {} c18ExKinds))) = construct {} c18ExKinds ∧
    represent (reparsed c18ExKinds) = represent (okOr (construct {} c18ExKinds)) :=
  ⟨rfl, rfl⟩

example : (getNode (okOr (construct {} c18ExKinds)) [.str "a"]).map (fun n => n.flags.prio) = some (some 1) := by decide

/-! ### the witnesses of the former findings D17a and D17g round-trip -/

/- D17a (repaired). An explicit `!del` is always written: `a: !del []` keeps its explicit delete, and the
   remove-this-key idiom survives the round trip (merged onto `a: [1]` both remove the key). -/
theorem C18_explicit_default_delete_kept :
    construct {} (represent (okOr (construct {} c18ExDel))) = construct {} c18ExDel ∧
    (flatten [okOr (construct {} c18ExBase), reparsed c18ExDel]).toOption.map
        (fun m => hasChild (.str "a") m.children) = some false := by
  refine ⟨rfl, by decide⟩

/- D17g (repaired). A flag equal to the type default is written when the enclosing node states the
   opposite: `x: !del {a: !merge {p: 1}}` re-parses to the same tree (`a` still merges). -/
theorem C18_default_under_parent_kept :
    construct {} (represent (okOr (construct {} c18ExUnder))) = construct {} c18ExUnder ∧
    (getNode (reparsed c18ExUnder) [.str "x", .str "a"]).map eDel = some false := by
  refine ⟨rfl, by decide⟩

end AY
